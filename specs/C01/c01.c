/* C01 harnesses: the owner's pop from its task pool (with isolation skipping) and the proxy's two-sided claim; sliced from src/tbb */
#include "verif.h"
typedef size_t isolation_type; typedef unsigned short slot_id;
#define no_isolation ((isolation_type)0)
#ifdef POOL
#ifndef MAXN
#define MAXN 5
#endif
typedef struct task { isolation_type isolation; bool is_proxy; slot_id slot; } task;
typedef struct execution_data_ext { slot_id affinity_slot; } execution_data_ext;
struct aslot { size_t head, tail; task **task_pool_ptr; bool published, locked; };
#define ATOMIC_LOAD(x) (x)
#define ATOMIC_STORE(x, v) ((x) = (v))
#define ATOMIC_PREDEC(x) (--(x))
static void slot_acquire_task_pool(struct aslot *s) { s->locked = true; }
static void slot_release_task_pool(struct aslot *s) { s->locked = false; }
static void slot_leave_task_pool(struct aslot *s) { s->published = false; s->locked = false; }
static void slot_publish_task_pool(struct aslot *s) { s->published = true; }
static bool slot_is_task_pool_published(struct aslot *s) { return s->published; }
static bool slot_is_quiescent_local_task_pool_reset(struct aslot *s) { return s->head == 0 && s->tail == 0; }
static void STUB_advertise_new_work(void) {}
bool g_proxy_has_task; int g_proxy_deleted; static task g_inner;
static task *STUB_proxy_extract_task_pool(task *tp) { return g_proxy_has_task ? &g_inner : NULL; }
static void STUB_delete_proxy(task *tp) { g_proxy_deleted++; }
#define LOOP_get_task_1
#include "get_task.inc"
static task T[MAXN]; static task *P[MAXN + 1];
size_t IN_head, IN_tail, IN_iso;
void h_impl(void) {
    struct aslot s; s.task_pool_ptr = P; size_t pos = nondet_size_t(); __CPROVER_assume(pos < MAXN);
    bool present = nondet_bool(); P[pos] = present ? &T[pos] : NULL; T[pos].isolation = nondet_size_t(); T[pos].is_proxy = nondet_bool(); T[pos].slot = nondet_ushort();
    isolation_type iso = IN_iso = nondet_size_t(); bool om0 = nondet_bool(), omitted = om0; execution_data_ext ed; ed.affinity_slot = 0; g_proxy_has_task = nondet_bool(); g_proxy_deleted = 0;
    task *r = slot_get_task_impl(&s, pos, &ed, &omitted, iso);
    bool mismatch = present && iso != no_isolation && T[pos].isolation != iso;
    OBLIGATION(!(r == &T[pos]) || !mismatch, "C01.iso: a task is handed to an isolated waiter only if its isolation tag equals the waiter's");
    OBLIGATION(omitted == (om0 || mismatch), "C01.iso: tasks_omitted is raised exactly when a task was skipped for isolation");
    OBLIGATION(!mismatch || (r == NULL && P[pos] == &T[pos]), "C01.iso: a skipped task stays in the pool untouched");
    OBLIGATION(!(present && !mismatch && !T[pos].is_proxy) || r == &T[pos], "C01.pool: an eligible ordinary task is returned");
    if (present && !mismatch && T[pos].is_proxy) {
        OBLIGATION(g_proxy_has_task ? (r == &g_inner && ed.affinity_slot == T[pos].slot && g_proxy_deleted == 0) : (r == NULL && g_proxy_deleted == 1), "C01.proxy: a proxy yields its task, or is freed exactly once when the mailbox side already took it");
        OBLIGATION(g_proxy_has_task || !omitted || P[pos] == NULL, "C01.proxy: an emptied proxy does not stay behind in a pool that keeps skipped tasks");
    }
    VACUITY_END();
}
void h_get_task(void) {
    struct aslot s; s.task_pool_ptr = P; s.published = true; s.locked = false;
    size_t H = IN_head = nondet_size_t(), Tn = IN_tail = nondet_size_t(); __CPROVER_assume(H < Tn && Tn <= MAXN);
    s.head = H; s.tail = Tn;
    task *orig[MAXN];
    for (size_t i = 0; i < MAXN; ++i) { T[i].isolation = nondet_size_t(); T[i].is_proxy = false; P[i] = (i >= H && i < Tn && nondet_bool()) ? &T[i] : NULL; orig[i] = P[i]; }
    isolation_type iso = IN_iso = nondet_size_t(); execution_data_ext ed; ed.affinity_slot = 0;
    task *r = slot_get_task(&s, &ed, iso);
#define ELIGIBLE(q) (orig[q] != NULL && (iso == no_isolation || T[q].isolation == iso))
    size_t p = MAXN;                                            /* the topmost eligible entry */
    for (size_t q = 0; q < MAXN; ++q) if (q >= H && q < Tn && ELIGIBLE(q)) p = q;
    OBLIGATION(r == (p < MAXN ? &T[p] : NULL), "C01.pool: the owner gets the topmost task it is allowed to run (LIFO, isolation respected), or nothing if there is none (bounded)");
    for (size_t q = 0; q < MAXN; ++q) if (q >= H && q < Tn && orig[q] != NULL) {
        bool still = q >= s.head && q < s.tail && P[q] == orig[q];
        if (q == p) OBLIGATION(!still, "C01.once: the task handed out is no longer in the pool - it cannot be dispatched a second time (bounded)");
        else OBLIGATION(still && s.published, "C01.once: every other task stays in the published pool, exactly where it was - nothing is lost (bounded)");
    }
    for (size_t q = 0; q < MAXN; ++q) if (q >= s.head && q < s.tail && P[q] != NULL) OBLIGATION(q >= H && q < Tn && P[q] == orig[q], "C01.once: the pool holds no task that was not there before (bounded)");
    OBLIGATION(!s.locked, "C01.pool: the pool lock is released");
    VACUITY_END();
}
#endif

#ifdef PROXY
typedef struct task { int d; } task;
#define pool_bit ((intptr_t)1)
#define mailbox_bit ((intptr_t)2)
#define location_mask (pool_bit | mailbox_bit)
struct proxy { intptr_t task_and_tag; };
static struct proxy PX; intptr_t g_task; intptr_t g_from; bool other_done, other_got, me_got;
#define PINV (PX.task_and_tag == (g_task | location_mask) || PX.task_and_tag == pool_bit || PX.task_and_tag == mailbox_bit)
/* the other location's extract_task: at most once, claims the task iff the proxy is still shared and leaves MY bit as the cleaner mark */
static void interfere(void) { if (!other_done && nondet_bool()) { other_done = true; if (PX.task_and_tag == (g_task | location_mask)) { PX.task_and_tag = g_from; other_got = true; } } }
#define ATOMIC_LOAD_AT(site, f) ({ interfere(); (f); })
#define ATOMIC_CAS_AT(site, f, e, d) ({ interfere(); intptr_t o_ = (f); bool r_ = (o_ == *(e)); if (r_) { (f) = (d); me_got = true; } else *(e) = o_; __CPROVER_assert(PINV, "guarantee: the proxy word keeps its shape at " #site); r_; })
#include "proxy.inc"
void h_extract(void) {
    g_task = nondet_intptr_t(); __CPROVER_assume((g_task & location_mask) == 0 && g_task != 0);
    g_from = nondet_bool() ? pool_bit : mailbox_bit; other_done = nondet_bool(); other_got = false; me_got = false;
    /* this location still references the proxy: the word is shared, or the other side already claimed it and left my bit */
    if (other_done && nondet_bool()) { PX.task_and_tag = g_from; other_got = true; } else PX.task_and_tag = g_task | location_mask;
    task *r = proxy_extract_task(&PX, g_from);
    interfere();
    OBLIGATION(r == (task *)g_task || r == NULL, "C01.proxy: the result is the proxied task or nothing");
    OBLIGATION((r != NULL) == me_got && !(me_got && other_got), "C01.proxy: of the two locations exactly one extracts the task (never both, never none once both have tried)");
    OBLIGATION(!(other_done && r == NULL) || other_got, "C01.proxy: if this side gets nothing the other side has the task");
    OBLIGATION(r != NULL ? PX.task_and_tag == (location_mask & ~g_from) : PX.task_and_tag == g_from, "C01.proxy: the loser is marked as the one who must free the proxy");
    VACUITY_END();
}
#endif

#ifdef PLOCK
/* The pool lock word arena_slot::task_pool: EmptyTaskPool | LockedTaskPool | the owner's task_pool_ptr.  Rely/guarantee over one word, any number of
   thieves and the owner (SC).  Ghost census: gH = number of holders, meH = this thread holds.  The owner's task_pool_ptr is owner-private: thieves see it
   only through the word; while a thief holds the lock the owner cannot change it (the owner changes it only under the lock or while unpublished). */
typedef struct task { int d; } task;
#define EmptyTaskPool ((task**)0)
#define LockedTaskPool ((task**)~(intptr_t)0)
struct aslot { task **task_pool; task **task_pool_ptr; size_t head, tail; };
static struct aslot S; unsigned long gH; bool meH, me_owner;
#define INV (gH <= 1 && ((S.task_pool == LockedTaskPool) == (gH == 1)) && gH >= (unsigned long)meH \
  && (S.task_pool == EmptyTaskPool || S.task_pool == LockedTaskPool || S.task_pool == S.task_pool_ptr) && S.task_pool_ptr != EmptyTaskPool && S.task_pool_ptr != LockedTaskPool)
static void interfere(void) {
    task **o = S.task_pool, **op = S.task_pool_ptr;
    S.task_pool = nondet_ptr(); gH = nondet_ulong(); if (!me_owner && !meH) S.task_pool_ptr = nondet_ptr();
    __CPROVER_assume(INV);
    if (me_owner) __CPROVER_assume((o == EmptyTaskPool) == (S.task_pool == EmptyTaskPool));   /* only the owner publishes and leaves */
}
/* guarantee of every step: INV again; a thread that is not the owner never changes whether the pool is published; nobody writes the word while another thread holds the lock */
#define RG_SITE(site, T, op) ({ interfere(); task **old_ = S.task_pool; unsigned long oH_ = gH; bool omeH_ = meH; T r_ = (op); GHOST_##site; \
   __CPROVER_assert(INV, "guarantee: lock-word invariant (at most one holder; Locked iff held; otherwise Empty or the owner's pool) re-established at " #site); \
   __CPROVER_assert(me_owner || (old_ == EmptyTaskPool) == (S.task_pool == EmptyTaskPool), "guarantee: a thief never publishes or unpublishes the pool, at " #site); \
   __CPROVER_assert(!(oH_ == 1 && !omeH_) || S.task_pool == old_, "guarantee: the word is not written while another thread holds the lock, at " #site); r_; })
#define ATOMIC_LOAD_AT(site, f) RG_SITE(site, task **, (f))
#define ATOMIC_CAS_AT(site, f, e, d) RG_SITE(site, bool, ((f) == *(e) ? ((f) = (d), true) : (*(e) = (f), false)))
#define ATOMIC_STORE_AT(site, f, v) RG_SITE(site, int, ((f) = (v), 0))
#define NOG ((void)0)
#define TAKE if (r_) { gH++; meH = true; }
#define DROP { gH--; meH = false; }
#define GHOST_acquire_task_pool_LOAD_1 NOG
#define GHOST_acquire_task_pool_LOAD_2 NOG
#define GHOST_acquire_task_pool_LOAD_3 NOG
#define GHOST_acquire_task_pool_CAS_1 TAKE
#define GHOST_release_task_pool_LOAD_1 NOG
#define GHOST_release_task_pool_LOAD_2 NOG
#define GHOST_release_task_pool_STORE_1 DROP
#define GHOST_lock_task_pool_LOAD_1 NOG
#define GHOST_lock_task_pool_LOAD_2 NOG
#define GHOST_lock_task_pool_CAS_1 TAKE
#define GHOST_unlock_task_pool_LOAD_1 NOG
#define GHOST_unlock_task_pool_STORE_1 DROP
#define GHOST_leave_task_pool_LOAD_1 NOG
#define GHOST_leave_task_pool_LOAD_2 NOG
#define GHOST_leave_task_pool_STORE_1 DROP
#define GHOST_publish_task_pool_LOAD_1 NOG
#define GHOST_publish_task_pool_STORE_1 NOG
#define LOOP_acquire_task_pool_1 __CPROVER_assigns(S.task_pool, S.task_pool_ptr, gH, meH, sync_prepare_done) __CPROVER_loop_invariant(INV && !meH && S.task_pool != EmptyTaskPool)
#define LOOP_lock_task_pool_1 __CPROVER_assigns(S.task_pool, S.task_pool_ptr, gH, meH, victim_task_pool) __CPROVER_loop_invariant(INV && !meH)
#include "locks.inc"
#define PRE(c) do { S.task_pool = nondet_ptr(); S.task_pool_ptr = nondet_ptr(); S.head = nondet_size_t(); S.tail = nondet_size_t(); gH = nondet_ulong(); meH = nondet_bool(); __CPROVER_assume(INV && (c)); } while (0)
void h_acquire(void) { me_owner = true; PRE(!meH); bool pub = S.task_pool != EmptyTaskPool; slot_acquire_task_pool(&S); interfere();
    OBLIGATION(pub ? (meH && gH == 1 && S.task_pool == LockedTaskPool) : (!meH && S.task_pool == EmptyTaskPool), "C01.lock: acquire_task_pool returns holding the lock exclusively, or with the pool unpublished (nothing to lock)"); VACUITY_END(); }
void h_release(void) { me_owner = true; PRE(S.task_pool == EmptyTaskPool ? !meH : meH); bool pub = S.task_pool != EmptyTaskPool; slot_release_task_pool(&S);
    OBLIGATION(!meH && (pub ? S.task_pool == S.task_pool_ptr : S.task_pool == EmptyTaskPool), "C01.lock: release_task_pool gives the lock back and republishes the owner's current pool pointer"); VACUITY_END(); }
void h_lock(void) { me_owner = false; PRE(!meH); task **r = slot_lock_task_pool(&S); task **at_return = S.task_pool_ptr; interfere();
    OBLIGATION(r == EmptyTaskPool ? !meH : (meH && gH == 1 && r != LockedTaskPool && r == at_return && S.task_pool_ptr == at_return && S.task_pool == LockedTaskPool),
               "C01.lock: lock_task_pool returns nullptr without the lock, or the victim's pool with the lock held exclusively; the pool pointer cannot change while it is held"); VACUITY_END(); }
void h_unlock(void) { me_owner = false; PRE(meH); task **p = S.task_pool_ptr; slot_unlock_task_pool(&S, p);
    OBLIGATION(!meH && gH == 0 && S.task_pool == p, "C01.lock: unlock_task_pool releases the lock and restores exactly the pool pointer it was given"); VACUITY_END(); }
void h_leave(void) { me_owner = true; PRE(meH && S.head == S.tail); slot_leave_task_pool(&S); interfere();
    OBLIGATION(!meH && gH == 0 && S.task_pool == EmptyTaskPool, "C01.lock: leave_task_pool drops the lock and leaves the pool unpublished - no thief can enter it"); VACUITY_END(); }
void h_publish(void) { me_owner = true; PRE(!meH && S.task_pool == EmptyTaskPool && S.head < S.tail); slot_publish_task_pool(&S);
    OBLIGATION(!meH && S.task_pool == S.task_pool_ptr, "C01.lock: publish_task_pool makes exactly the owner's pool visible, unlocked"); VACUITY_END(); }
#endif

#ifdef STEAL
/* arena_slot::steal_task, the thief's side, for pools of ANY size (loop contract).  The pool is represented by per-index arrays: entry i is a hole or THE i-th task
   (tasks in a pool are pairwise distinct - the representation makes that a fact instead of a quantified assumption); attributes are arbitrary per task.
   The owner is quiescent here (tail fixed); the owner/thief arbitration on head/tail is the subject of the jobs the.* */
typedef struct task task;
struct arena { bool my_mailbox_idle; };
struct aslot { size_t head, tail; bool published; int locked, lock_calls; };
#define NMAX ((size_t)1 << 12)
static size_t g_n; static bool *g_hole; static isolation_type *g_iso; static bool *g_proxy, *g_shared, *g_outbox_idle; static int g_adv;
static task *const POOL_TOKEN = (task *)(uintptr_t)8;
#define TASKPTR(i) ((task *)(((uintptr_t)(i) + 1) << 4))
#define TIDX(p) ((size_t)(((uintptr_t)(p)) >> 4) - 1)
#define TASK_ISOLATION(p) (g_iso[TIDX(p)])
#define TASK_IS_PROXY(p) (g_proxy[TIDX(p)])
static task *pool_rd(task **vp, size_t i) { __CPROVER_assert(vp == (task **)POOL_TOKEN, "C01.steal: the pool read is the one that was locked"); __CPROVER_assert(i < g_n, "C01.steal: pool index inside the pool"); return g_hole[i] ? NULL : TASKPTR(i); }
static void pool_wr(task **vp, size_t i, task *v) { __CPROVER_assert(vp == (task **)POOL_TOKEN && i < g_n, "C01.steal: pool write inside the locked pool"); __CPROVER_assert(v == NULL, "C01.steal: a thief only ever writes holes into the victim's pool"); g_hole[i] = true; }
#define POOL_RD(vp, i) pool_rd((vp), (i))
#define POOL_WR(vp, i, v) pool_wr((vp), (i), (v))
#define ATOMIC_LOAD_AT(site, x) (x)
#define ATOMIC_STORE_AT(site, x, v) ((x) = (v))
#define ATOMIC_PREINC_AT(site, x) (++(x))
static task **slot_lock_task_pool(struct aslot *s) { if (!s->published) return NULL; s->locked++; s->lock_calls++; return (task **)POOL_TOKEN; }
static void slot_unlock_task_pool(struct aslot *s, task **p) { __CPROVER_assert(p == (task **)POOL_TOKEN, "C01.steal: unlock restores the pointer lock returned"); s->locked--; }
static bool STUB_proxy_is_shared(task *tp) { return g_shared[TIDX(tp)]; }
static bool STUB_outbox_recipient_is_idle(task *tp) { return g_outbox_idle[TIDX(tp)]; }
static bool STUB_my_mailbox_is_idle(struct arena *a, size_t idx) { return a->my_mailbox_idle; }
static void STUB_advertise_new_work(void) { g_adv++; }
size_t g_k, g_Hin, g_T; isolation_type g_isoarg; bool g_mbidle;
#define ELIG(i) (!g_hole[i] && (g_isoarg == no_isolation || g_isoarg == g_iso[i]) && (!g_proxy[i] || !g_shared[i] || !g_outbox_idle[i] || g_mbidle))
/* at the loop head: head mirrors H; everything in [Hin,H) was looked at and is a hole or not eligible; [Hin,H0) are holes only; H0 trails H exactly when something was skipped */
#define LOOP_steal_1 __CPROVER_assigns(H, H0, result, tasks_omitted, self->head) \
  __CPROVER_loop_invariant(self->head == H && g_Hin <= H0 && H0 <= H && H <= g_T && self->tail == g_T && result == NULL && (tasks_omitted ? (H0 < H && !g_hole[H0]) : H0 == H) \
     && (!(g_Hin <= g_k && g_k < H) || !ELIG(g_k)) && (!(g_Hin <= g_k && g_k < H0) || g_hole[g_k])) \
  __CPROVER_decreases(g_T - H)
#include "steal.inc"
size_t IN_head, IN_tail, IN_iso, IN_k;
void h_steal(void) {
    g_n = nondet_size_t(); __CPROVER_assume(g_n >= 1 && g_n <= NMAX);
    g_hole = malloc(g_n * sizeof(bool)); g_iso = malloc(g_n * sizeof(isolation_type)); g_proxy = malloc(g_n * sizeof(bool)); g_shared = malloc(g_n * sizeof(bool)); g_outbox_idle = malloc(g_n * sizeof(bool));
    __CPROVER_assume(g_hole && g_iso && g_proxy && g_shared && g_outbox_idle);
    struct aslot s; struct arena a; s.published = nondet_bool(); s.locked = 0; s.lock_calls = 0; g_adv = 0;
    g_Hin = IN_head = s.head = nondet_size_t(); g_T = IN_tail = s.tail = nondet_size_t(); __CPROVER_assume(g_Hin <= g_T && g_T <= g_n);
    g_isoarg = IN_iso = nondet_size_t(); g_mbidle = a.my_mailbox_idle = nondet_bool(); g_k = IN_k = nondet_size_t(); __CPROVER_assume(g_k < g_n);
    bool hole0 = g_hole[g_k], elig0 = ELIG(g_k);
    task *r = slot_steal_task(&s, &a, g_isoarg, nondet_size_t());
    OBLIGATION(s.locked == 0 && s.lock_calls == (s.published ? 1 : 0), "C01.steal: the victim's pool is locked exactly once and unlocked again on every path");
    OBLIGATION(s.tail == g_T, "C01.steal: a thief never moves the tail");
    OBLIGATION(s.published || (r == NULL && s.head == g_Hin), "C01.steal: nothing is taken from an unpublished pool");
    if (r != NULL) {
        size_t q = TIDX(r);
        OBLIGATION(q >= g_Hin && q < g_T && r == TASKPTR(q), "C01.steal: the stolen task is one that was in the victim's pool, inside [head, tail)");
        if (q == g_k) {
            OBLIGATION(!hole0 && elig0, "C01.steal: the stolen task is eligible for this thief: its isolation tag matches (or the thief is not isolated), and a proxy is taken only when its recipient is unlikely to grab it");
            OBLIGATION(!(s.head <= q && q < s.tail && !g_hole[q]), "C01.once: the stolen task is no longer in the pool - neither the owner nor another thief can take it again");
        }
    }
    if (g_k >= g_Hin && g_k < g_T && !hole0 && !(r != NULL && TIDX(r) == g_k))
        OBLIGATION(s.head <= g_k && g_k < s.tail && !g_hole[g_k], "C01.once: every task the thief did not take is still in the published pool, where it was - nothing is lost");
    if (!(r != NULL && TIDX(r) == g_k)) OBLIGATION(g_hole[g_k] == hole0, "C01.steal: no other pool entry is touched");
    OBLIGATION(s.head >= g_Hin && s.head <= g_T, "C01.steal: head stays within [old head, tail]");
    VACUITY_END();
}
#endif

#ifdef GTLC
/* arena_slot::get_task + get_task_impl + reset_task_pool_and_leave: the owner's pop with isolation skipping, for pools of ANY size (loop contract).
   Same pool representation as for steal_task; thieves only try and back off (head fixed up to a transient +1) - the arbitration with a thief is the subject of the jobs the.* */
typedef struct task task;
typedef struct execution_data_ext { slot_id affinity_slot; } execution_data_ext;
struct aslot { size_t head, tail; task **task_pool_ptr; bool published, locked; };
#define NMAX ((size_t)1 << 12)
static size_t g_n; static bool *g_hole; static isolation_type *g_iso; static bool *g_proxy, *g_has_task; static bool g_adv, g_del_k; size_t g_k;
static task *const POOL_TOKEN = (task *)(uintptr_t)8;
#define TASKPTR(i) ((task *)(((uintptr_t)(i) + 1) << 4))
#define INNER(i) ((task *)((((uintptr_t)(i) + 1) << 4) | 4))      /* the task a proxy stands for */
#define TIDX(p) ((size_t)(((uintptr_t)(p)) >> 4) - 1)
#define TASK_ISOLATION(p) (g_iso[TIDX(p)])
#define TASK_IS_PROXY(p) (g_proxy[TIDX(p)])
#define TASK_SLOT(p) ((slot_id)TIDX(p))
static task *pool_rd(task **vp, size_t i) { __CPROVER_assert(vp == (task **)POOL_TOKEN, "C01.pool: the owner reads its own pool"); __CPROVER_assert(i < g_n, "C01.pool: pool index inside the pool"); return g_hole[i] ? NULL : TASKPTR(i); }
static void pool_wr(task **vp, size_t i, task *v) { __CPROVER_assert(vp == (task **)POOL_TOKEN && i < g_n, "C01.pool: pool write inside the pool"); __CPROVER_assert(v == NULL, "C01.pool: popping only ever writes holes"); g_hole[i] = true; }
#define POOL_RD(vp, i) pool_rd((vp), (i))
#define POOL_WR(vp, i, v) pool_wr((vp), (i), (v))
/* a thief that is about to back off shows as a transient head+1 to an owner that does not hold the lock (the permanent effects of thieves are the subject of the.*) */
static size_t load_(struct aslot *s, size_t *p) { return *p + ((p == &s->head && s->published && !s->locked && nondet_bool()) ? 1 : 0); }
#define ATOMIC_LOAD(x) load_(self, &(x))
#define ATOMIC_STORE(x, v) ((x) = (v))
#define ATOMIC_PREDEC(x) (--(x))
static void slot_acquire_task_pool(struct aslot *s) { __CPROVER_assert(!s->locked, "C01.pool: the owner does not lock twice"); if (s->published) s->locked = true; }
static void slot_release_task_pool(struct aslot *s) { s->locked = false; }
static void slot_leave_task_pool(struct aslot *s) { __CPROVER_assert(s->locked && s->head == s->tail, "C01.pool: the pool is left only locked and empty"); s->published = false; s->locked = false; }
static void slot_publish_task_pool(struct aslot *s) { __CPROVER_assert(!s->published && s->head < s->tail, "C01.pool: publish only an unpublished, non-empty pool"); s->published = true; }
static bool slot_is_task_pool_published(struct aslot *s) { return s->published; }
static bool slot_is_quiescent_local_task_pool_reset(struct aslot *s) { return s->head == 0 && s->tail == 0; }
static void STUB_advertise_new_work(void) { g_adv = true; }
static task *STUB_proxy_extract_task_pool(task *tp) { size_t i = TIDX(tp); if (g_has_task[i]) { g_has_task[i] = false; return INNER(i); } return NULL; }
static void STUB_delete_proxy(task *tp) { if (TIDX(tp) == g_k) { __CPROVER_assert(!g_del_k, "C01.proxy: a proxy is freed at most once"); g_del_k = true; } }
size_t g_Hin, g_Tin; isolation_type g_isoarg; bool g_hole0k, g_has0k;
#define MISMATCH(i) (g_isoarg != no_isolation && g_isoarg != g_iso[i])
/* loop head: tail mirrors T; nothing was returned yet; every position in [T, Tin) was examined and gave nothing: a hole, a task of another isolation level (still there), or a proxy that
   turned out empty (freed; removed when skipped tasks stay above it).  T0 trails: [T0, Tin) holds no live task; T0 > T exactly when a task was skipped, and that task sits at T0-1. */
#define LOOP_get_task_1 __CPROVER_assigns(T, T0, H0, result, task_pool_empty, tasks_omitted, self->head, self->tail, self->locked, self->published, g_del_k, g_adv, ed->affinity_slot, __CPROVER_object_whole(g_hole), __CPROVER_object_whole(g_has_task)) \
  __CPROVER_loop_invariant(self->tail == T && self->head == g_Hin && self->published && !self->locked && result == NULL && !task_pool_empty && g_Hin <= T && T <= T0 && T0 <= g_Tin \
     && (tasks_omitted ? (T < T0 && !g_hole[T0 - 1] && MISMATCH(T0 - 1)) : T0 == T) \
     && ((g_k < T || g_k >= g_Tin || g_hole0k) ? (g_hole[g_k] == g_hole0k && g_has_task[g_k] == g_has0k && !g_del_k) : 1) \
     && (g_k >= T && g_k < g_Tin && !g_hole0k ? ((MISMATCH(g_k) && !g_hole[g_k] && g_k < T0 && !g_del_k) || (!MISMATCH(g_k) && g_proxy[g_k] && !g_has0k && g_del_k && (g_hole[g_k] || g_k >= T0))) : 1) \
     && (g_del_k ? !g_has0k : 1)) \
  __CPROVER_decreases(T)
#include "get_task_lc.inc"
size_t IN_head, IN_tail, IN_iso, IN_k;
void h_get_task_lc(void) {
    g_n = nondet_size_t(); __CPROVER_assume(g_n >= 1 && g_n <= NMAX);
    g_hole = malloc(g_n * sizeof(bool)); g_iso = malloc(g_n * sizeof(isolation_type)); g_proxy = malloc(g_n * sizeof(bool)); g_has_task = malloc(g_n * sizeof(bool));
    __CPROVER_assume(g_hole && g_iso && g_proxy && g_has_task);
    struct aslot s; s.task_pool_ptr = (task **)POOL_TOKEN; s.published = true; s.locked = false; g_adv = false; g_del_k = false; execution_data_ext ed; ed.affinity_slot = 0;
    g_Hin = IN_head = s.head = nondet_size_t(); g_Tin = IN_tail = s.tail = nondet_size_t(); __CPROVER_assume(g_Hin <= g_Tin && g_Tin <= g_n);
    g_isoarg = IN_iso = nondet_size_t(); g_k = IN_k = nondet_size_t(); __CPROVER_assume(g_k < g_n);
    g_hole0k = g_hole[g_k]; g_has0k = g_has_task[g_k]; bool proxy_k = g_proxy[g_k], mismatch_k = MISMATCH(g_k);
    task *r = slot_get_task(&s, &ed, g_isoarg);
    OBLIGATION(!s.locked, "C01.pool: the pool lock is released on every path");
    bool in_k = g_k >= g_Hin && g_k < g_Tin && !g_hole0k;
    bool avail_k = s.published && s.head <= g_k && g_k < s.tail && !g_hole[g_k];
    if (r != NULL) {
        size_t q = TIDX(r); bool inner = ((uintptr_t)r & 4) != 0;
        OBLIGATION(q >= g_Hin && q < g_Tin, "C01.pool: the task handed out comes from the owner's pool, inside [head, tail)");
        if (q == g_k) {
            OBLIGATION(!g_hole0k && !mismatch_k, "C01.iso: the owner gets only a task whose isolation tag it is allowed to run");
            OBLIGATION(inner ? (proxy_k && g_has0k && ed.affinity_slot == TASK_SLOT(TASKPTR(q))) : !proxy_k, "C01.proxy: a proxy is never returned itself: it yields the task it stands for (once), with the affinity recorded");
            OBLIGATION(!avail_k || inner, "C01.once: the task handed out is no longer in the pool - it cannot be dispatched a second time");
        }
    }
    if (in_k && !(r != NULL && TIDX(r) == g_k)) {
        if (mismatch_k || !proxy_k) OBLIGATION(avail_k, "C01.once: every task not handed out stays in the published pool, where it was - nothing is lost (skipped tasks of other isolation levels included)");
        else OBLIGATION(avail_k || (!g_has0k && g_del_k), "C01.proxy: a proxy leaves the pool without yielding a task only if the mailbox side had taken the task already, and it is freed");
    }
    if (!in_k) OBLIGATION(!avail_k || (g_k >= g_Hin && g_k < g_Tin), "C01.once: the pool does not grow");
    OBLIGATION(!(s.published && s.head <= g_k && g_k < s.tail) || (g_k >= g_Hin && g_k < g_Tin), "C01.once: the published range stays inside the old one - no stale slot becomes visible");
    OBLIGATION(!g_del_k || (in_k && proxy_k && !mismatch_k && !g_has0k), "C01.proxy: only an emptied proxy the owner was allowed to look at is freed");
    VACUITY_END();
}
#endif

#if defined(THE_OWNER) || defined(THE_THIEF)
/* Owner/thief arbitration on head and tail (the THE protocol): for ONE arbitrary slot k of a published pool, the task in it is handed out at most once - by the owner's
   get_task or by a thief's steal_task - under every interleaving (SC) of the owner with any number of thieves (thieves are serialised by the pool lock, proved in lock.*).
   Ghost state for slot k: hole (slot empty: physical), cO / cT (its task was handed to the owner / a thief),
   oPh (owner: 0 idle, 1 lowered tail to k, 2 won the arbitration for k), th_t / th_c (the lock-holding thief: bumped head over k / passed the tail check for k).
   Each job runs ONE side's real code; the other side is the interference: a havoc constrained by INV and by a two-state rely, and every step of the real code is
   checked against the two-state guarantee the other job relies on. */
typedef struct task task;
typedef struct execution_data_ext { slot_id affinity_slot; } execution_data_ext;
struct arena { bool my_mailbox_idle; };
struct aslot { size_t head, tail; task **task_pool_ptr; bool published; };
static struct aslot S; int L; bool hole, cO, cT, th_t, th_c, me_took, elig_k; int oPh; size_t g_k; isolation_type g_isoarg, g_iso_k;
#define SK ((intptr_t)g_k)
#define SH ((intptr_t)S.head)
#define ST ((intptr_t)S.tail)
#define INV ((L == 0 || L == 1 || L == 2) && (oPh == 0 || oPh == 1 || oPh == 2) && !(th_t && th_c) \
  && ((th_t || th_c) ? (L == 2 && SH >= SK + 1) : 1) && (S.published ? 1 : (L == 0 && !th_t && !th_c)) \
  && (oPh >= 1 ? ST <= SK : 1) && ((oPh == 2 && !hole) ? (!cT && !th_c) : 1) && !(cO && cT) \
  && (cT ? (SH >= SK + 1 || hole || (ST <= SK && oPh == 0)) : 1) && (cO ? (ST <= SK || hole || (SH >= SK + 1 && !th_t && !th_c)) : 1) \
  && SH >= 0 && SH <= BND + 1 && ST >= -1 && ST <= BND)
#define BND ((intptr_t)1 << 41)
static task *const POOL_TOKEN = (task *)(uintptr_t)8;
#define TASKPTR(i) ((task *)(((uintptr_t)(i) + 1) << 4))
#define TIDX(p) ((size_t)(((uintptr_t)(p)) >> 4) - 1)
#define TASK_ISOLATION(p) (TIDX(p) == g_k ? g_iso_k : nondet_size_t())
#define TASK_IS_PROXY(p) false
#define TASK_SLOT(p) ((slot_id)0)
static void STUB_advertise_new_work(void) {}
#endif

#if defined(THE_OWNER) || defined(THE_THIEF)
/* the library's own debug assertions about head/tail consistency (compiled out of the tested build) are not part of this job: they are obligations of pool.get_task.any_size / pool.steal_task */
#undef VERIF_ASSERT
#define VERIF_ASSERT(c, m) ((void)0)
#endif

#ifdef THE_OWNER
/* rely: what thieves may do between two steps of the owner */
static void interfere(void) {
    size_t oh = S.head; int oL = L; bool ohole = hole, ocT = cT, oth_t = th_t, oth_c = th_c;
    if (L == 1 || !S.published) return;                                         /* the owner holds the lock, or no thief can enter: nothing moves */
    S.head = nondet_size_t(); L = nondet_int(); hole = nondet_bool(); cT = nondet_bool(); th_t = nondet_bool(); th_c = nondet_bool();
    __CPROVER_assume(INV && L != 1);
    __CPROVER_assume((ohole ? hole : 1) && (ocT ? cT : 1));
    __CPROVER_assume((cT && !ocT) ? (ST >= SK + 1 && !ohole) : 1);            /* a thief takes slot k only after seeing tail beyond it */
    __CPROVER_assume((th_c && !oth_c) ? ST >= SK + 1 : 1);
    __CPROVER_assume((hole && !ohole) ? cT : 1);                                /* a thief only empties the slot it took */
    __CPROVER_assume(((intptr_t)oh >= SK + 1 && !oth_t && !oth_c) ? (SH >= SK + 1 && !th_t && !th_c) : 1);   /* a slot already below head stays below head: thieves roll head back only to where they found it */
}
/* guarantee of every owner step, as relied on by the thief job */
#define OWNER_STEP(site, T, op) ({ interfere(); size_t oh_ = S.head, ot_ = S.tail; int oL_ = L, oP_ = oPh; bool ohole_ = hole, ocO_ = cO, ocT_ = cT, ot_t_ = th_t, ot_c_ = th_c, opub_ = S.published; T r_ = (op); GHOST_##site; \
   __CPROVER_assert(INV, "guarantee: arbitration invariant for slot k re-established at " #site); \
   __CPROVER_assert(oL_ == 2 ? (S.head == oh_ && L == 2 && S.published == opub_) : 1, "guarantee: the owner does not move head, take the lock or leave while a thief holds the pool lock, at " #site); \
   __CPROVER_assert(cT == ocT_ && th_t == ot_t_ && th_c == ot_c_, "guarantee: the owner does not touch the thief's ghost state, at " #site); \
   __CPROVER_assert((oPh == 2 && oP_ != 2) ? (intptr_t)oh_ <= SK || oL_ == 1 : 1, "guarantee: the owner wins slot k only by reading head <= k after lowering tail to k (or under the lock), at " #site); \
   __CPROVER_assert((oPh >= 1 && oP_ == 0) ? (intptr_t)ot_ >= SK + 1 : 1, "guarantee: the owner starts popping slot k from tail == k+1, at " #site); \
   __CPROVER_assert(((intptr_t)ot_ <= SK && SK < ST && (S.published || SK >= SH)) ? ((cT ? hole : 1) && (cO ? hole : 1)) : 1, "guarantee: a slot the owner puts back into [head, tail) holds a task nobody has taken, or a hole, at " #site); \
   __CPROVER_assert((hole && !ohole_) ? (oP_ == 2 || oPh == 2) : 1, "guarantee: the owner empties only a slot it has won, at " #site); \
   r_; })
#define ATOMIC_LOAD_AT(site, f) OWNER_STEP(site, size_t, (f))
#define ATOMIC_STORE_AT(site, f, v) OWNER_STEP(site, size_t, ((f) = (v)))
#define ATOMIC_PREDEC_AT(site, f) OWNER_STEP(site, size_t, (--(f)))
#define NOG ((void)0)
#define GHOST_gt_LOAD_1 NOG
#define GHOST_gt_PREDEC_1 if ((intptr_t)r_ == SK) oPh = 1
#define GHOST_gt_LOAD_2 if (oPh == 1 && (intptr_t)r_ <= SK) oPh = 2
#define GHOST_gt_LOAD_3 if (oPh == 1 && (intptr_t)r_ <= SK) oPh = 2
#define GHOST_gt_LOAD_4 NOG
#define GHOST_gt_LOAD_5 NOG
#define GHOST_gt_LOAD_6 NOG
#define GHOST_gt_LOAD_7 NOG
#define GHOST_gt_STORE_1 if (oPh == 1) oPh = 0                         /* reset: tail = 0 - the owner gives up a slot it did not win */
#define GHOST_gt_STORE_2 NOG                                          /* reset: head = 0 */
#define GHOST_gt_STORE_3 NOG                                          /* restore head */
#define GHOST_gt_STORE_4 oPh = 0                                      /* restore tail: the owner is done with every slot it examined */
#define GHOST_gt_STORE_5 oPh = 0
static task *pool_rd(task **vp, size_t i) {
    if (i != g_k) return nondet_bool() ? NULL : TASKPTR(i);
    __CPROVER_assert(oPh == 2, "C01.THE: the owner reads slot k only after it has won the arbitration for k (tail lowered to k, then head seen <= k or the lock held)");
    if (!hole && elig_k) { __CPROVER_assert(!cT, "C01.once: the owner takes the task in slot k only if no thief has taken it"); cO = true; me_took = true; }
    return hole ? NULL : TASKPTR(i);
}
static void pool_wr(task **vp, size_t i, task *v) { __CPROVER_assert(v == NULL, "C01.pool: popping only ever writes holes"); if (i == g_k) { __CPROVER_assert(oPh == 2, "C01.THE: the owner empties slot k only after winning it"); hole = true; } }
#define POOL_RD(vp, i) pool_rd((vp), (i))
#define POOL_WR(vp, i, v) pool_wr((vp), (i), (v))
static void slot_acquire_task_pool(struct aslot *s) { interfere(); if (!s->published) return; __CPROVER_assume(L == 0); L = 1; __CPROVER_assert(INV, "guarantee: INV after acquire"); }
static void slot_release_task_pool(struct aslot *s) { if (!s->published) return; __CPROVER_assert(L == 1, "C01.THE: the owner releases a lock it holds"); L = 0; }
static void slot_leave_task_pool(struct aslot *s) { __CPROVER_assert(L == 1 && s->head == s->tail, "C01.THE: the pool is left only locked and empty"); s->published = false; L = 0; __CPROVER_assert(INV, "guarantee: INV after leave"); }
static void slot_publish_task_pool(struct aslot *s) { __CPROVER_assert(!s->published && L == 0, "C01.THE: publish only an unpublished pool"); s->published = true; __CPROVER_assert(INV, "guarantee: INV after publish"); }
static bool slot_is_task_pool_published(struct aslot *s) { return s->published; }
static bool slot_is_quiescent_local_task_pool_reset(struct aslot *s) { return s->head == 0 && s->tail == 0; }
static task *STUB_proxy_extract_task_pool(task *tp) { return NULL; }
static void STUB_delete_proxy(task *tp) {}
#define LOOP_get_task_1 __CPROVER_assigns(T, T0, H0, result, task_pool_empty, tasks_omitted, S.head, S.tail, S.published, L, hole, cO, cT, th_t, th_c, oPh, me_took, ed->affinity_slot) \
  __CPROVER_loop_invariant(INV && S.tail == T && S.published && L != 1 && result == NULL && !task_pool_empty && !me_took && ((intptr_t)T <= SK && SK < (intptr_t)IN_tail ? oPh == 2 : oPh == 0) && (intptr_t)T <= (intptr_t)T0 && (intptr_t)T0 <= (intptr_t)IN_tail \
     && ((cO && !hole) ? (SK >= (intptr_t)T0 || (SH >= SK + 1 && !th_t && !th_c)) : 1) \
     && (intptr_t)T >= 0 && (intptr_t)T0 < ((intptr_t)1 << 40) && (tasks_omitted ? 1 : T0 == T))
size_t IN_head, IN_tail, IN_k;
#include "get_task_the.inc"
void h_the_owner(void) {
    S.task_pool_ptr = (task **)POOL_TOKEN; S.published = true; S.head = IN_head = nondet_size_t(); S.tail = IN_tail = nondet_size_t(); g_k = IN_k = nondet_size_t();
    __CPROVER_assume(g_k < ((size_t)1 << 40) && ST >= 0 && ST < ((intptr_t)1 << 40) && SH >= 0 && SH < ((intptr_t)1 << 40));
    L = nondet_int(); hole = nondet_bool(); cO = nondet_bool(); cT = nondet_bool(); th_t = nondet_bool(); th_c = nondet_bool(); oPh = 0; me_took = false;
    g_isoarg = nondet_size_t(); g_iso_k = nondet_size_t(); elig_k = (g_isoarg == no_isolation || g_isoarg == g_iso_k);
    __CPROVER_assume(INV && L != 1);
    execution_data_ext ed; ed.affinity_slot = 0;
    task *r = slot_get_task(&S, &ed, g_isoarg);
    oPh = 0;
    OBLIGATION(INV, "C01.THE: the arbitration invariant holds when get_task returns");
    OBLIGATION((r == TASKPTR(g_k)) == me_took, "C01.once: get_task returns the task of slot k exactly when the owner took it under the protocol");
    OBLIGATION(!(cO && cT), "C01.once: the task in slot k is handed out at most once - never to the owner and to a thief");
    OBLIGATION(L != 1, "C01.THE: the owner does not keep the pool lock");
    VACUITY_END();
}
#endif

#ifdef THE_THIEF
/* rely: what the owner (and, while this thief does not hold the lock, other thieves) may do between two steps of this thief */
bool me_holds;
static void interfere(void) {
    size_t ot = S.tail; int oP = oPh; bool ohole = hole, ocO = cO, ocT = cT;
    if (!me_holds) {                                                        /* anything that respects the invariant; the lock is not mine */
        S.head = nondet_size_t(); S.tail = nondet_size_t(); S.published = nondet_bool(); L = nondet_int(); hole = nondet_bool(); cO = nondet_bool(); cT = nondet_bool(); th_t = nondet_bool(); th_c = nondet_bool(); oPh = nondet_int();
        __CPROVER_assume(INV); return;
    }
    S.tail = nondet_size_t(); oPh = nondet_int(); cO = nondet_bool(); hole = nondet_bool(); bool newinst = nondet_bool();
    if (newinst) cT = false;                                               /* the owner spawned a NEW task into slot k (only possible while k is at or above tail) */
    __CPROVER_assume(INV);
    __CPROVER_assume(newinst ? ((intptr_t)ot <= SK && SK < ST && oP == 0 && oPh == 0 && !th_c && !cO && !hole) : 1);
    __CPROVER_assume((!newinst && ohole) ? hole : 1);
    __CPROVER_assume((hole && !ohole) ? (oP == 2 || SH <= SK) : 1);                                   /* the owner empties only a slot it has won */
    __CPROVER_assume((oPh == 2 && oP != 2) ? SH <= SK : 1);                                           /* the owner wins k only by seeing head <= k (it cannot take the lock while I hold it) */
    __CPROVER_assume((oPh >= 1 && oP == 0) ? (intptr_t)ot >= SK + 1 : 1);                             /* the owner starts popping k from tail == k+1 */
    __CPROVER_assume((cO && !ocO) ? (!ohole && (oP == 2 || SH <= SK)) : 1);
    __CPROVER_assume((!newinst && ocO) ? cO : 1);
    __CPROVER_assume((!newinst && (intptr_t)ot <= SK && SK < ST) ? ((cT ? hole : 1) && (cO ? hole : 1)) : 1);   /* what the owner puts back into the pool is untaken or a hole */
    __CPROVER_assume(((intptr_t)ot < ST) ? (oPh == 0) : 1);                                          /* tail is raised only by spawn or at the end of get_task */
}
/* guarantee of every thief step = what the owner job relies on */
#define THIEF_STEP(site, T, op) ({ interfere(); size_t oh_ = S.head, ot_ = S.tail; int oL_ = L, oP_ = oPh; bool ohole_ = hole, ocO_ = cO, ocT_ = cT, ot_t_ = th_t, ot_c_ = th_c, opub_ = S.published; T r_ = (op); GHOST_##site; \
   __CPROVER_assert(INV, "guarantee: arbitration invariant for slot k re-established at " #site); \
   __CPROVER_assert(S.tail == ot_ && cO == ocO_ && oPh == oP_ && S.published == opub_, "guarantee: a thief never moves tail, never publishes or leaves the pool, at " #site); \
   __CPROVER_assert(me_holds || (S.head == oh_ && hole == ohole_ && cT == ocT_), "guarantee: a thief touches head and the slots only while it holds the pool lock, at " #site); \
   __CPROVER_assert((ohole_ ? hole : 1) && (ocT_ ? cT : 1) && ((hole && !ohole_) ? cT : 1), "guarantee: a thief only empties the slot it took, at " #site); \
   __CPROVER_assert((cT && !ocT_) ? (ST >= SK + 1 && !ohole_) : 1, "guarantee: a thief takes slot k only after bumping head over it and then seeing tail beyond it, at " #site); \
   __CPROVER_assert((th_c && !ot_c_) ? ST >= SK + 1 : 1, "guarantee: a thief passes the check for slot k only on tail > k, at " #site); \
   __CPROVER_assert(((intptr_t)oh_ >= SK + 1 && !ot_t_ && !ot_c_) ? (SH >= SK + 1 && !th_t && !th_c) : 1, "guarantee: a slot already below head stays below head (roll-back only to where head was found), at " #site); \
   r_; })
#define ATOMIC_LOAD_AT(site, f) THIEF_STEP(site, size_t, (f))
#define ATOMIC_STORE_AT(site, f, v) THIEF_STEP(site, size_t, ((f) = (v)))
#define ATOMIC_PREINC_AT(site, f) THIEF_STEP(site, size_t, (++(f)))
#define NOG ((void)0)
#define GHOST_steal_LOAD_1 NOG
#define GHOST_steal_PREINC_1 if ((intptr_t)r_ == SK + 1) th_t = true
#define GHOST_steal_LOAD_2 if (th_t && !(SK + 1 > (intptr_t)r_)) { th_t = false; th_c = true; }
#define GHOST_steal_STORE_1 th_t = th_c = false
#define GHOST_steal_STORE_2 th_t = th_c = false
static task *pool_rd(task **vp, size_t i) {
    __CPROVER_assert(vp == (task **)POOL_TOKEN, "C01.steal: the pool read is the one that was locked");
    if (i != g_k) return nondet_bool() ? NULL : TASKPTR(i);
    __CPROVER_assert(th_c && me_holds, "C01.THE: a thief reads slot k only after it has won the arbitration for k (head bumped to k+1 under the pool lock, then tail seen > k)");
    if (!hole && elig_k) { __CPROVER_assert(!cO, "C01.once: a thief takes the task in slot k only if the owner has not taken it"); cT = true; me_took = true; }
    return hole ? NULL : TASKPTR(i);
}
static void pool_wr(task **vp, size_t i, task *v) { __CPROVER_assert(v == NULL, "C01.steal: a thief only ever writes holes"); if (i == g_k) { __CPROVER_assert(me_took && me_holds, "C01.THE: a thief empties only the slot it took"); hole = true; } }
#define POOL_RD(vp, i) pool_rd((vp), (i))
#define POOL_WR(vp, i, v) pool_wr((vp), (i), (v))
size_t g_Hlock;
static task **slot_lock_task_pool(struct aslot *s) { interfere(); if (!s->published) return NULL; __CPROVER_assume(L == 0 && SH <= BND /* numeric range: with the lock free, head is at most tail+1 <= 2^41 */); L = 2; me_holds = true; g_Hlock = s->head; __CPROVER_assert(INV, "guarantee: INV after lock"); return (task **)POOL_TOKEN; }
static void slot_unlock_task_pool(struct aslot *s, task **p) { interfere(); __CPROVER_assert(me_holds && L == 2 && p == (task **)POOL_TOKEN, "C01.THE: the thief unlocks the lock it holds"); __CPROVER_assert(!th_t, "C01.THE: no tentative head bump is left behind at unlock");
    th_c = false; L = 0; me_holds = false; __CPROVER_assert(INV, "guarantee: INV after unlock"); }
static bool STUB_proxy_is_shared(task *tp) { return false; }
static bool STUB_outbox_recipient_is_idle(task *tp) { return false; }
static bool STUB_my_mailbox_is_idle(struct arena *a, size_t idx) { return false; }
#define LOOP_steal_1 __CPROVER_assigns(H, H0, result, tasks_omitted, S.head, S.tail, hole, cO, cT, th_t, th_c, oPh, me_took) \
  __CPROVER_loop_invariant(INV && L == 2 && me_holds && S.published && S.head == H && (intptr_t)g_Hlock <= (intptr_t)H0 && (intptr_t)H0 <= (intptr_t)H && result == NULL && !me_took && !th_t && (intptr_t)H <= BND \
     && (((intptr_t)H0 <= SK && SK < (intptr_t)H) ? th_c : 1) && (th_c ? SK < (intptr_t)H : 1) && (tasks_omitted ? 1 : H0 == H) \
     && ((cT && !hole) ? ((intptr_t)H0 >= SK + 1 || (ST <= SK && oPh == 0)) : 1) && ((cO && !hole) ? (ST <= SK || (intptr_t)H0 >= SK + 1) : 1))
#include "steal.inc"
size_t IN_head, IN_tail, IN_k;
void h_the_thief(void) {
    S.task_pool_ptr = (task **)POOL_TOKEN; S.published = nondet_bool(); S.head = IN_head = nondet_size_t(); S.tail = IN_tail = nondet_size_t(); g_k = IN_k = nondet_size_t();
    __CPROVER_assume(g_k < ((size_t)1 << 40));
    L = nondet_int(); hole = nondet_bool(); cO = nondet_bool(); cT = nondet_bool(); th_t = nondet_bool(); th_c = nondet_bool(); oPh = nondet_int(); me_took = false; me_holds = false;
    g_isoarg = nondet_size_t(); g_iso_k = nondet_size_t(); elig_k = (g_isoarg == no_isolation || g_isoarg == g_iso_k);
    __CPROVER_assume(INV);
    struct arena a; a.my_mailbox_idle = false;
    task *r = slot_steal_task(&S, &a, g_isoarg, nondet_size_t());
    OBLIGATION(INV, "C01.THE: the arbitration invariant holds when steal_task returns");
    OBLIGATION((r == TASKPTR(g_k)) == me_took, "C01.once: steal_task returns the task of slot k exactly when this thief took it under the protocol");
    OBLIGATION(!(cO && cT), "C01.once: the task in slot k is handed out at most once - never to the owner and to a thief");
    OBLIGATION(!me_holds, "C01.THE: the thief does not keep the pool lock");
    VACUITY_END();
}
#endif

#ifdef RELOC
/* arena_slot::prepare_task_pool (+ allocate_task_pool, commit_relocated_tasks) and spawn (+ commit_spawned_tasks): growing / compacting the deque keeps every task exactly once, in order.
   Old pool: entry i is a hole or THE i-th task (g_hole0[i]); the new pool is real memory (CBMC checks every write against its size).  In-place compaction shares the array: a cell
   must not be read after it was overwritten (ghost g_written).  g_cnt[] is the prefix count of live entries, a definitional ghost: instances of its defining recurrence and of its
   monotonicity are supplied where an entry is read. */
typedef struct task task;
struct aslot { size_t head, tail, my_task_pool_size; task **task_pool_ptr; bool published, locked; };
#ifndef NMAX
#define NMAX ((size_t)1 << 12)
#endif
#define TASKPTR(i) ((task *)(((uintptr_t)(i) + 1) << 4))
#define TIDX(p) ((size_t)(((uintptr_t)(p)) >> 4) - 1)
static bool *g_hole0, g_written_w; static size_t *g_cnt; static task **g_old, **g_new; static size_t g_oldcap, g_newcap, g_H, g_T, g_k, g_pos, g_w; static bool g_inplace, g_freed_old; int g_allocs;
#define ATOMIC_LOAD(x) (x)
#define ATOMIC_STORE(x, v) ((x) = (v))
static void slot_acquire_task_pool(struct aslot *s) { __CPROVER_assert(!s->locked, "C01.reloc: no double lock"); if (s->published) s->locked = true; }
static void slot_release_task_pool(struct aslot *s) { s->locked = false; }
static void slot_publish_task_pool(struct aslot *s) { __CPROVER_assert(!s->published && s->head < s->tail, "C01.reloc: publish only a non-empty unpublished pool"); s->published = true; }
static bool slot_is_task_pool_published(struct aslot *s) { return s->published; }
static bool slot_is_local_task_pool_quiescent(struct aslot *s) { return !s->published || s->locked; }
static task **STUB_cache_aligned_allocate(size_t bytes) {
#ifdef RELOC_INPLACE
    __CPROVER_assume(0);   /* case split: this job covers the executions that compact in place; the twin job covers the ones that allocate */
#endif
    g_allocs++; g_newcap = bytes / sizeof(task *); g_new = malloc(bytes); __CPROVER_assume(g_new != NULL); g_inplace = false; return g_new; }
static void STUB_cache_aligned_deallocate(task **p) { __CPROVER_assert(p == g_old && !g_inplace && !g_freed_old, "C01.reloc: exactly the replaced array is freed, once, and never the array still in use"); g_freed_old = true; }
static task *pool_rd(task **vp, size_t i) {
    __CPROVER_assert(vp == g_old && !g_freed_old, "C01.reloc: tasks are read from the old array while it is alive");
    __CPROVER_assert(i >= g_H && i < g_T && i < g_oldcap, "C01.reloc: only [head, tail) of the old array is read");
#ifndef RELOC_ORDER
    __CPROVER_assert(!(g_inplace && i == g_w && g_written_w), "C01.reloc: in-place compaction never reads a cell it has already overwritten");
#endif
    __CPROVER_assume(g_cnt[i + 1] == g_cnt[i] + (g_hole0[i] ? 0 : 1) && g_cnt[i + 1] <= g_cnt[g_T] && g_cnt[i] <= i - g_H);     /* definition of the prefix count, instance i */
    return g_hole0[i] ? NULL : TASKPTR(i);
}
static void pool_wr(task **vp, size_t i, task *v) {
    __CPROVER_assert(vp == g_new, "C01.reloc: tasks are written into the pool that will be published");
    vp[i] = v; if (g_inplace && i == g_w) g_written_w = true; if (v != NULL && TIDX(v) == g_k) g_pos = i;
}
#define POOL_RD(vp, i) pool_rd((vp), (i))
#define POOL_WR(vp, i, v) pool_wr((vp), (i), (v))
size_t g_j1, g_j2; task *g_spawned;
#define LIVE(i) ((i) >= g_H && (i) < g_T && !g_hole0[i])
#define LOOP_prepare_task_pool_1 __CPROVER_assigns(i, new_size) __CPROVER_loop_invariant(i >= H && i <= T && new_size == num_tasks + g_cnt[i]) __CPROVER_decreases(T - i)
#ifdef RELOC_ORDER   /* case split of the PROOF (not of the executions): this job carries the facts about what the new pool holds (nothing invented, order kept) */
#define INV_LOST 1
#define INV_ORDER (g_j1 < T1 ? (g_new[g_j1] != NULL && LIVE(TIDX(g_new[g_j1])) && TIDX(g_new[g_j1]) < i && g_cnt[TIDX(g_new[g_j1])] == g_j1) : 1)
#else                /* ... and this one the facts about where every old task went (nothing lost) and that in-place compaction reads no overwritten cell */
#define INV_LOST (((g_k < i && LIVE(g_k)) ? (g_pos < T1 && g_new[g_pos] == TASKPTR(g_k)) : 1) && ((g_inplace && g_written_w) ? g_w < T1 : 1))
#define INV_ORDER 1
#endif
#define LOOP_prepare_task_pool_2 __CPROVER_assigns(i, T1, g_pos, __CPROVER_object_whole(g_new), g_written_w) \
  __CPROVER_loop_invariant(i >= H && i <= T && T1 == g_cnt[i] && T1 <= i - H && INV_LOST && INV_ORDER) \
  __CPROVER_decreases(T - i)
#define LOOP_allocate_task_pool_1
#include "relocate.inc"
size_t IN_head, IN_tail, IN_cap, IN_num;
static void mk_pool(struct aslot *s) {
    g_oldcap = IN_cap = nondet_size_t(); __CPROVER_assume(g_oldcap >= MIN_TASK_POOL_SIZE && g_oldcap <= NMAX && g_oldcap % (max_nfs_size / sizeof(task *)) == 0);
    g_hole0 = malloc(g_oldcap * sizeof(bool)); g_cnt = malloc((g_oldcap + 1) * sizeof(size_t)); g_old = malloc(g_oldcap * sizeof(task *));
    __CPROVER_assume(g_hole0 && g_cnt && g_old); g_written_w = false;
    g_new = g_old; g_newcap = g_oldcap; g_inplace = true; g_freed_old = false; g_allocs = 0;
    g_H = IN_head = s->head = nondet_size_t(); g_T = IN_tail = s->tail = nondet_size_t(); __CPROVER_assume(g_H <= g_T && g_T <= g_oldcap);
    s->my_task_pool_size = g_oldcap; s->task_pool_ptr = g_old; s->published = nondet_bool(); s->locked = false;
    g_k = nondet_size_t(); g_w = nondet_size_t(); g_j1 = nondet_size_t(); g_j2 = nondet_size_t(); g_pos = nondet_size_t(); __CPROVER_assume(g_k < g_oldcap && g_w < g_oldcap);
    __CPROVER_assume(g_cnt[g_H] == 0 && g_cnt[g_T] <= g_T - g_H);
}
void h_prepare(void) {
    struct aslot s; mk_pool(&s); size_t num = IN_num = nondet_size_t(); __CPROVER_assume(num >= 1 && num <= NMAX);
    bool live_k = LIVE(g_k);
    size_t r = slot_prepare_task_pool(&s, num);
#ifdef RELOC_ALLOC
    __CPROVER_assume(g_allocs >= 1);
#endif
    OBLIGATION(!s.locked, "C01.reloc: the pool lock is released");
    OBLIGATION(r + num <= s.my_task_pool_size && s.my_task_pool_size == g_newcap && s.task_pool_ptr == g_new, "C01.reloc: the pool returned has room for the tasks about to be spawned, and its recorded size is the size of the array in use");
    OBLIGATION(s.tail == r, "C01.reloc: the returned position is the new tail");
    if (g_allocs == 0 && r == g_T && s.head == g_H) { OBLIGATION(g_new == g_old, "C01.reloc: nothing moved when there was room"); }
    else {
        OBLIGATION(s.head == 0 && r == g_cnt[g_T], "C01.reloc: after relocation the pool is [0, number of live tasks)");
#ifndef RELOC_ORDER
        OBLIGATION(!live_k || (g_pos < r && g_new[g_pos] == TASKPTR(g_k)), "C01.once: every task that was in [head, tail) is in the relocated pool - nothing is lost");
#else
        OBLIGATION(!(g_j1 < r) || (g_new[g_j1] != NULL && LIVE(TIDX(g_new[g_j1]))), "C01.once: the relocated pool holds only tasks that were in [head, tail) - nothing is invented, no holes");
        OBLIGATION(!(g_j1 < r) || g_cnt[TIDX(g_new[g_j1])] == g_j1, "C01.once: entry j of the relocated pool is the live task that has exactly j live tasks before it - origins strictly increase with j: order kept, no task twice");
#endif
        OBLIGATION(g_allocs <= 1 && (g_allocs == 1) == g_freed_old, "C01.reloc: the old array is freed exactly when it was replaced");
    }
    VACUITY_END();
}
void h_spawn(void) {
    struct aslot s; mk_pool(&s); bool live_k = LIVE(g_k); bool pub0 = s.published; g_spawned = (task *)(uintptr_t)((NMAX + 7) << 4);
    __CPROVER_assume(pub0 ? g_H < g_T : 1);
    slot_spawn(&s, g_spawned);
#ifdef RELOC_ALLOC
    __CPROVER_assume(g_allocs >= 1);
#endif
    OBLIGATION(s.published && !s.locked && s.head < s.tail && s.tail <= s.my_task_pool_size, "C01.spawn: after spawn the pool is published, unlocked and non-empty");
    OBLIGATION(s.task_pool_ptr[s.tail - 1] == g_spawned, "C01.spawn: the spawned task is the topmost entry of the pool");
    if (g_allocs != 0 || s.head != g_H || s.tail != g_T + 1) OBLIGATION(!live_k || (g_pos < s.tail - 1 && g_new[g_pos] == TASKPTR(g_k)), "C01.once: a spawn that relocates the pool loses none of the tasks already in it");
    VACUITY_END();
}
#endif

#ifdef DELEG
/* task_arena::execute(f): f is carried out exactly once before the call returns - inline (own arena, or a free slot) or, when the arena is saturated, by a delegated task that is
   enqueued once under a context OF ITS OWN (isolated: a cancellation of the caller's group must not turn the delegated call into a skipped task), while the caller waits. */
typedef struct task { int d; } task;
enum { tgc_isolated = 0, tgc_bound = 1 };
struct tgc { int kind; void *my_exception; bool cancelled; };
struct delegate_base { int id; };
struct monitor { int d; }; struct thread_context { uintptr_t key; }; struct wait_context { int refs; };
struct arena { struct monitor my_exit_monitors; struct tgc *my_default_ctx; };
struct thread_data { struct arena *my_arena; size_t my_arena_index; };
struct task_arena_base { struct arena *my_arena; };
struct task_dispatcher; typedef struct execution_data_ext { struct tgc *context; isolation_type isolation; struct task_dispatcher *task_disp; } execution_data_ext;
struct task_dispatcher { execution_data_ext m_execute_data_ext; struct thread_data *m_thread_data; bool fifo; };
struct delegated_task { struct delegate_base *m_delegate; struct monitor *m_monitor; struct wait_context *m_wait_ctx; bool m_completed; };
#define out_of_arena (~(size_t)0)
static struct arena A, OTHER_ARENA; static struct thread_data TD; static struct tgc DEFCTX, CALLERCTX; static struct delegate_base D;
int g_calls, g_enq, g_enq_kind, g_entered, g_guard, g_release, g_notify, g_throw; bool g_done, g_prepared, g_checked, g_in_scope_at_call, g_guard_at_call; struct delegated_task *g_enq_task; size_t g_slot;
static void interfere(void) { if (g_enq == 1 && nondet_bool()) g_done = true; }          /* the delegated task runs (or is cancelled) on some other thread and finalizes: monotone */
static struct thread_data *STUB_get_thread_data(void) { return &TD; }
static size_t STUB_occupy_free_slot(struct arena *a, struct thread_data *td) { interfere(); return nondet_bool() ? out_of_arena : (g_slot = nondet_size_t() % 1024); }
#define INIT_thread_context(w, k) ((w)->key = (k))
#define INIT_wait_context(w, n) ((w)->refs = (n))
#define INIT_tgc(c, k) do { (c)->kind = (k); (c)->my_exception = NULL; (c)->cancelled = false; } while (0)
#define INIT_delegated_task(t, dd, m, w) do { (t)->m_delegate = (dd); (t)->m_monitor = (m); (t)->m_wait_ctx = (w); (t)->m_completed = false; } while (0)
static void STUB_copy_fp_settings(struct tgc *c, struct tgc *src) {}
static void STUB_enqueue_task(struct arena *a, struct delegated_task *t, struct tgc *c, struct thread_data *td) { g_enq++; g_enq_kind = c->kind; g_enq_task = t; __CPROVER_assert(t->m_wait_ctx->refs == 1 && !t->m_completed, "C01.delegate: the delegated task holds the one reference the caller waits for"); }
#define MONITOR_prepare_wait(m, w) do { __CPROVER_assert(!g_prepared, "C01.delegate: no nested prepare_wait"); g_prepared = true; g_checked = false; } while (0)
#define MONITOR_cancel_wait(m, w) do { __CPROVER_assert(g_prepared, "C01.delegate: cancel_wait pairs with prepare_wait"); g_prepared = false; } while (0)
#define MONITOR_commit_wait(m, w) do { __CPROVER_assert(g_prepared && g_checked, "C01.delegate: the caller goes to sleep only after re-checking, behind prepare_wait, that the delegated call is still outstanding"); g_prepared = false; interfere(); } while (0)
#define MONITOR_notify_one(m) ((void)0)
static bool wait_ctx_continue(struct wait_context *w) { interfere(); if (!g_done && g_prepared) g_checked = true; return !g_done; }
#define WAIT_CTX_CONTINUE(w) wait_ctx_continue(w)
#define NESTED_ARENA_ENTER(td, a, idx) do { g_entered++; __CPROVER_assert((idx) != out_of_arena, "C01.delegate: the arena is entered through a slot that was really obtained"); } while (0)
static void STUB_r1_wait(struct wait_context *w, struct tgc *c) { interfere(); __CPROVER_assume(g_done); }        /* returns when the wait context is released */
#define VERIF_THROW() (g_throw++)
#define CONTEXT_GUARD_SET(c) (g_guard++)
#define CALL_DELEGATE(dd) do { g_calls++; g_in_scope_at_call = (g_entered == 1); g_guard_at_call = (g_guard == 1); __CPROVER_assert((dd) == &D, "C01.delegate: the function called is the one that was passed in"); } while (0)
#define WAIT_CTX_RELEASE(w) do { __CPROVER_assert(g_notify == 0, "C01.delegate: the wait context is released before the waiter is notified"); g_release++; (w)->refs--; } while (0)
#define MONITOR_NOTIFY_KEY(m, k) do { __CPROVER_assert(g_release == 1, "C01.delegate: the waiter is notified after the release"); __CPROVER_assert((k) == (uintptr_t)&D, "C01.delegate: exactly the caller waiting for THIS delegate is woken"); g_notify++; } while (0)
#define ATOMIC_STORE(x, v) do { __CPROVER_assert(g_release == 1 && g_notify == 1, "C01.delegate: m_completed is raised last (the task object may be destroyed right after)"); (x) = (v); } while (0)
static bool TD_ALLOW_FIFO(struct task_dispatcher *d, bool v) { bool o = d->fifo; d->fifo = v; return o; }
#define LOOP_exec_1 __CPROVER_assigns(index2, g_done, g_prepared, g_checked, g_entered, g_slot) __CPROVER_loop_invariant(g_enq == 1 && g_enq_kind == tgc_isolated && index2 == out_of_arena && !g_prepared && g_entered == 0 && g_calls == 0)
#include "delegate.inc"
static void world(void) { A.my_default_ctx = &DEFCTX; g_calls = g_enq = g_entered = g_guard = g_release = g_notify = g_throw = 0; g_done = g_prepared = g_checked = false; g_enq_kind = -1; }
void h_arena_execute(void) {
    world(); struct task_arena_base ta; ta.my_arena = &A; TD.my_arena = nondet_bool() ? &A : &OTHER_ARENA; TD.my_arena_index = nondet_size_t() % 1024;
    task_arena_execute(&ta, &D);
    if (g_enq == 0) {
        OBLIGATION(g_calls == 1 && g_in_scope_at_call && g_guard_at_call, "C01.once: task_arena::execute(f) carries f out exactly once, inside the arena (slot occupied or own arena) and under the arena's default context");
    } else {
        OBLIGATION(g_enq == 1 && g_calls == 0, "C01.once: when the arena is saturated f is delegated exactly once and not also run inline");
        OBLIGATION(g_enq_kind == tgc_isolated, "C01.once: the delegated call runs under an isolated context of its own - a cancellation of the caller's task group must not turn it into a skipped task while execute() returns normally");
        OBLIGATION(g_done && !g_prepared, "C01.wait: execute() returns only after the delegated task has finalized, and leaves no wait registration behind");
    }
    VACUITY_END();
}
void h_delegated_task(void) {
    world(); struct wait_context wo; wo.refs = 1; struct delegated_task dt; INIT_delegated_task(&dt, &D, &A.my_exit_monitors, &wo);
    struct task_dispatcher disp; TD.my_arena = &A; disp.m_thread_data = &TD; disp.m_execute_data_ext.context = &CALLERCTX; disp.m_execute_data_ext.isolation = no_isolation; disp.m_execute_data_ext.task_disp = &disp; disp.fifo = nondet_bool(); bool fifo0 = disp.fifo;
    bool cancelled = nondet_bool();
    if (cancelled) dt_cancel(&dt); else dt_execute(&dt, &disp.m_execute_data_ext);
    OBLIGATION(g_calls == (cancelled ? 0 : 1), "C01.once: the delegated task calls the function exactly once when executed, and not at all when its (own, isolated) group was cancelled");
    OBLIGATION(g_release == 1 && g_notify == 1 && dt.m_completed && wo.refs == 0, "C01.wait: either way the task finalizes exactly once: the waiting caller's reference is released, that caller is notified, completion is published last");
    OBLIGATION(disp.m_execute_data_ext.context == &CALLERCTX && disp.fifo == fifo0, "C01.delegate: the executing thread's own context and FIFO permission are restored");
    VACUITY_END();
}
#endif

#ifdef VACUITY
#define VACUITY_CASE(c, m) do { if (c) __CPROVER_assert(0, "VACUITY: case reachable: " m); } while (0)
#else
#define VACUITY_CASE(c, m) ((void)0)
#endif

#if defined(MAILPOP) || defined(MAILPUSH)
/* The mailbox: an intrusive multi-producer / single-consumer list.  A LINK is my_first or the next_in_mailbox of a proxy; my_last points at the link a pusher will fill next.
   Numbering (fixed at the moment the function under proof starts; any list is isomorphic to it): proxies 0..n-1 in the order of their pushers' exchanges on my_last,
   link 0 = my_first, link i+1 = next_in_mailbox of proxy i.  Link c < n holds proxy c, or still nullptr while the pusher of proxy c sits between its exchange and its
   link store; link n is empty and my_last points at it.  Pushers only ever (a) append: n grows, my_last follows, (b) complete: an empty link c < n receives proxy c. */
typedef struct proxy proxy; typedef struct cell_ *cell_t;
struct outbox { cell_t my_last; };
struct inbox { struct outbox *my_putter; };
#define MB_NMAX ((size_t)1 << 12)
#define PROXY(i) ((proxy *)(((uintptr_t)(i) + 1) << 4))
#define PIDX(p) ((size_t)(((uintptr_t)(p)) >> 4) - 1)
#define CELL(c) ((cell_t)((((uintptr_t)(c)) << 4) | 8))
#define CIDX(c) ((size_t)(((uintptr_t)(c)) >> 4))
#define CELL_FIRST(self) CELL(0)
#define CELL_OF(p) CELL(PIDX(p) + 1)
#endif

#ifdef MAILPOP
/* mail_inbox::pop -> mail_outbox::internal_pop, the single consumer, against any number of concurrent pushers (rely = the two pusher steps above, each justified by job mail.push).
   The consumer's own writes are an overlay: it may rewrite ONE link (g_mod_cell). */
static struct outbox S; static size_t g_cap, g_n, g_n0; static bool *g_fill; static isolation_type *g_iso; static bool g_mod, g_cas_ok; static cell_t g_mod_cell; static proxy *g_mod_val; size_t g_k; bool g_fill0k;
#define PROXY_ISOLATION(p) (g_iso[PIDX(p)])
#define CONTENT(ci) ((g_mod && CELL(ci) == g_mod_cell) ? g_mod_val : (((ci) < g_n && g_fill[ci]) ? PROXY(ci) : (proxy *)NULL))
#define MB_INV (g_n < g_cap && (g_cas_ok || S.my_last == CELL(g_n)) && CIDX(S.my_last) <= g_n && CONTENT(CIDX(S.my_last)) == NULL)
static void interfere(void) {
    if (g_cas_ok) return;                      /* the popped proxy's own link left my_last without a pusher having obtained it: nobody can reach it any more; later pushes do not concern this pop */
    size_t n1 = nondet_size_t(); __CPROVER_assume(n1 >= g_n && n1 < g_cap); g_n = n1; S.my_last = CELL(g_n);       /* pushers exchanged my_last */
}
static proxy *cell_load(cell_t c) {
    interfere(); size_t ci = CIDX(c);
    __CPROVER_assert(((uintptr_t)c & 15) == 8 && ci <= g_n, "C01.mail: the consumer reads only my_first and links of proxies that are in the mailbox");
    if (ci < g_n && !g_fill[ci] && nondet_bool()) g_fill[ci] = true;                                              /* the pusher of proxy ci completes */
    return CONTENT(ci);
}
static void cell_store(cell_t c, proxy *v) {
    interfere(); size_t ci = CIDX(c);
    __CPROVER_assert(!g_cas_ok, "C01.mail: nothing is written once my_last was handed back");
    __CPROVER_assert(((uintptr_t)c & 15) == 8 && ci < g_n && g_fill[ci], "guarantee: the consumer rewrites only a link a pusher has completed - never the link a pusher is about to fill, never the link my_last points at");
    __CPROVER_assert(!g_mod || c == g_mod_cell, "C01.mail: a pop rewrites one link only");
    g_mod = true; g_mod_cell = c; g_mod_val = v;
    __CPROVER_assert(MB_INV, "guarantee: the link my_last points at is empty, after a link store of the consumer");
}
static bool last_cas(cell_t *e, cell_t d) {
    interfere();
    if (S.my_last == *e) { S.my_last = d; g_cas_ok = true;
        __CPROVER_assert(g_mod && d == g_mod_cell && g_mod_val == NULL, "C01.mail: my_last is handed back only to the link that pointed at the popped proxy, after that link was emptied");
        __CPROVER_assert(MB_INV, "guarantee: the link my_last points at is empty, after the consumer's compare-exchange"); return true; }
    *e = S.my_last; return false;
}
#define ATOMIC_LOAD_AT(site, c) cell_load(c)
#define ATOMIC_STORE_AT(site, c, v) cell_store((c), (v))
#define ATOMIC_CAS_AT(site, f, e, d) last_cas((e), (d))
/* walk: curr is proxy i, read from link i (prev_ptr); every proxy before i carries another isolation tag; nothing written yet */
#define LOOP_pop_1 __CPROVER_assigns(curr, prev_ptr, g_n, S.my_last, __CPROVER_object_whole(g_fill)) \
  __CPROVER_loop_invariant(!g_mod && !g_cas_ok && MB_INV && g_n >= g_n0 && curr != NULL && ((uintptr_t)curr & 15) == 0 && PIDX(curr) < g_n && g_fill[PIDX(curr)] && prev_ptr == CELL(PIDX(curr)) \
     && ((g_k < g_n0 && g_fill0k) ? g_fill[g_k] : 1)) \
  __CPROVER_decreases(g_cap - PIDX(curr))
/* wait for the pusher that exchanged my_last behind the popped proxy: its proxy exists (n > j+1), so it will be linked */
#define LOOP_pop_2 __CPROVER_assigns(second, g_n, S.my_last, __CPROVER_object_whole(g_fill)) \
  __CPROVER_loop_invariant(!g_cas_ok && g_mod && g_mod_cell == prev_ptr && g_mod_val == NULL && MB_INV && g_n >= g_n0 && curr != NULL && ((uintptr_t)curr & 15) == 0 && PIDX(curr) + 1 < g_n && g_fill[PIDX(curr)] && prev_ptr == CELL(PIDX(curr)) && ((g_k < g_n0 && g_fill0k) ? g_fill[g_k] : 1))
#include "mail_pop.inc"
size_t IN_n, IN_iso, IN_k;
void h_mail_pop(void) {
    g_cap = nondet_size_t(); __CPROVER_assume(g_cap >= 2 && g_cap <= MB_NMAX);
    g_fill = malloc(g_cap * sizeof(bool)); g_iso = malloc(g_cap * sizeof(isolation_type)); __CPROVER_assume(g_fill && g_iso);
    g_n0 = g_n = IN_n = nondet_size_t(); __CPROVER_assume(g_n < g_cap); S.my_last = CELL(g_n); g_mod = false; g_cas_ok = false; g_mod_cell = NULL; g_mod_val = NULL;
    g_k = IN_k = nondet_size_t(); __CPROVER_assume(g_k < g_cap); g_fill0k = g_fill[g_k];
    isolation_type iso = IN_iso = nondet_size_t(); struct inbox IB; IB.my_putter = &S;
    proxy *r = inbox_pop(&IB, iso);
    OBLIGATION(MB_INV, "C01.mail: when pop returns, my_last points at an empty link: the last link of the list, or my_first when the list is empty");
    if (r == NULL) {
        OBLIGATION(!g_mod && !g_cas_ok, "C01.mail: a pop that returns nothing leaves every link and my_last alone");
    } else {
        size_t j = PIDX(r);
        OBLIGATION(((uintptr_t)r & 15) == 0 && j < g_n && g_fill[j], "C01.mail: the proxy returned is one that was linked into this mailbox");
        OBLIGATION(iso == no_isolation || g_iso[j] == iso, "C01.iso: an isolated consumer takes only mail of its own isolation level");
        OBLIGATION(g_mod && g_mod_cell == CELL(j), "C01.once: pop unlinks exactly the proxy it returns: the one link it rewrites is the link that pointed at it, every other proxy stays where it was, in order");
        if (g_cas_ok) OBLIGATION(g_n == j + 1 && g_mod_val == NULL && S.my_last == CELL(j), "C01.mail: if the popped proxy was the last one, the link that pointed at it is empty and my_last points at that link (my_first when the mailbox is now empty)");
        else OBLIGATION(j + 1 < g_n && g_mod_val == PROXY(j + 1) && g_fill[j + 1] && S.my_last == CELL(g_n), "C01.once: otherwise the link that pointed at the popped proxy now points at its successor - also when the successor was pushed while the pop was under way (it is never lost) - and my_last is left alone");
        OBLIGATION(!(g_k < g_n0 && g_fill0k && g_k != j) || (g_fill[g_k] && !(g_mod && g_mod_cell == CELL(g_k))), "C01.once: every other proxy that was linked is still linked from the same link");
        VACUITY_CASE(g_cas_ok && j > 0, "last proxy popped from behind skipped ones"); VACUITY_CASE(!g_cas_ok && g_n0 == j + 1, "pop of the only/last proxy racing with a push behind it");
        VACUITY_CASE(!g_cas_ok && j > 2 && g_n0 > j + 1, "pop from the middle");
    }
    VACUITY_CASE(r == NULL && g_n0 > 1 && iso != no_isolation, "nothing eligible");
    VACUITY_END();
}
#endif

#ifdef MAILPUSH
/* mail_outbox::push, one pusher against the consumer and any number of other pushers.  T is the proxy being pushed (not in any mailbox: precondition of push), CT its own link,
   L the link the exchange returned.  Only the contents of CT and L matter. */
static struct outbox S; static proxy *const T = PROXY(MB_NMAX + 5); static cell_t L; static proxy *ct_val, *l_val; static int phase, g_xchg, g_linkst; static cell_t g_last_at_xchg;
#define CT CELL_OF(T)
static void interfere(void) {
    if (phase == 0) { S.my_last = (cell_t)nondet_ptr(); __CPROVER_assume(S.my_last != NULL && S.my_last != CT); }        /* a proxy that is not in the mailbox is referenced by nobody */
    else if (phase == 1) { S.my_last = (cell_t)nondet_ptr(); __CPROVER_assume(S.my_last != NULL && S.my_last != L);       /* rely (mail.pop guarantee + this job for other pushers): nobody but me writes L while I am pending on it, and it cannot become my_last again before it was filled */
        if (S.my_last != CT) ct_val = nondet_ptr(); }                                                                      /* a later pusher may link its proxy behind mine */
    else { S.my_last = (cell_t)nondet_ptr(); ct_val = nondet_ptr(); l_val = nondet_ptr(); }
}
static void cell_store(cell_t c, proxy *v) {
    interfere();
    if (phase == 0) { __CPROVER_assert(c == CT, "guarantee: before its exchange a pusher writes only the link of its own, still private proxy"); ct_val = v; }
    else if (phase == 1) { __CPROVER_assert(c == L, "C01.mail: the pushed proxy is linked behind the link the exchange returned, nowhere else");
        __CPROVER_assert(l_val == NULL, "C01.mail: the link being filled was empty"); __CPROVER_assert(v == T, "C01.mail: the link receives the pushed proxy itself");
        if (c == L) l_val = v; g_linkst++; phase = 2; }
    else __CPROVER_assert(0, "C01.mail: the proxy is linked exactly once - no link is written after that");
}
static cell_t last_xchg(cell_t v) {
    interfere(); __CPROVER_assert(phase == 0, "C01.mail: my_last is exchanged exactly once per push");
    L = g_last_at_xchg = S.my_last; l_val = NULL /* invariant of the mailbox: the link my_last points at is empty */; S.my_last = v; g_xchg++; phase = 1;
    __CPROVER_assert(v == CT, "C01.mail: the new last link is the pushed proxy's own link");
    __CPROVER_assert(v != CT || ct_val == NULL, "guarantee: the link my_last points at is empty - the proxy's own link is cleared before the proxy is published");
    return L;
}
#define ATOMIC_STORE_AT(site, c, v) cell_store((c), (v))
#define ATOMIC_XCHG_AT(site, f, v) last_xchg(v)
#include "mail_push.inc"
void h_mail_push(void) {
    phase = 0; g_xchg = g_linkst = 0; ct_val = nondet_ptr(); l_val = nondet_ptr(); L = NULL; S.my_last = (cell_t)nondet_ptr(); __CPROVER_assume(S.my_last != NULL && S.my_last != CT);
    outbox_push(&S, T);
    OBLIGATION(g_xchg == 1 && g_linkst == 1 && phase == 2, "C01.once: a push exchanges my_last once and links the proxy exactly once");
    VACUITY_END();
}
#endif

#ifdef GMT
/* task_dispatcher::get_mailbox_task: the recipient's side of task-to-thread affinity.  mail_inbox::pop hands out a proxy at most once (job mail.pop: the proxy it returns is unlinked), so the
   stub returns THE i-th proxy at its i-th call; extract_task<mailbox_bit> yields the task iff the pool side has not claimed it (job proxy.extract).  Facts for one arbitrary proxy g_k. */
typedef struct task task; typedef struct proxy proxy;
#define pool_bit ((intptr_t)1)
#define mailbox_bit ((intptr_t)2)
struct inbox { int d; };
struct thread_data { unsigned short my_arena_index; };
struct task_dispatcher { struct thread_data *m_thread_data; };
typedef struct execution_data_ext { slot_id original_slot, affinity_slot; struct task_dispatcher *task_disp; } execution_data_ext;
#define PROXY(i) ((proxy *)(((uintptr_t)(i) + 1) << 4))
#define INNER(i) ((task *)((((uintptr_t)(i) + 1) << 4) | 4))
#define PIDX(p) ((size_t)(((uintptr_t)(p)) >> 4) - 1)
static struct inbox IB; size_t g_pops, g_k; int g_ext_k, g_del_k; bool g_has_k, g_last_has, g_last_ext, g_last_del, g_pop_null; isolation_type g_isoarg;
static proxy *STUB_inbox_pop(struct inbox *ib, isolation_type iso) {
    __CPROVER_assert(ib == &IB && iso == g_isoarg, "C01.mail: the dispatcher pops its own inbox, under the isolation level it was asked for");
    __CPROVER_assert(g_pops == 0 || g_last_ext, "C01.once: a proxy taken out of the mailbox is never dropped: its task is extracted before the next one is popped");
    __CPROVER_assert(g_pops == 0 || g_last_has || g_last_del, "C01.proxy: an emptied proxy taken from the mailbox is freed before the next one is popped");
    if (g_pops >= ((size_t)1 << 40) || nondet_bool()) { g_pop_null = true; return NULL; }
    g_last_ext = g_last_del = g_last_has = false; return PROXY(g_pops++);
}
static task *STUB_proxy_extract_task(proxy *tp, intptr_t from_bit) {
    __CPROVER_assert(from_bit == mailbox_bit, "C01.proxy: a proxy that came out of the mailbox is claimed from the mailbox side (extract_task<mailbox_bit>)");
    __CPROVER_assert(g_pops > 0 && tp == PROXY(g_pops - 1) && !g_last_ext, "C01.once: the task is extracted from the proxy just popped, once");
    g_last_ext = true; g_last_has = nondet_bool(); if (PIDX(tp) == g_k) { g_ext_k++; g_has_k = g_last_has; }
    return g_last_has ? INNER(PIDX(tp)) : NULL;
}
static void STUB_delete_proxy(proxy *tp) {
    __CPROVER_assert(g_pops > 0 && tp == PROXY(g_pops - 1) && g_last_ext && !g_last_has, "C01.proxy: the mailbox side frees a proxy only after it found it empty (the pool side took the task and left the proxy to this side); a proxy that still carries its task for the pool side is never freed here");
    __CPROVER_assert(!g_last_del, "C01.proxy: a proxy is freed at most once");
    g_last_del = true; if (PIDX(tp) == g_k) g_del_k++;
}
#define LOOP_gmt_1 __CPROVER_assigns(tp, g_pops, g_pop_null, g_ext_k, g_del_k, g_has_k, g_last_has, g_last_ext, g_last_del) \
  __CPROVER_loop_invariant(!g_pop_null && (g_pops == 0 || (g_last_ext && !g_last_has && g_last_del)) && (g_k < g_pops ? (g_ext_k == 1 && !g_has_k && g_del_k == 1) : (g_ext_k == 0 && g_del_k == 0)) \
     && ed->original_slot == g_os0 && ed->affinity_slot == g_as0)
slot_id g_os0, g_as0;
#include "get_mailbox_task.inc"
void h_get_mailbox_task(void) {
    struct thread_data td; td.my_arena_index = nondet_ushort(); struct task_dispatcher disp; disp.m_thread_data = &td; execution_data_ext ed; ed.task_disp = &disp; g_os0 = ed.original_slot = nondet_ushort(); g_as0 = ed.affinity_slot = nondet_ushort();
    g_pops = 0; g_k = nondet_size_t(); g_ext_k = g_del_k = 0; g_has_k = false; g_pop_null = false; g_last_ext = g_last_del = g_last_has = false; g_isoarg = nondet_size_t();
    task *r = disp_get_mailbox_task(&disp, &IB, &ed, g_isoarg);
    if (r != NULL) {
        OBLIGATION(g_pops > 0 && r == INNER(g_pops - 1) && g_last_ext && g_last_has && !g_last_del, "C01.once: the task returned is the one the last popped proxy stood for, extracted once; that proxy is left for the pool side to free");
        OBLIGATION(ed.affinity_slot == td.my_arena_index && ed.original_slot == (slot_id)-2, "C01.proxy: the affinity bookkeeping records that the task arrived by mail at this thread's slot");
    } else {
        OBLIGATION(g_pop_null, "C01.mail: get_mailbox_task gives up only when the mailbox has nothing (eligible) left");
        OBLIGATION(ed.affinity_slot == g_as0 && ed.original_slot == g_os0, "C01.proxy: without a task the execution data is left alone");
    }
    if (g_k < g_pops) OBLIGATION(g_ext_k == 1 && (g_has_k ? (g_del_k == 0 && r == INNER(g_k)) : g_del_k == 1), "C01.once: every proxy popped was asked for its task exactly once; it either yielded the task that is returned, or was empty and freed exactly once - none is lost, none is freed while it still carries a task");
    else OBLIGATION(g_ext_k == 0 && g_del_k == 0, "C01.mail: proxies that were not popped are not touched");
    VACUITY_CASE(r != NULL && g_pops > 2, "task found behind emptied proxies"); VACUITY_CASE(r == NULL && g_pops > 1, "only emptied proxies");
    VACUITY_END();
}
#endif

#ifdef WAITCTX
/* wait_context (through wait_context_vertex): the group-level count of outstanding work.  Rely/guarantee on the one word m_ref_count: `mine` = references this thread holds (is entitled to
   release), `others` = references held by all other threads; others only reserve, or release what they hold.  User-visible counts are 32 bit: total below 2^32. */
struct wait_context { uint64_t m_version_and_traits; uint64_t m_ref_count; };
struct wait_context_vertex { struct wait_context m_wait; };
static struct wait_context_vertex V; uint64_t mine, others, g_new, g_seen; int g_fa, g_ld, g_notify; uintptr_t g_notify_addr;
#define WLIMIT (((uint64_t)1 << 32) - 1)
#define WINV (V.m_wait.m_ref_count == mine + others && mine <= WLIMIT && others <= WLIMIT && mine + others <= WLIMIT)
uint64_t g_room;   /* references this call is about to add: the total stays in the 32-bit range (assumption: the user-visible interface is 32 bit) */
static void interfere(void) { others = nondet_u64(); V.m_wait.m_ref_count = mine + others; __CPROVER_assume(WINV && mine + others + g_room <= WLIMIT); }
#define ATOMIC_FETCH_ADD_AT(site, f, v) ({ interfere(); uint64_t o_ = (f); (f) = o_ + (v); g_fa++; g_new = (f); mine = mine + (v); g_room = 0; \
    __CPROVER_assert(WINV, "guarantee: the counter equals the number of outstanding references - it never goes negative and never leaves the 32-bit range, at " #site); o_; })
#define ATOMIC_LOAD_AT(site, f) ({ interfere(); g_ld++; g_seen = (f); g_seen; })
static void STUB_notify_waiters(uintptr_t a) { g_notify++; g_notify_addr = a; }
#include "waitctx.inc"
uint64_t IN_mine, IN_others; uint32_t IN_delta;
static uint32_t world(void) { mine = IN_mine = nondet_u64(); others = IN_others = nondet_u64(); V.m_wait.m_ref_count = mine + others; __CPROVER_assume(WINV); g_fa = g_ld = g_notify = 0; g_notify_addr = 0; g_room = 0; return IN_delta = nondet_u32(); }
void h_wait_release(void) {
    uint32_t d = world(); __CPROVER_assume(d >= 1 && d <= mine);                       /* a thread releases only references it holds */
    uint64_t m0 = mine; wcv_release(&V, d); interfere();
    OBLIGATION(g_fa == 1 && mine == m0 - d, "C01.wait: release(d) takes exactly d references off the count, in one atomic step");
    OBLIGATION(g_notify == (g_new == 0 ? 1 : 0) && (g_notify == 0 || g_notify_addr == (uintptr_t)&V.m_wait), "C01.wait: the waiters of this wait_context are notified by the release that brings the count to zero, once, and by no other release");
    VACUITY_CASE(g_notify == 1, "last release"); VACUITY_CASE(g_notify == 0, "not the last release");
    VACUITY_END();
}
void h_wait_reserve(void) {
    uint32_t d = world(); __CPROVER_assume(d >= 1 && mine + others + d <= WLIMIT); g_room = d;
    uint64_t m0 = mine; wcv_reserve(&V, d);
    OBLIGATION(g_fa == 1 && mine == m0 + d, "C01.wait: reserve(d) adds exactly d references, in one atomic step");
    OBLIGATION(g_notify == 0, "C01.wait: reserving work never wakes the waiters");
    VACUITY_END();
}
void h_wait_continue(void) {
    world(); uint64_t m0 = mine; bool r = wcv_continue_execution(&V);
    OBLIGATION(g_ld == 1 && g_fa == 0 && mine == m0, "C01.wait: continue_execution only reads the count");
    OBLIGATION(r == (g_seen != 0), "C01.wait: continue_execution() is false exactly when, at the moment it looked, all references had been released");
    OBLIGATION(!(m0 > 0) || r, "C01.wait: a waiter never sees the work as finished while a reference (a submitted unit that has not finished) is outstanding");
    VACUITY_END();
}
#endif

#ifdef STREAM
/* task_stream<accessor>: N lanes (std::deque + mutex each) and the population word (bit l set = lane l may hold a task).  Facts are stated for ONE arbitrary lane g_l; its deque is a window
   [g_b, g_e) of a tape whose entry i is nullptr (look_specific leaves such holes) or THE i-th task (tasks in a lane are pairwise distinct by representation).
   Lane invariant SQ_INV: whenever lane g_l's mutex is free, bit g_l of the population word is set exactly if the deque is non-empty.  Closed world (scan in spec.py): the population word is
   written only by set_one_bit / clear_one_bit, called from try_push / try_pop / pop_specific - each proved here to call them for lane l only while holding lane l's mutex. */
typedef struct task task; typedef uintptr_t population_t; typedef size_t lane_t, queue_t, qiter_t, mutex_ref;
typedef struct { bool held; size_t lane; } scoped_lock_t;
typedef struct lane_selector { unsigned *my_previous; } lane_selector_t;
struct task_stream { population_t population; unsigned N; void *lanes; };
#define one ((population_t)1)
#define SQ_NMAX ((size_t)1 << 12)
#define TASKPTR(i) ((task *)(((uintptr_t)(i) + 1) << 4))
#define TIDX(p) ((size_t)(((uintptr_t)(p)) >> 4) - 1)
static struct task_stream TS; static unsigned g_l; static bool g_me_holds /* I hold lane g_l's mutex (tracked critical section) */, g_cur_held; static size_t g_cur_lane /* the lane whose mutex I hold, if any */; static unsigned long g_acquires, g_popw;
static size_t g_cap, g_b, g_e, g_b0, g_e0, g_k; static bool *g_null, g_null0k; static isolation_type *g_iso; static task *g_src; static int g_pushes; static size_t g_src_pos;
#define BIT_L (((TS.population >> g_l) & 1) != 0)
#define LIVE0(i) (g_b0 <= (i) && (i) < g_e0 && !g_null0k)                /* for i == g_k only */
#define LIVE(i) (g_b <= (i) && (i) < g_e && (i) < g_cap && !g_null[i])
#define LANE(self, i) ({ __CPROVER_assert((i) < (self)->N, "C01.stream: lane index below N"); (size_t)(i); })
#define LANE_MUTEX(self, i) LANE(self, i)
#define LANE_QUEUE(self, i) LANE(self, i)
#define LANE_M(l) (l)
#define LANE_Q(l) (l)
#define TASK_ISOLATION(p) (g_iso[TIDX(p)])
/* other threads: any bit of another lane may change at any time; bit g_l and lane g_l's deque only while I do not hold lane g_l's mutex */
static void interfere(void) { population_t o = TS.population; TS.population = nondet_uintptr_t(); if (g_me_holds) __CPROVER_assume(((TS.population ^ o) & (one << g_l)) == 0); }
#define ATOMIC_LOAD_AT(site, f) ({ interfere(); (f); })
#define ATOMIC_FETCH_OR_AT(site, f, v) ({ interfere(); population_t o_ = (f); (f) = o_ | (v); g_popw++; __CPROVER_assert(((o_ ^ (f)) & ~(g_cur_held ? (one << g_cur_lane) : (population_t)0)) == 0, "guarantee: a population bit is written only for the lane whose mutex the writer holds"); o_; })
#define ATOMIC_FETCH_AND_AT(site, f, v) ({ interfere(); population_t o_ = (f); (f) = o_ & (v); g_popw++; __CPROVER_assert(((o_ ^ (f)) & ~(g_cur_held ? (one << g_cur_lane) : (population_t)0)) == 0, "guarantee: a population bit is written only for the lane whose mutex the writer holds"); o_; })
#include "stream_bits.inc"
#endif

#if defined(STREAM) && !defined(SQ_ABSTRACT)
/* ---- the tracked deque of lane g_l ---- */
#define QCHK(q) __CPROVER_assert((q) == g_l && g_me_holds, "C01.stream: a lane's deque is touched only under that lane's mutex")
static bool q_empty(queue_t q) { QCHK(q); return g_b == g_e; }
static task *q_entry(size_t i) { return g_null[i] ? (task *)NULL : (i == g_src_pos && g_pushes ? g_src : TASKPTR(i)); }
static task *q_front(queue_t q) { QCHK(q); __CPROVER_assert(g_b < g_e, "C01.stream: front() of a non-empty deque"); return q_entry(g_b); }
static void q_pop_front(queue_t q) { QCHK(q); __CPROVER_assert(g_b < g_e, "C01.stream: pop_front() of a non-empty deque"); g_b++; }
static task *q_back(queue_t q) { QCHK(q); __CPROVER_assert(g_b < g_e, "C01.stream: back() of a non-empty deque"); return q_entry(g_e - 1); }
static void q_pop_back(queue_t q) { QCHK(q); __CPROVER_assert(g_b < g_e, "C01.stream: pop_back() of a non-empty deque"); g_e--; }
static void q_push_back(queue_t q, task *v) { QCHK(q); __CPROVER_assert(v == g_src && v != NULL, "C01.stream: the task appended is the task handed to push"); g_null[g_e] = false; g_src_pos = g_e; g_e++; g_pushes++; }
static task *q_at(queue_t q, size_t i) { QCHK(q); __CPROVER_assert(g_b <= i && i < g_e, "C01.stream: an iterator is dereferenced only inside the deque"); return q_entry(i); }
static void q_set(queue_t q, size_t i, task *v) { QCHK(q); __CPROVER_assert(g_b <= i && i < g_e, "C01.stream: an iterator is written through only inside the deque"); __CPROVER_assert(v == NULL, "C01.stream: only nullptr ever overwrites an entry"); g_null[i] = true; }
#define Q_EMPTY(q) q_empty(q)
#define Q_FRONT(q) q_front(q)
#define Q_POP_FRONT(q) q_pop_front(q)
#define Q_BACK(q) q_back(q)
#define Q_POP_BACK(q) q_pop_back(q)
#define Q_PUSH_BACK(q, v) q_push_back((q), (v))
#define Q_END(q) ({ QCHK(q); g_e; })
#define Q_BEGIN(q) ({ QCHK(q); g_b; })
#define Q_AT(q, i) q_at((q), (i))
#define Q_SET(q, i, v) q_set((q), (i), (v))
/* the deque of lane g_l as found when its mutex is obtained: anything that satisfies the lane invariant */
static void open_lane(void) { g_b0 = g_b = nondet_size_t(); g_e0 = g_e = nondet_size_t(); __CPROVER_assume(g_b <= g_e && g_e < g_cap); g_null0k = g_null[g_k]; g_me_holds = true; g_cur_held = true; g_cur_lane = g_l; g_acquires++;
    TS.population = (TS.population & ~(one << g_l)) | ((population_t)(g_b < g_e) << g_l); }
#define SCOPED_LOCK_INIT(L) ((L).held = false)
#define SCOPED_TRY_ACQUIRE(L, m) ({ bool ok_ = nondet_bool(); __CPROVER_assert((m) == g_l && !(L).held && !g_me_holds, "C01.stream: the mutex tried is the one of the lane being worked on, once"); if (ok_) { (L).held = true; (L).lane = (m); open_lane(); } ok_; })
#define SCOPED_LOCK_EXIT(L) do { if ((L).held) { __CPROVER_assert(BIT_L == (g_b < g_e), "C01.stream: when a lane's mutex is released its population bit is set exactly if the lane is non-empty - no task stays invisible, no empty lane stays advertised"); (L).held = false; g_me_holds = false; g_cur_held = false; } } while (0)
static void mk_stream(void) {
    unsigned s = nondet_unsigned(); __CPROVER_assume(s >= 1 && s <= 6); TS.N = 1u << s; TS.population = nondet_uintptr_t(); g_l = nondet_unsigned(); __CPROVER_assume(g_l < TS.N);
    g_cap = nondet_size_t(); __CPROVER_assume(g_cap >= 2 && g_cap <= SQ_NMAX); g_null = malloc(g_cap * sizeof(bool)); g_iso = malloc(g_cap * sizeof(isolation_type)); __CPROVER_assume(g_null && g_iso);
    g_k = nondet_size_t(); __CPROVER_assume(g_k < g_cap); g_me_holds = g_cur_held = false; g_acquires = g_popw = g_pushes = 0; g_src = (task *)(uintptr_t)((SQ_NMAX + 9) << 4); g_src_pos = 0; g_b = g_e = g_b0 = g_e0 = 0;
}
size_t IN_b, IN_e, IN_k, IN_iso;
#endif

#ifdef SQ_LOOK
#define LOOP_look_specific_1 __CPROVER_assigns(curr) __CPROVER_loop_invariant(g_b == g_b0 && g_e == g_e0 && g_b0 < curr && curr <= g_e0 && g_null[g_k] == g_null0k) __CPROVER_decreases(curr)
#include "stream_look_specific.inc"
void h_look_specific(void) {
    mk_stream(); open_lane(); __CPROVER_assume(g_b < g_e); IN_b = g_b; IN_e = g_e; IN_k = g_k;          /* callers: under the lane mutex, after !empty() */
    isolation_type iso = IN_iso = nondet_size_t();
    task *r = stream_look_specific(&TS, g_l, iso);
    OBLIGATION(g_b >= g_b0 && g_e <= g_e0, "C01.stream: look_specific does not make the lane grow");
    if (r == NULL) OBLIGATION(g_e == g_e0 && g_null[g_k] == g_null0k, "C01.stream: a search that finds nothing leaves the lane as it was");
    else { size_t j = TIDX(r);
        OBLIGATION(r == TASKPTR(j) && g_b0 <= j && j < g_e0 && (j != g_k || !g_null0k), "C01.stream: the task found is one that was in this lane");
        OBLIGATION(g_iso[j] == iso, "C01.iso: look_specific hands out only a task of the isolation level asked for");
        OBLIGATION(!(g_b <= j && j < g_e) || g_null[j], "C01.once: the task found is taken out of the lane (popped from the back, or overwritten with nullptr) - it cannot be found a second time");
        OBLIGATION(g_k == j || !LIVE0(g_k) || LIVE(g_k), "C01.once: every other task of the lane is still there - nothing else is lost");
    }
    VACUITY_CASE(r != NULL && TIDX(r) + 1 < g_e0, "found in the middle"); VACUITY_CASE(r != NULL && TIDX(r) + 1 == g_e0, "found at the back");
    VACUITY_END();
}
#endif

#ifdef SQ_GETITEM
#define LOOP_get_item_back_1 __CPROVER_assigns(result, g_e) __CPROVER_loop_invariant(g_b == g_b0 && g_b < g_e && g_e <= g_e0 && (g_e < g_e0 ? result == NULL : 1) && ((g_e <= g_k && g_k < g_e0) ? g_null0k : 1) && g_null[g_k] == g_null0k) __CPROVER_decreases(g_e)
#include "stream_get_item_front.inc"
#include "stream_get_item_back.inc"
void h_get_item_front(void) {
    mk_stream(); open_lane(); __CPROVER_assume(g_b < g_e); IN_b = g_b; IN_e = g_e; IN_k = g_k; bool nullfront = g_null[g_b];
    task *r = front_get_item(g_l);
    OBLIGATION(g_b >= g_b0 && g_e <= g_e0, "C01.stream: get_item does not make the lane grow");
    if (r != NULL) { size_t j = TIDX(r);
        OBLIGATION(r == TASKPTR(j) && g_b0 <= j && j < g_e0 && (j != g_k || !g_null0k), "C01.once: the task returned is one that was in this lane");
        OBLIGATION(!LIVE(j), "C01.once: the task returned is no longer in the lane - it cannot be handed out a second time");
        OBLIGATION(j == g_k || !LIVE0(g_k) || LIVE(g_k), "C01.once: every other task of the lane is still there - a removed task is never dropped");
    } else OBLIGATION(!LIVE0(g_k) || LIVE(g_k), "C01.once: when nothing is returned no task was removed (only a nullptr hole)");
    VACUITY_CASE(r != NULL, "task"); VACUITY_CASE(r == NULL && nullfront, "hole");
    VACUITY_END();
}
void h_get_item_back(void) {
    mk_stream(); open_lane(); __CPROVER_assume(g_b < g_e); IN_b = g_b; IN_e = g_e; IN_k = g_k;
    task *r = backnn_get_item(g_l);
    OBLIGATION(g_b >= g_b0 && g_e <= g_e0, "C01.stream: get_item does not make the lane grow");
    if (r != NULL) { size_t j = TIDX(r);
        OBLIGATION(r == TASKPTR(j) && g_b0 <= j && j < g_e0 && (j != g_k || !g_null0k), "C01.once: the task returned is one that was in this lane");
        OBLIGATION(!LIVE(j), "C01.once: the task returned is no longer in the lane - it cannot be handed out a second time");
        OBLIGATION(j == g_k || !LIVE0(g_k) || LIVE(g_k), "C01.once: every other entry popped on the way was a nullptr hole - no task is dropped");
    } else OBLIGATION(!LIVE0(g_k), "C01.stream: the back accessor returns nothing only after the whole lane turned out to be nullptr holes (its callers rely on a non-null result while a task is there)");
    VACUITY_CASE(r != NULL && g_e + 2 < g_e0, "task behind holes"); VACUITY_CASE(r == NULL, "only holes");
    VACUITY_END();
}
#endif

#ifdef SQ_TRYPUSH
#include "stream_try_push.inc"
void h_try_push(void) {
    mk_stream(); IN_k = g_k;
    bool r = stream_try_push(&TS, g_src, g_l); interfere();
    OBLIGATION(!g_me_holds && g_acquires == (r ? 1 : 0), "C01.stream: try_push reports success exactly if it got the lane's mutex, and has released it when it returns");
    if (r) { OBLIGATION(g_pushes == 1 && g_b == g_b0 && g_e == g_e0 + 1 && g_src_pos == g_e0 && !g_null[g_e0], "C01.once: a successful try_push appended the task exactly once, at the back of the lane it was given");
             OBLIGATION(!LIVE0(g_k) || LIVE(g_k), "C01.once: pushing never removes a task"); }
    else OBLIGATION(g_pushes == 0 && g_popw == 0, "C01.once: a failed try_push has put the task nowhere and touched no population bit - the caller may retry another lane without duplicating the task");
    VACUITY_END();
}
#endif

#if defined(SQ_TRYPOP_FRONT) || defined(SQ_TRYPOP_BACK)
#ifdef SQ_TRYPOP_FRONT
#include "stream_get_item_front.inc"
#define ACCESSOR_get_item front_get_item
#else
#define LOOP_get_item_back_1 __CPROVER_assigns(result, g_e) __CPROVER_loop_invariant(g_me_holds && g_b == g_b0 && g_b < g_e && g_e <= g_e0 && (g_e < g_e0 ? result == NULL : 1) && ((g_e <= g_k && g_k < g_e0) ? g_null0k : 1) && g_null[g_k] == g_null0k) __CPROVER_decreases(g_e)
#include "stream_get_item_back.inc"
#define ACCESSOR_get_item backnn_get_item
#endif
#include "stream_try_pop.inc"
void h_try_pop(void) {
    mk_stream(); IN_k = g_k; bool bit0 = BIT_L;
    task *r = stream_try_pop(&TS, g_l);
    OBLIGATION(!g_me_holds && g_acquires <= 1, "C01.stream: try_pop has released the lane's mutex when it returns");
    OBLIGATION(g_acquires == 1 || (r == NULL && g_popw == 0), "C01.stream: without the lane's mutex try_pop takes nothing and writes no population bit");
    if (g_acquires == 1) {
        if (r != NULL) { size_t j = TIDX(r);
            OBLIGATION(r == TASKPTR(j) && g_b0 <= j && j < g_e0 && (j != g_k || !g_null0k), "C01.once: the task popped is one that was in this lane");
            OBLIGATION(!(g_b <= j && j < g_e), "C01.once: the task popped is no longer in the lane - it cannot be popped a second time");
            OBLIGATION(j == g_k || !LIVE0(g_k) || LIVE(g_k), "C01.once: every other task of the lane is still there - nothing is lost");
        } else OBLIGATION(!LIVE0(g_k) || LIVE(g_k), "C01.once: a try_pop that returns nothing has removed no task (at most nullptr holes)");
    }
    VACUITY_CASE(r != NULL && g_b < g_e, "popped, lane still non-empty"); VACUITY_CASE(r != NULL && g_b == g_e, "popped the last task"); VACUITY_CASE(r == NULL && g_acquires == 1 && g_b0 < g_e0, "only a hole popped");
    VACUITY_END();
}
#endif

#if defined(STREAM) && defined(SQ_ABSTRACT)
/* ---- the multi-lane functions: lanes other than g_l are abstract (their deque operations answer anything); of the critical sections on lane g_l ONE arbitrary one is tracked
   (only the number of entries matters for the lane invariant); look_specific / try_push / try_pop are the contracts proved in the jobs stream.look_specific / stream.try_*. ---- */
static size_t g_size; static bool g_tracked_done; static int g_takes; static task *g_taken; static isolation_type g_isoarg;
#define SCOPED_LOCK_INIT(L) ((L).held = false)
#define SCOPED_TRY_ACQUIRE(L, m) ({ bool ok_ = nondet_bool(); __CPROVER_assert(!(L).held && !g_cur_held, "C01.stream: one lane mutex at a time"); \
    if (ok_) { (L).held = true; (L).lane = (m); g_cur_held = true; g_cur_lane = (m); g_acquires++; \
        if ((m) == g_l && !g_tracked_done && nondet_bool()) { g_me_holds = true; g_size = nondet_size_t(); TS.population = (TS.population & ~(one << g_l)) | ((population_t)(g_size != 0) << g_l); } } ok_; })
#define SCOPED_LOCK_EXIT(L) do { if ((L).held) { if (g_me_holds) { __CPROVER_assert(BIT_L == (g_size != 0), "C01.stream: when a lane's mutex is released its population bit is set exactly if the lane is non-empty - no task stays invisible, no empty lane stays advertised"); g_me_holds = false; g_tracked_done = true; } \
    (L).held = false; g_cur_held = false; } } while (0)
static bool q_empty(queue_t q) { __CPROVER_assert(g_cur_held && q == g_cur_lane, "C01.stream: a lane's deque is touched only under that lane's mutex"); return g_me_holds ? g_size == 0 : nondet_bool(); }
#define Q_EMPTY(q) q_empty(q)
static unsigned lane_select(lane_selector_t *sel, unsigned n) { __CPROVER_assert(n == TS.N, "C01.stream: the selector is asked for a lane out of N"); unsigned r = nondet_unsigned(); __CPROVER_assume(r < n); /* proved: job stream.lanes */ return r; }
#define LANE_SELECT(sel, n) lane_select((sel), (n))
static void mk_stream(void) {
    unsigned s = nondet_unsigned(); __CPROVER_assume(s >= 1 && s <= 6); TS.N = 1u << s; TS.population = nondet_uintptr_t(); g_l = nondet_unsigned(); __CPROVER_assume(g_l < TS.N);
    g_me_holds = g_cur_held = g_tracked_done = false; g_acquires = g_popw = g_takes = 0; g_taken = NULL; g_isoarg = nondet_size_t();
}
#endif

#ifdef SQ_POPSPEC
task *stream_look_specific(struct task_stream *self, queue_t q, isolation_type iso) {       /* contract: job stream.look_specific */
    __CPROVER_assert(g_cur_held && q == g_cur_lane, "C01.stream: look_specific runs on the lane whose mutex is held");
    __CPROVER_assert(iso == g_isoarg, "C01.iso: the lane is searched for the isolation level the caller asked for");
    if (g_me_holds) __CPROVER_assert(g_size >= 1, "C01.stream: look_specific is called on a non-empty lane only");
    __CPROVER_assert(g_takes == 0, "C01.once: no further lane is searched once a task was taken - the task in hand would be dropped");
    if (nondet_bool()) return NULL;
    g_takes++; g_taken = (task *)(((uintptr_t)g_takes + 1) << 4); if (g_me_holds && nondet_bool()) g_size--;          /* found at the back: popped; elsewhere: overwritten with nullptr */
    return g_taken;
}
/* "every lane is visited": g_lane is ONE arbitrary lane.  The visits (counted where a lane's population bit is tested) go round the lanes one lane at a time; the direction
   (POPSPEC_BWD / POPSPEC_FWD, read off the sliced text by spec.py) only selects which invariant is offered to CBMC.  The k-th visit looks at lane g_start -+ k, so lane g_lane
   has been visited iff its distance from the first lane visited, in the direction of travel, is below the number of visits.  g_vm counts the visits modulo 2^32 (N divides
   it), g_vs saturates at N. */
static unsigned g_lane, g_vm, g_vs, g_start; static bool g_seen, g_last_empty;
#define LMASK (TS.N - 1)
#ifdef POPSPEC_FWD
#define DIST_LANE ((g_lane - g_start) & LMASK)
#define LANE_AT(k) ((g_start + (k)) & LMASK)
#else
#define DIST_LANE ((g_start - g_lane) & LMASK)
#define LANE_AT(k) ((g_start - (k)) & LMASK)
#endif
#define LOOP_pop_specific_1 __CPROVER_assigns(idx, result, TS.population, g_me_holds, g_cur_held, g_cur_lane, g_tracked_done, g_size, g_acquires, g_popw, g_takes, g_taken, g_vm, g_vs, g_start, g_seen, g_last_empty) \
  __CPROVER_loop_invariant(result == NULL && g_takes == 0 && !g_cur_held && !g_me_holds && idx < TS.N) \
  __CPROVER_loop_invariant(g_vs <= TS.N && (g_vs < TS.N ==> g_vm == g_vs)) \
  __CPROVER_loop_invariant(g_vs == 0 ? idx == __CPROVER_loop_entry(idx) : (g_start == __CPROVER_loop_entry(idx) && idx == LANE_AT(g_vm))) \
  __CPROVER_loop_invariant(g_seen == (g_vs > 0 && DIST_LANE < g_vs))
#include "stream_empty.inc"
static bool stream_empty_noted(struct task_stream *self) { g_last_empty = stream_empty(self); return g_last_empty; }
static bool is_bit_set_noted(population_t val, int pos) { if (g_vs == 0) g_start = (unsigned)pos; if ((unsigned)pos == g_lane) g_seen = true; g_vm++; if (g_vs < TS.N) g_vs++; return is_bit_set(val, pos); }
#define stream_empty(s) stream_empty_noted(s)
#define is_bit_set(v, p) is_bit_set_noted((v), (p))
#include "stream_pop_specific.inc"
#undef stream_empty
#undef is_bit_set
unsigned IN_hint;
void h_pop_specific(void) {
    mk_stream(); unsigned hint = IN_hint = nondet_unsigned();
    g_lane = nondet_unsigned(); __CPROVER_assume(g_lane < TS.N); g_vm = g_vs = 0; g_seen = g_last_empty = false;
    task *r = stream_pop_specific(&TS, &hint, g_isoarg);
    OBLIGATION(r != NULL || g_last_empty || g_seen, "C01.stream: pop_specific gives up without a task only after it has visited EVERY lane (or found the stream empty): a task of the wanted isolation level waiting in any lane is within reach of the waiter - no lane is permanently skipped");
    OBLIGATION(!g_cur_held, "C01.stream: no lane mutex is held when pop_specific returns");
    OBLIGATION(g_takes <= 1 && r == (g_takes == 1 ? g_taken : (task *)NULL), "C01.once: pop_specific takes at most one task out of the lanes, and the task it took is the one it returns - a task taken out of a lane is never dropped");
    VACUITY_CASE(r != NULL && g_tracked_done, "taken from the tracked lane"); VACUITY_CASE(r == NULL && g_acquires > 2, "several lanes searched in vain");
    VACUITY_END();
}
#endif

#ifdef SQ_PUSH
static task *const g_src = (task *)(uintptr_t)(9 << 4); static int g_pushes; static unsigned g_push_lane;
bool stream_try_push(struct task_stream *self, task *source, unsigned lane_idx) {             /* contract: job stream.try_push */
    __CPROVER_assert(lane_idx < self->N, "C01.stream: lane index below N"); __CPROVER_assert(source == g_src, "C01.stream: the task offered to a lane is the task handed to push");
    __CPROVER_assert(g_pushes == 0, "C01.once: no lane is tried after one has accepted the task");
    if (nondet_bool()) { g_pushes++; g_push_lane = lane_idx; return true; } return false;
}
#define LOOP_push_1 __CPROVER_assigns(lane, succeed, g_pushes, g_push_lane) __CPROVER_loop_invariant(g_pushes == 0)
#include "stream_push.inc"
void h_push(void) {
    mk_stream(); g_pushes = 0; lane_selector_t sel;
    stream_push(&TS, g_src, &sel);
    OBLIGATION(g_pushes == 1 && g_push_lane < TS.N, "C01.once: push returns after exactly one lane accepted the task - the task is in exactly one lane");
    VACUITY_END();
}
#endif

#ifdef SQ_POP
task *stream_try_pop(struct task_stream *self, unsigned lane_idx) {                            /* contract: jobs stream.try_pop.* */
    __CPROVER_assert(lane_idx < self->N, "C01.stream: lane index below N");
    __CPROVER_assert(g_takes == 0, "C01.once: no further lane is tried once a task was taken - the task in hand would be dropped");
    if (nondet_bool()) return NULL;
    g_takes++; g_taken = (task *)(((uintptr_t)g_takes + 1) << 4); return g_taken;
}
#define LOOP_pop_1 __CPROVER_assigns(lane, popped, TS.population, g_takes, g_taken) __CPROVER_loop_invariant(popped == NULL ? g_takes == 0 : (g_takes == 1 && popped == g_taken))
#include "stream_empty.inc"
#include "stream_pop.inc"
void h_pop(void) {
    mk_stream(); lane_selector_t sel;
    task *r = stream_pop(&TS, &sel);
    OBLIGATION(g_takes <= 1 && r == (g_takes == 1 ? g_taken : (task *)NULL), "C01.once: pop takes at most one task out of the lanes and returns exactly the task it took - a task taken out of a lane is never dropped");
    VACUITY_CASE(r != NULL, "popped"); VACUITY_CASE(r == NULL, "stream seen empty");
    VACUITY_END();
}
#endif

#ifdef SQ_LANES
static unsigned STUB_random_get(struct lane_selector *s) { return nondet_unsigned(); }
static unsigned g_alloc_n, g_constructed, g_k2; static int g_ck; static char LANES_TOKEN;
static void *STUB_allocate_lanes(unsigned n) { g_alloc_n = n; return &LANES_TOKEN; }
static void STUB_construct_lane(void *lanes, unsigned i) { __CPROVER_assert(lanes == &LANES_TOKEN && i < g_alloc_n, "C01.stream: a lane is constructed inside the allocated array"); g_constructed++; if (i == g_k2) g_ck++; }
#define LOOP_initialize_1 __CPROVER_assigns(i, g_constructed, g_ck) __CPROVER_loop_invariant(i <= self->N && g_constructed == i && (g_k2 < i ? g_ck == 1 : g_ck == 0)) __CPROVER_decreases(self->N - i)
#include "stream_lanes.inc"
unsigned IN_prev, IN_n, IN_lanes;
void h_lane_selectors(void) {
    unsigned s = nondet_unsigned(); __CPROVER_assume(s >= 1 && s <= 6); unsigned N = IN_n = 1u << s; unsigned prev = IN_prev = nondet_unsigned(); struct lane_selector sel; sel.my_previous = &prev;
    unsigned which = nondet_unsigned() % 3;
    unsigned r = which == 0 ? subsequent_lane_selector_call(&sel, N) : which == 1 ? preceding_lane_selector_call(&sel, N) : random_lane_selector_call(&sel, N);
    OBLIGATION(r < N, "C01.stream: every lane selector returns a lane index below N (N a power of two)");
    OBLIGATION(which == 2 || prev == r, "C01.stream: the sequential selectors remember the lane they returned");
    VACUITY_END();
}
void h_stream_initialize(void) {
    unsigned n = IN_lanes = nondet_unsigned(); g_constructed = 0; g_ck = 0; g_k2 = nondet_unsigned(); TS.population = 0;
    stream_initialize(&TS, n);
    OBLIGATION(TS.N >= 2 && TS.N <= 64 && (TS.N & (TS.N - 1)) == 0, "C01.stream: the number of lanes is a power of two between 2 and the width of the population word");
    OBLIGATION(g_alloc_n == TS.N && g_constructed == TS.N && (g_k2 < TS.N ? g_ck == 1 : g_ck == 0), "C01.stream: exactly N lanes are allocated and each is constructed once");
    VACUITY_END();
}
#endif

#ifdef GLUE
/* The glue between the user-level group and the scheduler.  A wait-tree vertex is a ghost event recorder: the order of reserve / body / release / free / spawn is what the property needs:
   a unit handed to the group holds a reference of the group's wait context from before it becomes reachable by another thread until after its body has returned (or it was cancelled). */
typedef struct task { struct tgc *context; isolation_type isolation; bool is_proxy; } task;
typedef struct vertex_ { int reserved, released; } vertex; struct tgc { int d; }; struct soa { int pool; }; struct func { int d; }; struct execution_data { struct tgc *context; };
struct wait_context_vertex { vertex v; };
struct fntask { task base; uint64_t m_version_and_traits; vertex *m_wait_tree_vertex; struct tgc *m_ctx; struct soa m_allocator; struct func *m_func; };
struct stacktask { task base; struct func *m_func; vertex *m_wait_tree_vertex; };
struct task_group_base { struct wait_context_vertex m_wait_vertex; struct tgc m_context; };
typedef enum { not_complete, complete, canceled } task_group_status;
static vertex THREAD_VERTEX; static struct func FN; static struct task_group_base G; static struct fntask FT; static struct stacktask ST;
int g_calls, g_freed, g_dtor, g_alloc, g_spawned, g_waits, g_reads, g_resets; bool g_cancelled_at_read, g_body_done_at_release, g_released_at_free, g_reserved_at_spawn, g_reserved_at_call, g_released_at_call, g_waited_at_read, g_read_at_reset;
#define VERTEX_reserve(v) do { (v)->reserved++; } while (0)
#define VERTEX_release(v) do { (v)->released++; g_body_done_at_release = (g_calls == 1); } while (0)
#define CALL_FUNC(f) do { __CPROVER_assert((f) == &FN, "C01.once: the body called is the one that was submitted"); g_calls++; g_reserved_at_call = (THREAD_VERTEX.reserved == 1); g_released_at_call = (THREAD_VERTEX.released != 0); } while (0)
void tht_dtor(struct fntask *self);
#define DELETE_OBJECT_ED(a, obj, ed) do { __CPROVER_assert((a) == &(obj)->m_allocator, "C01.glue: the task is freed through its own allocator"); tht_dtor(obj); g_dtor++; g_released_at_free = ((obj)->m_wait_tree_vertex->released == 1); g_freed++; } while (0)
#define DELETE_OBJECT(a, obj) DELETE_OBJECT_ED(a, obj, NULL)
void tht_ctor(struct fntask *self, vertex *vertex_, struct tgc *ctx, struct soa *alloc);
static task *new_function_task(struct soa *a, struct func *f, vertex *v, struct tgc *c) { g_alloc++; FT.m_func = f; tht_ctor(&FT, v, c, a); return &FT.base; }       /* new_object<function_task>: allocation, then the (sliced) base constructor; m_func copies f */
#define NEW_function_task(a, f, v, c) new_function_task((a), (f), (v), (c))
static vertex *STUB_get_thread_reference_vertex(struct wait_context_vertex *top) { __CPROVER_assert(top == &G.m_wait_vertex, "C01.wait: the task's reference is taken in the wait tree of THIS group"); return &THREAD_VERTEX; }   /* C14: wait.reference_vertex.* forwards the first reserve / last release to `top` */
#define tgb_context(self) (&(self)->m_context)      /* task_group_context::actual_context(): the group's own or its proxied context */
#define D1_spawn(t, c) do { __CPROVER_assert((t) == &FT.base && (c) == &G.m_context, "C01.glue: the task spawned is the one just prepared, in the group's context"); g_spawned++; g_reserved_at_spawn = (THREAD_VERTEX.reserved == 1 && THREAD_VERTEX.released == 0); } while (0)
#define WCV_get_context(v) (v)
#define STUB_d1_wait(w, c) do { __CPROVER_assert((w) == &G.m_wait_vertex && (c) == &G.m_context, "C01.wait: task_group::wait waits on the group's own wait context"); g_waits++; } while (0)
static bool TGC_is_group_execution_cancelled(struct tgc *c) { g_reads++; g_waited_at_read = (g_waits >= 1); return g_cancelled_at_read = nondet_bool(); }
#define TGC_reset(c) do { g_resets++; g_read_at_reset = (g_reads == 1); } while (0)
#include "glue_group.inc"
static void world(void) { THREAD_VERTEX.reserved = THREAD_VERTEX.released = 0; g_calls = g_freed = g_dtor = g_alloc = g_spawned = g_waits = g_reads = g_resets = 0; }
void h_group_run(void) {
    world(); tg_run(&G, &FN);
    OBLIGATION(g_alloc == 1 && g_spawned == 1, "C01.once: run(f) creates one task and spawns it once");
    OBLIGATION(g_reserved_at_spawn && THREAD_VERTEX.reserved == 1 && THREAD_VERTEX.released == 0, "C01.wait: the task holds its reference of the group's wait context before it is spawned (from then on another thread may run it), and still holds it when run() returns");
    OBLIGATION(FT.m_wait_tree_vertex == &THREAD_VERTEX && FT.m_ctx == &G.m_context && FT.m_func == &FN && g_calls == 0, "C01.glue: the task remembers where to release, under which context it runs and what to call; run() does not call f itself");
    VACUITY_END();
}
void h_function_task(void) {
    world(); struct soa a; a.pool = nondet_int(); FT.m_func = &FN; tht_ctor(&FT, &THREAD_VERTEX, &G.m_context, &a); struct execution_data ed; ed.context = &G.m_context;
    bool cancelled = nondet_bool(); task *next = cancelled ? ft_cancel(&FT, &ed) : ft_execute(&FT, &ed);
    OBLIGATION(g_calls == (cancelled ? 0 : 1), "C01.once: executing the task calls the submitted body exactly once; cancelling it calls nothing");
    OBLIGATION(cancelled || (g_reserved_at_call && !g_released_at_call), "C01.wait: the body runs while the task still holds its wait reference");
    OBLIGATION(THREAD_VERTEX.reserved == 1 && THREAD_VERTEX.released == 1 && (cancelled || g_body_done_at_release), "C01.wait: the reference taken at creation is released exactly once, after the body has returned (or instead of it, when cancelled)");
    OBLIGATION(g_freed == 1 && g_dtor == 1 && g_released_at_free, "C01.glue: the task object is destroyed exactly once; its destructor is what releases the reference");
    OBLIGATION(next == NULL, "C01.glue: no follow-up task in this configuration");
    VACUITY_END();
}
void h_stack_task(void) {
    world(); fst_ctor(&ST, &FN, &THREAD_VERTEX);
    OBLIGATION(THREAD_VERTEX.reserved == 1 && THREAD_VERTEX.released == 0, "C01.wait: run_and_wait's task holds a wait reference from its construction");
    bool cancelled = nondet_bool(); task *next = cancelled ? fst_cancel(&ST) : fst_execute(&ST);
    OBLIGATION(g_calls == (cancelled ? 0 : 1) && (cancelled || (g_reserved_at_call && !g_released_at_call)), "C01.once: the body is called exactly once when executed, never when cancelled, and while the reference is held");
    OBLIGATION(THREAD_VERTEX.reserved == 1 && THREAD_VERTEX.released == 1 && (cancelled || g_body_done_at_release) && next == NULL, "C01.wait: the reference is released exactly once, after the body");
    VACUITY_END();
}
void h_group_wait(void) {
    world(); task_group_status r = tgb_wait(&G);
    OBLIGATION(g_waits == 1, "C01.wait: task_group::wait enters the wait on the group's wait context exactly once");
    OBLIGATION(!(g_reads >= 1) || g_waited_at_read, "C01.wait: whatever wait() reports about the group is read after the wait has returned");
    VACUITY_END();
}
#endif

#ifdef SPAWNGLUE
/* r1::spawn (plain / with an affinity slot), spawn_and_notify, arena::enqueue_task: what becomes reachable by other threads, and in which state */
typedef struct task { struct tgc *context; isolation_type isolation; bool is_proxy; } task; struct tgc { int d; }; struct soa { int pool; };
#define pool_bit ((intptr_t)1)
#define mailbox_bit ((intptr_t)2)
#define location_mask (pool_bit | mailbox_bit)
#define no_slot ((slot_id)0xffff)
struct outbox { int d; }; struct stream { int d; }; struct aslot { int d; }; struct rnd { int d; };
struct task_proxy { task base; intptr_t task_and_tag; struct outbox *outbox; slot_id slot; struct soa allocator; };
struct task_dispatcher; typedef struct execution_data_ext { struct tgc *context; isolation_type isolation; struct task_dispatcher *task_disp; } execution_data_ext;
struct task_dispatcher { execution_data_ext m_execute_data_ext; };
struct arena { unsigned my_num_slots; struct stream my_fifo_task_stream; };
struct thread_data { struct arena *my_arena; struct aslot *my_arena_slot; struct task_dispatcher *my_task_dispatcher; unsigned short my_arena_index; struct rnd my_random; };
enum { work_spawned, work_enqueued, wakeup };
static struct arena A; static struct aslot SLOT; static struct task_dispatcher DISP; static struct thread_data TD; static struct tgc CTX; static task T; static struct task_proxy PX; static struct outbox BOXES[4];
int g_bind, g_spawned, g_mailed, g_adv, g_enq, g_px; task *g_spawned_what; bool g_ready_at_spawn, g_ready_at_mail, g_ready_at_enq, g_adv_after, g_bound_first; int g_adv_kind; slot_id g_mail_id;
#define TASK_CONTEXT(t) ((t)->context)
#define TASK_ISOLATION(t) ((t)->isolation)
#define TASK_set_proxy_trait(t) ((t)->is_proxy = true)
static struct thread_data *STUB_get_thread_data(void) { return &TD; }
static void STUB_bind_to(struct tgc *c, struct thread_data *td) { __CPROVER_assert(c == &CTX && td == &TD, "C01.glue: the group's context is bound on the calling thread"); g_bind++; g_bound_first = (g_spawned == 0 && g_mailed == 0 && g_enq == 0); }
static struct task_proxy *NEW_task_proxy(struct soa *a, execution_data_ext *ed) { g_px++; PX.base.is_proxy = false; PX.task_and_tag = nondet_intptr_t(); PX.outbox = NULL; return &PX; }
static struct outbox *ARENA_mailbox(struct arena *a, slot_id id) { __CPROVER_assert(a == &A && id < a->my_num_slots, "C01.mail: the mailbox addressed exists (slot id below the arena's slot count)"); g_mail_id = id; return &BOXES[id % 4]; }
#define TASK_READY(t) ((t)->context == &CTX && (t)->isolation == DISP.m_execute_data_ext.isolation)
#define PROXY_READY (PX.base.is_proxy && PX.task_and_tag == ((intptr_t)&T | location_mask) && PX.base.isolation == DISP.m_execute_data_ext.isolation && PX.outbox == &BOXES[g_mail_id % 4] && PX.slot == g_mail_id)
#define OUTBOX_push(ob, p) do { __CPROVER_assert((p) == &PX && (ob) == PX.outbox, "C01.mail: the proxy is mailed to the outbox it remembers"); g_mailed++; g_ready_at_mail = PROXY_READY && TASK_READY(&T); } while (0)
#define SLOT_spawn(s, t) do { __CPROVER_assert((s) == &SLOT, "C01.glue: the task goes into the calling thread's own pool"); g_spawned++; g_spawned_what = (t); g_ready_at_spawn = TASK_READY(&T) && ((t) == &T || ((t) == &PX.base && PROXY_READY)); } while (0)
#define ARENA_advertise_new_work(a, k) do { __CPROVER_assert((a) == &A, "C01.glue: new work is advertised in the arena it was put into"); g_adv++; g_adv_kind = (k); if (g_spawned + g_enq == 1) g_adv_after = true; } while (0)
#define STREAM_push(st, t, r) do { __CPROVER_assert((st) == &A.my_fifo_task_stream && (t) == &T, "C01.glue: the task is enqueued into the arena's FIFO stream"); g_enq++; g_ready_at_enq = ((t)->context == &CTX && (t)->isolation == no_isolation); } while (0)
#include "glue_spawn.inc"
slot_id IN_id; unsigned IN_slots; unsigned short IN_me;
static void world(void) { TD.my_arena = &A; TD.my_arena_slot = &SLOT; TD.my_task_dispatcher = &DISP; TD.my_arena_index = IN_me = nondet_ushort(); A.my_num_slots = IN_slots = nondet_unsigned(); __CPROVER_assume(A.my_num_slots >= 1 && TD.my_arena_index < A.my_num_slots);
    DISP.m_execute_data_ext.isolation = nondet_size_t(); T.context = NULL; T.isolation = nondet_size_t(); T.is_proxy = false; g_bind = g_spawned = g_mailed = g_adv = g_enq = g_px = 0; g_spawned_what = NULL; g_adv_after = false; }
void h_spawn(void) {
    world(); bool aff = nondet_bool(); slot_id id = IN_id = nondet_ushort(); if (aff) r1_spawn_aff(&T, &CTX, id); else r1_spawn(&T, &CTX);
    OBLIGATION(g_bind == 1 && g_bound_first, "C01.glue: the context is bound before the task becomes reachable");
    OBLIGATION(g_spawned == 1 && g_ready_at_spawn, "C01.once: spawn puts exactly one entry for the task into the caller's pool - the task itself or one proxy that stands for it - after its context and isolation tag (and the proxy's task word, both location bits set) were written");
    OBLIGATION(g_spawned_what == &T ? (g_mailed == 0) : (g_spawned_what == &PX.base && g_px == 1 && g_mailed == 1 && g_ready_at_mail),
               "C01.once: the task is mailed only through the one proxy that is also in the pool: mailed exactly once, fully initialised (task word with both location bits, outbox and slot id consistent), to an existing mailbox; a plain spawn mails nothing");
    OBLIGATION(g_adv >= 1 && g_adv_after, "C01.glue: the new work is advertised to the arena after the task is in the pool");
    VACUITY_CASE(g_mailed == 1, "mailed"); VACUITY_CASE(aff && g_mailed == 0, "affinity ignored");
    VACUITY_END();
}
void h_enqueue(void) {
    world(); arena_enqueue_task(&A, &T, &CTX, &TD);
    OBLIGATION(g_bind == 1 && g_bound_first && g_enq == 1 && g_ready_at_enq && g_spawned == 0, "C01.once: enqueue puts the task into the arena's FIFO stream exactly once, with its context captured and no isolation tag, and nowhere else");
    OBLIGATION(g_adv >= 1 && g_adv_after, "C01.glue: the enqueued work is advertised to the arena after the push (nobody waits for an enqueued task: without this it may never be run)");
    VACUITY_END();
}
#endif

#ifdef TASKMEM
/* The memory of a task_group task.  A task object is obtained with small_object_allocator::new_object<Type> and given back with delete_object<Type>; both pass sizeof(Type) down to the
   per-thread small object pool, which treats requests of at most small_object_size bytes as "small objects" (recycled through its free lists and COUNTED: the pool is destroyed when its
   owner thread has exited and its count of live small objects is zero) and larger ones as plain allocations (not counted).  The count stays truthful only if an object is given back under
   the size class it was obtained with.  Which Type each site binds is read off the source by the extraction (SIZEOF_AT_NEW: prepare_task's new_object<...>; SIZEOF_AT_DELETE: the class whose
   finalize() calls delete_object(this)).  Free lists have arbitrary length: a real first node and an opaque tail of ghost length. */
typedef struct small_object { struct small_object *next; } small_object;
struct pool { small_object *m_private_list; int64_t m_private_counter; small_object *m_public_list; int64_t m_public_counter; };
struct soa { struct pool *m_pool; };
struct thread_data { struct pool *my_small_object_pool; };
typedef struct execution_data_ext { struct thread_data *td; } execution_data_ext;
static struct pool P, OTHERPOOL; static struct thread_data TD_ALLOC, TD_FREE; static small_object A1, B1; static char OP1c, OP2c; static long g_t1, g_t2;
#define OP1 ((small_object *)&OP1c)
#define OP2 ((small_object *)&OP2c)
#define dead_public_list ((small_object *)(uintptr_t)1)
static struct thread_data *g_cur_td;
static struct thread_data *STUB_get_thread_data(void) { return g_cur_td; }
#define ED_thread_data(ed) ((ed)->td)
static size_t g_fresh_bytes; static int g_fresh, g_freed_plain, g_pool_destroyed; static void *g_obj;
static void *STUB_cache_aligned_allocate(size_t n) { g_fresh++; g_fresh_bytes = n; void *p = malloc(n); __CPROVER_assume(p != NULL); return p; }
static void STUB_cache_aligned_deallocate(void *p) { g_freed_plain++; }
#define NEW_small_object(p) ({ small_object *o_ = (small_object *)(p); o_->next = NULL; o_; })
#define CONSTRUCT_AT(p) (p)
#define DESTROY_OBJECT(o) ((void)0)
#define DESTROY_POOL(p) (g_pool_destroyed++)
#define ATOMIC_LOAD(x) (x)
#define ATOMIC_XCHG(x, v) ({ small_object *o_ = (x); (x) = (v); o_; })
#define ATOMIC_CAS(x, e, d) ((x) == *(e) ? ((x) = (d), true) : (*(e) = (x), false))
#define ATOMIC_PREINC(x) (++(x))
#define LOOP_deallocate_impl_1
size_t SIZEOF_task_handle_task, SIZEOF_function_task;
#include "pool.inc"
static long list_len(small_object *p) { long n = 0; for (int i = 0; i < 5 && p != NULL; ++i) { if (p == OP1) return n + g_t1; if (p == OP2) return n + g_t2; n++; p = p->next; } return n; }
size_t IN_sizeof_base, IN_sizeof_task; long IN_live;
void h_task_memory(void) {
    /* sizes: the derived class is at least as big as its base; the object must hold a list node */
    SIZEOF_task_handle_task = IN_sizeof_base = nondet_size_t(); SIZEOF_function_task = IN_sizeof_task = nondet_size_t();
    __CPROVER_assume(SIZEOF_task_handle_task >= sizeof(small_object) && SIZEOF_function_task >= SIZEOF_task_handle_task && SIZEOF_function_task <= 4096);
#ifdef TASKMEM_SMALL
    __CPROVER_assume(SIZEOF_function_task <= small_object_size);          /* domain: the whole task (base + functor) is a small object */
#else
    __CPROVER_assume(SIZEOF_function_task > small_object_size);           /* domain: a functor so big that the task is no small object */
#endif
    /* the allocating thread's pool: free lists of any length, any number of small objects alive elsewhere */
    g_t1 = nondet_long(); g_t2 = nondet_long(); __CPROVER_assume(g_t1 >= 1 && g_t1 < (1L << 40) && g_t2 >= 1 && g_t2 < (1L << 40));
    A1.next = nondet_bool() ? OP1 : NULL; B1.next = nondet_bool() ? OP2 : NULL; P.m_private_list = nondet_bool() ? &A1 : NULL; P.m_public_list = nondet_bool() ? &B1 : NULL;
    long live0 = IN_live = nondet_long(); __CPROVER_assume(live0 >= 0 && live0 < (1L << 40)); P.m_private_counter = list_len(P.m_private_list) + list_len(P.m_public_list) + live0; P.m_public_counter = 0;
    TD_ALLOC.my_small_object_pool = &P; bool same_thread = nondet_bool(); TD_FREE.my_small_object_pool = same_thread ? &P : &OTHERPOOL; g_fresh = g_freed_plain = g_pool_destroyed = 0;
    /* prepare_task: alloc.new_object<TYPE_AT_NEW>(...) on the submitting thread */
    struct soa alloc; alloc.m_pool = NULL; g_cur_td = &TD_ALLOC;
    void *obj = soa_new_object(&alloc, SIZEOF_AT_NEW);
    OBLIGATION(alloc.m_pool == &P && obj != NULL, "C01.glue: the task remembers the pool it was allocated from");
    long live1 = P.m_private_counter - list_len(P.m_private_list) - list_len(P.m_public_list);
    /* ... the task runs (on this or on another thread) and finalizes: m_allocator.delete_object<TYPE_AT_DELETE>(this[, ed]) */
    execution_data_ext ed; ed.td = &TD_FREE; g_cur_td = &TD_FREE;
    if (nondet_bool()) soa_delete_object_ed(&alloc, obj, SIZEOF_AT_DELETE, &ed); else soa_delete_object(&alloc, obj, SIZEOF_AT_DELETE);
    long live2 = P.m_private_counter - list_len(P.m_private_list) - list_len(P.m_public_list);
    OBLIGATION(live2 == live0, "C01.glue: after a task object was allocated and freed, the pool's count of live small objects is what it was before (it is given back under the size class it was obtained with) - otherwise the pool is destroyed while tasks allocated from it are still alive, or never");
    OBLIGATION(live1 == live0 + (SIZEOF_AT_NEW <= small_object_size ? 1 : 0) && g_pool_destroyed == 0, "C01.glue: while the task is alive the pool counts it exactly if it is a small object; a live pool is not destroyed");
    VACUITY_END();
}
#endif

#if defined(DISP_ROS) || defined(DISP_MAIN) || defined(DISP_SRC)
/* The dispatch loop.  Every source of tasks (bypass, critical stream, own pool, mailbox, resume / fifo stream, stealing, self recall) is a stub with the contract proved for it elsewhere:
   it hands out a task at most once.  What is proved here is the bookkeeping BETWEEN the sources: a task taken out of any container is "in hand" (g_hand) until it is executed or cancelled;
   while a task is in hand no other is fetched (it would be overwritten and lost); the loop is left only without a task in hand and only because the waiter said so. */
typedef struct task task; struct tgc { int d; }; struct stream { int d; }; struct inbox { bool idle; }; struct aslot { unsigned hint_for_resume_stream, hint_for_fifo_stream; task **task_pool; }; struct rnd { int d; };
struct arena { struct stream my_resume_task_stream, my_fifo_task_stream; unsigned my_limit; };
struct thread_data { struct arena *my_arena; struct aslot *my_arena_slot; unsigned short my_arena_index; struct inbox my_inbox; struct rnd my_random; };
struct task_dispatcher; typedef struct execution_data_ext { struct tgc *context; slot_id original_slot, affinity_slot; struct task_dispatcher *task_disp; isolation_type isolation; } execution_data_ext;
struct task_dispatcher { struct thread_data *m_thread_data; execution_data_ext m_execute_data_ext; };
struct wait_context { int d; }; typedef struct external_waiter { struct wait_context *my_wait_ctx; } waiter_t;
struct dl_guard { struct { bool fifo_tasks_allowed, outermost; } old_properties; };
#define no_slot ((slot_id)0xffff)
static struct arena A; static struct aslot SLOT; static struct thread_data TD; static struct task_dispatcher DISP; static struct wait_context WC; static waiter_t WAITER; static struct tgc CTXS[2];
/* ghost */
static task *g_hand; static struct tgc *g_hand_ctx; static isolation_type g_hand_iso, g_level_iso; static bool g_hand_bypass, g_hand_resume, g_waiter_stop, g_cancel_read, g_cancel_read_valid; static unsigned long g_seq, g_obtained, g_dispatched, g_respawned, g_executed, g_cancelled;
#ifdef DISP_SRC
struct task_proxy { slot_id slot; }; static struct task_proxy TOKMEM[8];
#define TOK(n) ((task *)&TOKMEM[(n) & 7])                 /* real memory: tp->slot is read through the stolen pointer */
#else
#define TOK(n) ((task *)((((uintptr_t)(n) & 0xffffffffffUL) + 1) << 4))      /* never NULL; distinct for 2^40 consecutive tasks */
#endif
/* a container (or a finished task's bypass pointer) hands out a task: at most one is in hand at any time */
static task *obtain(bool may_fail, bool bypass, bool respects_isolation) {
    __CPROVER_assert(g_hand == NULL, "C01.once: no task is fetched from any source while another one is in hand - the task in hand would be overwritten and never run");
    if (may_fail && nondet_bool()) return NULL;
    g_seq++; g_obtained++; g_hand = TOK(g_seq); g_hand_ctx = &CTXS[nondet_bool()]; g_hand_bypass = bypass; g_hand_resume = false; g_waiter_stop = false;      /* with a task in hand the last word is not "stop" */
    g_hand_iso = nondet_size_t(); if (respects_isolation && g_level_iso != no_isolation) g_hand_iso = g_level_iso;          /* pool.get_task / mail.pop / pool.steal_task / stream.look_specific: isolation respected */
    return g_hand;
}
#define TASK_CONTEXT(t) (((t) == g_hand) ? g_hand_ctx : (struct tgc *)nondet_ptr())
#define TASK_ISOLATION(t) (((t) == g_hand) ? g_hand_iso : nondet_size_t())
#define TASK_is_resume_task(t) (((t) == g_hand) ? g_hand_resume : nondet_bool())
static bool WAITCTX_continue_execution(struct wait_context *w) { __CPROVER_assert(w == &WC, "C01.wait: the waiter looks at the wait context it was created for"); bool go = nondet_bool(); g_waiter_stop = !go; return go; }    /* wait.continue_execution: false only when no reference is outstanding */
static task *STUB_get_self_recall_task(struct aslot *s) { task *r = obtain(true, false, false); if (r) g_hand_resume = true; return r; }
static task *disp_get_critical_task(struct task_dispatcher *d, task *t, execution_data_ext *ed, isolation_type iso, bool allowed) {   /* C16 isolation.get_critical_task: a displaced task is re-spawned exactly once */
    __CPROVER_assert(t == g_hand, "C01.once: the task passed on is the task in hand");
    __CPROVER_assert(t == NULL || g_hand_bypass || g_hand_resume || ed->context == g_hand_ctx, "C01.once: a task that a critical task may displace is re-spawned under its own context");
    if (allowed && nondet_bool()) { if (t != NULL) { g_respawned++; g_hand = NULL; } task *c = obtain(false, false, true); ed->context = g_hand_ctx; ed->isolation = g_hand_iso; return c; }
    return t;
}
#define OBSERVERS_notify_entry(a, tls) ((void)0)
#define WAITER_reset_wait(w) ((void)0)
#define WAITER_pause(w, s) ((void)0)
#define INBOX_set_is_idle(ib, v) ((ib)->idle = (v))
#define INBOX_is_idle_state(ib, v) ((ib)->idle == (v))
static void world(void) { TD.my_arena = &A; TD.my_arena_slot = &SLOT; TD.my_arena_index = nondet_ushort(); DISP.m_thread_data = &TD; WAITER.my_wait_ctx = &WC; g_hand = NULL; g_waiter_stop = false; g_seq = nondet_ulong();
    g_obtained = g_dispatched = g_respawned = g_executed = g_cancelled = 0; g_level_iso = nondet_size_t(); g_cancel_read_valid = false; TD.my_inbox.idle = nondet_bool(); }
#endif

#ifdef DISP_ROS
static bool disp_can_steal(struct task_dispatcher *d) { return nondet_bool(); }
static bool g_fifo_allowed; static unsigned long g_fifo_asked;
static task *disp_get_inbox_or_critical_task(struct task_dispatcher *d, execution_data_ext *ed, struct inbox *ib, isolation_type iso, bool ca) { __CPROVER_assert(ib == &TD.my_inbox && iso == g_level_iso, "C01.mail: the thread's own inbox is searched, under the isolation level of this dispatch level"); return obtain(true, false, true); }
static task *disp_get_stream_or_critical_task(struct task_dispatcher *d, execution_data_ext *ed, struct arena *a, struct stream *s, unsigned *hint, isolation_type iso, bool ca) {
    __CPROVER_assert(a == &A && (s == &A.my_resume_task_stream || s == &A.my_fifo_task_stream), "C01.stream: the arena's own streams are searched");
    if (s == &A.my_fifo_task_stream) { g_fifo_asked++; __CPROVER_assert(g_fifo_allowed && g_level_iso == no_isolation, "C01.iso: enqueued tasks (which carry no isolation tag) are taken only where that is allowed: outermost level, no isolation"); }
    return obtain(true, false, s != &A.my_fifo_task_stream); }
static task *disp_steal_or_get_critical(struct task_dispatcher *d, execution_data_ext *ed, struct arena *a, unsigned idx, struct rnd *r, isolation_type iso, bool ca) { __CPROVER_assert(iso == g_level_iso, "C01.iso: stealing respects the isolation level of this dispatch level"); return obtain(true, false, true); }
#define LOOP_ros_1 __CPROVER_assigns(t, g_hand, g_hand_ctx, g_hand_iso, g_hand_bypass, g_hand_resume, g_seq, g_obtained, g_respawned, g_waiter_stop, g_fifo_asked, ed->context, ed->isolation) \
  __CPROVER_loop_invariant(t == NULL && g_hand == NULL && g_obtained == 0)
#include "dispatch_ros.inc"
void h_receive_or_steal(void) {
    world(); execution_data_ext *ed = &DISP.m_execute_data_ext; ed->context = &CTXS[0]; ed->isolation = nondet_size_t(); g_fifo_allowed = nondet_bool(); g_fifo_asked = 0;
    task *r = disp_receive_or_steal_task(&DISP, &TD, ed, &WAITER, g_level_iso, g_fifo_allowed, nondet_bool());
    OBLIGATION(r == g_hand && g_obtained == (r != NULL ? 1 : 0), "C01.once: receive_or_steal_task takes at most one task out of the mailbox / streams / other pools and returns exactly that task - nothing fetched is dropped");
    OBLIGATION(r == NULL || (ed->context == g_hand_ctx && ed->isolation == g_hand_iso), "C01.once: the execution data is switched to the context and isolation tag of the task about to run (its group's cancellation state decides between execute and cancel)");
    OBLIGATION((r == NULL) == g_waiter_stop, "C01.wait: the search is given up empty-handed only because the waiter said so (for a waiting thread: the wait context has no reference left)");
    OBLIGATION(!TD.my_inbox.idle, "C01.mail: the thread does not stay advertised as idle once it leaves the search (thieves leave mailed proxies to an idle recipient)");
    VACUITY_CASE(r != NULL, "task found"); VACUITY_CASE(r == NULL, "waiter stops");
    VACUITY_END();
}
#endif

#ifdef DISP_MAIN
#define CONTEXT_GUARD_SET(c) ((void)0)
#define TGC_itt_caller(c) ((void *)0)
static bool TGC_is_group_execution_cancelled(struct tgc *c) {
    __CPROVER_assert(g_hand != NULL && (g_hand_bypass || g_hand_resume || c == g_hand_ctx), "C01.once: whether a task is executed or cancelled is decided by the cancellation state of its own group (bypassed tasks are taken to be of the group of the task that returned them)");
    g_cancel_read = nondet_bool(); g_cancel_read_valid = true; return g_cancel_read; }
static task *run_(task *t, execution_data_ext *ed, bool cancel) {
    __CPROVER_assert(t != NULL && t == g_hand, "C01.once: the task dispatched is the task in hand");
    __CPROVER_assert(g_cancel_read_valid && g_cancel_read == cancel, "C01.once: a task is cancelled (skipped) exactly if its group was seen cancelled just before, and executed otherwise");
    __CPROVER_assert(ed == &DISP.m_execute_data_ext, "C01.glue: the task is given the dispatcher's execution data");
    bool was_resume = g_hand_resume; g_dispatched++; if (cancel) g_cancelled++; else g_executed++; g_hand = NULL; g_cancel_read_valid = false;
    return was_resume ? (task *)NULL : obtain(true, true, false);        /* the task may return a successor to run next (bypass); a resume task (C20) never does */
}
#define TASK_execute(t, ed) run_((t), (ed), false)
#define TASK_cancel(t, ed) run_((t), (ed), true)
static bool SLOT_is_task_pool_published(struct aslot *s) { return nondet_bool(); }
static task *SLOT_get_task(struct aslot *s, execution_data_ext *ed, isolation_type iso) { __CPROVER_assert(s == &SLOT && iso == g_level_iso, "C01.iso: the own pool is searched under the isolation level of this dispatch level"); task *r = obtain(true, false, true); if (r) ed->affinity_slot = nondet_ushort(); return r; }
task *disp_receive_or_steal_task(struct task_dispatcher *d, struct thread_data *tls, execution_data_ext *ed, waiter_t *w, isolation_type iso, bool fifo, bool ca) {      /* contract: job dispatch.receive_or_steal */
    __CPROVER_assert(d == &DISP && tls == &TD && w == &WAITER && iso == g_level_iso, "C01.glue: the search for work runs for this thread, this waiter, this isolation level");
    task *r = obtain(true, false, false);
    if (r) { g_hand_resume = nondet_bool();                                   /* from the resume stream / self recall: a resume task; from mailbox, other pools, critical stream: isolation respected; fifo stream only without isolation */
        if (!g_hand_resume && g_level_iso != no_isolation) g_hand_iso = g_level_iso; ed->context = g_hand_ctx; ed->isolation = g_hand_iso; g_waiter_stop = false; } else g_waiter_stop = true;
    return r;
}
static bool g_left;
#define MAIN_LOOP_LEFT(t) do { g_left = true; __CPROVER_assert((t) == NULL && g_hand == NULL, "C01.once: the dispatch loop is not left with a task in hand"); } while (0)
#define LOOP_VARS t, g_hand, g_hand_ctx, g_hand_iso, g_hand_bypass, g_hand_resume, g_seq, g_obtained, g_dispatched, g_respawned, g_executed, g_cancelled, g_waiter_stop, g_cancel_read, g_cancel_read_valid, ed->context, ed->isolation, ed->affinity_slot, ed->original_slot
#define COUNT_INV (g_obtained == g_dispatched + g_respawned + (g_hand != NULL ? 1UL : 0UL) && g_dispatched == g_executed + g_cancelled)      /* unsigned, modulo 2^64 */
#define CTX_INV (t == NULL || g_hand_bypass || g_hand_resume || ed->context == g_hand_ctx)
#define ISO_INV (t == NULL || g_hand_resume || g_level_iso == no_isolation || ed->isolation == g_level_iso)
#define LOOP_main_1 __CPROVER_assigns(LOOP_VARS) __CPROVER_loop_invariant(t == g_hand && (g_waiter_stop ? t == NULL : 1) && COUNT_INV && ISO_INV && CTX_INV && !g_cancel_read_valid)
#define LOOP_main_2 __CPROVER_assigns(LOOP_VARS) __CPROVER_loop_invariant(t == g_hand && (g_waiter_stop ? t == NULL : 1) && COUNT_INV && ISO_INV && CTX_INV && !g_cancel_read_valid)
#include "dispatch_main.inc"
void h_main_loop(void) {
    world(); execution_data_ext *ed = &DISP.m_execute_data_ext; struct dl_guard guard; guard.old_properties.fifo_tasks_allowed = nondet_bool(); guard.old_properties.outermost = nondet_bool(); g_left = false;
    /* local_wait_for_all(t, waiter): t is the task execute_and_wait was given (run_and_wait, parallel algorithms' root) or nullptr (wait) */
    task *t0 = obtain(true, false, true); ed->context = t0 ? g_hand_ctx : NULL; ed->isolation = g_level_iso; ed->original_slot = TD.my_arena_index; ed->affinity_slot = no_slot; ed->task_disp = &DISP;
    task *r = disp_main_loop(&DISP, t0, &WAITER, ed, g_level_iso, nondet_bool(), &guard);
    OBLIGATION(r == NULL && g_left && g_hand == NULL, "C01.once: with an external waiter the loop ends without a task in hand (nothing taken out of a container is left behind unexecuted)");
    OBLIGATION(g_obtained == g_dispatched + g_respawned && g_dispatched == g_executed + g_cancelled, "C01.once: every task that came into this thread's hands - from the caller, a bypass pointer, the own pool, the mailbox, a stream, a victim's pool - was executed or cancelled exactly once, or put back by a spawn when a critical task displaced it");
    OBLIGATION(g_waiter_stop, "C01.wait: the dispatch loop of a waiting thread is left only after the waiter saw its wait context without any reference - every unit submitted to the group has finished");
    VACUITY_CASE(g_executed > 1 && g_cancelled > 0, "several tasks, some cancelled"); VACUITY_CASE(g_respawned > 0, "a task displaced by a critical one");
    VACUITY_END();
}
#endif

#ifdef DISP_SRC
/* the thin layers between the dispatch loop and the containers */
#define pool_bit ((intptr_t)1)
#define mailbox_bit ((intptr_t)2)
#define any_slot ((slot_id)0xfffe)
#define EmptyTaskPool ((task **)0)
static struct aslot VICTIM; static unsigned g_limit_seen, g_me, g_victim_k; static bool g_hand_proxy, g_extracted, g_proxy_empty; static int g_proxy_freed; static slot_id g_proxy_slot; static task *g_proxy;
#define ATOMIC_LOAD(x) (x)
static unsigned short STUB_random_get(struct rnd *r) { return nondet_ushort(); }
static struct aslot *arena_slot_(struct arena *a, size_t k) { __CPROVER_assert(k < a->my_limit, "C01.steal: the victim is one of the arena's slots in use (index below my_limit)"); g_victim_k = (unsigned)k; return &VICTIM; }
#define ARENA_SLOT(a, k) arena_slot_((a), (k))
static task *SLOT_steal_task(struct aslot *v, struct arena *a, isolation_type iso, size_t k) { __CPROVER_assert(v == &VICTIM && a == &A && k == g_victim_k && iso == g_level_iso, "C01.steal: steal_task runs on the chosen victim, under the thief's isolation level");
    task *r = obtain(true, false, true); g_hand_proxy = r != NULL && nondet_bool(); g_extracted = false; g_proxy = g_hand_proxy ? r : NULL; g_proxy_slot = nondet_ushort(); return r; }
#define TASK_IS_PROXY(t) ((t) == g_hand && g_hand_proxy)
static task *STUB_proxy_extract_task(struct task_proxy *tp, intptr_t from_bit) {
    __CPROVER_assert(from_bit == pool_bit, "C01.proxy: a proxy that came out of a task pool is claimed from the pool side (extract_task<pool_bit>)");
    __CPROVER_assert((task *)tp == g_hand && g_hand_proxy && !g_extracted, "C01.once: the task is extracted from the stolen proxy, once");
    g_extracted = true; g_proxy_empty = nondet_bool(); g_hand = NULL; g_obtained--;                      /* the proxy is not itself a task to run ... */
    if (g_proxy_empty) return NULL;
    task *inner = obtain(false, false, true); return inner;                                               /* ... it yields the task it stands for, unless the mailbox side was faster */
}
static void STUB_delete_proxy(struct task_proxy *tp) { __CPROVER_assert((task *)tp == g_proxy && g_extracted && g_proxy_empty, "C01.proxy: the thief frees a proxy only after it found it empty; a proxy whose task it took is left for the mailbox side to free"); g_proxy_freed++; }
#define STREAM_empty(s) nondet_bool()
static task *STREAM_pop(struct stream *s, unsigned *hint) { return obtain(true, false, true); }
#define INBOX_empty(ib) nondet_bool()
static task *disp_get_mailbox_task(struct task_dispatcher *d, struct inbox *ib, execution_data_ext *ed, isolation_type iso) { __CPROVER_assert(ib == &TD.my_inbox && iso == g_level_iso, "C01.mail: own inbox, own isolation level"); return obtain(true, false, true); }
static struct task_proxy *tp_of(task *t) { return (struct task_proxy *)t; }
#include "sources.inc"
unsigned IN_limit, IN_me;
static void src_world(void) { world(); A.my_limit = IN_limit = nondet_unsigned(); g_me = IN_me = nondet_unsigned(); __CPROVER_assume(A.my_limit >= 1 && g_me < A.my_limit); VICTIM.task_pool = nondet_ptr(); g_proxy_freed = 0; g_hand_proxy = false; g_proxy = NULL;
    for (int i = 0; i < 8; ++i) TOKMEM[i].slot = nondet_ushort(); }
void h_arena_steal(void) {
    src_world(); execution_data_ext *ed = &DISP.m_execute_data_ext; slot_id aff0 = ed->affinity_slot = nondet_ushort();
    task *r = arena_steal_task(&A, g_me, &TD.my_random, ed, g_level_iso);
    OBLIGATION(r == g_hand && g_obtained == (r != NULL ? 1UL : 0UL), "C01.once: arena::steal_task returns exactly the task it took out of the victim's pool (or the task the stolen proxy stood for) - nothing stolen is dropped");
    OBLIGATION(g_proxy == NULL || !g_extracted || (g_proxy_empty ? (r == NULL && g_proxy_freed == 1) : (r != NULL && g_proxy_freed == 0)), "C01.proxy: a stolen proxy yields its task, or - if the mailbox side had taken the task already - is freed exactly once by the thief and nothing is returned");
    OBLIGATION(g_proxy == NULL || g_extracted, "C01.proxy: a stolen proxy is never returned as if it were a task");
    OBLIGATION(r == NULL || (ed->original_slot == (slot_id)g_victim_k && ed->affinity_slot == (g_proxy != NULL ? ((struct task_proxy *)g_proxy)->slot : any_slot)), "C01.proxy: the execution data records the victim slot and the affinity the task was mailed with");
    VACUITY_CASE(r != NULL && g_proxy != NULL, "task out of a stolen proxy"); VACUITY_CASE(g_proxy_freed == 1, "empty proxy freed"); VACUITY_CASE(r != NULL && g_proxy == NULL, "plain task");
    VACUITY_END();
}
void h_sources(void) {
    src_world(); execution_data_ext *ed = &DISP.m_execute_data_ext; ed->context = &CTXS[0]; ed->isolation = g_level_iso; unsigned hint = nondet_unsigned(); unsigned which = nondet_unsigned() % 3; bool ca = nondet_bool();
    task *r = which == 0 ? disp_get_inbox_or_critical_task(&DISP, ed, &TD.my_inbox, g_level_iso, ca) : which == 1 ? disp_get_stream_or_critical_task(&DISP, ed, &A, &A.my_fifo_task_stream, &hint, g_level_iso, ca)
            : disp_steal_or_get_critical(&DISP, ed, &A, g_me, &TD.my_random, g_level_iso, ca);
    OBLIGATION(r == g_hand && g_obtained == g_respawned + (r != NULL ? 1UL : 0UL), "C01.once: each of get_inbox_or_critical_task / get_stream_or_critical_task / steal_or_get_critical returns exactly the one task it ended up holding; a stolen task displaced by a critical one was re-spawned, none is dropped");
    OBLIGATION(which != 2 || r == NULL || g_respawned == 1 || (ed->context == g_hand_ctx && ed->isolation == g_hand_iso), "C01.once: a stolen task comes with its own context and isolation tag in the execution data");
    VACUITY_CASE(which == 2 && g_respawned == 1, "stolen task displaced"); VACUITY_CASE(which == 0 && r != NULL, "mail"); VACUITY_CASE(which == 1 && r != NULL, "stream");
    VACUITY_END();
}
#endif
