// Native recipe for C01 jobs delegate.*: task_arena::execute(f) into a saturated arena while the caller's own task group is cancelled - f must still run exactly once (public API only).
// Demo for C01: "a call that waits (... task_arena::execute) returns only after every unit submitted
// has finished; a unit is skipped only if ITS group was cancelled".
//
// task_arena::execute(f) must run f before it returns.  It has two paths:
//   * a slot of the target arena is free: the caller joins the arena and calls f directly;
//   * the arena is saturated: f is wrapped into a delegated task, enqueued into the arena, and the
//     caller waits for it (src/tbb/arena.cpp, delegated_task + exit monitor).
// This demo needs BOTH of:
//   (1) the target arena is saturated at the moment of the call (all slots are held by other
//       threads that sit inside their own execute() calls), so the delegation path is taken;
//   (2) the caller is itself running inside a task whose task group has (already) been cancelled
//       - a perfectly legal situation: a running task is never interrupted by cancellation and may
//       keep calling into TBB, e.g. to do clean-up work in another arena.
// Expected: f runs exactly once before execute() returns, no matter which path was taken.
//
// Public API only.  Deterministic up to one 400 ms timing margin (the blocker is released only after
// the caller has had 400 ms to find the arena full); the scenario is repeated several times.

#include <oneapi/tbb/global_control.h>
#include <oneapi/tbb/parallel_for.h>
#include <oneapi/tbb/task_arena.h>
#include <oneapi/tbb/task_group.h>

#include <atomic>
#include <chrono>
#include <cstdio>
#include <cstdlib>
#include <thread>
#include <vector>

static std::atomic<bool> g_done{false};
static void watchdog() {
    for (int i = 0; i < 450 && !g_done.load(); ++i)
        std::this_thread::sleep_for(std::chrono::milliseconds(100));
    if (!g_done.load()) {
        std::printf("FAIL: demo hung\n");
        std::fflush(stdout);
        std::_Exit(2);
    }
}

static int failures = 0;

// caller_kind: 0 = task_group::run_and_wait body, 1 = parallel_for body with an explicit context
static void scenario(int caller_kind, bool cancel_callers_group, bool saturate) {
    const int slots = 2;
    tbb::task_arena target(slots, /*reserved_for_masters=*/slots);   // no workers: only external threads
    target.initialize();

    // Occupy every slot of the target arena.
    std::atomic<int> inside{0};
    std::atomic<bool> release{false};
    std::vector<std::thread> blockers;
    if (saturate) {
        for (int i = 0; i < slots; ++i)
            blockers.emplace_back([&] {
                target.execute([&] {
                    ++inside;
                    while (!release.load()) std::this_thread::yield();
                });
            });
        while (inside.load() != slots) std::this_thread::yield();
    }

    std::atomic<bool> calling{false};
    std::thread releaser([&] {
        while (!calling.load()) std::this_thread::yield();
        std::this_thread::sleep_for(std::chrono::milliseconds(400));
        release = true;                    // blockers leave; the waiting caller can get a slot now
    });

    std::atomic<int> f_runs{0};
    bool returned_normally = false;
    auto caller_body = [&](tbb::task_group_context& my_group) {
        if (cancel_callers_group)
            my_group.cancel_group_execution();     // our own group; we keep running, as TBB guarantees
        calling = true;
        target.execute([&] { ++f_runs; });          // must run the functor before returning
        returned_normally = true;
    };

    if (caller_kind == 0) {
        tbb::task_group_context ctx;
        tbb::task_group tg(ctx);
        tg.run_and_wait([&] { caller_body(ctx); });
    } else {
        tbb::task_group_context ctx;
        tbb::parallel_for(0, 1, [&](int) { caller_body(ctx); }, ctx);
    }

    releaser.join();
    for (auto& b : blockers) b.join();

    if (!returned_normally || f_runs.load() != 1) {
        std::printf("FAIL: task_arena::execute(f) called from a %s body (caller's own group cancelled=%d, "
                    "target arena saturated=%d) returned normally=%d but f ran %d time(s), expected 1\n",
                    caller_kind == 0 ? "task_group::run_and_wait" : "parallel_for",
                    int(cancel_callers_group), int(saturate), int(returned_normally), f_runs.load());
        ++failures;
    }
}

int main() {
    std::thread wd(watchdog);
    for (int rep = 0; rep < 2; ++rep) {
        for (int kind = 0; kind < 2; ++kind) {
            scenario(kind, /*cancel=*/false, /*saturate=*/false);   // direct path
            scenario(kind, /*cancel=*/true,  /*saturate=*/false);   // direct path, cancelled caller
            scenario(kind, /*cancel=*/false, /*saturate=*/true);    // delegation path
            scenario(kind, /*cancel=*/true,  /*saturate=*/true);    // delegation path, cancelled caller
        }
    }
    g_done = true;
    wd.join();
    if (failures) {
        std::printf("FAIL: %d case(s): task_arena::execute returned without having run its functor\n", failures);
        return 1;
    }
    std::printf("PASS\n");
    return 0;
}
