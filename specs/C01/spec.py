"""C01 -- every task runs exactly once: owner-side deque pop with isolation skipping, the proxy two-sided claim."""
import os
import sys
import re
HERE = os.path.dirname(os.path.abspath(__file__))
sys.path.insert(0, os.path.join(HERE, '..'))
sys.path.insert(0, os.path.join(HERE, '..', '..', 'tools'))
import common
import native
import cxx2c
from cxx2c import Rewriter, slice_block, tag_loops, ExtractionBreak, load
from prove import Job

ASC = 'src/tbb/arena_slot.cpp'
ASH = 'src/tbb/arena_slot.h'
MB = 'src/tbb/mailbox.h'


def extract(ctx):
    sliced, fired = [], {}
    rw = Rewriter('arena_slot')
    out = []
    s = slice_block(ASC, r'd1::task\* arena_slot::get_task_impl\(size_t T, execution_data_ext& ed, bool& tasks_omitted, isolation_type isolation\)')
    sliced.append('%s:%d arena_slot::get_task_impl' % (ASC, s.line))
    t = rw.sub(s.text, r'd1::task\* arena_slot::get_task_impl\(size_t T, execution_data_ext& ed, bool& tasks_omitted, isolation_type isolation\)',
               'task* slot_get_task_impl(struct aslot* self, size_t T, execution_data_ext* ed, bool* tasks_omitted, isolation_type isolation)', 1, 1, name='sig')
    t = rw.sub(t, r'(?s)__TBB_ASSERT\(tail\.load\(std::memory_order_relaxed\) <= T \|\| is_local_task_pool_quiescent\(\),.*?\);', 'RG_NOP();', 1, 1, name='assert on thief quiescence (outside the sequential model) -> RG_NOP')
    t = rw.sub(t, r'__TBB_ASSERT\(!is_poisoned\( result \), "[^"]*"\);', 'RG_NOP();', 1, 1, name='poison check (debug only) -> RG_NOP')
    t = rw.sub(t, r'(?<![\w.>])task_pool_ptr\b', 'self->task_pool_ptr', 2, name='field')
    t = rw.sub(t, r'task_accessor::isolation\(\*result\)', 'result->isolation', 1, 1, name='accessor')
    t = rw.sub(t, r'task_accessor::is_proxy_task\(\*result\)', 'result->is_proxy', 1, 1, name='accessor')
    t = rw.sub(t, r'\btasks_omitted = true;', '*tasks_omitted = true;', 1, 1, name='ref-param')
    t = rw.sub(t, r'if \( tasks_omitted \)', 'if ( *tasks_omitted )', 1, 1, name='ref-param')
    t = rw.sub(t, r'task_proxy& tp = static_cast<task_proxy&>\(\*result\);', 'task* tp = result;', 1, 1, name='downcast')
    t = rw.sub(t, r'd1::slot_id aff_id = tp\.slot;', 'slot_id aff_id = tp->slot;', 1, 1, name='field')
    t = rw.sub(t, r'if \( d1::task \*t = tp\.extract_task<task_proxy::pool_bit>\(\) \) \{', '{ task *t = STUB_proxy_extract_task_pool(tp); if ( t ) {', 1, 1, name='decl-in-condition + callee stub (proved separately: job proxy.extract)')
    t = rw.sub(t, r'ed\.affinity_slot = aff_id;\s*return t;\s*\}', 'ed->affinity_slot = aff_id; return t; } }', 1, 1, name='close block')
    t = rw.sub(t, r'tp\.allocator\.delete_object\(&tp, ed\);', 'STUB_delete_proxy(tp);', 1, 1, name='callee stub')
    t = rw.sub(t, r'd1::task\*', 'task*', 1, name='ns-strip')
    t = rw.std(t)
    out.append(t)
    s = slice_block(ASC, r'd1::task\* arena_slot::get_task\(execution_data_ext& ed, isolation_type isolation\)')
    sliced.append('%s:%d arena_slot::get_task' % (ASC, s.line))
    t = rw.sub(s.text, r'd1::task\* arena_slot::get_task\(execution_data_ext& ed, isolation_type isolation\)', 'task* slot_get_task(struct aslot* self, execution_data_ext* ed, isolation_type isolation)', 1, 1, name='sig')
    t = rw.sub(t, r'T = --tail;', 'T = ATOMIC_PREDEC(self->tail);', 1, 1, name='atomic --')
    t = rw.sub(t, r'(?<![\w.>])(tail|head)\.load\([^)]*\)', r'ATOMIC_LOAD(self->\1)', 4, name='atomic-load')
    t = rw.sub(t, r'(?<![\w.>])(tail|head)\.store\(([^;]*?), std::memory_order_\w+\);', r'ATOMIC_STORE(self->\1, \2);', 0, None, name='atomic-store')
    t = rw.sub(t, r'(?<![\w.>])task_pool_ptr\b', 'self->task_pool_ptr', 1, name='field')
    t = rw.sub(t, r'(?<![\w.>])(acquire_task_pool|release_task_pool|reset_task_pool_and_leave|publish_task_pool)\(\)', r'slot_\1(self)', 5, name='method')
    t = rw.sub(t, r'(?<![\w.>])(is_task_pool_published|is_quiescent_local_task_pool_reset)\(\)', r'slot_\1(self)', 3, name='method')
    t = rw.sub(t, r'get_task_impl\( T, ed, tasks_omitted, isolation \)', 'slot_get_task_impl( self, T, ed, &tasks_omitted, isolation )', 1, 1, name='method + ref-param')
    t = rw.sub(t, r'poison_pointer\( self->task_pool_ptr\[T\] \);', 'RG_NOP();', 0, None, name='poison_pointer (no-op in release builds) -> RG_NOP')
    t = rw.sub(t, r'ed\.task_disp->m_thread_data->my_arena->advertise_new_work<arena::wakeup>\(\);', 'STUB_advertise_new_work();', 2, 2, name='callee stub')
    t = rw.sub(t, r'd1::task\*', 'task*', 1, name='ns-strip')
    t = rw.asserts(t, 8)
    t = rw.casts(t, 0)
    t = rw.fcasts(t, ['std::size_t', 'std::intptr_t'])
    t = rw.std(t)
    t = tag_loops(t, 'get_task', rw, expect=1)
    out.append(t)
    s = slice_block(ASH, r'void reset_task_pool_and_leave\(\)')
    sliced.append('%s:%d arena_slot::reset_task_pool_and_leave' % (ASH, s.line))
    t = rw.sub(s.text, r'void reset_task_pool_and_leave\(\)', 'void slot_reset_task_pool_and_leave(struct aslot* self)', 1, 1, name='sig')
    t = rw.sub(t, r'(?s)__TBB_ASSERT\(.*?\);', 'RG_NOP();', 0, name='lock-ownership assert -> RG_NOP')
    t = rw.sub(t, r'(?<![\w.>])(tail|head)\.store\(([^;]*?), std::memory_order_\w+\);', r'ATOMIC_STORE(self->\1, \2);', 0, None, name='atomic-store')
    t = rw.sub(t, r'leave_task_pool\(\);', 'slot_leave_task_pool(self);', 1, 1, name='method')
    out.insert(0, t)
    common.write(ctx, 'get_task.inc', 'task* slot_get_task_impl(struct aslot* self, size_t T, execution_data_ext* ed, bool* tasks_omitted, isolation_type isolation);\n' + '\n'.join(out) + '\n')
    # the same text with pool element accesses and task attribute reads behind accessor macros (representation of the pool by per-index arrays: job pool.get_task)
    t = '\n'.join(out)
    t = rw.sub(t, r'\bself->task_pool_ptr\[([^\]]*)\] = ([^;]*);', r'POOL_WR(self->task_pool_ptr, \1, \2);', 0, None, name='pool element write -> POOL_WR')
    t = rw.sub(t, r'\bself->task_pool_ptr\[([^\]]*)\]', r'POOL_RD(self->task_pool_ptr, \1)', 1, None, name='pool element read -> POOL_RD')
    t = rw.sub(t, r'\bresult->isolation\b', 'TASK_ISOLATION(result)', 1, 1, name='accessor macro')
    t = rw.sub(t, r'\bresult->is_proxy\b', 'TASK_IS_PROXY(result)', 1, 1, name='accessor macro')
    t = rw.sub(t, r'\btp->slot\b', 'TASK_SLOT(tp)', 1, 1, name='accessor macro')
    t2 = rw.number_sites(t, 'gt', by_kind=True)
    common.write(ctx, 'get_task_the.inc', 'task* slot_get_task_impl(struct aslot* self, size_t T, execution_data_ext* ed, bool* tasks_omitted, isolation_type isolation);\n' + t2 + '\n')
    common.write(ctx, 'get_task_lc.inc', 'task* slot_get_task_impl(struct aslot* self, size_t T, execution_data_ext* ed, bool* tasks_omitted, isolation_type isolation);\n' + t + '\n')
    # task_proxy::extract_task<from_bit>
    s = slice_block(MB, r'inline task\* extract_task \(\)')
    sliced.append('%s:%d task_proxy::extract_task<from_bit>' % (MB, s.line))
    t = rw.sub(s.text, r'inline task\* extract_task \(\)', 'task* proxy_extract_task(struct proxy* self, const intptr_t from_bit)', 1, 1, name='sig + template intptr_t -> parameter')
    t = rw.sub(t, r'(?<![\w.>])task_and_tag\.', 'self->task_and_tag.', 3, name='field')
    t = rw.atomics(t, ['task_and_tag'], 3)
    t = rw.asserts(t, 2)
    t = rw.std(t)
    t = rw.number_sites(t, 'ext', by_kind=True)
    pre = []
    for name, sig in (('is_shared', r'static bool is_shared \( intptr_t tat \)'), ('task_ptr', r'static task\* task_ptr \( intptr_t tat \)')):
        s2 = slice_block(MB, sig)
        sliced.append('%s:%d task_proxy::%s' % (MB, s2.line, name))
        pre.append(s2.text)
    for pat, what in ((r'static const intptr_t      pool_bit = 1<<0;', 'pool_bit'), (r'static const intptr_t   mailbox_bit = 1<<1;', 'mailbox_bit'), (r'static const intptr_t location_mask = pool_bit \| mailbox_bit;', 'location_mask')):
        if not re.search(pat, load(MB)):
            raise ExtractionBreak('mailbox.h: %s changed' % what)
    common.write(ctx, 'proxy.inc', '\n'.join(pre) + '\n' + t + '\n')
    fired['arena_slot'] = rw.fired
    return sliced, fired


LOCK_METHODS = [  # name, signature regex, C signature
    ('acquire_task_pool', r'void acquire_task_pool\(\)', 'void slot_acquire_task_pool(struct aslot* self)'),
    ('release_task_pool', r'void release_task_pool\(\)', 'void slot_release_task_pool(struct aslot* self)'),
    ('lock_task_pool', r'd1::task\*\* lock_task_pool\(\)', 'task** slot_lock_task_pool(struct aslot* self)'),
    ('unlock_task_pool', r'void unlock_task_pool\(d1::task\*\* victim_task_pool\)', 'void slot_unlock_task_pool(struct aslot* self, task** victim_task_pool)'),
    ('leave_task_pool', r'void leave_task_pool\(\)', 'void slot_leave_task_pool(struct aslot* self)'),
    ('publish_task_pool', r'void publish_task_pool\(\)', 'void slot_publish_task_pool(struct aslot* self)'),
]
MACROS = dict(common.TARGET_MACROS, __TBB_PREFETCHING=None)


def extract_locks(ctx, sliced, fired):
    """the six operations on the pool lock word arena_slot::task_pool"""
    rw = Rewriter('pool_lock')
    out = []
    for name, sig, csig in LOCK_METHODS:
        s = slice_block(ASH, sig)
        sliced.append('%s:%d arena_slot::%s' % (ASH, s.line, name))
        t = cxx2c.cpp_resolve(s.text, MACROS, name)
        t = rw.sub(t, sig, csig, 1, 1, name='sig')
        t = rw.sub(t, r'for\s*\(\s*atomic_backoff (\w+);;\s*\1\.pause\(\)\s*\)', 'for (;;)', 0, name='backoff-for')
        t = rw.sub(t, r'for\s*\(\s*atomic_backoff \w+;;[^)]*\)', 'for (;;)', 0, name='backoff-for')
        t = rw.sub(t, r'\bbackoff\.pause\(\);', 'RG_NOP();', 0, name='backoff-call->RG_NOP')
        t = rw.sub(t, r'__TBB_ASSERT\s*\(\s*task_pool == EmptyTaskPool,', '__TBB_ASSERT( task_pool.load(std::memory_order_relaxed) == EmptyTaskPool,', 0, name='implicit atomic load in assert')
        t = rw.sub(t, r'__TBB_ASSERT\(is_quiescent_local_task_pool_empty\(\), "[^"]*"\);', 'VERIF_ASSERT(self->head == self->tail, "Cannot leave arena when the task pool is not empty");', 0, name='debug helper inlined')
        t = rw.sub(t, r'(?<![\w.>])is_task_pool_published\(\)', '(ATOMIC_LOAD(self->task_pool) != EmptyTaskPool)', 0, name='method is_task_pool_published() (a relaxed load of the lock word)')
        t = rw.atomics(t, ['task_pool'], 1)
        t = rw.sub(t, r'ATOMIC_(\w+)\(task_pool\b', r'ATOMIC_\1(self->task_pool', 1, name='field')
        t = rw.sub(t, r'(?<![\w.>])(head|tail)\.load\([^)]*\)', r'self->\1', 0, name='plain read under lock')
        t = rw.sub(t, r'(?<![\w.>])task_pool_ptr\b', 'self->task_pool_ptr', 0, name='field')
        t = rw.sub(t, r'd1::task\*\*', 'task**', 0, name='ns-strip')
        t = rw.asserts(t, 0)
        t = rw.std(t)
        t = rw.number_sites(t, name, by_kind=True)
        t = tag_loops(t, name, rw)
        out.append(t)
    if not re.search(r'bool is_task_pool_published\(\) const \{\s*return task_pool\.load\(std::memory_order_relaxed\) != EmptyTaskPool;', load(ASH)):
        raise ExtractionBreak('arena_slot::is_task_pool_published is no longer a plain load of task_pool compared with EmptyTaskPool')
    for pat, what in ((r'static d1::task\*\* const EmptyTaskPool  = nullptr;', 'EmptyTaskPool'), (r'static d1::task\*\* const LockedTaskPool = reinterpret_cast<d1::task\*\*>\(~std::intptr_t\(0\)\);', 'LockedTaskPool')):
        if not re.search(pat, load(ASH)):
            raise ExtractionBreak('arena_slot.h: %s changed' % what)
    common.write(ctx, 'locks.inc', '\n'.join(out) + '\n')
    fired['pool_lock'] = rw.fired


def extract_steal(ctx, sliced, fired):
    rw = Rewriter('steal')
    s = slice_block(ASC, r'd1::task\* arena_slot::steal_task\(arena& a, isolation_type isolation, std::size_t slot_index\)')
    sliced.append('%s:%d arena_slot::steal_task' % (ASC, s.line))
    t = cxx2c.cpp_resolve(s.text, MACROS, 'steal_task')
    t = rw.sub(t, r'd1::task\* arena_slot::steal_task\(arena& a, isolation_type isolation, std::size_t slot_index\)',
               'task* slot_steal_task(struct aslot* self, struct arena* a, isolation_type isolation, size_t slot_index)', 1, 1, name='sig')
    t = rw.sub(t, r'd1::task\*\* victim_pool = lock_task_pool\(\);', 'task** victim_pool = slot_lock_task_pool(self);', 1, 1, name='method')
    t = rw.sub(t, r'unlock_task_pool\(victim_pool\);', 'slot_unlock_task_pool(self, victim_pool);', 1, 1, name='method')
    t = rw.sub(t, r'H = \+\+head;', 'H = ATOMIC_PREINC(self->head);', 1, 1, name='atomic ++')
    t = rw.sub(t, r'(?<![\w.>])(tail|head)\.load\([^)]*\)', r'ATOMIC_LOAD(self->\1)', 2, name='atomic-load')
    t = rw.sub(t, r'(?<![\w.>])head\.store\(\s*(?:/\*[^*]*\*/)?\s*([^;]*?), std::memory_order_\w+\s*\);', r'ATOMIC_STORE(self->head, \1);', 0, None, name='atomic-store')
    t = rw.sub(t, r'__TBB_ASSERT\( !is_poisoned\( result \), nullptr \);', 'RG_NOP();', 1, 1, name='poison check (debug only) -> RG_NOP')
    t = rw.sub(t, r'poison_pointer\( victim_pool\[[^\]]*\] \);', 'RG_NOP();', 2, 2, name='poison_pointer (no-op in release builds) -> RG_NOP')
    t = rw.sub(t, r'task_accessor::isolation\(\*result\)', 'TASK_ISOLATION(result)', 1, 1, name='accessor')
    t = rw.sub(t, r'task_accessor::is_proxy_task\(\*result\)', 'TASK_IS_PROXY(result)', 1, 1, name='accessor')
    t = rw.sub(t, r'task_proxy& tp = \*static_cast<task_proxy\*>\(result\);', 'task* tp = result;', 1, 1, name='downcast')
    t = rw.sub(t, r'\bvictim_pool\[([^\]]*)\] = ([^;]*);', r'POOL_WR(victim_pool, \1, \2);', 0, None, name='pool element write -> POOL_WR')
    t = rw.sub(t, r'\bvictim_pool\[([^\]]*)\]', r'POOL_RD(victim_pool, \1)', 1, 1, name='pool element read -> POOL_RD')
    t = rw.sub(t, r'task_proxy::is_shared\(tp\.task_and_tag\)', 'STUB_proxy_is_shared(tp)', 1, 1, name='callee stub (a load of the proxy word)')
    t = rw.sub(t, r'tp\.outbox->recipient_is_idle\(\)', 'STUB_outbox_recipient_is_idle(tp)', 1, 1, name='callee stub (a relaxed load)')
    t = rw.sub(t, r'a\.mailbox\(slot_index\)\.recipient_is_idle\(\)', 'STUB_my_mailbox_is_idle(a, slot_index)', 1, 1, name='callee stub (a relaxed load)')
    t = rw.sub(t, r'a\.advertise_new_work<arena::wakeup>\(\);', 'STUB_advertise_new_work();', 1, 1, name='callee stub')
    t = rw.sub(t, r'd1::task\*', 'task*', 1, name='ns-strip')
    t = rw.asserts(t, 3)
    t = rw.casts(t, 0)
    t = rw.fcasts(t, ['std::size_t', 'std::intptr_t'])
    t = rw.std(t)
    t = rw.number_sites(t, 'steal', by_kind=True)
    t = tag_loops(t, 'steal', rw, expect=1)
    common.write(ctx, 'steal.inc', t + '\n')
    fired['steal'] = rw.fired


def extract_relocate(ctx, sliced, fired):
    """prepare_task_pool (growth / in-place compaction of the deque), allocate_task_pool, commit_relocated_tasks, commit_spawned_tasks, spawn"""
    rw = Rewriter('relocate')
    out = []
    for name, sig, csig in (
            ('allocate_task_pool', r'void allocate_task_pool\( std::size_t n \)', 'void slot_allocate_task_pool(struct aslot* self, size_t n)'),
            ('commit_spawned_tasks', r'void commit_spawned_tasks\(std::size_t new_tail\)', 'void slot_commit_spawned_tasks(struct aslot* self, size_t new_tail)'),
            ('commit_relocated_tasks', r'void commit_relocated_tasks\(std::size_t new_tail\)', 'void slot_commit_relocated_tasks(struct aslot* self, size_t new_tail)'),
            ('prepare_task_pool', r'std::size_t prepare_task_pool\(std::size_t num_tasks\)', 'size_t slot_prepare_task_pool(struct aslot* self, size_t num_tasks)'),
            ('spawn', r'void spawn\(d1::task& t\)', 'void slot_spawn(struct aslot* self, task* t)')):
        s = slice_block(ASH, sig)
        sliced.append('%s:%d arena_slot::%s' % (ASH, s.line, name))
        t = rw.sub(s.text, sig, csig, 1, 1, name='sig')
        t = rw.sub(t, r'\(d1::task\*\*\)cache_aligned_allocate\(byte_size\)', 'STUB_cache_aligned_allocate(byte_size)', 0, None, name='callee stub (allocation)')
        t = rw.sub(t, r'cache_aligned_deallocate\( new_task_pool \);', 'STUB_cache_aligned_deallocate(new_task_pool);', 0, None, name='callee stub (deallocation)')
        t = rw.sub(t, r'fill_with_canary_pattern\([^;]*\);', 'RG_NOP();', 0, None, name='canary fill (no-op in release builds) -> RG_NOP')
        t = rw.sub(t, r'__TBB_ASSERT\(is_poisoned\(task_pool_ptr\[T\]\), nullptr\);', 'RG_NOP();', 0, None, name='poison check (debug only) -> RG_NOP')
        t = rw.sub(t, r'__TBB_ASSERT\(\s*!is_task_pool_published\(\) && is_quiescent_local_task_pool_reset\(\), nullptr\);', 'VERIF_ASSERT(!slot_is_task_pool_published(self) && self->head == 0 && self->tail == 0, "first allocation happens on an unpublished, reset pool");', 0, None, name='debug helper inlined')
        t = rw.sub(t, r'__TBB_ASSERT\(is_local_task_pool_quiescent\(\), "[^"]*"\);', 'VERIF_ASSERT(slot_is_local_task_pool_quiescent(self), "Task pool must be locked when calling commit_relocated_tasks()");', 0, None, name='debug helper')
        t = rw.sub(t, r'= &t;', '= t;', 0, None, name='ref-param')
        t = rw.sub(t, r'\bnew_task_pool\[([^\]]*)\]', r'POOL_RD(new_task_pool, \1)', 0, None, name='pool element read -> POOL_RD')
        t = rw.sub(t, r'(?<![\w.>])task_pool_ptr\[([^\]]*)\] = ([^;]*);', r'POOL_WR(self->task_pool_ptr, \1, \2);', 0, None, name='pool element write -> POOL_WR')
        t = rw.sub(t, r'(?<![\w.>])(tail|head)\.load\([^)]*\)', r'ATOMIC_LOAD(self->\1)', 0, None, name='atomic-load')
        t = rw.sub(t, r'(?<![\w.>])(tail|head)\.store\(([^;]*?), std::memory_order_\w+\);', r'ATOMIC_STORE(self->\1, \2);', 0, None, name='atomic-store')
        t = rw.sub(t, r'fill_with_canary_pattern\( T1, tail \);', 'RG_NOP();', 0, None, name='canary fill')
        t = rw.sub(t, r'(?<![\w.>])(my_task_pool_size|task_pool_ptr)\b', r'self->\1', 0, None, name='field')
        t = rw.sub(t, r'(?<![\w.>])min_task_pool_size\b', 'MIN_TASK_POOL_SIZE', 0, None, name='class constant')
        t = rw.sub(t, r'(?<![\w.>])(acquire_task_pool|release_task_pool|publish_task_pool|allocate_task_pool|commit_relocated_tasks|commit_spawned_tasks|prepare_task_pool|is_task_pool_published)\(', r'slot_\1(self, ', 0, None, name='method')
        t = rw.sub(t, r'\(self, \)', '(self)', 0, None, name='method (no args)')
        t = rw.sub(t, r'd1::task\*\*', 'task**', 0, None, name='ns-strip')
        t = rw.sub(t, r'd1::task\*', 'task*', 0, None, name='ns-strip')
        t = rw.asserts(t, 0)
        t = rw.std(t)
        t = tag_loops(t, name, rw)
        out.append(t)
    m = re.search(r'static constexpr std::size_t min_task_pool_size = (\d+);', load(ASH))
    if not m:
        raise ExtractionBreak('arena_slot.h: min_task_pool_size not found')
    m2 = re.search(r'const std::size_t max_nfs_size = (\d+);', load('include/oneapi/tbb/detail/_utils.h')) or re.search(r'max_nfs_size = (\d+)', load('include/oneapi/tbb/detail/_utils.h'))
    if not m2:
        raise ExtractionBreak('max_nfs_size not found')
    common.write(ctx, 'relocate.inc', '#define MIN_TASK_POOL_SIZE ((size_t)%s)\n#define max_nfs_size ((size_t)%s)\n' % (m.group(1), m2.group(1)) + '\n'.join(out) + '\n')
    fired['relocate'] = rw.fired


ARC = 'src/tbb/arena.cpp'


def extract_delegate(ctx, sliced, fired):
    """task_arena_impl::execute (inline path and delegation path) and delegated_task::execute/cancel/finalize"""
    rw = Rewriter('delegate')
    out = []
    W = r'class delegated_task : public d1::task \{'
    s = slice_block(ARC, r'void finalize\(\)', within=W)
    sliced.append('%s:%d delegated_task::finalize' % (ARC, s.line))
    t = rw.sub(s.text, r'void finalize\(\)', 'void dt_finalize(struct delegated_task* self)', 1, 1, name='sig')
    t = rw.sub(t, r'm_wait_ctx\.release\(\);', 'WAIT_CTX_RELEASE(self->m_wait_ctx);', 0, None, name='wait_context::release')
    t = rw.sub(t, r'(?s)m_monitor\.notify\(\[this\] \(std::uintptr_t ctx\) \{\s*return ctx == std::uintptr_t\(&m_delegate\);\s*\}\);', 'MONITOR_NOTIFY_KEY(self->m_monitor, (uintptr_t)self->m_delegate);', 0, None, name='monitor notify with key predicate')
    t = rw.sub(t, r'm_completed\.store\(true, std::memory_order_release\);', 'ATOMIC_STORE(self->m_completed, true);', 0, None, name='atomic-store')
    out.append(t)
    s = slice_block(ARC, r'd1::task\* execute\(d1::execution_data& ed\) override', within=W)
    sliced.append('%s:%d delegated_task::execute' % (ARC, s.line))
    t = rw.sub(s.text, r'd1::task\* execute\(d1::execution_data& ed\) override', 'task* dt_execute(struct delegated_task* self, execution_data_ext* ed)', 1, 1, name='sig')
    t = rw.sub(t, r'const execution_data_ext& ed_ext = static_cast<const execution_data_ext&>\(ed\);', 'execution_data_ext* ed_ext_ = ed;', 1, 1, name='downcast')
    t = rw.sub(t, r'\bed_ext\.', 'ed_ext_->', 3, name='ref')
    t = rw.sub(t, r'execution_data_ext orig_execute_data_ext = ', 'execution_data_ext orig_execute_data_ext = ', 1, 1, name='copy')
    t = rw.sub(t, r'(?s)__TBB_ASSERT\(&ed_ext_->task_disp->m_execute_data_ext == &ed,.*?\);', 'VERIF_ASSERT(&ed_ext_->task_disp->m_execute_data_ext == ed, "The execute data shall point to the current task dispatcher execute data");', 0, None, name='assert')
    t = rw.sub(t, r'ed_ext_->task_disp->get_thread_data\(\)\.my_arena->my_default_ctx', 'ed_ext_->task_disp->m_thread_data->my_arena->my_default_ctx', 1, 1, name='accessor')
    t = rw.sub(t, r'ed_ext_->task_disp->allow_fifo_task\(', 'TD_ALLOW_FIFO(ed_ext_->task_disp, ', 0, None, name='method')
    t = rw.sub(t, r'(?s)try_call\(\[&\] \{(.*?)\}\)\.on_completion\(\[&\] \{(.*?)\}\);', r'{ \1 } /* on completion (normal path; the exceptional path is C03) */ { \2 }', 1, 1, name='try_call(body).on_completion(fin) -> body; fin (no-exception path)')
    t = rw.sub(t, r'm_delegate\(\);', 'CALL_DELEGATE(self->m_delegate);', 0, None, name='delegate call')
    t = rw.sub(t, r'(?<![\w.>])finalize\(\);', 'dt_finalize(self);', 0, None, name='method')
    t = rw.sub(t, r'd1::task\*', 'task*', 0, None, name='ns-strip')
    t = rw.asserts(t, 0)
    t = rw.std(t)
    out.append(t)
    s = slice_block(ARC, r'd1::task\* cancel\(d1::execution_data&\) override', within=W)
    sliced.append('%s:%d delegated_task::cancel' % (ARC, s.line))
    t = rw.sub(s.text, r'd1::task\* cancel\(d1::execution_data&\) override', 'task* dt_cancel(struct delegated_task* self)', 1, 1, name='sig')
    t = rw.sub(t, r'(?<![\w.>])finalize\(\);', 'dt_finalize(self);', 0, None, name='method')
    t = rw.std(t)
    out.append(t)
    s = slice_block(ARC, r'void task_arena_impl::execute\(d1::task_arena_base& ta, d1::delegate_base& d\)')
    sliced.append('%s:%d task_arena_impl::execute' % (ARC, s.line))
    t = cxx2c.cpp_resolve(s.text, dict(common.TARGET_MACROS, _WIN64=None), 'task_arena_impl::execute')
    t = rw.sub(t, r'void task_arena_impl::execute\(d1::task_arena_base& ta, d1::delegate_base& d\)', 'void task_arena_execute(struct task_arena_base* ta, struct delegate_base* d)', 1, 1, name='sig')
    t = rw.sub(t, r'arena\* a = ta\.my_arena\.load\(std::memory_order_relaxed\);', 'struct arena* a = ta->my_arena;', 1, 1, name='ref-param + load')
    t = rw.sub(t, r'thread_data\* td = governor::get_thread_data\(\);', 'struct thread_data* td = STUB_get_thread_data();', 1, 1, name='callee stub')
    t = rw.sub(t, r'a->occupy_free_slot<\s*false\s*>\(\*td\)', 'STUB_occupy_free_slot(a, td)', 0, None, name='callee (proved: C16 slots.occupy_free_slot)')
    t = rw.sub(t, r'arena::out_of_arena', 'out_of_arena', 0, None, name='ns-strip')
    t = rw.sub(t, r'concurrent_monitor::thread_context waiter\(\(std::uintptr_t\)&d\);', 'struct thread_context waiter; INIT_thread_context(&waiter, (uintptr_t)d);', 0, None, name='ctor -> INIT')
    t = rw.sub(t, r'd1::wait_context wo\((\w+)\);', r'struct wait_context wo; INIT_wait_context(&wo, \1);', 0, None, name='ctor -> INIT')
    t = rw.sub(t, r'd1::task_group_context exec_context\(d1::task_group_context::(\w+)\);', r'struct tgc exec_context; INIT_tgc(&exec_context, tgc_\1);', 0, None, name='ctor -> INIT')
    t = rw.sub(t, r'task_group_context_impl::copy_fp_settings\(exec_context, \*a->my_default_ctx\);', 'STUB_copy_fp_settings(&exec_context, a->my_default_ctx);', 0, None, name='callee stub')
    t = rw.sub(t, r'delegated_task dt\(d, a->my_exit_monitors, wo\);', 'struct delegated_task dt; INIT_delegated_task(&dt, d, &a->my_exit_monitors, &wo);', 0, None, name='ctor -> INIT')
    t = rw.sub(t, r'a->enqueue_task\(\s*dt, exec_context, \*td\);', 'STUB_enqueue_task(a, &dt, &exec_context, td);', 0, None, name='callee stub (arena::enqueue_task)')
    t = rw.sub(t, r'a->my_exit_monitors\.(prepare_wait|cancel_wait|commit_wait)\(waiter\);', r'MONITOR_\1(&a->my_exit_monitors, &waiter);', 0, None, name='monitor')
    t = rw.sub(t, r'a->my_exit_monitors\.notify_one\(\);', 'MONITOR_notify_one(&a->my_exit_monitors);', 0, None, name='monitor')
    t = rw.sub(t, r'wo\.continue_execution\(\)', 'WAIT_CTX_CONTINUE(&wo)', 0, None, name='wait_context')
    t = rw.sub(t, r'nested_arena_context scope\(\*td, \*a, (\w+)\s*\);', r'NESTED_ARENA_ENTER(td, a, \1);', 0, None, name='RAII scope -> ENTER (the matching EXIT is the end of the block: checked by the harness at the delegate call)')
    t = rw.sub(t, r'r1::wait\(wo, exec_context\);', 'STUB_r1_wait(&wo, &exec_context);', 0, None, name='callee stub')
    t = rw.sub(t, r'auto exception = exec_context\.my_exception\.load\(std::memory_order_acquire\);', 'void* exception = exec_context.my_exception;', 0, None, name='load')
    t = rw.sub(t, r'exec_context\.my_exception\.load\(std::memory_order_relaxed\)', 'exec_context.my_exception', 0, None, name='load')
    t = rw.sub(t, r'exec_context\.is_group_execution_cancelled\(\)', 'exec_context.cancelled', 0, None, name='accessor')
    t = rw.sub(t, r'exception->throw_self\(\);', 'VERIF_THROW();', 0, None, name='rethrow -> marker')
    t = rw.sub(t, r'governor::is_thread_data_set\(td\)', 'true', 0, None, name='debug predicate')
    t = rw.sub(t, r'context_guard_helper<\s*false\s*> context_guard;', 'RG_NOP();', 0, None, name='RAII context guard -> marker below')
    t = rw.sub(t, r'context_guard\.set_ctx\(a->my_default_ctx\);', 'CONTEXT_GUARD_SET(a->my_default_ctx);', 0, None, name='context guard')
    t = rw.sub(t, r'(?<![\w.>])d\(\);', 'CALL_DELEGATE(d);', 0, None, name='delegate call')
    t = rw.asserts(t, 0)
    t = rw.std(t)
    t = tag_loops(t, 'exec', rw)
    out.append(t)
    common.write(ctx, 'delegate.inc', '\n'.join(out) + '\n')
    fired['delegate'] = rw.fired


def build(ctx):
    sliced, fired = extract(ctx)
    extract_locks(ctx, sliced, fired)
    extract_steal(ctx, sliced, fired)
    extract_relocate(ctx, sliced, fired)
    extract_delegate(ctx, sliced, fired)
    C = os.path.join(HERE, 'c01.c')
    n = 5 if ctx.tier == 'quick' else 7
    jobs = [
        Job('pool.get_task_impl', C, 'h_impl', route='LF', defines=['POOL'], target='arena_slot::get_task_impl (isolation filter)', source=ASC),
        Job('pool.get_task', C, 'h_get_task', route='BD', bound_text='owner alone (no thief), task pool of at most %d entries with arbitrary holes and isolation tags' % n, defines=['POOL', 'MAXN=%d' % n], unwind=n + 3, timeout=900,
            target='arena_slot::get_task + get_task_impl + reset_task_pool_and_leave (owner-side pop with isolation skipping)', source=ASC),
    ] + [Job('lock.' + n, C, 'h_' + h, route='RG', defines=['PLOCK'], loops=lp, nloops=1 if lp else None, target='arena_slot::' + n, source=ASH)
         for n, h, lp in (('acquire_task_pool', 'acquire', True), ('release_task_pool', 'release', False), ('lock_task_pool', 'lock', True),
                          ('unlock_task_pool', 'unlock', False), ('leave_task_pool', 'leave', False), ('publish_task_pool', 'publish', False))] + [
        Job('pool.get_task.any_size', C, 'h_get_task_lc', route='LC', loops=True, nloops=1, defines=['GTLC'], target='arena_slot::get_task + get_task_impl + reset_task_pool_and_leave (owner side, any pool size)', source=ASC, timeout=900),
        Job('the.owner', C, 'h_the_owner', route='RG', loops=True, nloops=1, defines=['THE_OWNER'], target='arena_slot::get_task (+ get_task_impl, reset_task_pool_and_leave) against any number of thieves: arbitration for one arbitrary slot', source=ASC, timeout=900),
        Job('the.thief', C, 'h_the_thief', route='RG', loops=True, nloops=1, defines=['THE_THIEF'], target='arena_slot::steal_task against the owner and other thieves: arbitration for one arbitrary slot', source=ASC, timeout=900),
    ] + [Job('pool.%s.%s.%s' % (fn, mode, part), C, 'h_' + h, route='LC', loops=True, nloops=2, solver='cadical', timeout=1200, twin=(fn == 'prepare_task_pool' and part == 'kept'),
             defines=['RELOC', 'RELOC_INPLACE' if mode == 'in_place' else 'RELOC_ALLOC'] + (['RELOC_ORDER'] if part == 'order' else []),
             target='arena_slot::%s: executions that %s; proof part: %s' % ('prepare_task_pool + allocate_task_pool + commit_relocated_tasks' if fn == 'prepare_task_pool' else 'spawn + commit_spawned_tasks (+ prepare_task_pool)',
                                                                     'return at once or compact in place' if mode == 'in_place' else 'allocate a larger array',
                                                                     'every old task is kept, no overwritten cell is read' if part == 'kept' else 'nothing invented, order kept'), source=ASH)
         for fn, h in (('prepare_task_pool', 'prepare'), ('spawn', 'spawn')) for mode in ('in_place', 'grow') for part in (('kept', 'order') if fn == 'prepare_task_pool' else ('kept',))] + [
        Job('delegate.execute', C, 'h_arena_execute', route='LC', loops=True, nloops=1, defines=['DELEG'], target='task_arena_impl::execute (inline path and delegation to a saturated arena)', source=ARC, timeout=600),
        Job('delegate.task', C, 'h_delegated_task', route='LF', defines=['DELEG'], target='delegated_task::execute / cancel / finalize', source=ARC),
        Job('pool.steal_task', C, 'h_steal', route='LC', loops=True, nloops=1, defines=['STEAL'], target='arena_slot::steal_task (thief side, any pool size)', source=ASC, timeout=600),
        Job('proxy.extract', C, 'h_extract', route='RG', defines=['PROXY'], target='task_proxy::extract_task<pool_bit|mailbox_bit> (two-sided claim)', source=MB),
    ]
    return {
        'jobs': jobs, 'sliced': sliced, 'fired': fired,
        'trusted': ['SC atomics (the real code relies on the full fences of --tail / ++head)', 'in the any-size and THE jobs the pool lock operations are stubs with the semantics proved in lock.*',
                    'spawn (not sliced) writes only slots at or above tail and only outside get_task', 'indices below 2^41', 'proxy / mailbox idle flags: pure stubs', 'small_object_allocator::delete_object stub'],
        'drops': ['poison_pointer (no-op in release builds)', 'thief-quiescence and head/tail consistency debug assertions in the THE jobs (obligations of the any-size jobs)', 'template<intptr_t from_bit> -> parameter',
                  'pool element accesses -> POOL_RD/POOL_WR, task attribute reads -> TASK_* accessor macros (representation of the pool by per-index arrays)'],
        'not_decided': ['prepare_task_pool relocation, spawn', 'mailbox MPSC list', 'task_stream', 'the dispatch loop', 'task_arena::execute delegation', 'wait_context / reference_vertex counting', 'fold_tree',
                        'visibility of writes at the wait', '"nothing lost" under concurrent stealing (at-most-once is proved concurrently; nothing-lost per function without a concurrent taker)'],
        'assumptions': ['tasks in a pool are pairwise distinct (representation by per-index arrays)', 'proxies in the any-size owner job yield their task through a stub that hands it out at most once'],
    }


def replay(ctx, jobname, failure):
    if jobname.startswith('delegate.'):
        exe = native.build([os.path.join(HERE, 'c01_replay_delegate.cpp')], os.path.join(ctx.work, 'c01_replay_delegate'), link_tbb=True)
        rc, out = native.run([exe], timeout=180)
        rep = {'cmd': exe, 'rc': rc, 'output': out[-1500:], 'reproduced': False, 'detail': 'native scenario (execute into a saturated arena from a cancelled group) ran f exactly once'}
        m = re.search(r'FAIL: (.*)', out)
        if rc not in (0, 'timeout') and m:
            rep.update(reproduced=True, detail='class=delegated-call-skipped ' + m.group(1)[:300], witness_class='delegated-call-skipped')
        return rep
    exe = native.build([os.path.join(HERE, 'c01_replay.cpp')], os.path.join(ctx.work, 'c01_replay'), link_tbb=True)
    rc, out = native.run([exe, jobname], timeout=120)
    rep = {'cmd': exe + ' ' + jobname, 'rc': rc, 'output': out[-1500:], 'reproduced': False, 'detail': 'native recipes found no failing sequence (note: src/tbb changes need a rebuilt libtbb; this replay links the library from /repo/_build)'}
    m = re.search(r'REPRODUCED (.*)', out)
    if m:
        rep['reproduced'] = True
        rep['detail'] = m.group(1)
        w = re.search(r'class=(\S+)', m.group(1))
        rep['witness_class'] = w.group(1) if w else None
    return rep
