"""C01 -- every task runs exactly once: owner-side deque pop with isolation skipping, the proxy two-sided claim."""
import os
import sys
import re
HERE = os.path.dirname(os.path.abspath(__file__))
sys.path.insert(0, os.path.join(HERE, '..'))
sys.path.insert(0, os.path.join(HERE, '..', '..', 'tools'))
import common
import native
import cxx2c
from cxx2c import Rewriter, slice_block, tag_loops, ExtractionBreak, load
from prove import Job

ASC = 'src/tbb/arena_slot.cpp'
ASH = 'src/tbb/arena_slot.h'
MB = 'src/tbb/mailbox.h'


def extract(ctx):
    sliced, fired = [], {}
    rw = Rewriter('arena_slot')
    out = []
    s = slice_block(ASC, r'd1::task\* arena_slot::get_task_impl\(size_t T, execution_data_ext& ed, bool& tasks_omitted, isolation_type isolation\)')
    sliced.append('%s:%d arena_slot::get_task_impl' % (ASC, s.line))
    t = rw.sub(s.text, r'd1::task\* arena_slot::get_task_impl\(size_t T, execution_data_ext& ed, bool& tasks_omitted, isolation_type isolation\)',
               'task* slot_get_task_impl(struct aslot* self, size_t T, execution_data_ext* ed, bool* tasks_omitted, isolation_type isolation)', 1, 1, name='sig')
    t = rw.sub(t, r'(?s)__TBB_ASSERT\(tail\.load\(std::memory_order_relaxed\) <= T \|\| is_local_task_pool_quiescent\(\),.*?\);', 'RG_NOP();', 1, 1, name='assert on thief quiescence (outside the sequential model) -> RG_NOP')
    t = rw.sub(t, r'__TBB_ASSERT\(!is_poisoned\( result \), "[^"]*"\);', 'RG_NOP();', 1, 1, name='poison check (debug only) -> RG_NOP')
    t = rw.sub(t, r'(?<![\w.>])task_pool_ptr\b', 'self->task_pool_ptr', 2, name='field')
    t = rw.sub(t, r'task_accessor::isolation\(\*result\)', 'result->isolation', 1, 1, name='accessor')
    t = rw.sub(t, r'task_accessor::is_proxy_task\(\*result\)', 'result->is_proxy', 1, 1, name='accessor')
    t = rw.sub(t, r'\btasks_omitted = true;', '*tasks_omitted = true;', 1, 1, name='ref-param')
    t = rw.sub(t, r'if \( tasks_omitted \)', 'if ( *tasks_omitted )', 1, 1, name='ref-param')
    t = rw.sub(t, r'task_proxy& tp = static_cast<task_proxy&>\(\*result\);', 'task* tp = result;', 1, 1, name='downcast')
    t = rw.sub(t, r'd1::slot_id aff_id = tp\.slot;', 'slot_id aff_id = tp->slot;', 1, 1, name='field')
    t = rw.sub(t, r'if \( d1::task \*t = tp\.extract_task<task_proxy::pool_bit>\(\) \) \{', '{ task *t = STUB_proxy_extract_task_pool(tp); if ( t ) {', 1, 1, name='decl-in-condition + callee stub (proved separately: job proxy.extract)')
    t = rw.sub(t, r'ed\.affinity_slot = aff_id;\s*return t;\s*\}', 'ed->affinity_slot = aff_id; return t; } }', 1, 1, name='close block')
    t = rw.sub(t, r'tp\.allocator\.delete_object\(&tp, ed\);', 'STUB_delete_proxy(tp);', 1, 1, name='callee stub')
    t = rw.sub(t, r'd1::task\*', 'task*', 1, name='ns-strip')
    t = rw.std(t)
    out.append(t)
    s = slice_block(ASC, r'd1::task\* arena_slot::get_task\(execution_data_ext& ed, isolation_type isolation\)')
    sliced.append('%s:%d arena_slot::get_task' % (ASC, s.line))
    t = rw.sub(s.text, r'd1::task\* arena_slot::get_task\(execution_data_ext& ed, isolation_type isolation\)', 'task* slot_get_task(struct aslot* self, execution_data_ext* ed, isolation_type isolation)', 1, 1, name='sig')
    t = rw.sub(t, r'T = --tail;', 'T = ATOMIC_PREDEC(self->tail);', 1, 1, name='atomic --')
    t = rw.sub(t, r'(?<![\w.>])(tail|head)\.load\([^)]*\)', r'ATOMIC_LOAD(self->\1)', 4, name='atomic-load')
    t = rw.sub(t, r'(?<![\w.>])(tail|head)\.store\(([^;]*?), std::memory_order_\w+\);', r'ATOMIC_STORE(self->\1, \2);', 0, None, name='atomic-store')
    t = rw.sub(t, r'(?<![\w.>])task_pool_ptr\b', 'self->task_pool_ptr', 1, name='field')
    t = rw.sub(t, r'(?<![\w.>])(acquire_task_pool|release_task_pool|reset_task_pool_and_leave|publish_task_pool)\(\)', r'slot_\1(self)', 5, name='method')
    t = rw.sub(t, r'(?<![\w.>])(is_task_pool_published|is_quiescent_local_task_pool_reset)\(\)', r'slot_\1(self)', 3, name='method')
    t = rw.sub(t, r'get_task_impl\( T, ed, tasks_omitted, isolation \)', 'slot_get_task_impl( self, T, ed, &tasks_omitted, isolation )', 1, 1, name='method + ref-param')
    t = rw.sub(t, r'poison_pointer\( self->task_pool_ptr\[T\] \);', 'RG_NOP();', 0, None, name='poison_pointer (no-op in release builds) -> RG_NOP')
    t = rw.sub(t, r'ed\.task_disp->m_thread_data->my_arena->advertise_new_work<arena::wakeup>\(\);', 'STUB_advertise_new_work();', 2, 2, name='callee stub')
    t = rw.sub(t, r'd1::task\*', 'task*', 1, name='ns-strip')
    t = rw.asserts(t, 8)
    t = rw.casts(t, 0)
    t = rw.fcasts(t, ['std::size_t', 'std::intptr_t'])
    t = rw.std(t)
    t = tag_loops(t, 'get_task', rw, expect=1)
    out.append(t)
    s = slice_block(ASH, r'void reset_task_pool_and_leave\(\)')
    sliced.append('%s:%d arena_slot::reset_task_pool_and_leave' % (ASH, s.line))
    t = rw.sub(s.text, r'void reset_task_pool_and_leave\(\)', 'void slot_reset_task_pool_and_leave(struct aslot* self)', 1, 1, name='sig')
    t = rw.sub(t, r'(?s)__TBB_ASSERT\(.*?\);', 'RG_NOP();', 0, name='lock-ownership assert -> RG_NOP')
    t = rw.sub(t, r'(?<![\w.>])(tail|head)\.store\(([^;]*?), std::memory_order_\w+\);', r'ATOMIC_STORE(self->\1, \2);', 0, None, name='atomic-store')
    t = rw.sub(t, r'leave_task_pool\(\);', 'slot_leave_task_pool(self);', 1, 1, name='method')
    out.insert(0, t)
    common.write(ctx, 'get_task.inc', 'task* slot_get_task_impl(struct aslot* self, size_t T, execution_data_ext* ed, bool* tasks_omitted, isolation_type isolation);\n' + '\n'.join(out) + '\n')
    # the same text with pool element accesses and task attribute reads behind accessor macros (representation of the pool by per-index arrays: job pool.get_task)
    t = '\n'.join(out)
    t = rw.sub(t, r'\bself->task_pool_ptr\[([^\]]*)\] = ([^;]*);', r'POOL_WR(self->task_pool_ptr, \1, \2);', 0, None, name='pool element write -> POOL_WR')
    t = rw.sub(t, r'\bself->task_pool_ptr\[([^\]]*)\]', r'POOL_RD(self->task_pool_ptr, \1)', 1, None, name='pool element read -> POOL_RD')
    t = rw.sub(t, r'\bresult->isolation\b', 'TASK_ISOLATION(result)', 1, 1, name='accessor macro')
    t = rw.sub(t, r'\bresult->is_proxy\b', 'TASK_IS_PROXY(result)', 1, 1, name='accessor macro')
    t = rw.sub(t, r'\btp->slot\b', 'TASK_SLOT(tp)', 1, 1, name='accessor macro')
    t2 = rw.number_sites(t, 'gt', by_kind=True)
    common.write(ctx, 'get_task_the.inc', 'task* slot_get_task_impl(struct aslot* self, size_t T, execution_data_ext* ed, bool* tasks_omitted, isolation_type isolation);\n' + t2 + '\n')
    common.write(ctx, 'get_task_lc.inc', 'task* slot_get_task_impl(struct aslot* self, size_t T, execution_data_ext* ed, bool* tasks_omitted, isolation_type isolation);\n' + t + '\n')
    # task_proxy::extract_task<from_bit>
    s = slice_block(MB, r'inline task\* extract_task \(\)')
    sliced.append('%s:%d task_proxy::extract_task<from_bit>' % (MB, s.line))
    t = rw.sub(s.text, r'inline task\* extract_task \(\)', 'task* proxy_extract_task(struct proxy* self, const intptr_t from_bit)', 1, 1, name='sig + template intptr_t -> parameter')
    t = rw.sub(t, r'(?<![\w.>])task_and_tag\.', 'self->task_and_tag.', 3, name='field')
    t = rw.atomics(t, ['task_and_tag'], 3)
    t = rw.asserts(t, 2)
    t = rw.std(t)
    t = rw.number_sites(t, 'ext', by_kind=True)
    pre = []
    for name, sig in (('is_shared', r'static bool is_shared \( intptr_t tat \)'), ('task_ptr', r'static task\* task_ptr \( intptr_t tat \)')):
        s2 = slice_block(MB, sig)
        sliced.append('%s:%d task_proxy::%s' % (MB, s2.line, name))
        pre.append(s2.text)
    for pat, what in ((r'static const intptr_t      pool_bit = 1<<0;', 'pool_bit'), (r'static const intptr_t   mailbox_bit = 1<<1;', 'mailbox_bit'), (r'static const intptr_t location_mask = pool_bit \| mailbox_bit;', 'location_mask')):
        if not re.search(pat, load(MB)):
            raise ExtractionBreak('mailbox.h: %s changed' % what)
    common.write(ctx, 'proxy.inc', '\n'.join(pre) + '\n' + t + '\n')
    fired['arena_slot'] = rw.fired
    return sliced, fired


LOCK_METHODS = [  # name, signature regex, C signature
    ('acquire_task_pool', r'void acquire_task_pool\(\)', 'void slot_acquire_task_pool(struct aslot* self)'),
    ('release_task_pool', r'void release_task_pool\(\)', 'void slot_release_task_pool(struct aslot* self)'),
    ('lock_task_pool', r'd1::task\*\* lock_task_pool\(\)', 'task** slot_lock_task_pool(struct aslot* self)'),
    ('unlock_task_pool', r'void unlock_task_pool\(d1::task\*\* victim_task_pool\)', 'void slot_unlock_task_pool(struct aslot* self, task** victim_task_pool)'),
    ('leave_task_pool', r'void leave_task_pool\(\)', 'void slot_leave_task_pool(struct aslot* self)'),
    ('publish_task_pool', r'void publish_task_pool\(\)', 'void slot_publish_task_pool(struct aslot* self)'),
]
MACROS = dict(common.TARGET_MACROS, __TBB_PREFETCHING=None)


def extract_locks(ctx, sliced, fired):
    """the six operations on the pool lock word arena_slot::task_pool"""
    rw = Rewriter('pool_lock')
    out = []
    for name, sig, csig in LOCK_METHODS:
        s = slice_block(ASH, sig)
        sliced.append('%s:%d arena_slot::%s' % (ASH, s.line, name))
        t = cxx2c.cpp_resolve(s.text, MACROS, name)
        t = rw.sub(t, sig, csig, 1, 1, name='sig')
        t = rw.sub(t, r'for\s*\(\s*atomic_backoff (\w+);;\s*\1\.pause\(\)\s*\)', 'for (;;)', 0, name='backoff-for')
        t = rw.sub(t, r'for\s*\(\s*atomic_backoff \w+;;[^)]*\)', 'for (;;)', 0, name='backoff-for')
        t = rw.sub(t, r'\bbackoff\.pause\(\);', 'RG_NOP();', 0, name='backoff-call->RG_NOP')
        t = rw.sub(t, r'__TBB_ASSERT\s*\(\s*task_pool == EmptyTaskPool,', '__TBB_ASSERT( task_pool.load(std::memory_order_relaxed) == EmptyTaskPool,', 0, name='implicit atomic load in assert')
        t = rw.sub(t, r'__TBB_ASSERT\(is_quiescent_local_task_pool_empty\(\), "[^"]*"\);', 'VERIF_ASSERT(self->head == self->tail, "Cannot leave arena when the task pool is not empty");', 0, name='debug helper inlined')
        t = rw.sub(t, r'(?<![\w.>])is_task_pool_published\(\)', '(ATOMIC_LOAD(self->task_pool) != EmptyTaskPool)', 0, name='method is_task_pool_published() (a relaxed load of the lock word)')
        t = rw.atomics(t, ['task_pool'], 1)
        t = rw.sub(t, r'ATOMIC_(\w+)\(task_pool\b', r'ATOMIC_\1(self->task_pool', 1, name='field')
        t = rw.sub(t, r'(?<![\w.>])(head|tail)\.load\([^)]*\)', r'self->\1', 0, name='plain read under lock')
        t = rw.sub(t, r'(?<![\w.>])task_pool_ptr\b', 'self->task_pool_ptr', 0, name='field')
        t = rw.sub(t, r'd1::task\*\*', 'task**', 0, name='ns-strip')
        t = rw.asserts(t, 0)
        t = rw.std(t)
        t = rw.number_sites(t, name, by_kind=True)
        t = tag_loops(t, name, rw)
        out.append(t)
    if not re.search(r'bool is_task_pool_published\(\) const \{\s*return task_pool\.load\(std::memory_order_relaxed\) != EmptyTaskPool;', load(ASH)):
        raise ExtractionBreak('arena_slot::is_task_pool_published is no longer a plain load of task_pool compared with EmptyTaskPool')
    for pat, what in ((r'static d1::task\*\* const EmptyTaskPool  = nullptr;', 'EmptyTaskPool'), (r'static d1::task\*\* const LockedTaskPool = reinterpret_cast<d1::task\*\*>\(~std::intptr_t\(0\)\);', 'LockedTaskPool')):
        if not re.search(pat, load(ASH)):
            raise ExtractionBreak('arena_slot.h: %s changed' % what)
    common.write(ctx, 'locks.inc', '\n'.join(out) + '\n')
    fired['pool_lock'] = rw.fired


def extract_steal(ctx, sliced, fired):
    rw = Rewriter('steal')
    s = slice_block(ASC, r'd1::task\* arena_slot::steal_task\(arena& a, isolation_type isolation, std::size_t slot_index\)')
    sliced.append('%s:%d arena_slot::steal_task' % (ASC, s.line))
    t = cxx2c.cpp_resolve(s.text, MACROS, 'steal_task')
    t = rw.sub(t, r'd1::task\* arena_slot::steal_task\(arena& a, isolation_type isolation, std::size_t slot_index\)',
               'task* slot_steal_task(struct aslot* self, struct arena* a, isolation_type isolation, size_t slot_index)', 1, 1, name='sig')
    t = rw.sub(t, r'd1::task\*\* victim_pool = lock_task_pool\(\);', 'task** victim_pool = slot_lock_task_pool(self);', 1, 1, name='method')
    t = rw.sub(t, r'unlock_task_pool\(victim_pool\);', 'slot_unlock_task_pool(self, victim_pool);', 1, 1, name='method')
    t = rw.sub(t, r'H = \+\+head;', 'H = ATOMIC_PREINC(self->head);', 1, 1, name='atomic ++')
    t = rw.sub(t, r'(?<![\w.>])(tail|head)\.load\([^)]*\)', r'ATOMIC_LOAD(self->\1)', 2, name='atomic-load')
    t = rw.sub(t, r'(?<![\w.>])head\.store\(\s*(?:/\*[^*]*\*/)?\s*([^;]*?), std::memory_order_\w+\s*\);', r'ATOMIC_STORE(self->head, \1);', 0, None, name='atomic-store')
    t = rw.sub(t, r'__TBB_ASSERT\( !is_poisoned\( result \), nullptr \);', 'RG_NOP();', 1, 1, name='poison check (debug only) -> RG_NOP')
    t = rw.sub(t, r'poison_pointer\( victim_pool\[[^\]]*\] \);', 'RG_NOP();', 2, 2, name='poison_pointer (no-op in release builds) -> RG_NOP')
    t = rw.sub(t, r'task_accessor::isolation\(\*result\)', 'TASK_ISOLATION(result)', 1, 1, name='accessor')
    t = rw.sub(t, r'task_accessor::is_proxy_task\(\*result\)', 'TASK_IS_PROXY(result)', 1, 1, name='accessor')
    t = rw.sub(t, r'task_proxy& tp = \*static_cast<task_proxy\*>\(result\);', 'task* tp = result;', 1, 1, name='downcast')
    t = rw.sub(t, r'\bvictim_pool\[([^\]]*)\] = ([^;]*);', r'POOL_WR(victim_pool, \1, \2);', 0, None, name='pool element write -> POOL_WR')
    t = rw.sub(t, r'\bvictim_pool\[([^\]]*)\]', r'POOL_RD(victim_pool, \1)', 1, 1, name='pool element read -> POOL_RD')
    t = rw.sub(t, r'task_proxy::is_shared\(tp\.task_and_tag\)', 'STUB_proxy_is_shared(tp)', 1, 1, name='callee stub (a load of the proxy word)')
    t = rw.sub(t, r'tp\.outbox->recipient_is_idle\(\)', 'STUB_outbox_recipient_is_idle(tp)', 1, 1, name='callee stub (a relaxed load)')
    t = rw.sub(t, r'a\.mailbox\(slot_index\)\.recipient_is_idle\(\)', 'STUB_my_mailbox_is_idle(a, slot_index)', 1, 1, name='callee stub (a relaxed load)')
    t = rw.sub(t, r'a\.advertise_new_work<arena::wakeup>\(\);', 'STUB_advertise_new_work();', 1, 1, name='callee stub')
    t = rw.sub(t, r'd1::task\*', 'task*', 1, name='ns-strip')
    t = rw.asserts(t, 3)
    t = rw.casts(t, 0)
    t = rw.fcasts(t, ['std::size_t', 'std::intptr_t'])
    t = rw.std(t)
    t = rw.number_sites(t, 'steal', by_kind=True)
    t = tag_loops(t, 'steal', rw, expect=1)
    common.write(ctx, 'steal.inc', t + '\n')
    fired['steal'] = rw.fired


def extract_relocate(ctx, sliced, fired):
    """prepare_task_pool (growth / in-place compaction of the deque), allocate_task_pool, commit_relocated_tasks, commit_spawned_tasks, spawn"""
    rw = Rewriter('relocate')
    out = []
    for name, sig, csig in (
            ('allocate_task_pool', r'void allocate_task_pool\( std::size_t n \)', 'void slot_allocate_task_pool(struct aslot* self, size_t n)'),
            ('commit_spawned_tasks', r'void commit_spawned_tasks\(std::size_t new_tail\)', 'void slot_commit_spawned_tasks(struct aslot* self, size_t new_tail)'),
            ('commit_relocated_tasks', r'void commit_relocated_tasks\(std::size_t new_tail\)', 'void slot_commit_relocated_tasks(struct aslot* self, size_t new_tail)'),
            ('prepare_task_pool', r'std::size_t prepare_task_pool\(std::size_t num_tasks\)', 'size_t slot_prepare_task_pool(struct aslot* self, size_t num_tasks)'),
            ('spawn', r'void spawn\(d1::task& t\)', 'void slot_spawn(struct aslot* self, task* t)')):
        s = slice_block(ASH, sig)
        sliced.append('%s:%d arena_slot::%s' % (ASH, s.line, name))
        t = rw.sub(s.text, sig, csig, 1, 1, name='sig')
        t = rw.sub(t, r'\(d1::task\*\*\)cache_aligned_allocate\(byte_size\)', 'STUB_cache_aligned_allocate(byte_size)', 0, None, name='callee stub (allocation)')
        t = rw.sub(t, r'cache_aligned_deallocate\( new_task_pool \);', 'STUB_cache_aligned_deallocate(new_task_pool);', 0, None, name='callee stub (deallocation)')
        t = rw.sub(t, r'fill_with_canary_pattern\([^;]*\);', 'RG_NOP();', 0, None, name='canary fill (no-op in release builds) -> RG_NOP')
        t = rw.sub(t, r'__TBB_ASSERT\(is_poisoned\(task_pool_ptr\[T\]\), nullptr\);', 'RG_NOP();', 0, None, name='poison check (debug only) -> RG_NOP')
        t = rw.sub(t, r'__TBB_ASSERT\(\s*!is_task_pool_published\(\) && is_quiescent_local_task_pool_reset\(\), nullptr\);', 'VERIF_ASSERT(!slot_is_task_pool_published(self) && self->head == 0 && self->tail == 0, "first allocation happens on an unpublished, reset pool");', 0, None, name='debug helper inlined')
        t = rw.sub(t, r'__TBB_ASSERT\(is_local_task_pool_quiescent\(\), "[^"]*"\);', 'VERIF_ASSERT(slot_is_local_task_pool_quiescent(self), "Task pool must be locked when calling commit_relocated_tasks()");', 0, None, name='debug helper')
        t = rw.sub(t, r'= &t;', '= t;', 0, None, name='ref-param')
        t = rw.sub(t, r'\bnew_task_pool\[([^\]]*)\]', r'POOL_RD(new_task_pool, \1)', 0, None, name='pool element read -> POOL_RD')
        t = rw.sub(t, r'(?<![\w.>])task_pool_ptr\[([^\]]*)\] = ([^;]*);', r'POOL_WR(self->task_pool_ptr, \1, \2);', 0, None, name='pool element write -> POOL_WR')
        t = rw.sub(t, r'(?<![\w.>])(tail|head)\.load\([^)]*\)', r'ATOMIC_LOAD(self->\1)', 0, None, name='atomic-load')
        t = rw.sub(t, r'(?<![\w.>])(tail|head)\.store\(([^;]*?), std::memory_order_\w+\);', r'ATOMIC_STORE(self->\1, \2);', 0, None, name='atomic-store')
        t = rw.sub(t, r'fill_with_canary_pattern\( T1, tail \);', 'RG_NOP();', 0, None, name='canary fill')
        t = rw.sub(t, r'(?<![\w.>])(my_task_pool_size|task_pool_ptr)\b', r'self->\1', 0, None, name='field')
        t = rw.sub(t, r'(?<![\w.>])min_task_pool_size\b', 'MIN_TASK_POOL_SIZE', 0, None, name='class constant')
        t = rw.sub(t, r'(?<![\w.>])(acquire_task_pool|release_task_pool|publish_task_pool|allocate_task_pool|commit_relocated_tasks|commit_spawned_tasks|prepare_task_pool|is_task_pool_published)\(', r'slot_\1(self, ', 0, None, name='method')
        t = rw.sub(t, r'\(self, \)', '(self)', 0, None, name='method (no args)')
        t = rw.sub(t, r'd1::task\*\*', 'task**', 0, None, name='ns-strip')
        t = rw.sub(t, r'd1::task\*', 'task*', 0, None, name='ns-strip')
        t = rw.asserts(t, 0)
        t = rw.std(t)
        t = tag_loops(t, name, rw)
        out.append(t)
    m = re.search(r'static constexpr std::size_t min_task_pool_size = (\d+);', load(ASH))
    if not m:
        raise ExtractionBreak('arena_slot.h: min_task_pool_size not found')
    m2 = re.search(r'const std::size_t max_nfs_size = (\d+);', load('include/oneapi/tbb/detail/_utils.h')) or re.search(r'max_nfs_size = (\d+)', load('include/oneapi/tbb/detail/_utils.h'))
    if not m2:
        raise ExtractionBreak('max_nfs_size not found')
    common.write(ctx, 'relocate.inc', '#define MIN_TASK_POOL_SIZE ((size_t)%s)\n#define max_nfs_size ((size_t)%s)\n' % (m.group(1), m2.group(1)) + '\n'.join(out) + '\n')
    fired['relocate'] = rw.fired


ARC = 'src/tbb/arena.cpp'


def extract_delegate(ctx, sliced, fired):
    """task_arena_impl::execute (inline path and delegation path) and delegated_task::execute/cancel/finalize"""
    rw = Rewriter('delegate')
    out = []
    W = r'class delegated_task : public d1::task \{'
    s = slice_block(ARC, r'void finalize\(\)', within=W)
    sliced.append('%s:%d delegated_task::finalize' % (ARC, s.line))
    t = rw.sub(s.text, r'void finalize\(\)', 'void dt_finalize(struct delegated_task* self)', 1, 1, name='sig')
    t = rw.sub(t, r'm_wait_ctx\.release\(\);', 'WAIT_CTX_RELEASE(self->m_wait_ctx);', 0, None, name='wait_context::release')
    t = rw.sub(t, r'(?s)m_monitor\.notify\(\[this\] \(std::uintptr_t ctx\) \{\s*return ctx == std::uintptr_t\(&m_delegate\);\s*\}\);', 'MONITOR_NOTIFY_KEY(self->m_monitor, (uintptr_t)self->m_delegate);', 0, None, name='monitor notify with key predicate')
    t = rw.sub(t, r'm_completed\.store\(true, std::memory_order_release\);', 'ATOMIC_STORE(self->m_completed, true);', 0, None, name='atomic-store')
    out.append(t)
    s = slice_block(ARC, r'd1::task\* execute\(d1::execution_data& ed\) override', within=W)
    sliced.append('%s:%d delegated_task::execute' % (ARC, s.line))
    t = rw.sub(s.text, r'd1::task\* execute\(d1::execution_data& ed\) override', 'task* dt_execute(struct delegated_task* self, execution_data_ext* ed)', 1, 1, name='sig')
    t = rw.sub(t, r'const execution_data_ext& ed_ext = static_cast<const execution_data_ext&>\(ed\);', 'execution_data_ext* ed_ext_ = ed;', 1, 1, name='downcast')
    t = rw.sub(t, r'\bed_ext\.', 'ed_ext_->', 3, name='ref')
    t = rw.sub(t, r'execution_data_ext orig_execute_data_ext = ', 'execution_data_ext orig_execute_data_ext = ', 1, 1, name='copy')
    t = rw.sub(t, r'(?s)__TBB_ASSERT\(&ed_ext_->task_disp->m_execute_data_ext == &ed,.*?\);', 'VERIF_ASSERT(&ed_ext_->task_disp->m_execute_data_ext == ed, "The execute data shall point to the current task dispatcher execute data");', 0, None, name='assert')
    t = rw.sub(t, r'ed_ext_->task_disp->get_thread_data\(\)\.my_arena->my_default_ctx', 'ed_ext_->task_disp->m_thread_data->my_arena->my_default_ctx', 1, 1, name='accessor')
    t = rw.sub(t, r'ed_ext_->task_disp->allow_fifo_task\(', 'TD_ALLOW_FIFO(ed_ext_->task_disp, ', 0, None, name='method')
    t = rw.sub(t, r'(?s)try_call\(\[&\] \{(.*?)\}\)\.on_completion\(\[&\] \{(.*?)\}\);', r'{ \1 } /* on completion (normal path; the exceptional path is C03) */ { \2 }', 1, 1, name='try_call(body).on_completion(fin) -> body; fin (no-exception path)')
    t = rw.sub(t, r'm_delegate\(\);', 'CALL_DELEGATE(self->m_delegate);', 0, None, name='delegate call')
    t = rw.sub(t, r'(?<![\w.>])finalize\(\);', 'dt_finalize(self);', 0, None, name='method')
    t = rw.sub(t, r'd1::task\*', 'task*', 0, None, name='ns-strip')
    t = rw.asserts(t, 0)
    t = rw.std(t)
    out.append(t)
    s = slice_block(ARC, r'd1::task\* cancel\(d1::execution_data&\) override', within=W)
    sliced.append('%s:%d delegated_task::cancel' % (ARC, s.line))
    t = rw.sub(s.text, r'd1::task\* cancel\(d1::execution_data&\) override', 'task* dt_cancel(struct delegated_task* self)', 1, 1, name='sig')
    t = rw.sub(t, r'(?<![\w.>])finalize\(\);', 'dt_finalize(self);', 0, None, name='method')
    t = rw.std(t)
    out.append(t)
    s = slice_block(ARC, r'void task_arena_impl::execute\(d1::task_arena_base& ta, d1::delegate_base& d\)')
    sliced.append('%s:%d task_arena_impl::execute' % (ARC, s.line))
    t = cxx2c.cpp_resolve(s.text, dict(common.TARGET_MACROS, _WIN64=None), 'task_arena_impl::execute')
    t = rw.sub(t, r'void task_arena_impl::execute\(d1::task_arena_base& ta, d1::delegate_base& d\)', 'void task_arena_execute(struct task_arena_base* ta, struct delegate_base* d)', 1, 1, name='sig')
    t = rw.sub(t, r'arena\* a = ta\.my_arena\.load\(std::memory_order_relaxed\);', 'struct arena* a = ta->my_arena;', 1, 1, name='ref-param + load')
    t = rw.sub(t, r'thread_data\* td = governor::get_thread_data\(\);', 'struct thread_data* td = STUB_get_thread_data();', 1, 1, name='callee stub')
    t = rw.sub(t, r'a->occupy_free_slot<\s*false\s*>\(\*td\)', 'STUB_occupy_free_slot(a, td)', 0, None, name='callee (proved: C16 slots.occupy_free_slot)')
    t = rw.sub(t, r'arena::out_of_arena', 'out_of_arena', 0, None, name='ns-strip')
    t = rw.sub(t, r'concurrent_monitor::thread_context waiter\(\(std::uintptr_t\)&d\);', 'struct thread_context waiter; INIT_thread_context(&waiter, (uintptr_t)d);', 0, None, name='ctor -> INIT')
    t = rw.sub(t, r'd1::wait_context wo\((\w+)\);', r'struct wait_context wo; INIT_wait_context(&wo, \1);', 0, None, name='ctor -> INIT')
    t = rw.sub(t, r'd1::task_group_context exec_context\(d1::task_group_context::(\w+)\);', r'struct tgc exec_context; INIT_tgc(&exec_context, tgc_\1);', 0, None, name='ctor -> INIT')
    t = rw.sub(t, r'task_group_context_impl::copy_fp_settings\(exec_context, \*a->my_default_ctx\);', 'STUB_copy_fp_settings(&exec_context, a->my_default_ctx);', 0, None, name='callee stub')
    t = rw.sub(t, r'delegated_task dt\(d, a->my_exit_monitors, wo\);', 'struct delegated_task dt; INIT_delegated_task(&dt, d, &a->my_exit_monitors, &wo);', 0, None, name='ctor -> INIT')
    t = rw.sub(t, r'a->enqueue_task\(\s*dt, exec_context, \*td\);', 'STUB_enqueue_task(a, &dt, &exec_context, td);', 0, None, name='callee stub (arena::enqueue_task)')
    t = rw.sub(t, r'a->my_exit_monitors\.(prepare_wait|cancel_wait|commit_wait)\(waiter\);', r'MONITOR_\1(&a->my_exit_monitors, &waiter);', 0, None, name='monitor')
    t = rw.sub(t, r'a->my_exit_monitors\.notify_one\(\);', 'MONITOR_notify_one(&a->my_exit_monitors);', 0, None, name='monitor')
    t = rw.sub(t, r'wo\.continue_execution\(\)', 'WAIT_CTX_CONTINUE(&wo)', 0, None, name='wait_context')
    t = rw.sub(t, r'nested_arena_context scope\(\*td, \*a, (\w+)\s*\);', r'NESTED_ARENA_ENTER(td, a, \1);', 0, None, name='RAII scope -> ENTER (the matching EXIT is the end of the block: checked by the harness at the delegate call)')
    t = rw.sub(t, r'r1::wait\(wo, exec_context\);', 'STUB_r1_wait(&wo, &exec_context);', 0, None, name='callee stub')
    t = rw.sub(t, r'auto exception = exec_context\.my_exception\.load\(std::memory_order_acquire\);', 'void* exception = exec_context.my_exception;', 0, None, name='load')
    t = rw.sub(t, r'exec_context\.my_exception\.load\(std::memory_order_relaxed\)', 'exec_context.my_exception', 0, None, name='load')
    t = rw.sub(t, r'exec_context\.is_group_execution_cancelled\(\)', 'exec_context.cancelled', 0, None, name='accessor')
    t = rw.sub(t, r'exception->throw_self\(\);', 'VERIF_THROW();', 0, None, name='rethrow -> marker')
    t = rw.sub(t, r'governor::is_thread_data_set\(td\)', 'true', 0, None, name='debug predicate')
    t = rw.sub(t, r'context_guard_helper<\s*false\s*> context_guard;', 'RG_NOP();', 0, None, name='RAII context guard -> marker below')
    t = rw.sub(t, r'context_guard\.set_ctx\(a->my_default_ctx\);', 'CONTEXT_GUARD_SET(a->my_default_ctx);', 0, None, name='context guard')
    t = rw.sub(t, r'(?<![\w.>])d\(\);', 'CALL_DELEGATE(d);', 0, None, name='delegate call')
    t = rw.asserts(t, 0)
    t = rw.std(t)
    t = tag_loops(t, 'exec', rw)
    out.append(t)
    common.write(ctx, 'delegate.inc', '\n'.join(out) + '\n')
    fired['delegate'] = rw.fired


TDH = 'src/tbb/task_dispatcher.h'


def extract_mailbox(ctx, sliced, fired):
    """mail_outbox::push (wait-free MPSC push), mail_outbox::internal_pop + mail_inbox::pop (single consumer), task_dispatcher::get_mailbox_task.
    A link (std::atomic<task_proxy*>: my_first or some proxy's next_in_mailbox) is addressed through CELL_FIRST(self) / CELL_OF(proxy); loads and stores of
    links become ATOMIC_LOAD/ATOMIC_STORE on such a link address (representation of the list by per-index arrays)."""
    rw = Rewriter('mailbox')

    def links(t):
        t = rw.atomics(t, ['next_in_mailbox', 'my_first', 'my_last'], 0)
        t = rw.sub(t, r'\b(prev_ptr|link)->store\(\s*([^,;]*?)\s*,\s*std::memory_order_\w+\s*\);', r'ATOMIC_STORE(\1, \2);', 0, None, name='store through a link pointer')
        t = rw.sub(t, r'&(\w+)->next_in_mailbox\b', r'CELL_OF(\1)', 0, None, name='&p->next_in_mailbox -> CELL_OF(p)')
        t = rw.sub(t, r'\b(\w+)->next_in_mailbox\b', r'CELL_OF(\1)', 0, None, name='p->next_in_mailbox (operand of an atomic op) -> CELL_OF(p)')
        t = rw.sub(t, r'&my_first\b', 'CELL_FIRST(self)', 0, None, name='&my_first -> CELL_FIRST(self)')
        t = rw.sub(t, r'(?<![\w.>])my_first\b', 'CELL_FIRST(self)', 0, None, name='my_first (operand of an atomic op) -> CELL_FIRST(self)')
        t = rw.sub(t, r'(?<![\w.>])my_last\b', 'self->my_last', 0, None, name='field')
        t = rw.sub(t, r'\batomic_proxy_ptr\*', 'cell_t', 0, None, name='type of a link address')
        t = rw.sub(t, r'\btask_proxy\*', 'proxy*', 0, None, name='type')
        t = rw.sub(t, r'\bassert_pointer_valid\(\w+\);', 'RG_NOP();', 0, None, name='assert_pointer_valid (debug) -> RG_NOP')
        return t
    out = []
    s = slice_block(MB, r'task_proxy\* internal_pop\( isolation_type isolation \)', within=r'class mail_outbox : padded<unpadded_mail_outbox> \{')
    sliced.append('%s:%d mail_outbox::internal_pop' % (MB, s.line))
    t = rw.sub(s.text, r'task_proxy\* internal_pop\( isolation_type isolation \)', 'proxy* outbox_internal_pop(struct outbox* self, isolation_type isolation)', 1, 1, name='sig')
    t = rw.sub(t, r'if \( task_proxy\* second = ([^;{]*?) \) \{', r'proxy* second; if ( (second = \1) ) {', 1, 1, name='decl-in-condition')
    t = rw.sub(t, r'task_accessor::isolation\(\*curr\)', 'PROXY_ISOLATION(curr)', 1, None, name='accessor')
    t = rw.sub(t, r'atomic_backoff backoff;', 'RG_NOP();', 0, None, name='backoff decl -> RG_NOP')
    t = rw.sub(t, r'\bbackoff\.pause\(\);', 'RG_NOP();', 0, None, name='backoff-call -> RG_NOP')
    t = links(t)
    t = rw.asserts(t, 0)
    t = rw.std(t)
    t = rw.number_sites(t, 'pop', by_kind=True)
    t = tag_loops(t, 'pop', rw)
    out.append(t)
    s = slice_block(MB, r'task_proxy\* pop\( isolation_type isolation \)', within=r'class mail_inbox \{')
    sliced.append('%s:%d mail_inbox::pop' % (MB, s.line))
    t = rw.sub(s.text, r'task_proxy\* pop\( isolation_type isolation \)', 'proxy* inbox_pop(struct inbox* self, isolation_type isolation)', 1, 1, name='sig')
    t = rw.sub(t, r'my_putter->internal_pop\(\s*isolation\s*\)', 'outbox_internal_pop(self->my_putter, isolation)', 0, None, name='method')
    t = rw.sub(t, r'(?<![\w.>])my_putter\b', 'self->my_putter', 0, None, name='field')
    t = rw.std(t)
    out.append(t)
    common.write(ctx, 'mail_pop.inc', '\n'.join(out) + '\n')
    s = slice_block(MB, r'void push\( task_proxy\* t \)', within=r'class mail_outbox : padded<unpadded_mail_outbox> \{')
    sliced.append('%s:%d mail_outbox::push' % (MB, s.line))
    t = rw.sub(s.text, r'void push\( task_proxy\* t \)', 'void outbox_push(struct outbox* self, proxy* t)', 1, 1, name='sig')
    t = links(t)
    t = rw.std(t)
    t = rw.number_sites(t, 'push', by_kind=True)
    common.write(ctx, 'mail_push.inc', t + '\n')
    # task_dispatcher::get_mailbox_task
    s = slice_block(TDH, r'inline d1::task\* task_dispatcher::get_mailbox_task\(mail_inbox& my_inbox, execution_data_ext& ed, isolation_type isolation\)')
    sliced.append('%s:%d task_dispatcher::get_mailbox_task' % (TDH, s.line))
    t = rw.sub(s.text, r'inline d1::task\* task_dispatcher::get_mailbox_task\(mail_inbox& my_inbox, execution_data_ext& ed, isolation_type isolation\)',
               'task* disp_get_mailbox_task(struct task_dispatcher* self, struct inbox* my_inbox, execution_data_ext* ed, isolation_type isolation)', 1, 1, name='sig')
    t = rw.sub(t, r'while \(task_proxy\* const tp = my_inbox\.pop\(isolation\)\) \{', 'proxy* tp; while ((tp = STUB_inbox_pop(my_inbox, isolation))) {', 1, 1, name='decl-in-condition + callee (proved: job mail.pop)')
    t = rw.sub(t, r'if \(d1::task\* result = tp->extract_task<task_proxy::(\w+)>\(\)\) \{', r'task* result; if ((result = STUB_proxy_extract_task(tp, \1))) {', 1, 1, name='decl-in-condition + callee (proved: job proxy.extract), template argument -> parameter')
    t = rw.sub(t, r'\bed\.(original_slot|affinity_slot)\b', r'ed->\1', 0, None, name='ref-param')
    t = rw.sub(t, r'ed\.task_disp->', 'ed->task_disp->', 0, None, name='ref-param')
    t = rw.sub(t, r'tp->allocator\.delete_object\(tp, ed\);', 'STUB_delete_proxy(tp);', 0, None, name='callee stub (small_object_allocator::delete_object)')
    t = rw.casts(t, 0)
    t = rw.std(t)
    t = tag_loops(t, 'gmt', rw, expect=1)
    common.write(ctx, 'get_mailbox_task.inc', t + '\n')
    fired['mailbox'] = rw.fired


TASKH = 'include/oneapi/tbb/detail/_task.h'


def extract_waitctx(ctx, sliced, fired):
    """wait_context::add_reference / continue_execution / reserve / release and the wait_context_vertex forwarding methods"""
    rw = Rewriter('wait_context')
    W = r'class wait_context \{'
    out = []
    m = re.search(r'static constexpr std::uint64_t overflow_mask = ([^;]*);', load(TASKH))
    if not m:
        raise ExtractionBreak('_task.h: wait_context::overflow_mask not found')
    out.append('#define overflow_mask ((uint64_t)(%s))' % m.group(1))
    for name, sig, csig in (
            ('add_reference', r'void add_reference\(std::int64_t delta\)', 'void wait_context_add_reference(struct wait_context* self, int64_t delta)'),
            ('continue_execution', r'bool continue_execution\(\) const', 'bool wait_context_continue_execution(struct wait_context* self)'),
            ('reserve', r'void reserve\(std::uint32_t delta = 1\)', 'void wait_context_reserve(struct wait_context* self, uint32_t delta)'),
            ('release', r'void release\(std::uint32_t delta = 1\)', 'void wait_context_release(struct wait_context* self, uint32_t delta)')):
        s = slice_block(TASKH, sig, within=W)
        sliced.append('%s:%d wait_context::%s' % (TASKH, s.line, name))
        t = rw.sub(s.text, sig, csig, 1, 1, name='sig')
        t = rw.sub(t, r'call_itt_task_notify\(releasing, this\);', 'RG_NOP();', 0, None, name='ITT call -> RG_NOP')
        t = rw.atomics(t, ['m_ref_count'], 0)
        t = rw.sub(t, r'(?<![\w.>])m_ref_count\b', 'self->m_ref_count', 0, None, name='field')
        t = rw.sub(t, r'r1::notify_waiters\(wait_ctx_addr\);', 'STUB_notify_waiters(wait_ctx_addr);', 0, None, name='callee stub (r1::notify_waiters: wakes the threads sleeping on this address)')
        t = rw.sub(t, r'(?<![\w.>])add_reference\(', 'wait_context_add_reference(self, ', 0, None, name='method')
        t = rw.sub(t, r'\bthis\b', 'self', 0, None, name='this')
        t = rw.casts(t, 0)
        t = rw.fcasts(t, ['std::uintptr_t', 'std::int64_t'])
        t = rw.asserts(t, 0)
        t = rw.std(t)
        t = rw.number_sites(t, name, by_kind=True)
        out.append(t)
    V = r'class wait_context_vertex : public wait_tree_vertex_interface \{'
    for name, sig, csig in (
            ('reserve', r'void reserve\(std::uint32_t delta = 1\) override', 'void wcv_reserve(struct wait_context_vertex* self, uint32_t delta)'),
            ('release', r'void release\(std::uint32_t delta = 1\) override', 'void wcv_release(struct wait_context_vertex* self, uint32_t delta)'),
            ('continue_execution', r'bool continue_execution\(\) const', 'bool wcv_continue_execution(struct wait_context_vertex* self)')):
        s = slice_block(TASKH, sig, within=V)
        sliced.append('%s:%d wait_context_vertex::%s' % (TASKH, s.line, name))
        t = rw.sub(s.text, sig, csig, 1, 1, name='sig')
        t = rw.sub(t, r'm_wait\.(reserve|release)\(delta\);', r'wait_context_\1(&self->m_wait, delta);', 0, None, name='member call')
        t = rw.sub(t, r'm_wait\.continue_execution\(\)', 'wait_context_continue_execution(&self->m_wait)', 0, None, name='member call')
        t = rw.std(t)
        out.append(t)
    common.write(ctx, 'waitctx.inc', '\n'.join(out) + '\n')
    fired['wait_context'] = rw.fired


TSH = 'src/tbb/task_stream.h'


def raii_try_lock(rw, text, decl_pat=r'mutex::scoped_lock (\w+);'):
    """`mutex::scoped_lock L;` (acquired later by L.try_acquire(m), released by the destructor if held) -> `scoped_lock_t L; SCOPED_LOCK_INIT(L);` at the declaration,
    `SCOPED_LOCK_EXIT(L);` wherever the object goes out of scope: before the closing brace of the enclosing block and in front of every return / break / continue that lies textually
    inside that scope (a scope that contains a loop of its own is refused: a break would then not leave the scope)."""
    n = 0
    while True:
        m = re.search(decl_pat, text)
        if not m:
            break
        n += 1
        name = m.group(1)
        mk = cxx2c.mask(text)
        d, i = 0, m.start() - 1
        while i >= 0:
            if mk[i] == '}':
                d += 1
            elif mk[i] == '{':
                if d == 0:
                    break
                d -= 1
            i -= 1
        if i < 0:
            raise ExtractionBreak('%s: scoped lock outside a block' % rw.name)
        close = cxx2c.match_close(mk, i)
        body, bmask = text[m.end():close], mk[m.end():close]
        if re.search(r'\b(for|while|do|switch)\b', bmask):
            raise ExtractionBreak('%s: a loop inside the scope of scoped_lock %s' % (rw.name, name))
        out, pos = [], 0
        for r in re.finditer(r'\breturn\b[^;]*;|\bbreak\s*;|\bcontinue\s*;', bmask):
            out.append(body[pos:r.start()])
            out.append('{ SCOPED_LOCK_EXIT(%s); %s }' % (name, body[r.start():r.end()]))
            pos = r.end()
        out.append(body[pos:])
        text = text[:m.start()] + 'scoped_lock_t %s; SCOPED_LOCK_INIT(%s);' % (name, name) + ''.join(out) + 'SCOPED_LOCK_EXIT(%s); ' % name + text[close:]
    rw._rec('mutex::scoped_lock + try_acquire -> SCOPED_LOCK_INIT / SCOPED_LOCK_EXIT at every scope exit', n, 0)
    text = rw.call(text, r'\b(\w+)\.try_acquire', lambda mm, a: 'SCOPED_TRY_ACQUIRE(%s, %s)' % (mm.group(1), ', '.join(a)), 0, name='try_acquire')
    return text


def extract_stream(ctx, sliced, fired):
    """task_stream<accessor>: push / try_push / pop / try_pop / pop_specific / look_specific / empty, both accessors' get_item, the population bit helpers, the lane selectors,
    initialize's lane count.  A lane's std::deque is reached through Q_* accessor macros (iterators are positions), lanes[i] through LANE* macros."""
    rw = Rewriter('task_stream')
    src = load(TSH)
    if not re.search(r'const population_t one = 1;', src) or not re.search(r'using population_t = uintptr_t;', src):
        raise ExtractionBreak('task_stream.h: population_t / one changed')
    TS = r'class task_stream : public task_stream_accessor< accessor > \{'
    # closed world: the population word is written only through set_one_bit / clear_one_bit, and those are called only from the three functions proved to call them under the lane lock
    cls = slice_block(TSH, TS).text
    nset, nclr = len(re.findall(r'\bset_one_bit\s*\(', cls)), len(re.findall(r'\bclear_one_bit\s*\(', cls))
    if re.search(r'\bpopulation\s*(?:=[^=]|\.(?:store|exchange|fetch_\w+|compare_exchange_\w+)\b|[|&^+-]=)', cls):
        raise ExtractionBreak('task_stream: the population word is written outside set_one_bit / clear_one_bit (closed-world scan)')
    others = [f for f in ('src/tbb/arena.h', 'src/tbb/arena.cpp', 'src/tbb/task_dispatcher.h', 'src/tbb/task_dispatcher.cpp', 'src/tbb/scheduler_common.h') if re.search(r'\b(set_one_bit|clear_one_bit)\b', load(f))]
    if others:
        raise ExtractionBreak('set_one_bit / clear_one_bit used outside task_stream.h: %s (closed-world scan)' % others)

    def common_rules(t):
        t = raii_try_lock(rw, t)
        t = rw.sub(t, r'lane_t& lane = lanes\[(\w+)\];', r'lane_t lane = LANE(self, \1);', 0, None, name='lane reference -> lane handle')
        t = rw.sub(t, r'\blanes\[(\w+)\]\.my_mutex\b', r'LANE_MUTEX(self, \1)', 0, None, name='lanes[i].my_mutex')
        t = rw.sub(t, r'\blanes\[(\w+)\]\.my_queue\b', r'LANE_QUEUE(self, \1)', 0, None, name='lanes[i].my_queue')
        t = rw.sub(t, r'\blane\.my_mutex\b', 'LANE_M(lane)', 0, None, name='lane.my_mutex')
        t = rw.sub(t, r'\blane\.my_queue\b', 'LANE_Q(lane)', 0, None, name='lane.my_queue')
        t = rw.sub(t, r'typename lane_t::queue_base_t::iterator\b', 'qiter_t', 0, None, name='deque iterator -> position')
        t = rw.sub(t, r'(?:typename )?lane_t::queue_base_t&', 'queue_t', 0, None, name='deque reference -> queue handle')
        t = rw.sub(t, r'\*--curr\b', 'Q_AT(queue, --curr)', 0, None, name='iterator dereference -> Q_AT')
        t = rw.sub(t, r'(?<![\w)])\*curr = ([^;]*);', r'Q_SET(queue, curr, \1);', 0, None, name='store through iterator -> Q_SET')
        t = rw.call(t, r'(?P<q>LANE_QUEUE\(self, \w+\)|LANE_Q\(lane\)|\bqueue)\.(?P<m>empty|front|pop_front|back|pop_back|push_back|end|begin)',
                    lambda mm, a: 'Q_%s(%s)' % (mm.group('m').upper(), ', '.join([mm.group('q')] + [x for x in a if x])), 0, name='deque method -> Q_*')
        t = rw.sub(t, r'task_accessor::isolation\(\*result\)', 'TASK_ISOLATION(result)', 0, None, name='accessor')
        t = rw.atomics(t, ['population', 'dest'], 0)
        t = rw.sub(t, r'ATOMIC_(\w+)\(population\b', r'ATOMIC_\1(self->population', 0, None, name='field')
        t = rw.sub(t, r'ATOMIC_(\w+)\(dest\b', r'ATOMIC_\1(*dest', 0, None, name='ref-param')
        t = rw.sub(t, r'\b(set_one_bit|clear_one_bit)\(\s*population\s*,', r'\1( &self->population,', 0, None, name='ref-arg')
        t = rw.sub(t, r'(?<![\w.>])(N|lanes)\b(?!\s*\()', r'self->\1', 0, None, name='field')
        t = rw.sub(t, r'(?<![\w.>])(try_push|try_pop|look_specific|empty)\(', r'stream_\1(self, ', 0, None, name='method')
        t = rw.sub(t, r'\(self, \)', '(self)', 0, None, name='method (no args)')
        t = rw.sub(t, r'this->get_item\(', 'ACCESSOR_get_item(', 0, None, name='accessor base-class method')
        t = rw.sub(t, r'\bnext_lane\(\s*(self->N)\s*\)', r'LANE_SELECT(next_lane, \1)', 0, None, name='functor call')
        t = rw.sub(t, r'for \(atomic_backoff b;', 'for (;', 0, None, name='backoff-for')
        t = rw.sub(t, r'\bb\.pause\(\)', 'RG_NOP()', 0, None, name='backoff-call -> RG_NOP')
        t = rw.sub(t, r'd1::task\*', 'task*', 0, None, name='ns-strip')
        t = rw.casts(t, 0)
        t = rw.fcasts(t, ['int'])
        t = rw.asserts(t, 0)
        t = rw.std(t)
        return t
    inc = {}
    for name, sig, csig, within in (
            ('set_one_bit', r'inline void set_one_bit\( std::atomic<population_t>& dest, int pos \)', 'void set_one_bit(population_t* dest, int pos)', None),
            ('clear_one_bit', r'inline void clear_one_bit\( std::atomic<population_t>& dest, int pos \)', 'void clear_one_bit(population_t* dest, int pos)', None),
            ('is_bit_set', r'inline bool is_bit_set\( population_t val, int pos \)', 'bool is_bit_set(population_t val, int pos)', None),
            ('empty', r'bool empty\(\)', 'bool stream_empty(struct task_stream* self)', TS),
            ('try_push', r'bool try_push\(d1::task\* source, unsigned lane_idx \)', 'bool stream_try_push(struct task_stream* self, task* source, unsigned lane_idx)', TS),
            ('try_pop', r'd1::task\* try_pop\( unsigned lane_idx \)', 'task* stream_try_pop(struct task_stream* self, unsigned lane_idx)', TS),
            ('look_specific', r'd1::task\* look_specific\( typename lane_t::queue_base_t& queue, isolation_type isolation \)', 'task* stream_look_specific(struct task_stream* self, queue_t queue, isolation_type isolation)', TS),
            ('pop_specific', r'd1::task\* pop_specific\( unsigned& last_used_lane, isolation_type isolation \)', 'task* stream_pop_specific(struct task_stream* self, unsigned* last_used_lane, isolation_type isolation)', TS),
            ('push', r'void push\(d1::task\* source, const lane_selector_t& next_lane \)', 'void stream_push(struct task_stream* self, task* source, lane_selector_t* next_lane)', TS),
            ('pop', r'd1::task\* pop\( const lane_selector_t& next_lane \)', 'task* stream_pop(struct task_stream* self, lane_selector_t* next_lane)', TS),
            ('get_item_front', r'd1::task\* get_item\( lane_t::queue_base_t& queue \)', 'task* front_get_item(queue_t queue)', r'class task_stream_accessor : no_copy \{'),
            ('get_item_back', r'd1::task\* get_item\( lane_t::queue_base_t& queue \)', 'task* backnn_get_item(queue_t queue)', r'class task_stream_accessor< back_nonnull_accessor > : no_copy \{')):
        sl = slice_block(TSH, sig, within=within)
        sliced.append('%s:%d %s' % (TSH, sl.line, name))
        t = rw.sub(sl.text, sig, csig, 1, 1, name='sig')
        if name == 'pop_specific':
            t = rw.sub(t, r'(?<![\w.>*])(?<!\* )last_used_lane\b', '(*last_used_lane)', 1, None, name='ref-param')
            # direction of the round-robin walk: only selects WHICH loop invariant CBMC is asked to check (backward / forward); any other stepping is undecided, not a violation
            fwd = len(re.findall(r'idx\s*=\s*\(\s*idx\s*\+\s*1\s*\)\s*&\s*\(\s*N\s*-\s*1\s*\)', t))
            bwd = len(re.findall(r'idx\s*=\s*\(\s*idx\s*-\s*1\s*\)\s*&\s*\(\s*N\s*-\s*1\s*\)', t))
            if fwd + bwd != 1:
                raise ExtractionBreak('pop_specific: the lane walk is neither idx=(idx-1)&(N-1) nor idx=(idx+1)&(N-1): no invariant template for it')
            ctx.popspec_dir = 'FWD' if fwd else 'BWD'
            rw.fired['pop_specific lane walk direction: %s' % ctx.popspec_dir] = 1
        t = common_rules(t)
        t = rw.number_sites(t, name, by_kind=True)
        t = tag_loops(t, name, rw)
        inc[name] = t
    protos = 'bool stream_try_push(struct task_stream* self, task* source, unsigned lane_idx);\ntask* stream_try_pop(struct task_stream* self, unsigned lane_idx);\ntask* stream_look_specific(struct task_stream* self, queue_t queue, isolation_type isolation);\nbool stream_empty(struct task_stream* self);\n'
    common.write(ctx, 'stream_bits.inc', '\n'.join(inc[k] for k in ('set_one_bit', 'clear_one_bit', 'is_bit_set')) + '\n')
    for k in ('empty', 'try_push', 'try_pop', 'look_specific', 'pop_specific', 'push', 'pop', 'get_item_front', 'get_item_back'):
        common.write(ctx, 'stream_%s.inc' % k, (protos if k in ('pop_specific', 'push', 'pop') else '') + inc[k] + '\n')
    # lane selectors and the lane count
    sel = []
    for cname, W, body_rule in (('subsequent', r'struct subsequent_lane_selector : lane_selector_base \{', None), ('preceding', r'struct preceding_lane_selector : lane_selector_base \{', None),
                                ('random', r'struct random_lane_selector :', None)):
        sl = slice_block(TSH, r'unsigned operator\(\)\( unsigned out_of \) const', within=W)
        sliced.append('%s:%d %s_lane_selector::operator()' % (TSH, sl.line, cname))
        t = rw.sub(sl.text, r'unsigned operator\(\)\( unsigned out_of \) const', 'unsigned %s_lane_selector_call(struct lane_selector* self, unsigned out_of)' % cname, 1, 1, name='sig')
        t = rw.sub(t, r'\((\+\+|--)my_previous ([-+*/%&|^]|<<|>>)= ([^;]*?)\);', r'(\1(*self->my_previous), (*self->my_previous) \2= \3);', 0, None, name='C++ `(++x &= m)` (x is an lvalue after ++) -> C `(++x, x &= m)`: same operators, same operands, same order')
        t = rw.sub(t, r'(?<![\w.>])my_previous\b', '(*self->my_previous)', 0, None, name='reference member')
        t = rw.sub(t, r'my_random\.get\(\)', 'STUB_random_get(self)', 0, None, name='callee stub (FastRandom::get: any value)')
        t = rw.asserts(t, 0)
        t = rw.std(t)
        sel.append(t)
    sl = slice_block(TSH, r'void initialize\( unsigned n_lanes \)', within=TS)
    sliced.append('%s:%d task_stream::initialize' % (TSH, sl.line))
    t = rw.sub(sl.text, r'void initialize\( unsigned n_lanes \)', 'void stream_initialize(struct task_stream* self, unsigned n_lanes)', 1, 1, name='sig')
    t = rw.sub(t, r'tbb::detail::log2\(', 'tbb_log2(', 0, None, name='ns-strip (log2: sliced, common.log2_c)')
    t = rw.sub(t, r'lanes = static_cast<lane_t\*>\(cache_aligned_allocate\(sizeof\(lane_t\) \* N\)\);', 'self->lanes = STUB_allocate_lanes(self->N);', 0, None, name='callee stub (allocation of N lanes)')
    t = rw.sub(t, r'new \(lanes \+ i\) lane_t;', 'STUB_construct_lane(self->lanes, i);', 0, None, name='placement new -> stub')
    t = rw.sub(t, r'population\.load\([^)]*\)', 'self->population', 0, None, name='load')
    t = rw.sub(t, r'(?<![\w.>])N\b', 'self->N', 0, None, name='field')
    t = rw.asserts(t, 0)
    t = rw.std(t)
    t = tag_loops(t, 'initialize', rw)
    l2, f2 = common.log2_c(ctx, sliced)
    common.write(ctx, 'stream_lanes.inc', l2 + '\n'.join(sel) + '\n' + t + '\n')
    fired['task_stream'] = rw.fired
    fired['task_stream.log2'] = f2


TGH = 'include/oneapi/tbb/task_group.h'
THH = 'include/oneapi/tbb/detail/_task_handle.h'
TDC = 'src/tbb/task_dispatcher.cpp'


def extract_glue(ctx, sliced, fired):
    """the glue between the user-level group and the scheduler: task_handle_task (constructor reserves, destructor releases, finalize destroys), function_task::execute / cancel,
    function_stack_task, task_group_base::prepare_task / wait, task_group::run, r1::spawn (plain and with an affinity slot: proxy + mailbox), spawn_and_notify, arena::enqueue_task."""
    rw = Rewriter('glue')
    out = []

    def fin(t):
        t = rw.sub(t, r'd1::task\*', 'task*', 0, None, name='ns-strip')
        t = rw.sub(t, r'(?<![\w:])task\* res\b', 'task* res', 0, None, name='type')
        t = rw.casts(t, 0)
        t = rw.asserts(t, 0)
        t = rw.std(t)
        return t
    # --- task_handle_task
    W = r'class task_handle_task : public d1::task \{'
    s1 = slice_block(THH, r'task_handle_task\(d1::wait_tree_vertex_interface\* vertex, d1::task_group_context& ctx, d1::small_object_allocator& alloc\)', within=W, ctor=True)
    sliced.append('%s:%d task_handle_task::task_handle_task' % (THH, s1.line))
    t = rw.sub(s1.text, r'task_handle_task\(d1::wait_tree_vertex_interface\* vertex, d1::task_group_context& ctx, d1::small_object_allocator& alloc\)\s*:\s*m_wait_tree_vertex\(vertex\)\s*,\s*m_ctx\(ctx\)\s*,\s*m_allocator\(alloc\)\s*\{',
               'void tht_ctor(struct fntask* self, vertex* vertex_, struct tgc* ctx, struct soa* alloc) {\n        self->m_wait_tree_vertex = vertex_; self->m_ctx = ctx; self->m_allocator = *alloc;', 1, 1, name='ctor sig + init-list -> assignments (declared order = listed order, checked below)')
    if not re.search(r'(?s)std::uint64_t m_version_and_traits\{\};\s*d1::wait_tree_vertex_interface\* m_wait_tree_vertex;\s*d1::task_group_context& m_ctx;\s*d1::small_object_allocator m_allocator;', load(THH)):
        raise ExtractionBreak('_task_handle.h: member order of task_handle_task changed')
    t = rw.sub(t, r'suppress_unused_warning\(m_version_and_traits\);', 'RG_NOP();', 0, None, name='suppress_unused_warning -> RG_NOP')
    t = rw.sub(t, r'(?<![\w.>])m_wait_tree_vertex->(reserve|release)\(\);', r'VERTEX_\1(self->m_wait_tree_vertex);', 0, None, name='wait-tree vertex call')
    out.append(fin(t))
    s1 = slice_block(THH, r'~task_handle_task\(\) override', within=W)
    sliced.append('%s:%d task_handle_task::~task_handle_task' % (THH, s1.line))
    t = rw.sub(s1.text, r'~task_handle_task\(\) override', 'void tht_dtor(struct fntask* self)', 1, 1, name='sig')
    t = rw.sub(t, r'(?<![\w.>])m_wait_tree_vertex->(reserve|release)\(\);', r'VERTEX_\1(self->m_wait_tree_vertex);', 0, None, name='wait-tree vertex call')
    out.append(fin(t))
    s1 = slice_block(THH, r'void finalize\(const d1::execution_data\* ed = nullptr\)', within=W)
    sliced.append('%s:%d task_handle_task::finalize' % (THH, s1.line))
    t = rw.sub(s1.text, r'void finalize\(const d1::execution_data\* ed = nullptr\)', 'void tht_finalize(struct fntask* self, struct execution_data* ed)', 1, 1, name='sig')
    t = rw.sub(t, r'm_allocator\.delete_object\(this, \*ed\);', 'DELETE_OBJECT_ED(&self->m_allocator, self, ed);', 0, None, name='small_object_allocator::delete_object (runs the destructor, then deallocates)')
    t = rw.sub(t, r'm_allocator\.delete_object\(this\);', 'DELETE_OBJECT(&self->m_allocator, self);', 0, None, name='small_object_allocator::delete_object (runs the destructor, then deallocates)')
    out.append(fin(t))
    s1 = slice_block(THH, r'd1::task_group_context& ctx\(\) const', within=W)
    sliced.append('%s:%d task_handle_task::ctx' % (THH, s1.line))
    t = rw.sub(s1.text, r'd1::task_group_context& ctx\(\) const', 'struct tgc* tht_ctx(struct fntask* self)', 1, 1, name='sig')
    t = rw.sub(t, r'return m_ctx;', 'return self->m_ctx;', 1, 1, name='field')
    out.append(fin(t))
    # --- task_ptr_or_nullptr (configuration without TBB_PREVIEW_TASK_GROUP_EXTENSIONS: user code)
    s1 = slice_block(TGH, r'd1::task\* task_ptr_or_nullptr\(F&& f\)\{', nth=1)
    sliced.append('%s:%d task_ptr_or_nullptr (non-preview configuration)' % (TGH, s1.line))
    t = rw.sub(s1.text, r'd1::task\* task_ptr_or_nullptr\(F&& f\)\{', 'task* task_ptr_or_nullptr(struct func* f){', 1, 1, name='sig')
    t = rw.sub(t, r'std::forward<F>\(f\)\(\);', 'CALL_FUNC(f);', 0, None, name='functor call')
    out.append(fin(t))
    # --- function_task
    W = r'class function_task : public task_handle_task\s*\{'
    s1 = slice_block(TGH, r'd1::task\* execute\(d1::execution_data& ed\) override', within=W)
    sliced.append('%s:%d function_task::execute' % (TGH, s1.line))
    t = rw.sub(s1.text, r'd1::task\* execute\(d1::execution_data& ed\) override', 'task* ft_execute(struct fntask* self, struct execution_data* ed)', 1, 1, name='sig')
    t = rw.sub(t, r'ed\.context == &this->ctx\(\)', 'ed->context == tht_ctx(self)', 0, None, name='ref')
    t = rw.sub(t, r'task_ptr_or_nullptr\(m_func\)', 'task_ptr_or_nullptr(self->m_func)', 0, None, name='field')
    t = rw.sub(t, r'(?<![\w.>])finalize\(&ed\);', 'tht_finalize(self, ed);', 0, None, name='method + ref')
    out.append(fin(t))
    s1 = slice_block(TGH, r'd1::task\* cancel\(d1::execution_data& ed\) override', within=W)
    sliced.append('%s:%d function_task::cancel' % (TGH, s1.line))
    t = rw.sub(s1.text, r'd1::task\* cancel\(d1::execution_data& ed\) override', 'task* ft_cancel(struct fntask* self, struct execution_data* ed)', 1, 1, name='sig')
    t = rw.sub(t, r'(?<![\w.>])finalize\(&ed\);', 'tht_finalize(self, ed);', 0, None, name='method + ref')
    out.append(fin(t))
    # --- function_stack_task
    W = r'class function_stack_task : public d1::task \{'
    for name, sig, csig, isctor in (
            ('finalize', r'void finalize\(\)', 'void fst_finalize(struct stacktask* self)', False),
            ('execute', r'task\* execute\(d1::execution_data&\) override', 'task* fst_execute(struct stacktask* self)', False),
            ('cancel', r'task\* cancel\(d1::execution_data&\) override', 'task* fst_cancel(struct stacktask* self)', False),
            ('function_stack_task', r'function_stack_task\(const F& f, d1::wait_tree_vertex_interface\* vertex\) : m_func\(f\), m_wait_tree_vertex\(vertex\)', 'void fst_ctor(struct stacktask* self, struct func* f, vertex* vertex_)', True)):
        s1 = slice_block(TGH, sig, within=W, ctor=isctor)
        sliced.append('%s:%d function_stack_task::%s' % (TGH, s1.line, name))
        t = rw.sub(s1.text, sig + (r'\s*\{' if isctor else ''), csig + (' {\n        self->m_func = f; self->m_wait_tree_vertex = vertex_;' if isctor else ''), 1, 1, name='sig')
        t = rw.sub(t, r'(?<![\w.>])m_wait_tree_vertex->(reserve|release)\(\);', r'VERTEX_\1(self->m_wait_tree_vertex);', 0, None, name='wait-tree vertex call')
        t = rw.sub(t, r'd2::task_ptr_or_nullptr\(m_func\)', 'task_ptr_or_nullptr(self->m_func)', 0, None, name='field')
        t = rw.sub(t, r'(?<![\w.>])finalize\(\);', 'fst_finalize(self);', 0, None, name='method')
        out.append(fin(t))
    # --- task_group_base::prepare_task / wait, task_group::run
    W = r'class task_group_base : no_copy \{'
    s1 = slice_block(TGH, r'd1::task\* prepare_task\(F&& f\)', within=W)
    sliced.append('%s:%d task_group_base::prepare_task' % (TGH, s1.line))
    t = rw.sub(s1.text, r'd1::task\* prepare_task\(F&& f\)', 'task* tgb_prepare_task(struct task_group_base* self, struct func* f)', 1, 1, name='sig')
    t = rw.sub(t, r'd1::small_object_allocator alloc\{\};', 'struct soa alloc = {0};', 1, 1, name='decl')
    t = rw.sub(t, r'(?s)alloc\.new_object<function_task<typename std::decay<F>::type>>\(std::forward<F>\(f\),\s*r1::get_thread_reference_vertex\(([^()]*)\), context\(\), alloc\)',
               r'NEW_function_task(&alloc, f, STUB_get_thread_reference_vertex(\1), tgb_context(self))', 0, None, name='new_object<function_task> -> allocation + the sliced constructor')
    t = rw.sub(t, r'(?<![\w.>])m_wait_vertex\b', 'self->m_wait_vertex', 0, None, name='field')
    out.append(fin(t))
    s1 = slice_block(TGH, r'task_group_status wait\(\)', within=W)
    sliced.append('%s:%d task_group_base::wait' % (TGH, s1.line))
    t = rw.sub(s1.text, r'task_group_status wait\(\)', 'task_group_status tgb_wait(struct task_group_base* self)', 1, 1, name='sig')
    t = rw.sub(t, r'(?s)try_call\(\[&\] \{(.*?)\}\)\.on_completion\(\[&\] \{(.*?)\}\);', r'{ \1 } /* on completion (normal path; the exceptional path is C03) */ { \2 }', 1, 1, name='try_call(body).on_completion(fin) -> body; fin (no-exception path)')
    t = rw.sub(t, r'd1::wait\(m_wait_vertex\.get_context\(\), context\(\)\);', 'STUB_d1_wait(WCV_get_context(&self->m_wait_vertex), tgb_context(self));', 0, None, name='callee stub (the dispatch loop: returns when the wait context has no reference left)')
    t = rw.sub(t, r'm_context\.is_group_execution_cancelled\(\)', 'TGC_is_group_execution_cancelled(&self->m_context)', 0, None, name='method')
    t = rw.sub(t, r'(?<![\w.>])context\(\)\.reset\(\);', 'TGC_reset(tgb_context(self));', 0, None, name='method')
    out.append(fin(t))
    W2 = r'class task_group : public task_group_base \{'
    s1 = slice_block(TGH, r'void run\(F&& f\)', within=W2)
    sliced.append('%s:%d task_group::run' % (TGH, s1.line))
    t = rw.sub(s1.text, r'void run\(F&& f\)', 'void tg_run(struct task_group_base* self, struct func* f)', 1, 1, name='sig')
    t = rw.sub(t, r'd1::spawn\(\*prepare_task\(std::forward<F>\(f\)\), context\(\)\);', 'D1_spawn(tgb_prepare_task(self, f), tgb_context(self));', 0, None, name='spawn of the prepared task')
    out.append(fin(t))
    common.write(ctx, 'glue_group.inc', '\n'.join(out) + '\n')
    # --- r1::spawn / spawn_and_notify (task_dispatcher.cpp), arena::enqueue_task
    out = []

    def sp(t):
        t = rw.sub(t, r'thread_data\* tls = governor::get_thread_data\(\);', 'struct thread_data* tls = STUB_get_thread_data();', 0, None, name='callee stub')
        t = rw.sub(t, r'task_group_context_impl::bind_to\(ctx, &?(\w+)\);', r'STUB_bind_to(ctx, \1);', 0, None, name='callee (C04: bind_to)')
        t = rw.sub(t, r'(?<![\w:])(?<!struct )arena\* a\b', 'struct arena* a', 0, None, name='type')
        t = rw.sub(t, r'(?<![\w:])(?<!struct )arena_slot\* slot\b', 'struct aslot* slot', 0, None, name='type')
        t = rw.sub(t, r'execution_data_ext& ed = ([^;]*);', r'execution_data_ext* ed = &\1;', 0, None, name='reference -> pointer')
        t = rw.sub(t, r'\bed\.isolation\b', 'ed->isolation', 0, None, name='reference -> pointer')
        t = rw.sub(t, r'task_accessor::context\(t\) = &ctx;', 'TASK_CONTEXT(t) = ctx;', 0, None, name='accessor + ref')
        t = rw.sub(t, r'task_accessor::isolation\(t\)', 'TASK_ISOLATION(t)', 0, None, name='accessor')
        t = rw.sub(t, r'task_accessor::isolation\(\*proxy\)', 'TASK_ISOLATION((task*)proxy)', 0, None, name='accessor')
        t = rw.sub(t, r'task_accessor::set_proxy_trait\(\*proxy\);', 'TASK_set_proxy_trait((task*)proxy);', 0, None, name='accessor')
        t = rw.sub(t, r'd1::small_object_allocator alloc\{\};', 'struct soa alloc = {0};', 0, None, name='decl')
        t = rw.sub(t, r'auto proxy = alloc\.new_object<task_proxy>\(static_cast<d1::execution_data&>\(ed\)\);', 'struct task_proxy* proxy = NEW_task_proxy(&alloc, ed);', 0, None, name='new_object<task_proxy>')
        t = rw.sub(t, r'&a->mailbox\(id\)', 'ARENA_mailbox(a, id)', 0, None, name='accessor')
        t = rw.sub(t, r'intptr_t\(&t\)', '((intptr_t)(t))', 0, None, name='fcast + ref')
        t = rw.sub(t, r'task_proxy::(location_mask|pool_bit|mailbox_bit)\b', r'\1', 0, None, name='ns-strip')
        t = rw.sub(t, r'proxy->outbox->push\(proxy\);', 'OUTBOX_push(proxy->outbox, proxy);', 0, None, name='callee (proved: job mail.push)')
        t = rw.sub(t, r'spawn_and_notify\(\*proxy, slot, a\);', 'spawn_and_notify((task*)proxy, slot, a);', 0, None, name='ref')
        t = rw.sub(t, r'slot->spawn\(t\);', 'SLOT_spawn(slot, t);', 0, None, name='callee (proved: job pool.spawn.*)')
        t = rw.sub(t, r'a->advertise_new_work<arena::(\w+)>\(\);', r'ARENA_advertise_new_work(a, \1);', 0, None, name='callee stub')
        t = rw.sub(t, r'advertise_new_work<(\w+)>\(\);', r'ARENA_advertise_new_work(self, \1);', 0, None, name='callee stub')
        t = rw.sub(t, r'd1::no_slot', 'no_slot', 0, None, name='ns-strip')
        t = rw.sub(t, r'tls->my_task_dispatcher->m_execute_data_ext\.isolation', 'tls->my_task_dispatcher->m_execute_data_ext.isolation', 0, None, name='(identity)')
        t = rw.casts(t, 0)
        t = rw.std(t)
        return t
    for name, sig, csig in (
            ('spawn_and_notify', r'static inline void spawn_and_notify\(d1::task& t, arena_slot\* slot, arena\* a\)', 'void spawn_and_notify(task* t, struct aslot* slot, struct arena* a)'),
            ('spawn', r'void __TBB_EXPORTED_FUNC spawn\(d1::task& t, d1::task_group_context& ctx\)', 'void r1_spawn(task* t, struct tgc* ctx)'),
            ('spawn(affinity)', r'void __TBB_EXPORTED_FUNC spawn\(d1::task& t, d1::task_group_context& ctx, d1::slot_id id\)', 'void r1_spawn_aff(task* t, struct tgc* ctx, slot_id id)')):
        s1 = slice_block(TDC, sig)
        sliced.append('%s:%d r1::%s' % (TDC, s1.line, name))
        t = rw.sub(s1.text, sig, csig, 1, 1, name='sig')
        out.append(sp(t))
    s1 = slice_block(ARC, r'void arena::enqueue_task\(d1::task& t, d1::task_group_context& ctx, thread_data& td\)')
    sliced.append('%s:%d arena::enqueue_task' % (ARC, s1.line))
    t = rw.sub(s1.text, r'void arena::enqueue_task\(d1::task& t, d1::task_group_context& ctx, thread_data& td\)', 'void arena_enqueue_task(struct arena* self, task* t, struct tgc* ctx, struct thread_data* td)', 1, 1, name='sig')
    t = rw.sub(t, r'my_fifo_task_stream\.push\( &t, random_lane_selector\(td\.my_random\) \);', 'STREAM_push(&self->my_fifo_task_stream, t, &td->my_random);', 0, None, name='callee (proved: job stream.push)')
    out.append(sp(t))
    common.write(ctx, 'glue_spawn.inc', '\n'.join(out) + '\n')
    fired['glue'] = rw.fired


SOPH = 'include/oneapi/tbb/detail/_small_object_pool.h'
SOPC = 'src/tbb/small_object_pool.cpp'
SOPI = 'src/tbb/small_object_pool_impl.h'


def extract_pool(ctx, sliced, fired):
    """the memory of a task_group task: small_object_allocator::new_object / delete_object / deallocate (template <typename Type> -> a size parameter SIZEOF_Type),
    r1::allocate / r1::deallocate, small_object_pool_impl::allocate_impl / deallocate_impl; and WHICH Type the two call sites bind (prepare_task: new_object<...>; finalize: delete_object(this))."""
    rw = Rewriter('small_object_pool')
    m = re.search(r'static constexpr std::size_t small_object_size = (\d+);', load(SOPI))
    if not m:
        raise ExtractionBreak('small_object_pool_impl.h: small_object_size not found')
    out = ['#define small_object_size ((size_t)%s)' % m.group(1),
           'void* pool_allocate_impl(struct pool* self, struct pool** allocator, size_t number_of_bytes);\nvoid pool_deallocate_impl(struct pool* self, void* ptr, size_t number_of_bytes, struct thread_data* td);\n'
           'void* r1_allocate(struct pool** allocator, size_t number_of_bytes);\nvoid r1_deallocate(struct pool* allocator, void* ptr, size_t number_of_bytes);\nvoid r1_deallocate_ed(struct pool* allocator, void* ptr, size_t number_of_bytes, execution_data_ext* ed);\n'
           'void soa_deallocate(struct soa* self, void* ptr, size_t SIZEOF_Type);\nvoid soa_deallocate_ed(struct soa* self, void* ptr, size_t SIZEOF_Type, execution_data_ext* ed);']
    W = r'class small_object_allocator \{'

    def fin(t):
        t = rw.sub(t, r'\bsizeof\(Type\)', 'SIZEOF_Type', 0, None, name='template <typename Type>: sizeof(Type) -> parameter SIZEOF_Type')
        t = rw.sub(t, r'call_itt_task_notify\(destroy, ptr\);', 'RG_NOP();', 0, None, name='ITT call -> RG_NOP')
        t = rw.sub(t, r'small_object_allocator alloc = \*this;', 'struct soa alloc = *self;', 0, None, name='copy of *this')
        t = rw.sub(t, r'object->~Type\(\);', 'DESTROY_OBJECT(object);', 0, None, name='destructor call')
        t = rw.sub(t, r'alloc\.deallocate\(object, ed\);', 'soa_deallocate_ed(&alloc, object, SIZEOF_Type, ed);', 0, None, name='member template call: same Type')
        t = rw.sub(t, r'alloc\.deallocate\(object\);', 'soa_deallocate(&alloc, object, SIZEOF_Type);', 0, None, name='member template call: same Type')
        t = rw.sub(t, r'r1::allocate\(m_pool, ', 'r1_allocate(&self->m_pool, ', 0, None, name='ns-strip + ref-arg')
        t = rw.sub(t, r'r1::deallocate\(\*m_pool, ([^;]*), ed\);', r'r1_deallocate_ed(self->m_pool, \1, ed);', 0, None, name='ns-strip + ref-arg')
        t = rw.sub(t, r'r1::deallocate\(\*m_pool, ([^;]*)\);', r'r1_deallocate(self->m_pool, \1);', 0, None, name='ns-strip + ref-arg')
        t = rw.sub(t, r'auto constructed_object = new\(allocated_object\) Type\(std::forward<Args>\(args\)\.\.\.\);', 'void* constructed_object = CONSTRUCT_AT(allocated_object);', 0, None, name='placement new of Type -> CONSTRUCT_AT')
        t = rw.sub(t, r'(?<![\w.>])m_pool\b', 'self->m_pool', 0, None, name='field')
        t = rw.asserts(t, 0)
        t = rw.std(t)
        return t
    for name, sig, csig, nth in (
            ('new_object', r'Type\* new_object\(Args&&\.\.\. args\)', 'void* soa_new_object(struct soa* self, size_t SIZEOF_Type)', 0),
            ('deallocate(ed)', r'void deallocate\(Type\* ptr, const execution_data& ed\)', 'void soa_deallocate_ed(struct soa* self, void* ptr, size_t SIZEOF_Type, execution_data_ext* ed)', 0),
            ('deallocate', r'void deallocate\(Type\* ptr\)', 'void soa_deallocate(struct soa* self, void* ptr, size_t SIZEOF_Type)', 0),
            ('delete_object(ed)', r'void delete_object\(Type\* object, const execution_data& ed\)', 'void soa_delete_object_ed(struct soa* self, void* object, size_t SIZEOF_Type, execution_data_ext* ed)', 0),
            ('delete_object', r'void delete_object\(Type\* object\)', 'void soa_delete_object(struct soa* self, void* object, size_t SIZEOF_Type)', 0)):
        s1 = slice_block(SOPH, sig, within=W, nth=nth)
        sliced.append('%s:%d small_object_allocator::%s' % (SOPH, s1.line, name))
        t = rw.sub(s1.text, sig, csig, 1, 1, name='sig')
        out.append(fin(t))

    def impl(t):
        t = rw.sub(t, r'auto tls = governor::get_thread_data\(\);', 'struct thread_data* tls = STUB_get_thread_data();', 0, None, name='callee stub')
        t = rw.sub(t, r'auto& tls = static_cast<const execution_data_ext&>\(ed\)\.task_disp->get_thread_data\(\);', 'struct thread_data* tls = ED_thread_data(ed);', 0, None, name='accessor')
        t = rw.sub(t, r'auto pool = tls->my_small_object_pool;', 'struct pool* pool = tls->my_small_object_pool;', 0, None, name='auto')
        t = rw.sub(t, r'auto pool = static_cast<small_object_pool_impl\*>\(&allocator\);', 'struct pool* pool = allocator;', 0, None, name='downcast of a reference')
        t = rw.sub(t, r'pool->allocate_impl\(allocator, number_of_bytes\)', 'pool_allocate_impl(pool, allocator, number_of_bytes)', 0, None, name='method')
        t = rw.sub(t, r'pool->deallocate_impl\(ptr, number_of_bytes, \*?tls\)', 'pool_deallocate_impl(pool, ptr, number_of_bytes, tls)', 0, None, name='method')
        t = rw.sub(t, r'small_object\* obj\{nullptr\};', 'small_object* obj = NULL;', 0, None, name='brace-init')
        t = rw.sub(t, r'new \(cache_aligned_allocate\(([^()]*)\)\) small_object\{nullptr\}', r'NEW_small_object(STUB_cache_aligned_allocate(\1))', 0, None, name='placement new of a list node in fresh memory')
        t = rw.sub(t, r'auto obj = new \(ptr\) small_object\{nullptr\};', 'small_object* obj = NEW_small_object(ptr);', 0, None, name='placement new of a list node in the freed object')
        t = rw.sub(t, r'(?<![\w.>])allocator = this;', '*allocator = self;', 0, None, name='ref-param')
        t = rw.sub(t, r'obj->~small_object\(\);', 'RG_NOP();', 0, None, name='trivial destructor -> RG_NOP')
        t = rw.sub(t, r'this->~small_object_pool_impl\(\);', 'DESTROY_POOL(self);', 0, None, name='destructor call')
        t = rw.sub(t, r'cache_aligned_deallocate\((\w+)\);', r'STUB_cache_aligned_deallocate(\1);', 0, None, name='callee stub')
        t = rw.sub(t, r'STUB_cache_aligned_deallocate\(this\)', 'STUB_cache_aligned_deallocate(self)', 0, None, name='this')
        t = rw.sub(t, r'td\.my_small_object_pool == this', 'td->my_small_object_pool == self', 0, None, name='ref-param + this')
        t = rw.sub(t, r'auto old_public_list = ', 'small_object* old_public_list = ', 0, None, name='auto')
        t = rw.atomics(t, ['m_public_list', 'm_public_counter'], 0)
        t = rw.sub(t, r'(?<![\w.>])(m_private_list|m_private_counter|m_public_list|m_public_counter)\b', r'self->\1', 0, None, name='field')
        t = rw.asserts(t, 0)
        t = rw.std(t)
        return t
    for name, sig, csig, nth in (
            ('r1::allocate', r'void\* __TBB_EXPORTED_FUNC allocate\(d1::small_object_pool\*& allocator, std::size_t number_of_bytes\)', 'void* r1_allocate(struct pool** allocator, size_t number_of_bytes)', 0),
            ('r1::deallocate', r'void __TBB_EXPORTED_FUNC deallocate\(d1::small_object_pool& allocator, void\* ptr, std::size_t number_of_bytes\)', 'void r1_deallocate(struct pool* allocator, void* ptr, size_t number_of_bytes)', 0),
            ('r1::deallocate(ed)', r'void __TBB_EXPORTED_FUNC deallocate\(d1::small_object_pool& allocator, void\* ptr, std::size_t number_of_bytes, const d1::execution_data& ed\)', 'void r1_deallocate_ed(struct pool* allocator, void* ptr, size_t number_of_bytes, execution_data_ext* ed)', 0),
            ('allocate_impl', r'void\* small_object_pool_impl::allocate_impl\(d1::small_object_pool\*& allocator, std::size_t number_of_bytes\)', 'void* pool_allocate_impl(struct pool* self, struct pool** allocator, size_t number_of_bytes)', 0),
            ('deallocate_impl', r'void small_object_pool_impl::deallocate_impl\(void\* ptr, std::size_t number_of_bytes, thread_data& td\)', 'void pool_deallocate_impl(struct pool* self, void* ptr, size_t number_of_bytes, struct thread_data* td)', 0)):
        s1 = slice_block(SOPC, sig, nth=nth)
        sliced.append('%s:%d %s' % (SOPC, s1.line, name))
        t = rw.sub(s1.text, sig, csig, 1, 1, name='sig')
        t = impl(t)
        t = tag_loops(t, name.replace('r1::', 'r1_').replace('(ed)', '_ed'), rw)
        out.append(t)
    # which Type do the two call sites bind?
    pt = slice_block(TGH, r'd1::task\* prepare_task\(F&& f\)', within=r'class task_group_base : no_copy \{').text
    ma = re.search(r'alloc\.new_object<\s*(\w+)\s*<', pt)
    if not ma:
        raise ExtractionBreak('task_group_base::prepare_task: no alloc.new_object<Class<...>> call')
    alloc_type = ma.group(1)
    # the object is deleted by finalize(): `delete_object(this, ...)` deduces Type from the static type of `this`, i.e. the class in which finalize is defined
    del_type = None
    for cls, Wc in (('function_task', r'class function_task : public task_handle_task\s*\{'), ('task_handle_task', r'class task_handle_task : public d1::task \{')):
        try:
            ft = slice_block(TGH if cls == 'function_task' else THH, r'void finalize\(const d1::execution_data\* ed(?: = nullptr)?\)[^;{]*', within=Wc)
        except ExtractionBreak:
            continue
        if re.search(r'delete_object\(\s*this\b', ft.text):
            del_type = cls
            sliced.append('%s:%d %s::finalize (binds delete_object<%s>)' % (ft.rel, ft.line, cls, cls))
            break
    if del_type is None:
        raise ExtractionBreak('no finalize() that calls delete_object(this, ...) found in function_task / task_handle_task')
    rw.fired['type bound at new_object site'] = 1
    rw.fired['type bound at delete_object site'] = 1
    out.append('#define SIZEOF_AT_NEW SIZEOF_%s\n#define SIZEOF_AT_DELETE SIZEOF_%s\n#define TYPE_AT_NEW "%s"\n#define TYPE_AT_DELETE "%s"' % (alloc_type, del_type, alloc_type, del_type))
    common.write(ctx, 'pool.inc', '\n'.join(out) + '\n')
    fired['small_object_pool'] = rw.fired


WTH = 'src/tbb/waiters.h'


def slice_between(rel, start_pat, end_pat, include_end=False):
    """mechanical fragment: from the start of the first match of start_pat up to the first later match of end_pat (excluded, or included)"""
    text = load(rel)
    m = cxx2c.mask(text)
    a = re.search(start_pat, m)
    if not a:
        raise ExtractionBreak('%s: fragment start %r not found' % (rel, start_pat))
    b = re.compile(end_pat).search(m, a.end())
    if not b:
        raise ExtractionBreak('%s: fragment end %r not found' % (rel, end_pat))
    e = b.end() if include_end else b.start()
    return cxx2c.Slice(rel, a.start(), e, cxx2c.strip_comments(text[a.start():e]), cxx2c.line_of(text, a.start()))


def extract_dispatch(ctx, sliced, fired):
    """the dispatch loop: task_dispatcher::receive_or_steal_task (whole function), the main dispatch loop of task_dispatcher::local_wait_for_all (the fragment `do { ... } while (t != nullptr);`
    inside the exception loop), external_waiter::continue_execution / postpone_execution (Waiter := external_waiter)."""
    rw = Rewriter('dispatch')

    def body_rules(t):
        t = rw.nop_calls(t, [r'\bassert_task_valid', r'\bassert_pointer_valid<[^<>]*(?:<[^<>]*>)?[^<>]*>', r'\bsuppress_unused_warning', r'\bITT_CALLEE_ENTER', r'\bITT_CALLEE_LEAVE'])
        t = rw.sub(t, r'__TBB_ASSERT\(task_accessor::is_resume_task\(\*t\) \|\| isolation == no_isolation \|\| isolation == ed\.isolation, nullptr\);',
                   'VERIF_ASSERT(TASK_is_resume_task(t) || isolation == no_isolation || isolation == ed->isolation, "an isolated dispatch level runs only tasks of its own isolation level");', 0, None, name='assert kept as obligation')
        t = rw.nop_calls(t, [r'\b__TBB_ASSERT(?:_EX)?'])        # the remaining debug assertions talk about TLS / observer / registration state outside this slice
        t = rw.sub(t, r'context_guard\.set_ctx\(ed\.context\);', 'CONTEXT_GUARD_SET(ed->context);', 0, None, name='context guard')
        t = rw.sub(t, r'Waiter::postpone_execution\(\*t\)', 'external_waiter_postpone_execution(t)', 0, None, name='Waiter := external_waiter')
        t = rw.sub(t, r'void\* itt_caller = ed\.context->my_itt_caller;', 'void* itt_caller = TGC_itt_caller(ed->context);', 0, None, name='accessor')
        t = rw.sub(t, r'ed\.context->is_group_execution_cancelled\(\)', 'TGC_is_group_execution_cancelled(ed->context)', 0, None, name='method')
        t = rw.sub(t, r't = t->(cancel|execute)\(ed\);', r't = TASK_\1(t, ed);', 0, None, name='virtual call of the task')
        t = rw.sub(t, r'd1::no_slot', 'no_slot', 0, None, name='ns-strip')
        t = rw.sub(t, r'arena_slot& slot = \*m_thread_data->my_arena_slot;', 'struct aslot* slot = m_thread_data->my_arena_slot;', 0, None, name='reference -> pointer')
        t = rw.sub(t, r'arena_slot& slot = \*tls\.my_arena_slot;', 'struct aslot* slot = tls.my_arena_slot;', 0, None, name='reference -> pointer')
        t = rw.sub(t, r'arena& a = \*tls\.my_arena;', 'struct arena* a = tls.my_arena;', 0, None, name='reference -> pointer')
        t = rw.sub(t, r'mail_inbox& inbox = tls\.my_inbox;', 'struct inbox* inbox = &tls.my_inbox;', 0, None, name='reference -> pointer')
        t = rw.sub(t, r'task_stream<front_accessor>& (\w+) = a\.(\w+);', r'struct stream* \1 = &a.\2;', 0, None, name='reference -> pointer')
        t = rw.sub(t, r'unsigned& (\w+) = slot\.(\w+);', r'unsigned* \1 = &slot.\2;', 0, None, name='reference -> pointer')
        t = rw.sub(t, r'waiter\.continue_execution\(slot, t\)', 'external_waiter_continue_execution(waiter, slot, &t)', 0, None, name='Waiter := external_waiter + ref-param')
        t = rw.sub(t, r'waiter\.reset_wait\(\);', 'WAITER_reset_wait(waiter);', 0, None, name='waiter')
        t = rw.sub(t, r'waiter\.pause\(slot\);', 'WAITER_pause(waiter, slot);', 0, None, name='waiter')
        t = rw.sub(t, r'inbox\.set_is_idle\(\s*(\w+)\s*\);', r'INBOX_set_is_idle(inbox, \1);', 0, None, name='inbox')
        t = rw.sub(t, r'inbox\.is_idle_state\(\s*(\w+)\s*\)', r'INBOX_is_idle_state(inbox, \1)', 0, None, name='inbox')
        t = rw.sub(t, r'(?<![\w.>])can_steal\(\)', 'disp_can_steal(self)', 0, None, name='method')
        t = rw.sub(t, r'slot\.is_task_pool_published\(\)', 'SLOT_is_task_pool_published(slot)', 0, None, name='callee (lock.*: a load of the pool word)')
        t = rw.sub(t, r'slot\.get_task\(ed, isolation\)', 'SLOT_get_task(slot, ed, isolation)', 0, None, name='callee (proved: pool.get_task.any_size, the.owner)')
        t = rw.sub(t, r'receive_or_steal_task<ITTPossible>\(\s*\*m_thread_data, ed, waiter, isolation, dl_guard\.old_properties\.fifo_tasks_allowed,\s*critical_allowed\s*\)',
                   'disp_receive_or_steal_task(self, m_thread_data, ed, waiter, isolation, dl_guard->old_properties.fifo_tasks_allowed, critical_allowed)', 0, None, name='member template call')
        t = rw.sub(t, r'(?<![\w.>])(get_inbox_or_critical_task|get_stream_or_critical_task|steal_or_get_critical|get_critical_task)\(', r'disp_\1(self, ', 0, None, name='method')
        t = rw.sub(t, r'a\.my_observers\.notify_entry_observers\(tls\.my_last_observer, tls\.my_is_worker\);', 'OBSERVERS_notify_entry(a, tls);', 0, None, name='observers')
        t = rw.sub(t, r'task_accessor::(context|isolation)\(\*t\)', lambda mm: 'TASK_%s(t)' % mm.group(1).upper(), 0, None, name='accessor')
        t = rw.sub(t, r'tls\.my_random\b', '&tls.my_random', 0, None, name='ref-arg')
        t = rw.sub(t, r'\b(tls|ed|a|slot)\.(?=\w)', r'\1->', 0, None, name='reference -> pointer')
        t = rw.sub(t, r'(?<![\w.>])m_thread_data\b', 'self->m_thread_data', 0, None, name='field')
        t = rw.sub(t, r'd1::task\*', 'task*', 0, None, name='ns-strip')
        t = rw.std(t)
        return t
    out = ['task* disp_receive_or_steal_task(struct task_dispatcher* self, struct thread_data* tls, execution_data_ext* ed, waiter_t* waiter, isolation_type isolation, bool fifo_allowed, bool critical_allowed);']
    W = r'class external_waiter : public sleep_waiter \{'
    s1 = slice_block(WTH, r'bool continue_execution\(arena_slot& slot, d1::task\*& t\) const', within=W)
    sliced.append('%s:%d external_waiter::continue_execution' % (WTH, s1.line))
    t = rw.sub(s1.text, r'bool continue_execution\(arena_slot& slot, d1::task\*& t\) const', 'bool external_waiter_continue_execution(waiter_t* self, struct aslot* slot, task** t)', 1, 1, name='sig')
    t = rw.sub(t, r'__TBB_ASSERT\(t == nullptr, nullptr\);', 'VERIF_ASSERT(*t == NULL, "the waiter is asked only when no task is in hand");', 0, None, name='assert + ref-param')
    t = rw.sub(t, r'my_wait_ctx\.continue_execution\(\)', 'WAITCTX_continue_execution(self->my_wait_ctx)', 0, None, name='callee (proved: wait.continue_execution)')
    t = rw.sub(t, r'(?<![\w.>*])t = get_self_recall_task\(slot\);', '*t = STUB_get_self_recall_task(slot);', 0, None, name='ref-param + callee stub (C20)')
    t = rw.std(t)
    out.append(t)
    s1 = slice_block(WTH, r'static bool postpone_execution\(d1::task&\)', within=W)
    sliced.append('%s:%d external_waiter::postpone_execution' % (WTH, s1.line))
    t = rw.sub(s1.text, r'static bool postpone_execution\(d1::task&\)', 'bool external_waiter_postpone_execution(task* t_)', 1, 1, name='sig')
    out.append(rw.std(t))
    s1 = slice_block(TDH, r'd1::task\* task_dispatcher::receive_or_steal_task\(')
    sliced.append('%s:%d task_dispatcher::receive_or_steal_task' % (TDH, s1.line))
    t = rw.sub(s1.text, r'(?s)d1::task\* task_dispatcher::receive_or_steal_task\(\s*thread_data& tls, execution_data_ext& ed, Waiter& waiter, isolation_type isolation,\s*bool fifo_allowed, bool critical_allowed\)',
               'task* disp_receive_or_steal_task(struct task_dispatcher* self, struct thread_data* tls, execution_data_ext* ed, waiter_t* waiter, isolation_type isolation, bool fifo_allowed, bool critical_allowed)', 1, 1, name='sig')
    t = body_rules(t)
    t = tag_loops(t, 'ros', rw, expect=1)
    common.write(ctx, 'dispatch_ros.inc', '\n'.join(out) + '\n' + t + '\n')
    s1 = slice_between(TDH, r'do \{\s*context_guard\.set_ctx\(ed\.context\);', r'\} while \(t != nullptr\);', include_end=True)
    sliced.append('%s:%d task_dispatcher::local_wait_for_all (main dispatch loop)' % (TDH, s1.line))
    t = body_rules(s1.text)
    t = rw.sub(t, r'\bdl_guard\.', 'dl_guard->', 0, None, name='reference -> pointer')
    t = tag_loops(t, 'main', rw, expect=2)
    t = ('task* disp_main_loop(struct task_dispatcher* self, task* t, waiter_t* waiter, execution_data_ext* ed, const isolation_type isolation, bool critical_allowed, struct dl_guard* dl_guard) {\n'
         '    /* fragment of local_wait_for_all: the main dispatch loop */\n    ' + t + '\n    MAIN_LOOP_LEFT(t);\n    return NULL;\n}\n')
    common.write(ctx, 'dispatch_main.inc', '\n'.join(out) + '\n' + t)
    fired['dispatch'] = rw.fired


ARH = 'src/tbb/arena.h'


def extract_sources(ctx, sliced, fired):
    """the thin layers between the dispatch loop and the containers: arena::steal_task (victim choice, proxy handling of the thief), arena::get_stream_task,
    task_dispatcher::get_inbox_or_critical_task / get_stream_or_critical_task / steal_or_get_critical"""
    rw = Rewriter('sources')
    out = []

    def rules(t):
        t = rw.sub(t, r'auto slot_num_limit = my_limit\.load\([^)]*\);', 'unsigned slot_num_limit = ATOMIC_LOAD(self->my_limit);', 0, None, name='auto + atomic load')
        t = rw.sub(t, r'frnd\.get\(\)', 'STUB_random_get(frnd)', 0, None, name='callee stub (FastRandom::get: any value)')
        t = rw.sub(t, r'arena_slot\* victim = &my_slots\[k\];', 'struct aslot* victim = ARENA_SLOT(self, k);', 0, None, name='slot array access')
        t = rw.sub(t, r'd1::task \*\*pool = victim->task_pool\.load\([^)]*\);', 'task **pool = ATOMIC_LOAD(victim->task_pool);', 0, None, name='atomic load')
        t = rw.sub(t, r'victim->steal_task\(\*this, isolation, k\)', 'SLOT_steal_task(victim, self, isolation, k)', 0, None, name='callee (proved: pool.steal_task, the.thief)')
        t = rw.sub(t, r'task_accessor::is_proxy_task\(\*t\)', 'TASK_IS_PROXY(t)', 0, None, name='accessor')
        t = rw.sub(t, r'task_proxy &tp = \*\(task_proxy\*\)t;', 'struct task_proxy* tp = (struct task_proxy*)t;', 0, None, name='reference -> pointer')
        t = rw.sub(t, r'd1::slot_id slot = tp\.slot;', 'slot_id slot = tp->slot;', 0, None, name='field')
        t = rw.sub(t, r'tp\.extract_task<task_proxy::(\w+)>\(\)', r'STUB_proxy_extract_task(tp, \1)', 0, None, name='callee (proved: proxy.extract), template argument -> parameter')
        t = rw.sub(t, r'tp\.allocator\.delete_object\(&tp, ed\);', 'STUB_delete_proxy(tp);', 0, None, name='callee stub')
        t = rw.sub(t, r'd1::(any_slot|no_slot)', r'\1', 0, None, name='ns-strip')
        t = rw.sub(t, r'(?<![\w.>])stream\.empty\(\)', 'STREAM_empty(stream)', 0, None, name='callee (stream.*)')
        t = rw.sub(t, r'stream\.pop\(subsequent_lane_selector\(hint\)\)', 'STREAM_pop(stream, hint)', 0, None, name='callee (proved: stream.pop)')
        t = rw.sub(t, r'inbox\.empty\(\)', 'INBOX_empty(inbox)', 0, None, name='inbox')
        t = rw.sub(t, r'inbox\.is_idle_state\(\s*(\w+)\s*\)', r'INBOX_is_idle_state(inbox, \1)', 0, None, name='inbox')
        t = rw.sub(t, r'inbox\.set_is_idle\(\s*(\w+)\s*\);', r'INBOX_set_is_idle(inbox, \1);', 0, None, name='inbox')
        t = rw.sub(t, r'(?<![\w.>])get_critical_task\(', 'disp_get_critical_task(self, ', 0, None, name='method')
        t = rw.sub(t, r'(?<![\w.>])get_mailbox_task\(inbox, ed, isolation\)', 'disp_get_mailbox_task(self, inbox, ed, isolation)', 0, None, name='method (proved: mail.get_mailbox_task)')
        t = rw.sub(t, r'a\.get_stream_task\(stream, hint\)', 'arena_get_stream_task(a, stream, hint)', 0, None, name='method')
        t = rw.sub(t, r'a\.steal_task\(arena_index, random, ed, isolation\)', 'arena_steal_task(a, arena_index, random, ed, isolation)', 0, None, name='method')
        t = rw.sub(t, r'if \(d1::task\* t = ([^;{]*?)\) \{', r'task* t; if ((t = \1)) {', 0, None, name='decl-in-condition')
        t = rw.sub(t, r'task_accessor::(context|isolation)\(\*t\)', lambda mm: 'TASK_%s(t)' % mm.group(1).upper(), 0, None, name='accessor')
        t = rw.sub(t, r'\bed\.(?=\w)', 'ed->', 0, None, name='reference -> pointer')
        t = rw.sub(t, r'd1::task\s*\*', 'task*', 0, None, name='ns-strip')
        t = rw.asserts(t, 0)
        t = rw.std(t)
        return t
    for rel, name, sig, csig in (
            (ARH, 'arena::steal_task', r'inline d1::task\* arena::steal_task\(unsigned arena_index, FastRandom& frnd, execution_data_ext& ed, isolation_type isolation\)',
             'task* arena_steal_task(struct arena* self, unsigned arena_index, struct rnd* frnd, execution_data_ext* ed, isolation_type isolation)'),
            (ARH, 'arena::get_stream_task', r'inline d1::task\* arena::get_stream_task\(task_stream<accessor>& stream, unsigned& hint\)', 'task* arena_get_stream_task(struct arena* self, struct stream* stream, unsigned* hint)'),
            (TDH, 'task_dispatcher::get_inbox_or_critical_task', r'(?s)inline d1::task\* task_dispatcher::get_inbox_or_critical_task\(\s*execution_data_ext& ed, mail_inbox& inbox, isolation_type isolation, bool critical_allowed\)',
             'task* disp_get_inbox_or_critical_task(struct task_dispatcher* self, execution_data_ext* ed, struct inbox* inbox, isolation_type isolation, bool critical_allowed)'),
            (TDH, 'task_dispatcher::get_stream_or_critical_task', r'(?s)inline d1::task\* task_dispatcher::get_stream_or_critical_task\(\s*execution_data_ext& ed, arena& a, task_stream<front_accessor>& stream, unsigned& hint,\s*isolation_type isolation, bool critical_allowed\)',
             'task* disp_get_stream_or_critical_task(struct task_dispatcher* self, execution_data_ext* ed, struct arena* a, struct stream* stream, unsigned* hint, isolation_type isolation, bool critical_allowed)'),
            (TDH, 'task_dispatcher::steal_or_get_critical', r'(?s)inline d1::task\* task_dispatcher::steal_or_get_critical\(\s*execution_data_ext& ed, arena& a, unsigned arena_index, FastRandom& random,\s*isolation_type isolation, bool critical_allowed\)',
             'task* disp_steal_or_get_critical(struct task_dispatcher* self, execution_data_ext* ed, struct arena* a, unsigned arena_index, struct rnd* random, isolation_type isolation, bool critical_allowed)')):
        s1 = slice_block(rel, sig)
        sliced.append('%s:%d %s' % (rel, s1.line, name))
        t = rw.sub(s1.text, sig, csig, 1, 1, name='sig')
        out.append(rules(t))
    for pat, what in ((r'constexpr slot_id no_slot = slot_id\(~0\);', 'no_slot'), (r'constexpr slot_id any_slot = slot_id\(~1\);', 'any_slot')):
        if not re.search(pat, load(TASKH)):
            raise ExtractionBreak('_task.h: %s changed' % what)
    common.write(ctx, 'sources.inc', '\n'.join(out) + '\n')
    fired['sources'] = rw.fired


def build(ctx):
    sliced, fired = extract(ctx)
    extract_locks(ctx, sliced, fired)
    extract_steal(ctx, sliced, fired)
    extract_relocate(ctx, sliced, fired)
    extract_delegate(ctx, sliced, fired)
    extract_mailbox(ctx, sliced, fired)
    extract_waitctx(ctx, sliced, fired)
    extract_stream(ctx, sliced, fired)
    extract_glue(ctx, sliced, fired)
    extract_pool(ctx, sliced, fired)
    extract_dispatch(ctx, sliced, fired)
    extract_sources(ctx, sliced, fired)
    C = os.path.join(HERE, 'c01.c')
    n = 5 if ctx.tier == 'quick' else 7
    jobs = [
        Job('pool.get_task_impl', C, 'h_impl', route='LF', defines=['POOL'], target='arena_slot::get_task_impl (isolation filter)', source=ASC),
        Job('pool.get_task', C, 'h_get_task', route='BD', bound_text='owner alone (no thief), task pool of at most %d entries with arbitrary holes and isolation tags' % n, defines=['POOL', 'MAXN=%d' % n], unwind=n + 3, timeout=900,
            target='arena_slot::get_task + get_task_impl + reset_task_pool_and_leave (owner-side pop with isolation skipping)', source=ASC),
    ] + [Job('lock.' + n, C, 'h_' + h, route='RG', defines=['PLOCK'], loops=lp, nloops=1 if lp else None, target='arena_slot::' + n, source=ASH)
         for n, h, lp in (('acquire_task_pool', 'acquire', True), ('release_task_pool', 'release', False), ('lock_task_pool', 'lock', True),
                          ('unlock_task_pool', 'unlock', False), ('leave_task_pool', 'leave', False), ('publish_task_pool', 'publish', False))] + [
        Job('pool.get_task.any_size', C, 'h_get_task_lc', route='LC', loops=True, nloops=1, defines=['GTLC'], target='arena_slot::get_task + get_task_impl + reset_task_pool_and_leave (owner side, any pool size)', source=ASC, timeout=900),
        Job('the.owner', C, 'h_the_owner', route='RG', loops=True, nloops=1, defines=['THE_OWNER'], target='arena_slot::get_task (+ get_task_impl, reset_task_pool_and_leave) against any number of thieves: arbitration for one arbitrary slot', source=ASC, timeout=900),
        Job('the.thief', C, 'h_the_thief', route='RG', loops=True, nloops=1, defines=['THE_THIEF'], target='arena_slot::steal_task against the owner and other thieves: arbitration for one arbitrary slot', source=ASC, timeout=900),
    ] + [Job('pool.%s.%s.%s' % (fn, mode, part), C, 'h_' + h, route='LC', loops=True, nloops=2, solver='cadical', timeout=1200, twin=(fn == 'prepare_task_pool' and part == 'kept'),
             defines=['RELOC', 'RELOC_INPLACE' if mode == 'in_place' else 'RELOC_ALLOC'] + (['RELOC_ORDER'] if part == 'order' else []),
             target='arena_slot::%s: executions that %s; proof part: %s' % ('prepare_task_pool + allocate_task_pool + commit_relocated_tasks' if fn == 'prepare_task_pool' else 'spawn + commit_spawned_tasks (+ prepare_task_pool)',
                                                                     'return at once or compact in place' if mode == 'in_place' else 'allocate a larger array',
                                                                     'every old task is kept, no overwritten cell is read' if part == 'kept' else 'nothing invented, order kept'), source=ASH)
         for fn, h in (('prepare_task_pool', 'prepare'), ('spawn', 'spawn')) for mode in ('in_place', 'grow') for part in (('kept', 'order') if fn == 'prepare_task_pool' else ('kept',))] + [
        Job('delegate.execute', C, 'h_arena_execute', route='LC', loops=True, nloops=1, defines=['DELEG'], target='task_arena_impl::execute (inline path and delegation to a saturated arena)', source=ARC, timeout=600),
        Job('delegate.task', C, 'h_delegated_task', route='LF', defines=['DELEG'], target='delegated_task::execute / cancel / finalize', source=ARC),
        Job('pool.steal_task', C, 'h_steal', route='LC', loops=True, nloops=1, defines=['STEAL'], target='arena_slot::steal_task (thief side, any pool size)', source=ASC, timeout=600),
        Job('proxy.extract', C, 'h_extract', route='RG', defines=['PROXY'], target='task_proxy::extract_task<pool_bit|mailbox_bit> (two-sided claim)', source=MB),
        Job('mail.pop', C, 'h_mail_pop', route='RG', loops=True, nloops=2, defines=['MAILPOP'], target='mail_inbox::pop + mail_outbox::internal_pop (single consumer, any list length) against any number of concurrent pushers', source=MB, timeout=600),
        Job('mail.get_mailbox_task', C, 'h_get_mailbox_task', route='LC', loops=True, nloops=1, defines=['GMT'], target='task_dispatcher::get_mailbox_task', source=TDH),
        Job('wait.release', C, 'h_wait_release', route='RG', defines=['WAITCTX'], target='wait_context_vertex::release -> wait_context::release -> add_reference', source=TASKH),
        Job('wait.reserve', C, 'h_wait_reserve', route='RG', defines=['WAITCTX'], target='wait_context_vertex::reserve -> wait_context::reserve -> add_reference', source=TASKH),
        Job('wait.continue_execution', C, 'h_wait_continue', route='RG', defines=['WAITCTX'], target='wait_context_vertex::continue_execution -> wait_context::continue_execution', source=TASKH),
        Job('stream.look_specific', C, 'h_look_specific', route='LC', loops=True, nloops=1, defines=['STREAM', 'SQ_LOOK'], target='task_stream::look_specific (any lane length)', source=TSH),
        Job('stream.get_item.front', C, 'h_get_item_front', route='LF', defines=['STREAM', 'SQ_GETITEM'], target='task_stream_accessor<front_accessor>::get_item', source=TSH),
        Job('stream.get_item.back_nonnull', C, 'h_get_item_back', route='LC', loops=True, nloops=1, defines=['STREAM', 'SQ_GETITEM'], target='task_stream_accessor<back_nonnull_accessor>::get_item (any lane length)', source=TSH),
        Job('stream.try_push', C, 'h_try_push', route='RG', defines=['STREAM', 'SQ_TRYPUSH'], target='task_stream::try_push + set_one_bit (one arbitrary lane, any number of other threads)', source=TSH),
        Job('stream.try_pop.front', C, 'h_try_pop', route='RG', defines=['STREAM', 'SQ_TRYPOP_FRONT'], target='task_stream<front_accessor>::try_pop + get_item + is_bit_set + clear_one_bit', source=TSH),
        Job('stream.try_pop.back_nonnull', C, 'h_try_pop', route='RG', loops=True, nloops=1, defines=['STREAM', 'SQ_TRYPOP_BACK'], target='task_stream<back_nonnull_accessor>::try_pop + get_item + is_bit_set + clear_one_bit', source=TSH),
        Job('stream.pop_specific', C, 'h_pop_specific', route='RG', loops=True, nloops=1, defines=['STREAM', 'SQ_ABSTRACT', 'SQ_POPSPEC', 'POPSPEC_' + ctx.popspec_dir], target='task_stream::pop_specific + empty + is_bit_set + clear_one_bit (any N, one arbitrary lane tracked)', source=TSH),
        Job('stream.push', C, 'h_push', route='LC', loops=True, nloops=1, defines=['STREAM', 'SQ_ABSTRACT', 'SQ_PUSH'], target='task_stream::push (retry loop over try_push)', source=TSH),
        Job('stream.pop', C, 'h_pop', route='LC', loops=True, nloops=1, defines=['STREAM', 'SQ_ABSTRACT', 'SQ_POP'], target='task_stream::pop + empty (retry loop over try_pop)', source=TSH),
        Job('stream.lanes.selectors', C, 'h_lane_selectors', route='LF', defines=['STREAM', 'SQ_ABSTRACT', 'SQ_LANES'], target='subsequent_ / preceding_ / random_lane_selector::operator()', source=TSH),
        Job('stream.lanes.initialize', C, 'h_stream_initialize', route='LC', loops=True, nloops=1, defines=['STREAM', 'SQ_ABSTRACT', 'SQ_LANES'], target='task_stream::initialize (lane count for every n_lanes)', source=TSH),
        Job('glue.task_group.run', C, 'h_group_run', route='LF', defines=['GLUE'], target='task_group::run + task_group_base::prepare_task + task_handle_task constructor', source=TGH),
        Job('glue.function_task', C, 'h_function_task', route='LF', defines=['GLUE'], target='function_task::execute / cancel + task_handle_task::finalize / destructor + task_ptr_or_nullptr', source=TGH),
        Job('glue.function_stack_task', C, 'h_stack_task', route='LF', defines=['GLUE'], target='function_stack_task constructor / execute / cancel / finalize', source=TGH),
        Job('glue.task_group.wait', C, 'h_group_wait', route='LF', defines=['GLUE'], target='task_group_base::wait', source=TGH),
        Job('glue.spawn', C, 'h_spawn', route='LF', defines=['SPAWNGLUE'], target='r1::spawn(task, context[, affinity slot]) + spawn_and_notify', source=TDC),
        Job('glue.enqueue_task', C, 'h_enqueue', route='LF', defines=['SPAWNGLUE'], target='arena::enqueue_task', source=ARC),
        Job('glue.task_memory.small', C, 'h_task_memory', route='LW', unwind=8, defines=['TASKMEM', 'TASKMEM_SMALL'], target='small_object_allocator::new_object / delete_object / deallocate + r1::allocate / deallocate + small_object_pool_impl::allocate_impl / deallocate_impl for the Types bound in prepare_task and finalize: tasks that are small objects', source=SOPC),
        Job('glue.task_memory.large', C, 'h_task_memory', route='LW', unwind=8, defines=['TASKMEM', 'TASKMEM_LARGE'], target='the same for tasks whose functor makes them larger than a small object', source=SOPC),
        Job('dispatch.receive_or_steal', C, 'h_receive_or_steal', route='LC', loops=True, nloops=1, defines=['DISP_ROS'], target='task_dispatcher::receive_or_steal_task<external_waiter> + external_waiter::continue_execution', source=TDH),
        Job('dispatch.main_loop', C, 'h_main_loop', route='LC', loops=True, nloops=2, defines=['DISP_MAIN'], target='task_dispatcher::local_wait_for_all<external_waiter>: the main dispatch loop (bypass loop, own pool, receive_or_steal) + external_waiter::continue_execution / postpone_execution', source=TDH),
        Job('dispatch.arena_steal_task', C, 'h_arena_steal', route='LF', defines=['DISP_SRC'], target='arena::steal_task (victim choice, the thief\'s handling of a stolen proxy)', source=ARH, timeout=600),
        Job('dispatch.sources', C, 'h_sources', route='LF', defines=['DISP_SRC'], target='task_dispatcher::get_inbox_or_critical_task / get_stream_or_critical_task / steal_or_get_critical + arena::get_stream_task + arena::steal_task', source=TDH, timeout=600),
        Job('mail.push', C, 'h_mail_push', route='RG', defines=['MAILPUSH'], target='mail_outbox::push against the consumer and any number of other pushers', source=MB),
    ]
    return {
        'jobs': jobs, 'sliced': sliced, 'fired': fired,
        'trusted': ['SC atomics (the real code relies on the full fences of --tail / ++head)', 'in the any-size and THE jobs the pool lock operations are stubs with the semantics proved in lock.*',
                    'spawn (not sliced) writes only slots at or above tail and only outside get_task', 'indices below 2^41', 'proxy / mailbox idle flags: pure stubs', 'small_object_allocator::delete_object stub',
                    'mail.pop: the only other writers of the mailbox are pushers, whose two steps (exchange my_last to the own link; store the proxy into the link obtained) are the guarantee proved in mail.push; a popped proxy is not pushed again while the pop that removes it is still running',
                    'mail.push: nobody else writes the link a pusher obtained from its exchange until the pusher has filled it (guarantee of mail.pop: the consumer rewrites only completed links; other pushers: mail.push itself)',
                    'mail.get_mailbox_task: mail_inbox::pop hands out each proxy at most once (mail.pop), extract_task<mailbox_bit> as proved in proxy.extract; delete_object stub',
                    'wait.*: r1::notify_waiters stub (wakes the sleepers registered for the address: C02); other threads release only references they hold',
                    'stream.*: d1::mutex::scoped_lock try_acquire / destructor are a lock (C08); std::deque operations behave as a sequence (Q_* accessors); stream.push / stream.pop / stream.pop_specific use the contracts of try_push / try_pop / look_specific proved in their own jobs; lane selectors return an index below N (stream.lanes.selectors); FastRandom::get any value',
                    'dispatch.*: every source of tasks (bypass pointer, arena_slot::get_task, get_inbox_or_critical_task, get_stream_or_critical_task, steal_or_get_critical, get_critical_task (C16), get_self_recall_task (C20)) is a stub that hands out a fresh task or nothing, respecting the isolation level as proved for it; task::execute / cancel are call recorders that may return a bypass task (a resume task never does); wait_context::continue_execution answers anything (wait.continue_execution); observers, ITT, context_guard, the dispatch_loop_guard and the exception loop around the main loop (C03) are outside the slice',
                    'dispatch.arena_steal_task / dispatch.sources: arena_slot::steal_task, task_stream::pop / empty, mail_inbox::empty, get_mailbox_task, get_critical_task are the stubs of the dispatch jobs; my_limit >= 1 and the caller\'s own slot index is below my_limit (C16 slots.occupy_free_slot: my_limit covers every occupied slot); FastRandom::get any 16-bit value',
                    'glue.task_memory.*: cache_aligned_allocate / cache_aligned_deallocate stubs (malloc / recorder); free lists of any length (a real first node, an opaque tail of ghost length); sizeof(function_task<F>) >= sizeof(task_handle_task) >= sizeof(small_object); sequential (no concurrent free into the same pool, the pool is alive)',
                    'glue.*: r1::get_thread_reference_vertex returns the calling thread\'s reference vertex under the group\'s wait vertex (C14 wait.reference_vertex.*: first reserve / last release are forwarded to the group\'s wait_context); small_object_allocator::new_object = allocation + constructor, delete_object = destructor + deallocation; task_group_context_impl::bind_to (C04); arena_slot::spawn (pool.spawn.*), mail_outbox::push (mail.push), task_stream::push (stream.push) and advertise_new_work are call recorders; d1::wait stub (the dispatch loop)'],
        'drops': ['poison_pointer (no-op in release builds)', 'dispatch loop: assert_task_valid / assert_pointer_valid / ITT_CALLEE_* / suppress_unused_warning and the debug assertions about TLS, registration and observers -> RG_NOP (the isolation assertion is kept as an obligation); Waiter := external_waiter; template <typename Type> -> size parameter SIZEOF_Type, the Type bound at the new_object / delete_object call sites is read off the source text', 'thief-quiescence and head/tail consistency debug assertions in the THE jobs (obligations of the any-size jobs)', 'template<intptr_t from_bit> -> parameter',
                  'pool element accesses -> POOL_RD/POOL_WR, task attribute reads -> TASK_* accessor macros (representation of the pool by per-index arrays)',
                  'mailbox: a link (my_first / next_in_mailbox) is addressed by CELL_FIRST / CELL_OF, loads and stores through link pointers -> ATOMIC_LOAD / ATOMIC_STORE on the link address; atomic_backoff -> RG_NOP; assert_pointer_valid -> RG_NOP',
                  'task_stream: lanes[i].my_queue / my_mutex -> LANE* accessors, std::deque methods and iterators -> Q_* accessors over positions, mutex::scoped_lock + try_acquire -> SCOPED_LOCK_INIT / SCOPED_TRY_ACQUIRE / SCOPED_LOCK_EXIT at every scope exit, lane selector functor call -> LANE_SELECT, `(++x &= m)` -> `(++x, x &= m)`, template accessor -> two instantiations',
                  'wait_context: call_itt_task_notify -> RG_NOP', 'task_group glue: try_call(body).on_completion(fin) -> body; fin (exception path: C03), std::forward<F>(f)() -> CALL_FUNC, constructor init lists -> assignments in declared order, references -> pointers; task_ptr_or_nullptr in the configuration without TBB_PREVIEW_TASK_GROUP_EXTENSIONS'],
        'not_decided': ['the composition into the end-to-end statement ("every unit exactly once, the wait covers all"): proved are the pieces - each container operation hands a task out at most once and loses none, the dispatch loop runs or cancels everything that comes into its hands exactly once and leaves only when the waiter says so, the wait context counts every unit from creation to after its body - the argument that puts them together is written, not mechanised',
                        'the rest of local_wait_for_all (dispatch_loop_guard, registration, the exception loop: C03), the other waiters (outermost_worker_waiter, coroutine_waiter: C20), execute_and_wait',
                        'the idle-flag handshake between a mailbox owner and thieves (set_is_idle / recipient_is_idle: performance and liveness, not exactly-once), task_dispatcher.cpp submit(), arena::get_critical_task (C16), resume stream (C20)', 'reference_vertex (C14 wait.reference_vertex.*), get_thread_reference_vertex map', 'fold_tree (C06)',
                        'visibility of writes at the wait (memory orders are dropped: SC)', 'liveness: termination of mail_outbox::internal_pop\'s wait for the pusher\'s link store, of task_stream::push / pop retry loops, "no task invisible for ever" beyond the lane invariant',
                        '"nothing lost" under concurrent stealing (at-most-once is proved concurrently; nothing-lost per function without a concurrent taker)', 'mail_outbox::drain, mail_inbox::set_is_idle / is_idle_state',
                        'small_object_pool_impl::destroy / cleanup_list, the dead-pool branch of deallocate_impl, concurrent frees into one pool', 'task_handle based run / run_and_wait overloads, isolated_task_group, the exception edges of task_group_base::wait / internal_run_and_wait (C03)'],
        'assumptions': ['tasks in a pool are pairwise distinct (representation by per-index arrays)', 'proxies in the any-size owner job yield their task through a stub that hands it out at most once',
                        'a mailbox has one consumer (the owner of the inbox); at most 2^12 proxies / lane entries in the symbolic-size proofs', 'a proxy handed to mail_outbox::push is in no mailbox',
                        'wait_context: the total number of outstanding references stays below 2^32 (the user-visible interface is 32 bit); reserve/release with delta >= 1; a thread releases only references it holds',
                        'task_stream: N is the power of two computed by initialize (2..64); the closed-world scan in spec.py (population written only via set_one_bit / clear_one_bit inside task_stream.h) holds',
                        'task_group glue: configuration without TBB_PREVIEW_TASK_GROUP_EXTENSIONS (user code); no exception leaves the body (C03)'],
    }


_WB = {}


def replay_wb(ctx, jobname):
    """white-box recipes (c01_replay_wb.cpp): mailbox, task_stream, wait_context, group glue"""
    if ctx.work not in _WB:
        _WB[ctx.work] = native.build([os.path.join(HERE, 'c01_replay_wb.cpp')], os.path.join(ctx.work, 'c01_replay_wb'), flags=['-fno-access-control', '-ldl'], link_tbb=True, includes=[os.path.join(native.REPO, 'src')])
    exe = _WB[ctx.work]
    which = ['mail'] if jobname.startswith('mail.') else ['stream'] if jobname.startswith('stream.') else ['waitctx', 'group'] if jobname.startswith('wait.') else ['group']
    if jobname in ('glue.spawn', 'mail.get_mailbox_task'):
        which = ['group', 'mail']
    if jobname == 'glue.enqueue_task':
        which = ['group', 'stream']
    if jobname.startswith('glue.task_memory'):
        which = ['taskmem'] if jobname.endswith('.large') else ['taskmem-small']
    rep = {'cmd': exe + ' ' + '|'.join(which), 'rc': None, 'output': '', 'reproduced': False, 'detail': 'native white-box scenarios (%s) found no failing sequence' % ', '.join(which)}
    for w in which:
        rc, out = native.run([exe, w], timeout=170)
        rep['rc'] = rc
        rep['output'] += out[-700:]
        m = re.search(r'REPRODUCED (.*)', out)
        if m:
            rep['reproduced'] = True
            rep['detail'] = m.group(1)[:400]
            wc = re.search(r'class=(\S+)', m.group(1))
            rep['witness_class'] = wc.group(1) if wc else None
            break
    return rep


def replay(ctx, jobname, failure):
    if jobname.split('.')[0] in ('mail', 'stream', 'wait', 'glue', 'dispatch'):
        return replay_wb(ctx, jobname)
    if jobname.startswith('delegate.'):
        exe = native.build([os.path.join(HERE, 'c01_replay_delegate.cpp')], os.path.join(ctx.work, 'c01_replay_delegate'), link_tbb=True)
        rc, out = native.run([exe], timeout=180)
        rep = {'cmd': exe, 'rc': rc, 'output': out[-1500:], 'reproduced': False, 'detail': 'native scenario (execute into a saturated arena from a cancelled group) ran f exactly once'}
        m = re.search(r'FAIL: (.*)', out)
        if rc not in (0, 'timeout') and m:
            rep.update(reproduced=True, detail='class=delegated-call-skipped ' + m.group(1)[:300], witness_class='delegated-call-skipped')
        return rep
    exe = native.build([os.path.join(HERE, 'c01_replay.cpp')], os.path.join(ctx.work, 'c01_replay'), link_tbb=True)
    rc, out = native.run([exe, jobname], timeout=120)
    rep = {'cmd': exe + ' ' + jobname, 'rc': rc, 'output': out[-1500:], 'reproduced': False, 'detail': 'native recipes found no failing sequence (note: src/tbb changes need a rebuilt libtbb; this replay links the library from /repo/_build)'}
    m = re.search(r'REPRODUCED (.*)', out)
    if m:
        rep['reproduced'] = True
        rep['detail'] = m.group(1)
        w = re.search(r'class=(\S+)', m.group(1))
        rep['witness_class'] = w.group(1) if w else None
    return rep
