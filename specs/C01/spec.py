"""C01 -- every task runs exactly once: owner-side deque pop with isolation skipping, the proxy two-sided claim."""
import os
import sys
import re
HERE = os.path.dirname(os.path.abspath(__file__))
sys.path.insert(0, os.path.join(HERE, '..'))
sys.path.insert(0, os.path.join(HERE, '..', '..', 'tools'))
import common
import native
import cxx2c
from cxx2c import Rewriter, slice_block, tag_loops, ExtractionBreak, load
from prove import Job

ASC = 'src/tbb/arena_slot.cpp'
ASH = 'src/tbb/arena_slot.h'
MB = 'src/tbb/mailbox.h'


def extract(ctx):
    sliced, fired = [], {}
    rw = Rewriter('arena_slot')
    out = []
    s = slice_block(ASC, r'd1::task\* arena_slot::get_task_impl\(size_t T, execution_data_ext& ed, bool& tasks_omitted, isolation_type isolation\)')
    sliced.append('%s:%d arena_slot::get_task_impl' % (ASC, s.line))
    t = rw.sub(s.text, r'd1::task\* arena_slot::get_task_impl\(size_t T, execution_data_ext& ed, bool& tasks_omitted, isolation_type isolation\)',
               'task* slot_get_task_impl(struct aslot* self, size_t T, execution_data_ext* ed, bool* tasks_omitted, isolation_type isolation)', 1, 1, name='sig')
    t = rw.sub(t, r'(?s)__TBB_ASSERT\(tail\.load\(std::memory_order_relaxed\) <= T \|\| is_local_task_pool_quiescent\(\),.*?\);', 'RG_NOP();', 1, 1, name='assert on thief quiescence (outside the sequential model) -> RG_NOP')
    t = rw.sub(t, r'__TBB_ASSERT\(!is_poisoned\( result \), "[^"]*"\);', 'RG_NOP();', 1, 1, name='poison check (debug only) -> RG_NOP')
    t = rw.sub(t, r'(?<![\w.>])task_pool_ptr\b', 'self->task_pool_ptr', 2, name='field')
    t = rw.sub(t, r'task_accessor::isolation\(\*result\)', 'result->isolation', 1, 1, name='accessor')
    t = rw.sub(t, r'task_accessor::is_proxy_task\(\*result\)', 'result->is_proxy', 1, 1, name='accessor')
    t = rw.sub(t, r'\btasks_omitted = true;', '*tasks_omitted = true;', 1, 1, name='ref-param')
    t = rw.sub(t, r'if \( tasks_omitted \)', 'if ( *tasks_omitted )', 1, 1, name='ref-param')
    t = rw.sub(t, r'task_proxy& tp = static_cast<task_proxy&>\(\*result\);', 'task* tp = result;', 1, 1, name='downcast')
    t = rw.sub(t, r'd1::slot_id aff_id = tp\.slot;', 'slot_id aff_id = tp->slot;', 1, 1, name='field')
    t = rw.sub(t, r'if \( d1::task \*t = tp\.extract_task<task_proxy::pool_bit>\(\) \) \{', '{ task *t = STUB_proxy_extract_task_pool(tp); if ( t ) {', 1, 1, name='decl-in-condition + callee stub (proved separately: job proxy.extract)')
    t = rw.sub(t, r'ed\.affinity_slot = aff_id;\s*return t;\s*\}', 'ed->affinity_slot = aff_id; return t; } }', 1, 1, name='close block')
    t = rw.sub(t, r'tp\.allocator\.delete_object\(&tp, ed\);', 'STUB_delete_proxy(tp);', 1, 1, name='callee stub')
    t = rw.sub(t, r'd1::task\*', 'task*', 1, name='ns-strip')
    t = rw.std(t)
    out.append(t)
    s = slice_block(ASC, r'd1::task\* arena_slot::get_task\(execution_data_ext& ed, isolation_type isolation\)')
    sliced.append('%s:%d arena_slot::get_task' % (ASC, s.line))
    t = rw.sub(s.text, r'd1::task\* arena_slot::get_task\(execution_data_ext& ed, isolation_type isolation\)', 'task* slot_get_task(struct aslot* self, execution_data_ext* ed, isolation_type isolation)', 1, 1, name='sig')
    t = rw.sub(t, r'T = --tail;', 'T = ATOMIC_PREDEC(self->tail);', 1, 1, name='atomic --')
    t = rw.sub(t, r'(?<![\w.>])(tail|head)\.load\([^)]*\)', r'ATOMIC_LOAD(self->\1)', 4, name='atomic-load')
    t = rw.sub(t, r'(?<![\w.>])(tail|head)\.store\(([^;]*?), std::memory_order_\w+\);', r'ATOMIC_STORE(self->\1, \2);', 3, 3, name='atomic-store')
    t = rw.sub(t, r'(?<![\w.>])task_pool_ptr\b', 'self->task_pool_ptr', 1, name='field')
    t = rw.sub(t, r'(?<![\w.>])(acquire_task_pool|release_task_pool|reset_task_pool_and_leave|publish_task_pool)\(\)', r'slot_\1(self)', 5, name='method')
    t = rw.sub(t, r'(?<![\w.>])(is_task_pool_published|is_quiescent_local_task_pool_reset)\(\)', r'slot_\1(self)', 3, name='method')
    t = rw.sub(t, r'get_task_impl\( T, ed, tasks_omitted, isolation \)', 'slot_get_task_impl( self, T, ed, &tasks_omitted, isolation )', 1, 1, name='method + ref-param')
    t = rw.sub(t, r'poison_pointer\( self->task_pool_ptr\[T\] \);', 'RG_NOP();', 0, None, name='poison_pointer (no-op in release builds) -> RG_NOP')
    t = rw.sub(t, r'ed\.task_disp->m_thread_data->my_arena->advertise_new_work<arena::wakeup>\(\);', 'STUB_advertise_new_work();', 2, 2, name='callee stub')
    t = rw.sub(t, r'd1::task\*', 'task*', 1, name='ns-strip')
    t = rw.asserts(t, 8)
    t = rw.casts(t, 0)
    t = rw.fcasts(t, ['std::size_t', 'std::intptr_t'])
    t = rw.std(t)
    t = tag_loops(t, 'get_task', rw, expect=1)
    out.append(t)
    s = slice_block(ASH, r'void reset_task_pool_and_leave\(\)')
    sliced.append('%s:%d arena_slot::reset_task_pool_and_leave' % (ASH, s.line))
    t = rw.sub(s.text, r'void reset_task_pool_and_leave\(\)', 'void slot_reset_task_pool_and_leave(struct aslot* self)', 1, 1, name='sig')
    t = rw.sub(t, r'(?s)__TBB_ASSERT\(.*?\);', 'RG_NOP();', 0, name='lock-ownership assert -> RG_NOP')
    t = rw.sub(t, r'(?<![\w.>])(tail|head)\.store\(([^;]*?), std::memory_order_\w+\);', r'ATOMIC_STORE(self->\1, \2);', 2, 2, name='atomic-store')
    t = rw.sub(t, r'leave_task_pool\(\);', 'slot_leave_task_pool(self);', 1, 1, name='method')
    out.insert(0, t)
    common.write(ctx, 'get_task.inc', 'task* slot_get_task_impl(struct aslot* self, size_t T, execution_data_ext* ed, bool* tasks_omitted, isolation_type isolation);\n' + '\n'.join(out) + '\n')
    # task_proxy::extract_task<from_bit>
    s = slice_block(MB, r'inline task\* extract_task \(\)')
    sliced.append('%s:%d task_proxy::extract_task<from_bit>' % (MB, s.line))
    t = rw.sub(s.text, r'inline task\* extract_task \(\)', 'task* proxy_extract_task(struct proxy* self, const intptr_t from_bit)', 1, 1, name='sig + template intptr_t -> parameter')
    t = rw.sub(t, r'(?<![\w.>])task_and_tag\.', 'self->task_and_tag.', 3, name='field')
    t = rw.atomics(t, ['task_and_tag'], 3)
    t = rw.asserts(t, 2)
    t = rw.std(t)
    t = rw.number_sites(t, 'ext', by_kind=True)
    pre = []
    for name, sig in (('is_shared', r'static bool is_shared \( intptr_t tat \)'), ('task_ptr', r'static task\* task_ptr \( intptr_t tat \)')):
        s2 = slice_block(MB, sig)
        sliced.append('%s:%d task_proxy::%s' % (MB, s2.line, name))
        pre.append(s2.text)
    for pat, what in ((r'static const intptr_t      pool_bit = 1<<0;', 'pool_bit'), (r'static const intptr_t   mailbox_bit = 1<<1;', 'mailbox_bit'), (r'static const intptr_t location_mask = pool_bit \| mailbox_bit;', 'location_mask')):
        if not re.search(pat, load(MB)):
            raise ExtractionBreak('mailbox.h: %s changed' % what)
    common.write(ctx, 'proxy.inc', '\n'.join(pre) + '\n' + t + '\n')
    fired['arena_slot'] = rw.fired
    return sliced, fired


def build(ctx):
    sliced, fired = extract(ctx)
    C = os.path.join(HERE, 'c01.c')
    n = 5 if ctx.tier == 'quick' else 7
    jobs = [
        Job('pool.get_task_impl', C, 'h_impl', route='LF', defines=['POOL'], target='arena_slot::get_task_impl (isolation filter)', source=ASC),
        Job('pool.get_task', C, 'h_get_task', route='BD', bound_text='owner alone (no thief), task pool of at most %d entries with arbitrary holes and isolation tags' % n, defines=['POOL', 'MAXN=%d' % n], unwind=n + 3, timeout=900,
            target='arena_slot::get_task + get_task_impl + reset_task_pool_and_leave (owner-side pop with isolation skipping)', source=ASC),
        Job('proxy.extract', C, 'h_extract', route='RG', defines=['PROXY'], target='task_proxy::extract_task<pool_bit|mailbox_bit> (two-sided claim)', source=MB),
    ]
    return {
        'jobs': jobs, 'sliced': sliced, 'fired': fired,
        'trusted': ['acquire/release/publish/leave_task_pool: lock stubs (the owner/thief arbitration on head/tail/lock word is not modelled: owner alone)', 'small_object_allocator::delete_object stub', 'SC atomics'],
        'drops': ['poison_pointer (no-op in release builds)', 'thief-quiescence assertions', 'template<intptr_t from_bit> -> parameter'],
        'not_decided': ['owner/thief arbitration on head/tail/lock word in get_task/steal_task (multi-word, fence dependent)', 'mailbox MPSC list', 'task_stream', 'the dispatch loop', 'task_arena::execute delegation',
                        'wait_context / reference_vertex counting', 'fold_tree', 'visibility of writes at the wait', 'get_task for pools larger than the bound (bounded stand-in only)'],
        'assumptions': ['tasks in the pool are ordinary tasks or proxies whose extraction is delegated to the stub'],
    }


def replay(ctx, jobname, failure):
    exe = native.build([os.path.join(HERE, 'c01_replay.cpp')], os.path.join(ctx.work, 'c01_replay'), link_tbb=True)
    rc, out = native.run([exe, jobname], timeout=120)
    rep = {'cmd': exe + ' ' + jobname, 'rc': rc, 'output': out[-1500:], 'reproduced': False, 'detail': 'native recipes found no failing sequence (note: src/tbb changes need a rebuilt libtbb; this replay links the library from /repo/_build)'}
    m = re.search(r'REPRODUCED (.*)', out)
    if m:
        rep['reproduced'] = True
        rep['detail'] = m.group(1)
        w = re.search(r'class=(\S+)', m.group(1))
        rep['witness_class'] = w.group(1) if w else None
    return rep
