/* C17 harnesses (tbbmalloc front end).  *.inc are generated from /repo/src/tbbmalloc on every run. */
#include "verif.h"
#include <stdlib.h>
#define estimatedCacheLineSize 64
typedef struct FreeObject { struct FreeObject *next; } FreeObject;
/* header view of Block: only the members the sliced functions touch; sizeof == 128 == 2*estimatedCacheLineSize (checked natively in tv) */
typedef struct Block { FreeObject *bumpPtr; FreeObject *freeList; uint16_t allocatedCount; uint16_t objectSize; bool isFull; FreeObject *publicFreeList; struct Block *nextPrivatizable, *next, *previous; char pad[128 - 56]; } Block;
_Static_assert(sizeof(Block) == 128, "Block header view");
#include "consts.inc"
#define VERIF_BSR(n) (31u - (unsigned)__builtin_clz(n))     /* assumed contract of the bsr instruction */
#include "sizeclass.inc"

#ifdef SC
unsigned IN_s, IN_s2, IN_sz, IN_al;
void h_sizeclass(void) {
    unsigned s = IN_s = nondet_unsigned(), s2 = IN_s2 = nondet_unsigned();
    __CPROVER_assume(s >= 1 && s <= fittingSize5 && s2 >= 1 && s2 <= fittingSize5);
    unsigned o = getObjectSize(s), i = getIndex(s);
    OBLIGATION(o >= s, "C17.size: the object of a bin is at least as big as the request");
    OBLIGATION(i < numBlockBins, "C17.size: bin index in range");
    OBLIGATION(s <= 8 ? o == 8 : o % 16 == 0, "C17.size: object sizes keep natural alignment (8 for <=8 bytes, 16 otherwise)");
    OBLIGATION(getIndex(o) == i && getObjectSize(o) == o, "C17.size: a bin's object size maps back to the same bin");
    OBLIGATION(!(s <= s2) || (getIndex(s) <= getIndex(s2) && getObjectSize(s) <= getObjectSize(s2)), "C17.size: index and object size are monotone in the request");
    OBLIGATION((getIndex(s) == getIndex(s2)) == (getObjectSize(s) == getObjectSize(s2)), "C17.size: index and object size agree");
    OBLIGATION((slabSize - sizeof(Block)) / o >= 2 || o == fittingSize5, "C17.size: a slab holds at least two objects (one for the largest bin)");
    OBLIGATION(o <= slabSize - sizeof(Block), "C17.size: an object fits into a slab payload");
    VACUITY_END();
}
void h_aligned_case1(void) {
    unsigned sz = IN_sz = nondet_unsigned(), al = IN_al = nondet_unsigned();
    __CPROVER_assume(sz <= maxSegregatedObjectSize && al <= maxSegregatedObjectSize && al >= 1 && (al & (al - 1)) == 0);
    unsigned req = alignUp(sz ? sz : sizeof(size_t), al);
    OBLIGATION(req >= sz && req <= maxSegregatedObjectSize, "C17.aligned: the padded request stays a segregated size");
    OBLIGATION(getObjectSize(req) % al == 0, "C17.aligned: case 1: the bin's object size is a multiple of the alignment, so slab placement (multiples from the slab end) is aligned");
    VACUITY_END();
}
#endif

#ifdef BLK
#include "block.inc"
static union { Block hdr; char bytes[16 * 1024]; } slab;
uint16_t IN_os; size_t IN_k, IN_off;
static bool legal_object_size(uint16_t os) { return os >= 8 && os <= fittingSize5 && getObjectSize(os) == os; }
void h_bump(void) {
    Block *b = &slab.hdr; uint16_t os = IN_os = nondet_ushort(); size_t k = IN_k = nondet_size_t();   /* k objects already carved from the bump region */
    __CPROVER_assume(legal_object_size(os));
    size_t cap = (slabSize - sizeof(Block)) / os;
    __CPROVER_assume(k <= cap);
    b->objectSize = os; b->allocatedCount = (uint16_t)k;
    b->bumpPtr = (k == cap) ? NULL : (FreeObject *)((char *)b + slabSize - (k + 1) * os);
    FreeObject *r = Block_allocateFromBumpPtr(b);
    if (k == cap) OBLIGATION(r == NULL, "C17.bump: an exhausted slab returns NULL");
    else {
        OBLIGATION((char *)r >= (char *)b + sizeof(Block) && (char *)r + os <= (char *)b + slabSize, "C17.bump: the object lies inside the slab payload, clear of the header");
        OBLIGATION((size_t)(((char *)b + slabSize) - (char *)r) % os == 0, "C17.bump: objects sit at multiples of objectSize from the slab end");
        OBLIGATION(b->bumpPtr == NULL || (char *)b->bumpPtr + os == (char *)r, "C17.bump: the bump pointer moves down by exactly one object (never the same address twice)");
        OBLIGATION((b->bumpPtr == NULL) == (k + 1 == cap), "C17.bump: the bump region is exhausted exactly when the slab is full");
        OBLIGATION(b->allocatedCount == k + 1, "C17.bump: allocatedCount counts the objects handed out");
        r->next = NULL;   /* the caller writes into the object: must be an in-bounds write */
    }
    VACUITY_END();
}
void h_find(void) {
    Block *b = &slab.hdr; uint16_t os = IN_os = nondet_ushort(); size_t off = IN_off = nondet_size_t();
    __CPROVER_assume(legal_object_size(os));
    size_t cap = (slabSize - sizeof(Block)) / os;
    __CPROVER_assume(off >= 1 && off <= cap * os);      /* an address inside some object: `off` bytes below the slab end */
    b->objectSize = os;
    const char *address = (const char *)b + slabSize - off;
    FreeObject *r = Block_findAllocatedObject(b, address);
    size_t kk = (off + os - 1) / os;                     /* the object containing it is the kk-th from the slab end */
    const char *expect = (const char *)b + slabSize - kk * os;
    OBLIGATION((const char *)r == expect, "C17.find: an interior pointer is mapped to the start of the object that contains it");
    OBLIGATION((const char *)r <= address && address < (const char *)r + os, "C17.find: the recovered object contains the address");
    VACUITY_END();
}
#endif

#if defined(BLK) && defined(FREE)
/* ---- free path: every address that enters a free list (own or public) is the start of an object of this slab ---- */
static bool is_start(const Block *b, const void *p) {
    return (const char *)p >= (const char *)b + sizeof(Block) && (const char *)p + b->objectSize <= (const char *)b + slabSize && (size_t)(((const char *)b + slabSize) - (const char *)p) % b->objectSize == 0;
}
FreeObject *g_pub_pushed, *g_pub_prev; unsigned g_pub_n, g_notify, g_empty_calls, g_adjust, g_startup;
bool o_pushed;   /* rely: other threads push starts of objects onto publicFreeList (or the owner privatises it), at any time */
uint16_t g_ac0; FreeObject *g_fl0;
/* the link word of a free object: recorded in ghost state (last store), and the store must be a writable 8 bytes inside the slab */
FreeObject *g_link_of, *g_link_val; unsigned g_links;
#define FO_SET_NEXT(p, v) do { g_link_of = (p); g_link_val = (v); g_links++; __CPROVER_assert(__CPROVER_w_ok((p), sizeof(FreeObject)), "C17.free: the link is written inside the slab"); } while (0)
static void interfere(void) { if (nondet_bool()) { FreeObject *x; slab.hdr.publicFreeList = x; o_pushed = true; } }
#define ATOMIC_LOAD_AT(site, f) ({ interfere(); (f); })
#define ATOMIC_CAS_AT(site, f, e, d) ({ interfere(); bool r_ = ((f) == *(e)); if (r_) { g_pub_prev = (f); (f) = (d); g_pub_pushed = (d); g_pub_n++; \
        __CPROVER_assert(g_link_of == (d) && g_link_val == g_pub_prev, "C17.free: the pushed object links to the previous list head (no publicly freed object is dropped)"); \
        __CPROVER_assert(is_start(&slab.hdr, (d)), "C17.free: only starts of objects enter the public free list"); } else *(e) = (f); r_; })
#define LOOP_fpo_1 __CPROVER_assigns(localPublicFreeList, slab.hdr.publicFreeList, o_pushed, g_pub_pushed, g_pub_prev, g_pub_n, g_link_of, g_link_val, g_links) __CPROVER_loop_invariant(g_pub_n == 0 && slab.hdr.objectSize == IN_os && slab.hdr.allocatedCount == g_ac0 && slab.hdr.freeList == g_fl0)
static void STUB_markUsed(Block *b) {}
static void STUB_processEmptyBlock(Block *b) { g_empty_calls++; }
static void STUB_adjustPositionInBin(Block *b) { g_adjust++; }
static void STUB_notifyOwner(Block *b) { g_notify++; }
static void STUB_checkFreePrecond(Block *b, const void *o) {}
static bool STUB_isStartupAllocObject(Block *b) { return false; }   /* slabs of the startup allocator: separate allocator, not covered */
static void STUB_startupFree(Block *b, void *o) { g_startup++; }
bool g_owner;
static bool STUB_isOwnedByCurrentThread(Block *b) { return g_owner; }
/* (Block*)alignDown(object, slabSize) computed by pointer arithmetic, so that CBMC keeps the result attached to the slab object; the address is the one alignDown gives */
#define BLOCK_OF(o) ({ char *p_ = (char *)(o) - ((uintptr_t)(o) & (slabSize - 1)); __CPROVER_assert((uintptr_t)p_ == alignDown((uintptr_t)(o), slabSize), "translation: BLOCK_OF is alignDown(object, slabSize)"); (Block *)p_; })
#include "placed.inc"
#include "free.inc"
size_t IN_d;
/* a pointer a client may pass to free: the start S of a live object, or - fitting bins only - an address inside it aligned to 2*fittingAlignment (what allocateAligned returns) */
static char *client_pointer(Block *b, char **start) {
    uint16_t os = IN_os = nondet_ushort(); size_t kk = IN_k = nondet_size_t(), d = IN_d = nondet_size_t();
    __CPROVER_assume(legal_object_size(os));
    size_t cap = (slabSize - sizeof(Block)) / os;
    __CPROVER_assume(kk >= 1 && kk <= cap && d < os);
    b->objectSize = os;
    char *S = (char *)b + slabSize - kk * os, *obj = S + d;
    __CPROVER_assume(d == 0 || (os > maxSegregatedObjectSize && ((uintptr_t)obj & (2 * fittingAlignment - 1)) == 0));
    *start = S; return obj;
}
void h_find_to_free(void) {
    Block *b = &slab.hdr; char *S; char *obj = client_pointer(b, &S);
    FreeObject *r = Block_findObjectToFree(b, obj);
    OBLIGATION((char *)r == S, "C17.free: the pointer given to free is mapped back to the start of the object that was allocated (aligned allocations return interior addresses)");
    OBLIGATION(is_start(b, r), "C17.free: the object to free is properly placed");
    VACUITY_END();
}
void h_free_own(void) {
    Block *b = &slab.hdr; char *S; char *obj = client_pointer(b, &S);
    size_t cap = (slabSize - sizeof(Block)) / b->objectSize;
    uint16_t ac = nondet_ushort(); __CPROVER_assume(ac >= 1 && ac <= cap); b->allocatedCount = ac; b->isFull = false;
    FreeObject *fl0; b->freeList = fl0; g_empty_calls = g_adjust = 0;
    Block_freeOwnObject(b, obj);
    OBLIGATION(b->allocatedCount == ac - 1, "C17.free: one object fewer is allocated");
    if (ac == 1) OBLIGATION(g_empty_calls == 1 && b->freeList == fl0, "C17.free: the last object of a slab empties it (the slab is recycled, its free list is not extended)");
    else {
        OBLIGATION((char *)b->freeList == S && (char *)g_link_of == S && g_link_val == fl0, "C17.free: the freed object - its START, not the client's aligned address - becomes the head of the free list and links to the old head");
        OBLIGATION(g_empty_calls == 0, "C17.free: a slab with live objects is not recycled");
    }
    VACUITY_END();
}
void h_free_public(void) {
    Block *b = &slab.hdr; char *S; char *obj = client_pointer(b, &S);
    FreeObject *p0; b->publicFreeList = p0; g_pub_n = 0; g_notify = 0; g_ac0 = b->allocatedCount; g_fl0 = b->freeList;
    Block_freePublicObject(b, (FreeObject *)S);
    OBLIGATION(g_pub_n == 1 && (char *)g_pub_pushed == S, "C17.free: exactly one successful push, of the object given");
    OBLIGATION(b->allocatedCount == g_ac0 && b->freeList == g_fl0, "C17.free: a foreign thread leaves the owner's private fields alone");
    VACUITY_END();
}
/* freeSmallObject, modularly: freeOwnObject(block, object) and freePublicObject(block, p) are replaced by recorders; what they do with their arguments is proved in free.own / free.public */
unsigned g_own_calls, g_public_calls; Block *g_call_block; void *g_call_arg;
static void REC_freeOwnObject(Block *b, void *o) { g_own_calls++; g_call_block = b; g_call_arg = o; }
static void REC_freePublicObject(Block *b, FreeObject *o) { g_public_calls++; g_call_block = b; g_call_arg = o; }
#define Block_freeOwnObject REC_freeOwnObject
#define Block_freePublicObject REC_freePublicObject
#include "free_small.inc"
#undef Block_freeOwnObject
#undef Block_freePublicObject
void h_free_small(void) {
    Block *b = &slab.hdr; char *S; char *obj = client_pointer(b, &S);
    g_owner = nondet_bool(); g_own_calls = g_public_calls = 0;
    freeSmallObject(obj);
    OBLIGATION(g_call_block == b, "C17.free: the slab header is found by masking the address");
    if (g_owner) OBLIGATION(g_own_calls == 1 && g_public_calls == 0 && (char *)g_call_arg == obj, "C17.free: own-thread free goes to freeOwnObject (which maps the pointer to the object start: free.own)");
    else OBLIGATION(g_own_calls == 0 && g_public_calls == 1 && (char *)g_call_arg == S, "C17.free: foreign-thread free puts the START of the object - not the client's aligned address - on the public free list");
    VACUITY_END();
}
#endif

#ifdef RA
typedef struct MemoryPool MemoryPool;
typedef struct LargeMemoryBlock { void *pool, *next, *prev, *gPrev, *gNext; uintptr_t age; size_t objectSize; size_t unalignedSize; uint64_t backRefIdx; } LargeMemoryBlock;
typedef struct LargeObjectHdr { LargeMemoryBlock *memoryBlock; uint64_t backRefIdx; } LargeObjectHdr;
bool g_large; size_t g_maxbinned;
static bool STUB_isLargeObject(void *p) { return g_large; }
static size_t STUB_getMaxBinnedSize(void) { return g_maxbinned; }
int g_alloc_calls, g_free_calls, g_cpy_calls, g_remap_calls; void *g_new, *g_freed, *g_cpy_dst, *g_remap_res; const void *g_cpy_src; size_t g_cpy_n, g_req, g_req_al, g_remap_old;
static void *do_alloc(size_t size, size_t al) { g_alloc_calls++; g_req = size; g_req_al = al; if (nondet_bool()) return NULL; void *p = malloc(size); __CPROVER_assume(p != NULL); g_new = p; return p; }
static void *allocateAligned(MemoryPool *mp, size_t size, size_t alignment) { return do_alloc(size, alignment); }
static void *internalPoolMalloc(MemoryPool *mp, size_t size) { return do_alloc(size, 0); }
static void *STUB_remap(void *ptr, size_t oldSize, size_t newSize, size_t al) { g_remap_calls++; g_remap_old = oldSize; if (nondet_bool()) return NULL; void *p = malloc(newSize); __CPROVER_assume(p != NULL); g_remap_res = p; return p; }
static size_t g_small_size;
static size_t STUB_findObjectSize(Block *b, void *p) { return g_small_size; }
static bool internalPoolFree(MemoryPool *mp, void *p, size_t s) { g_free_calls++; g_freed = p; return true; }
static void VERIF_memcpy(void *dst, const void *src, size_t n) {
    g_cpy_calls++; g_cpy_dst = dst; g_cpy_src = src; g_cpy_n = n;
    OBLIGATION(__CPROVER_r_ok(src, n), "C17.realloc: the copy reads only bytes of the old block");
    OBLIGATION(__CPROVER_w_ok(dst, n), "C17.realloc: the copy writes only bytes of the new block");
}
#include "realloc.inc"
size_t IN_U, IN_poff, IN_S, IN_new, IN_align;
static void common_post(void *r, void *ptr, size_t old_usable_used, size_t newSize) {
    if (r != ptr && r != NULL && r != g_remap_res) {
        OBLIGATION(r == g_new && g_alloc_calls == 1 && g_req == newSize, "C17.realloc: a moved block comes from one allocation of the new size");
        OBLIGATION(g_cpy_calls == 1 && g_cpy_dst == r && g_cpy_src == ptr && g_cpy_n == (old_usable_used < newSize ? old_usable_used : newSize), "C17.realloc: contents are copied once, min(old size, new size) bytes");
        OBLIGATION(g_free_calls == 1 && g_freed == ptr, "C17.realloc: the old block is freed exactly once, after the copy");
    }
    if (r == NULL)
        OBLIGATION(g_free_calls == 0 && g_cpy_calls == 0 && g_alloc_calls == 1, "C17.realloc: a failed allocation returns NULL and leaves the old block alone");
    if (r == ptr)
        OBLIGATION(g_free_calls == 0 && g_cpy_calls == 0 && g_alloc_calls == 0, "C17.realloc: an in-place answer neither copies nor frees");
}
void h_realloc_large(void) {
    size_t U = IN_U = nondet_size_t(); __CPROVER_assume(U >= 256 && U <= ((size_t)1 << 40));
    char *chunk = malloc(U); __CPROVER_assume(chunk != NULL);
    LargeMemoryBlock *lmb = (LargeMemoryBlock *)chunk;
    size_t off = IN_poff = nondet_size_t();
    __CPROVER_assume(off >= sizeof(LargeMemoryBlock) + sizeof(LargeObjectHdr) && off % 64 == 0 && off < U);
    void *ptr = chunk + off;
    ((LargeObjectHdr *)ptr - 1)->memoryBlock = lmb;
    size_t S = IN_S = nondet_size_t(); __CPROVER_assume(S >= 1 && S <= U - off);
    lmb->unalignedSize = U; lmb->objectSize = S;
    size_t newSize = IN_new = nondet_size_t(), alignment = IN_align = nondet_size_t();
    __CPROVER_assume(newSize >= 1 && newSize <= ((size_t)1 << 41) && (alignment == 0 || ((alignment & (alignment - 1)) == 0 && alignment <= ((size_t)1 << 30))));
    g_large = true; g_maxbinned = nondet_size_t();
    g_alloc_calls = g_free_calls = g_cpy_calls = g_remap_calls = 0; g_new = g_remap_res = NULL;
    void *r = reallocAligned(NULL, ptr, newSize, alignment);
    if (r == ptr) {
        OBLIGATION(newSize <= U - off, "C17.realloc: a block answered in place is big enough: ptr+newSize stays inside its backend block");
        OBLIGATION(alignment == 0 || ((uintptr_t)ptr & (alignment - 1)) == 0, "C17.realloc: a block answered in place has the requested alignment");
        OBLIGATION(lmb->objectSize == newSize, "C17.realloc: the recorded object size follows an in-place resize");
    } else
        OBLIGATION(lmb->objectSize == S || r == g_remap_res, "C17.realloc: the old block's size record is untouched unless resized in place");
    if (g_remap_calls) OBLIGATION(g_remap_old == S, "C17.realloc: remap is told the current object size");
    common_post(r, ptr, S, newSize);
    VACUITY_END();
}
static union { Block hdr; char bytes[16 * 1024]; } slab2;
void h_realloc_small(void) {
    size_t os = IN_S = nondet_size_t(); __CPROVER_assume(os >= 8 && os <= fittingSize5 && getObjectSize((unsigned)os) == os);
    size_t cap = (slabSize - sizeof(Block)) / os, k = nondet_size_t(); __CPROVER_assume(k >= 1 && k <= cap);
    void *ptr = (char *)&slab2 + slabSize - k * os;
    g_small_size = os;
    size_t newSize = IN_new = nondet_size_t(), alignment = IN_align = nondet_size_t();
    __CPROVER_assume(newSize >= 1 && newSize <= ((size_t)1 << 41) && (alignment == 0 || ((alignment & (alignment - 1)) == 0 && alignment <= ((size_t)1 << 30))));
    g_large = false;
    g_alloc_calls = g_free_calls = g_cpy_calls = g_remap_calls = 0; g_new = g_remap_res = NULL;
    void *r = reallocAligned(NULL, ptr, newSize, alignment);
    if (r == ptr) {
        OBLIGATION(newSize <= os, "C17.realloc: a slab object answered in place is big enough");
        OBLIGATION(alignment == 0 || ((uintptr_t)ptr & (alignment - 1)) == 0, "C17.realloc: a slab object answered in place has the requested alignment");
    }
    common_post(r, ptr, os, newSize);
    VACUITY_END();
}
#endif

#if defined(ALN) || defined(LLOC)
/* ---- common types of the aligned-allocation / msize / large-object sections (layouts checked against the real headers natively in tv) ---- */
typedef struct BackRefIdx { uint32_t main; uint16_t largeObj : 1; uint16_t offset : 15; } BackRefIdx;
typedef struct MemoryPool { int dummy; } MemoryPool;
typedef struct TLSData { unsigned currCacheIdx; } TLSData;
typedef struct LargeMemoryBlock { intptr_t blockState[2]; MemoryPool *pool; struct LargeMemoryBlock *next, *prev, *gPrev, *gNext; uintptr_t age; size_t objectSize; size_t unalignedSize; BackRefIdx backRefIdx; } LargeMemoryBlock;
typedef struct LargeObjectHdr { LargeMemoryBlock *memoryBlock; BackRefIdx backRefIdx; } LargeObjectHdr;
_Static_assert(sizeof(BackRefIdx) == 8 && sizeof(LargeMemoryBlock) == 88 && sizeof(LargeObjectHdr) == 16, "large-object header views");
enum MemoryOrigin { ourMem, unknownMem };
/* the back-reference table (backref.cpp, not sliced): ONE entry is tracked - the one setBackRef / the large-object contract registers; every other entry holds, by the
   table's own invariant, NULL, the base address of a slab, a live LargeObjectHdr of ANOTHER block, or a link inside the table: never an address inside this slab's
   payload/header tail nor inside this large block */
static union { Block hdr; char bytes[16 * 1024]; } slab;
static struct { char below[48]; struct { void *memoryBlock; uint64_t backRefIdx; } h; char user[64]; } g_win;   /* stands for a piece of a slab payload in job recognise.slab */
#ifdef LLOC
static uintptr_t A_lmb; static size_t m_lmb_unalignedSize;      /* the large block of the LLOC jobs lives in ghost memory at integer address A_lmb */
#define BACKREF_NEVER_INTO(o) (__CPROVER_same_object((o), &g_win) || ((uintptr_t)(o) >= A_lmb && (uintptr_t)(o) - A_lmb < m_lmb_unalignedSize))
#else
#define BACKREF_NEVER_INTO(o) __CPROVER_same_object((o), &g_win)
#endif
static bool g_reg; static BackRefIdx g_reg_idx; static void *g_reg_ptr; static char *g_chunk;
static void *STUB_getBackRef(BackRefIdx idx) {
    if (g_reg && idx.main == g_reg_idx.main && idx.offset == g_reg_idx.offset) return g_reg_ptr;
    void *o = nondet_ptr();
    __CPROVER_assume(o == NULL || o == (void *)&slab || (!__CPROVER_same_object(o, &slab) && !BACKREF_NEVER_INTO(o) && (g_chunk == NULL || !__CPROVER_same_object(o, g_chunk))));
    return o;
}
#endif

#ifdef ALN
/* ---- allocateAligned -> (internalPoolMalloc | getFromLLOCache) -> the pointer the client gets; then what scalable_msize / scalable_free compute from such a pointer ---- */
#include "block.inc"
#include "placed.inc"
static size_t STUB_StartupBlock_msize(void *o) { return nondet_size_t(); }
#include "alignp.inc"
#ifdef ALN_RECSTUB
/* isLargeObject<ourMem>(p) by its proved answer: false on slab addresses (job recognise.slab), true on what getFromLLOCache returns (job aligned.large) */
static bool isLargeObject(int memOrigin, void *p) { return ALN_RECSTUB; }
#else
#include "recog.inc"
#endif
#include "msize.inc"
int g_ipm_calls, g_llo_calls; size_t g_ipm_req, g_llo_size, g_llo_al, g_os, g_U, g_poff; char *g_obj; LargeMemoryBlock *g_lmb; bool g_inited, g_init_ok;
static bool STUB_isMallocInitialized(void) { return g_inited; }
static bool STUB_doInitialization(void) { return g_init_ok; }
static TLSData g_tls;
static TLSData *STUB_getTLS(MemoryPool *mp, bool create) { return nondet_bool() ? &g_tls : NULL; }
/* The two callee contracts.  Their ARGUMENTS are prophesied (g_pro_*: arbitrary values fixed before the call; a call with other arguments is a path that another choice of the
   prophecy covers), so that the block each contract describes is built once, before allocateAligned runs, instead of once per inlined call site.
   MemoryPool::getFromLLOCache(tls, size, alignment) (proved on the real text in job lloc.place): NULL, or a pointer p aligned to `alignment` with a LargeObjectHdr right below it,
   inside a backend block [lmb, lmb+unalignedSize) with p+size <= the block's end and the header clear of the LargeMemoryBlock; objectSize == size; the header is registered in the
   back-reference table under an index whose largeObj bit is set.
   internalPoolMalloc(pool, size): size 0 counts as sizeof(size_t); a large size goes to getFromLLOCache(.., largeObjectAlignment); otherwise NULL or the START of an object of the
   bin of `size` in some slab (sizeclass.map: which bin; block.bump / free.* / freelist.*: only starts of objects are handed out) */
static size_t g_pro_lsize, g_pro_lal, g_pro_req; static char *g_pro_large, *g_pro_small; static bool g_used;
static void make_large(size_t size, size_t al) {
    size_t U = nondet_size_t(), poff = nondet_size_t();
    __CPROVER_assume(U <= ((size_t)1 << 42) && poff >= sizeof(LargeMemoryBlock) + sizeof(LargeObjectHdr) && poff <= U && size <= U - poff && (poff & (al - 1)) == 0);
    char *chunk = malloc(U); __CPROVER_assume(chunk != NULL);
    LargeMemoryBlock *lmb = (LargeMemoryBlock *)chunk;
    lmb->unalignedSize = U; lmb->objectSize = size;
    BackRefIdx idx; idx.main = nondet_u32(); idx.offset = nondet_ushort(); idx.largeObj = 1; lmb->backRefIdx = idx;
    LargeObjectHdr *h = (LargeObjectHdr *)(chunk + poff) - 1; h->memoryBlock = lmb; h->backRefIdx = idx;
    g_reg = true; g_reg_idx = idx; g_reg_ptr = h; g_chunk = chunk; g_lmb = lmb; g_U = U; g_poff = poff; g_pro_large = chunk + poff;
}
static void make_small(size_t size) {
    unsigned os = getObjectSize((unsigned)size);
    size_t cap = (slabSize - sizeof(Block)) / os, k = nondet_size_t(); __CPROVER_assume(k >= 1 && k <= cap);
    __CPROVER_havoc_object(&slab);                                     /* live neighbours hold arbitrary client data (statics are zero-initialised otherwise) */
    slab.hdr.objectSize = (uint16_t)os; g_os = os; g_obj = slab.bytes + slabSize - k * os; g_pro_small = g_obj;
}
static void *large_contract(size_t size, size_t al) {
    g_llo_calls++; g_llo_size = size; g_llo_al = al;
    if (nondet_bool()) return NULL;
    __CPROVER_assume(!g_used && g_pro_large != NULL && size == g_pro_lsize && al == g_pro_lal); g_used = true;
    return g_pro_large;
}
static void *MemoryPool_getFromLLOCache(MemoryPool *mp, TLSData *tls, size_t size, size_t al) { return large_contract(size, al); }
static void *internalPoolMalloc(MemoryPool *mp, size_t size) {
    g_ipm_calls++; g_ipm_req = size;
    if (!size) size = sizeof(size_t);
    if (size >= minLargeObjectSize) return large_contract(size, largeObjectAlignment);
    if (nondet_bool()) return NULL;
    __CPROVER_assume(!g_used && g_pro_small != NULL && size == g_pro_req); g_used = true;
    return g_pro_small;
}
#include "aligned.inc"
size_t IN_size, IN_align;
static MemoryPool g_pool;
static void *run_aligned(size_t *psize, size_t *pal, bool large) {
    size_t size = IN_size = nondet_size_t(), al = IN_align = nondet_size_t();
    __CPROVER_assume(al != 0 && (al & (al - 1)) == 0);                 /* callers validate: power of two (C18) */
    g_inited = nondet_bool(); g_init_ok = nondet_bool(); g_ipm_calls = g_llo_calls = 0; g_reg = false; g_chunk = NULL; g_obj = NULL; g_lmb = NULL; g_used = false; g_pro_large = g_pro_small = NULL;
    if (large) { g_pro_lsize = nondet_size_t(); g_pro_lal = nondet_size_t(); make_large(g_pro_lsize, g_pro_lal); }
    else { g_pro_req = nondet_size_t(); __CPROVER_assume(g_pro_req >= 1 && g_pro_req < minLargeObjectSize); make_small(g_pro_req); }
    *psize = size; *pal = al;
    return allocateAligned(&g_pool, size, al);
}
void h_aligned_slab(void) {
    size_t size, al; char *r = run_aligned(&size, &al, false);
    __CPROVER_assume(r != NULL);                                        /* the answer came from a slab (no large block exists in this job) */
    OBLIGATION(((uintptr_t)r & (al - 1)) == 0, "C17.aligned: the block is aligned to the requested alignment");
    OBLIGATION(r >= g_obj && (size_t)(r - g_obj) <= g_os && size <= g_os - (size_t)(r - g_obj), "C17.aligned: the block [p, p+size) lies inside the one slab object that was taken for it (so it overlaps no other live block and no slab header)");
    OBLIGATION((char *)Block_findObjectToFree(&slab.hdr, r) == g_obj, "C17.aligned: free() maps the aligned pointer back to the start of the slab object that was taken (not into the middle of it)");
    VACUITY_END();
}
void h_aligned_slab_msize(void) {          /* compiled with ALN_RECSTUB */
    size_t size, al; char *r = run_aligned(&size, &al, false);
    __CPROVER_assume(r != NULL);
    size_t ms = internalMsize(r);
    OBLIGATION(ms >= size, "C17.msize: scalable_msize of an aligned slab block is at least the requested size");
    OBLIGATION(ms <= g_os - (size_t)(r - g_obj), "C17.msize: scalable_msize never reaches past the end of the slab object");
    VACUITY_END();
}
#ifndef ALN_RECSTUB
/* isLargeObject on ANY 64-aligned address inside a slab payload: it reads only the 16 bytes below the address (arbitrary client data of the neighbouring object, or the tail of the
   slab header) and asks the back-reference table; modelled by a window object whose user area starts at a 64-aligned offset */
void h_recognise_slab(void) {
    __CPROVER_havoc_object(&g_win);
    g_reg = nondet_bool(); g_reg_idx.main = nondet_u32(); g_reg_idx.offset = nondet_ushort(); g_reg_ptr = malloc(sizeof(LargeObjectHdr)); g_chunk = g_reg_ptr;   /* some other, live large object */
    size_t d = nondet_size_t(); __CPROVER_assume(d < 64);
    void *p = g_win.user + d;
    OBLIGATION(!isLargeObject(ourMem, p), "C17.recognise: an address inside a slab is never taken for a large object by free/msize/realloc (whatever bytes lie below it)");
    OBLIGATION(!isLargeObject(unknownMem, p), "C17.recognise: ... nor by the pointer-recognition used for foreign pointers");
    VACUITY_END();
}
#endif
void h_aligned_large(void) {
    size_t size, al; char *r = run_aligned(&size, &al, true);
    __CPROVER_assume(r != NULL);                                        /* the answer is a large object (no slab object exists in this job) */
    OBLIGATION(((uintptr_t)r & (al - 1)) == 0, "C17.aligned: the block is aligned to the requested alignment");
    OBLIGATION(g_llo_size >= size, "C17.aligned: the large object is asked for at least the requested size");
#ifndef ALN_RECSTUB
    OBLIGATION(isLargeObject(ourMem, r), "C17.aligned: a large block is recognised as a large object by free/msize/realloc");
#else
    size_t ms = internalMsize(r);
    OBLIGATION(ms >= size, "C17.msize: scalable_msize of an aligned large block is at least the requested size");
    OBLIGATION(ms <= g_U - g_poff, "C17.msize: scalable_msize never reaches past the end of the backend block");
#endif
    VACUITY_END();
}
#endif

#ifdef LLOC
/* ---- MemoryPool::getFromLLOCache: where a large object is placed inside the backend block it gets, and the bin arithmetic of the large-object cache ---- */
#define VERIF_SELECT_SIZE_T(u, ull) ((sizeof(size_t) == sizeof(u)) ? (u) : (ull))   /* tbb::detail::select_size_t_constant<u, ull>::value */
#define VERIF_LOG2(n) (63 - __builtin_clzll((unsigned long long)(n)))                  /* Log2<n>::value for n > 0 (compile-time recursion in shared_utils.h) */
#include "locbins.inc"
/* Ghost memory: the block header (LargeMemoryBlock at address A_lmb, any address) and the ONE object header the function writes.  Addresses are plain integers; nothing is
   dereferenced, so no assumption on where the block lies or how it is aligned is needed. */
static uintptr_t A_hdr; static size_t m_lmb_objectSize; static BackRefIdx m_lmb_backRefIdx;
static bool w_hdr_memoryBlock, w_hdr_backRefIdx, w_lmb_objectSize; static LargeMemoryBlock *m_hdr_memoryBlock; static BackRefIdx m_hdr_backRefIdx; static uintptr_t A_hdr2;
static LargeMemoryBlock *nondet_lmbp(void); static BackRefIdx nondet_idx(void);
#define LMB_RD(p, f) (*({ __CPROVER_assert((uintptr_t)(p) == A_lmb, "C17.lloc: only the block that was obtained is read"); &m_lmb_##f; }))
#define LMB_WR(p, f, v) do { __CPROVER_assert((uintptr_t)(p) == A_lmb, "C17.lloc: only the block that was obtained is written"); m_lmb_##f = (v); w_lmb_##f = true; } while (0)
static bool w_lmb_unalignedSize, w_lmb_backRefIdx;
/* stores into the object header: the place of the first store is recorded, a store anywhere else is a second header (an obligation below) */
#define HDR_WR(p, f, v) do { if (!w_hdr_memoryBlock && !w_hdr_backRefIdx) A_hdr = (uintptr_t)(p); else if ((uintptr_t)(p) != A_hdr) A_hdr2 = (uintptr_t)(p); m_hdr_##f = (v); w_hdr_##f = true; } while (0)
static LargeMemoryBlock *hdr_rd_memoryBlock(uintptr_t a) { if (a == A_hdr && w_hdr_memoryBlock) return m_hdr_memoryBlock; return nondet_lmbp(); }   /* anything else in memory: arbitrary */
static BackRefIdx hdr_rd_backRefIdx(uintptr_t a) { if (a == A_hdr && w_hdr_backRefIdx) return m_hdr_backRefIdx; return nondet_idx(); }
#define HDR_RD(p, f) hdr_rd_##f((uintptr_t)(p))
#include "recog_acc.inc"
int g_get_calls, g_mlo_calls, g_setbr_calls; size_t g_asked, g_size, g_al; bool g_have_blk, g_blk_used;
static void STUB_tls_markUsed(TLSData *tls) {}
/* contract of the two block sources (thread-local cache LocalLOC::get: exact size match; ExtMemoryPool::mallocLargeObject: cached block of that bin or Backend::getLargeBlock(size),
   which sets unalignedSize = size): NULL, or a block with unalignedSize >= the size asked for and a back-reference index whose largeObj bit is set (BackRefIdx::newBackRef(true)) */
static LargeMemoryBlock *give(size_t sz) {
    g_asked = sz;
    if (nondet_bool() || !g_have_blk) return NULL;
    __CPROVER_assume(!g_blk_used && sz <= m_lmb_unalignedSize); g_blk_used = true;
    return (LargeMemoryBlock *)A_lmb;
}
static LargeMemoryBlock *STUB_lloc_get(TLSData *tls, size_t sz) { g_get_calls++; return give(sz); }
static LargeMemoryBlock *STUB_mallocLargeObject(MemoryPool *mp, size_t sz) { g_mlo_calls++; return give(sz); }
static void STUB_setBackRef(BackRefIdx idx, void *p) { g_setbr_calls++; g_reg = true; g_reg_idx = idx; g_reg_ptr = p; }
#ifdef LLOC_PLACE   /* in the placement job the bin rounding is left arbitrary: all that is used of it is the lemma above */
static size_t STUB_alignToBin_any(size_t x) {   /* lemma proved for every size and alignment in job lloc.guard: the rounded size either fails the wrap test (< size) or has room for object + headers + alignment */
    size_t a = nondet_size_t(); __CPROVER_assume(a < g_size || a - g_size >= sizeof(LargeMemoryBlock) + sizeof(LargeObjectHdr) + g_al); return a; }
#define LargeObjectCache_alignToBin STUB_alignToBin_any
#endif
/* a debug assertion of the sliced code is a proof obligation and, once discharged, a fact for what follows */
#undef VERIF_ASSERT
#define VERIF_ASSERT(c, m) do { __CPROVER_assert((c), "TBB_ASSERT: " m); __CPROVER_assume(c); } while (0)
#include "lloc.inc"
#undef VERIF_ASSERT
#define VERIF_ASSERT(c, m) __CPROVER_assert((c), "TBB_ASSERT: " m)
#undef LargeObjectCache_alignToBin
size_t IN_size, IN_align, IN_s1, IN_s2, IN_U; uintptr_t IN_base; unsigned IN_cacheIdx;
static MemoryPool g_pool; static TLSData g_tls;
void h_lloc_guard(void) {          /* full 64-bit domain; no block is handed out: what is the backend asked for? */
    size_t size = IN_size = nondet_size_t(), al = IN_align = nondet_size_t();
    __CPROVER_assume(al >= estimatedCacheLineSize && (al & (al - 1)) == 0);      /* callers pass max(alignment, largeObjectAlignment), a power of two */
    g_have_blk = false; g_get_calls = g_mlo_calls = 0; g_tls.currCacheIdx = nondet_unsigned();
    void *r = MemoryPool_getFromLLOCache(&g_pool, nondet_bool() ? &g_tls : NULL, size, al);
    OBLIGATION(r == NULL, "C17.lloc: no block, no object");
    if (g_get_calls + g_mlo_calls > 0)
        OBLIGATION(g_asked >= size && g_asked - size >= sizeof(LargeMemoryBlock) + sizeof(LargeObjectHdr) + al, "C17.lloc: a block is only ever asked for with room for the object, both headers and the alignment slack - size+headers+alignment did not wrap around");
    VACUITY_END();
}
/* the placement proof is split by alignment (the shuffle arithmetic is hard for SAT at small alignments): one job per alignment 2^6 .. 2^31, one job for every power of two >= 2^32 */
#ifndef LLOC_ALIGN_EXP
#ifndef LLOC_ALIGN_MIN_EXP
#define LLOC_ALIGN_MIN_EXP 6
#endif
#define LLOC_AL_OK(al) ((al) >= ((size_t)1 << LLOC_ALIGN_MIN_EXP) && ((al) & ((al) - 1)) == 0)
#else
#define LLOC_AL_OK(al) ((al) == ((size_t)1 << LLOC_ALIGN_EXP))
#endif
void h_lloc_place(void) {
    size_t size = IN_size = nondet_size_t(), al = IN_align = nondet_size_t();
    __CPROVER_assume(LLOC_AL_OK(al));
#ifdef LLOC_ALIGN_EXP
    al = (size_t)1 << LLOC_ALIGN_EXP;
#endif
    A_lmb = IN_base = nondet_uintptr_t(); m_lmb_unalignedSize = IN_U = nondet_size_t(); m_lmb_objectSize = nondet_size_t();
    __CPROVER_assume(A_lmb != 0 && A_lmb < ((uintptr_t)1 << 47) && m_lmb_unalignedSize < ((uintptr_t)1 << 47) - A_lmb);   /* a real block: [A_lmb, A_lmb+U) lies in the user half of the x86-64 address space (also keeps CBMC's 8 object bits of a pointer zero) */
    m_lmb_backRefIdx.main = nondet_u32(); m_lmb_backRefIdx.offset = nondet_ushort(); m_lmb_backRefIdx.largeObj = 1;
    g_size = size; g_al = al; g_have_blk = true; g_blk_used = false; g_get_calls = g_mlo_calls = g_setbr_calls = 0; g_reg = false; g_tls.currCacheIdx = IN_cacheIdx = nondet_unsigned();
    w_hdr_memoryBlock = w_hdr_backRefIdx = w_lmb_objectSize = w_lmb_unalignedSize = w_lmb_backRefIdx = false; A_hdr = A_hdr2 = 0;
    void *r = MemoryPool_getFromLLOCache(&g_pool, nondet_bool() ? &g_tls : NULL, size, al);
    __CPROVER_assume(r != NULL);
    uintptr_t p = (uintptr_t)r, lo = A_lmb, U = IN_U;
    OBLIGATION(g_blk_used, "C17.lloc: an object is only returned out of a block that was obtained for it");
    OBLIGATION((p & (al - 1)) == 0, "C17.lloc: the large object is aligned as requested");
    OBLIGATION(p >= lo && p - lo >= sizeof(LargeMemoryBlock) + sizeof(LargeObjectHdr), "C17.lloc: the object and its header lie clear of the block's LargeMemoryBlock (allocator metadata)");
    OBLIGATION(size <= U && p <= lo + U && lo + U >= p + size, "C17.lloc: the object [p, p+size) ends inside the backend block");   /* no wrap: lo + U < 2^47 and size <= U */
    OBLIGATION(A_hdr == p - sizeof(LargeObjectHdr) && A_hdr2 == 0 && w_hdr_memoryBlock && w_hdr_backRefIdx, "C17.lloc: exactly one object header is written, right below the object");
    OBLIGATION((uintptr_t)m_hdr_memoryBlock == lo && w_lmb_objectSize && m_lmb_objectSize == size, "C17.lloc: the header below the object leads to its block, and the block records the requested size (what scalable_msize reports)");
    OBLIGATION(g_reg && (uintptr_t)g_reg_ptr == A_hdr && g_reg_idx.main == m_hdr_backRefIdx.main && g_reg_idx.offset == m_hdr_backRefIdx.offset && m_hdr_backRefIdx.largeObj, "C17.lloc: the header is registered in the back-reference table under the index stored in it (free/msize will recognise the pointer)");
    OBLIGATION(!w_lmb_unalignedSize && !w_lmb_backRefIdx, "C17.lloc: the block's size record and index are left alone");
    VACUITY_END();
}
void h_lloc_bins(void) {
    size_t s1 = IN_s1 = nondet_size_t(), s2 = IN_s2 = nondet_size_t();
    __CPROVER_assume(s1 >= 1 && s1 <= maxHugeSize);
    size_t a1 = LargeObjectCache_alignToBin(s1);
    OBLIGATION(a1 >= s1, "C17.lloc: a bin size is at least the size it stands for");
    OBLIGATION(LargeObjectCache_alignToBin(a1) == a1, "C17.lloc: bin sizes are fixed points of alignToBin (the caches match sizes exactly)");
    OBLIGATION(a1 >= minLargeSize, "C17.lloc: no bin below the smallest large size");
    if (a1 < maxHugeSize) {
        int i1 = LargeObjectCache_sizeToIdx(a1);
        int b1 = a1 < maxLargeSize ? LargeBS_sizeToIdx(a1) : HugeBS_sizeToIdx(a1);      /* what LargeObjectCacheImpl<Props>::get/put index bin[] with */
        OBLIGATION(b1 >= 0 && (unsigned)b1 < (a1 < maxLargeSize ? LargeBS_NumBins : HugeBS_NumBins), "C17.lloc: the bin index of a cacheable size is inside its cache's bin array");
        __CPROVER_assume(s2 >= minLargeSize && s2 < maxHugeSize && LargeObjectCache_alignToBin(s2) == s2);
        int i2 = LargeObjectCache_sizeToIdx(s2);
        OBLIGATION(i1 != i2 || a1 == s2, "C17.lloc: one bin, one size: two different bin sizes never share a sorting index (putList groups blocks by it and files the group under the first block's size)");
        if ((a1 < maxLargeSize) == (s2 < maxLargeSize)) {
            int b2 = s2 < maxLargeSize ? LargeBS_sizeToIdx(s2) : HugeBS_sizeToIdx(s2);
            OBLIGATION(b1 != b2 || a1 == s2, "C17.lloc: one bin, one size: two different bin sizes never share a bin (a block taken from the bin of a request is exactly as large as the request)");
        }
    }
    VACUITY_END();
}
#endif

#ifdef PFL
/* ---- the public free list protocol.  Shared words of one slab: P = publicFreeList (NULL | UNUSABLE | a chain of publicly freed objects), N = nextPrivatizable (the owner's bin
   T | a link of the owner's mailbox list | UNUSABLE for an orphaned slab); M = the owner bin's mailbox (under mailLock).  Rely/guarantee, SC, any number of threads.
   Ghost: g_inflight = number of threads that turned P from NULL into a chain and have not yet put the slab into the mailbox (the "notifier"); me_inflight: that is me. ---- */
typedef struct Bin { Block *activeBlk; Block *mailbox; int mailLock; } Bin;
static Block blk; static Bin bin;
#define T_BIN ((Block *)&bin)
#define MARK ((void *)(intptr_t)1)
#define SOLID(p) ((((intptr_t)(p)) | 1) != 1)
#define P (blk.publicFreeList)
#define N (blk.nextPrivatizable)
unsigned long g_inflight; bool me_inflight, me_owner, me_lock;
#define INV (g_inflight <= 1 && (unsigned long)me_inflight <= g_inflight \
  && (g_inflight == 0 || (SOLID(P) && N == T_BIN))            /* a notifier is under way: the list is not empty, the slab is neither in the mailbox nor orphaned */ \
  && (N != (Block *)MARK || P != NULL)                         /* an orphaned slab never shows an empty (NULL) list: no foreign free will go looking for its dead owner's bin */ \
  && (P != NULL || N == T_BIN)                                 /* an empty list belongs to a slab that is with its owner and not in the mailbox */ \
  && bin.mailbox != T_BIN && bin.mailbox != (Block *)MARK)     /* the mailbox holds slabs */
static void interfere(void) {
    FreeObject *oP = P; Block *oN = N, *oM = bin.mailbox; unsigned long oI = g_inflight;
    P = nondet_ptr(); N = nondet_ptr(); g_inflight = nondet_ulong(); bin.mailbox = nondet_ptr();
    __CPROVER_assume(INV);
    if (me_lock) __CPROVER_assume(bin.mailbox == oM);                                  /* the mailbox is written under its lock only */
    if (me_owner) {                                                                    /* what the threads that are NOT the owner (not the exclusive holder of an orphan) never do: */
        __CPROVER_assume(oP == NULL || P != NULL);                                     /* reset the list */
        __CPROVER_assume(P != (FreeObject *)MARK || oP == (FreeObject *)MARK);         /* mark it unusable */
        __CPROVER_assume(oN == T_BIN ? (N == T_BIN || (oI == 1 && N != (Block *)MARK)) : N == oN);   /* write nextPrivatizable, except the one notifier under way, who links the slab into the mailbox */
        __CPROVER_assume(!(oI == 0 && oP != NULL) || g_inflight == 0);                 /* become a notifier without having seen an empty list */
    }
}
/* every atomic step: interference; the operation; the site's ghost update; the guarantee */
#define RG_SITE(site, f, op) ({ interfere(); FreeObject *oP_ = P; Block *oN_ = N; unsigned long oI_ = g_inflight; bool omeI_ = me_inflight; __typeof__(f) old_ = (f); __typeof__(op) r_ = (op); GHOST_##site; \
    __CPROVER_assert(INV, "guarantee: protocol invariant re-established at " #site " (one notifier at most, and only while the list is non-empty and the slab is with its owner outside the mailbox; an orphaned slab never has a NULL list; a NULL list means the slab is with its owner)"); \
    __CPROVER_assert(me_owner || P == oP_ || SOLID(P), "guarantee: a foreign thread only ever pushes objects - it never resets the list or marks it unusable, at " #site); \
    __CPROVER_assert(me_owner || N == oN_ || (omeI_ && oN_ == T_BIN && N != (Block *)MARK), "guarantee: a foreign thread writes nextPrivatizable only as the notifier under way, to link the slab into the mailbox, at " #site); \
    __CPROVER_assert(g_inflight <= oI_ || oP_ == NULL, "guarantee: a thread becomes the notifier only by turning an empty (NULL) list into a chain, at " #site); \
    r_; })
#define ATOMIC_LOAD_AT(site, f) RG_SITE(site, f, (f))
#define ATOMIC_STORE_AT(site, f, v) RG_SITE(site, f, ((f) = (v), 0))
#define ATOMIC_XCHG_AT(site, f, v) RG_SITE(site, f, ((f) = (v), old_))
#define ATOMIC_CAS_AT(site, f, e, d) RG_SITE(site, f, ((f) == *(e) ? ((f) = (d), true) : (*(e) = (f), false)))
#define LOCK_MUTEX(m) do { __CPROVER_assert(!me_lock, "C17.pfl: the mailbox lock is not taken twice"); interfere(); me_lock = true; } while (0)
#define UNLOCK_MUTEX(m) do { me_lock = false; } while (0)
/* free objects' link words live in ghost memory: the detached public chain is unfolded node by node (any well-formed chain of g_n objects ending in g_endmark) */
FreeObject *g_cur, *g_cur_next, *g_endmark, *g_link_of, *g_link_val, *g_fl0, *g_taken; size_t g_n, g_pos, g_ac0; unsigned g_links, g_xchg, g_pub_n, g_added; FreeObject *g_pub_prev, *g_xchg_val; Block *g_added_oldN, *g_added_link; Bin *g_added_bin;
static FreeObject *nondet_solid(void) { FreeObject *p = nondet_ptr(); __CPROVER_assume(SOLID(p)); return p; }
static FreeObject *fo_next(FreeObject *p) {
    if (p != g_cur) { __CPROVER_assert(p == g_cur_next && SOLID(g_cur_next), "C17.freelist: the chain is walked link by link and not past its end"); g_pos++; g_cur = g_cur_next; g_cur_next = (g_pos + 1 == g_n) ? g_endmark : nondet_solid(); __CPROVER_assume(g_cur_next != g_cur); /* a well-formed chain does not loop */ }
    return g_cur_next;
}
#define FO_NEXT(p) fo_next(p)
#define FO_SET_NEXT(p, v) do { g_link_of = (p); g_link_val = (v); g_links++; } while (0)
#define NOG ((void)0)
#define GHOST_ppfl_XCHG_1 { g_xchg++; g_xchg_val = P; g_taken = old_; if (SOLID(old_)) { g_cur = old_; g_pos = 0; g_n = nondet_size_t(); \
    __CPROVER_assume(g_n >= 1 && g_n <= blk.allocatedCount);   /* accounting invariant of the slab: publicly freed objects are still counted in allocatedCount (free.public leaves the counter alone) */ \
    g_cur_next = (g_n == 1) ? g_endmark : nondet_solid(); __CPROVER_assume(g_cur_next != g_cur); } }
#define GHOST_ppfl_LOAD_1 NOG
#define GHOST_fpo2_LOAD_1 NOG
#define GHOST_fpo2_LOAD_2 NOG
#define GHOST_fpo2_CAS_1 if (r_) { g_pub_n++; g_pub_prev = oP_; \
    __CPROVER_assert(g_link_of == P && g_link_val == oP_, "C17.pfl: the pushed object links to the list head it replaces (no publicly freed object is dropped, whatever was pushed or privatised meanwhile)"); \
    if (oP_ == NULL) { g_inflight++; me_inflight = true; } }
#define GHOST_apfb_LOAD_1 NOG
#define GHOST_apfb_STORE_1 { g_added++; g_added_oldN = oN_; g_added_link = N; g_added_bin = self; if (me_inflight) { g_inflight--; me_inflight = false; } }
#define GHOST_apfb_STORE_2 NOG
#define GHOST_rts_CAS_1 NOG
#define GHOST_so_LOAD_1 NOG
#define GHOST_so_LOAD_2 NOG
#define GHOST_so_LOAD_3 NOG
#define GHOST_so_STORE_1 NOG
/* sites that do not exist in the current text: a change that turns one atomic operation into another is then judged by the guarantees, not by a missing macro */
#define GHOST_rts_STORE_1 NOG
#define GHOST_rts_XCHG_1 NOG
#define GHOST_rts_LOAD_1 NOG
#define GHOST_rts_CAS_2 NOG
#define GHOST_so_STORE_2 NOG
#define GHOST_so_LOAD_4 NOG
#define GHOST_so_CAS_1 NOG
#define GHOST_so_XCHG_1 NOG
#define GHOST_fpo2_STORE_1 NOG
#define GHOST_fpo2_XCHG_1 NOG
#define GHOST_fpo2_LOAD_3 NOG
#define GHOST_fpo2_CAS_2 NOG
#define GHOST_ppfl_STORE_1 NOG
#define GHOST_ppfl_LOAD_2 NOG
#define GHOST_ppfl_CAS_1 NOG
#define GHOST_ppfl_XCHG_2 NOG
#define GHOST_apfb_LOAD_2 NOG
#define GHOST_apfb_STORE_3 NOG
#define GHOST_apfb_XCHG_1 NOG
static bool STUB_isOwnedByCurrentThread(Block *b) { return me_owner; }
static int g_orphaned; static void STUB_markOrphaned(Block *b) { g_orphaned++; }
#define PFL_ASSIGNS blk.publicFreeList, blk.nextPrivatizable, bin.mailbox, g_inflight
/* at the loop head temp is the node the ghost stands on, or (right after `temp = temp->next`, the ghost follows at the next read) its solid successor */
#define AT_POS(q) ((q) < g_n && (size_t)blk.allocatedCount + 1 + (q) == g_ac0)
#define LOOP_ppfl_1 __CPROVER_assigns(temp, blk.allocatedCount, g_pos, g_cur, g_cur_next) \
    __CPROVER_loop_invariant(g_pos < g_n && g_n <= g_ac0 && g_cur_next != g_cur && (g_pos + 1 == g_n ? g_cur_next == g_endmark : SOLID(g_cur_next)) \
        && (temp == g_cur ? AT_POS(g_pos) : (temp == g_cur_next && SOLID(g_cur_next) && AT_POS(g_pos + 1)))) \
    __CPROVER_decreases(g_n - g_pos - (temp == g_cur ? 0 : 1))
#define LOOP_fpo2_1 __CPROVER_assigns(localPublicFreeList, PFL_ASSIGNS, me_inflight, g_link_of, g_link_val, g_links, g_pub_n, g_pub_prev) __CPROVER_loop_invariant(INV && !me_inflight && g_pub_n == 0)
#define LOOP_so_1 __CPROVER_assigns(count, PFL_ASSIGNS) __CPROVER_loop_invariant(INV && !me_inflight && P != NULL && count >= 1 && count <= 256)
#include "pfl.inc"
#define PRE(c) do { P = nondet_ptr(); N = nondet_ptr(); bin.mailbox = nondet_ptr(); g_inflight = nondet_ulong(); me_inflight = false; me_lock = false; g_endmark = nondet_bool() ? NULL : (FreeObject *)MARK; \
    blk.allocatedCount = nondet_ushort(); blk.objectSize = nondet_ushort(); blk.freeList = nondet_ptr(); blk.previous = nondet_ptr(); g_links = g_xchg = g_pub_n = g_added = 0; g_orphaned = 0; \
    __CPROVER_assume(blk.objectSize >= 8 && blk.objectSize <= fittingSize5 && blk.allocatedCount <= (slabSize - sizeof(Block)) / blk.objectSize); __CPROVER_assume(INV && (c)); } while (0)
void h_pfl_push(void) {          /* any thread that does not own the slab frees one of its objects */
    me_owner = false; PRE(1); FreeObject *obj = nondet_solid(); uint16_t ac0 = blk.allocatedCount; FreeObject *fl0 = blk.freeList;
    Block_freePublicObject2(&blk, obj);
    OBLIGATION(g_pub_n == 1, "C17.pfl: exactly one successful push of the freed object");
    OBLIGATION((g_added == 1) == (g_pub_prev == NULL) && g_added <= 1, "C17.pfl: the slab is handed to its owner's mailbox exactly when this push turned an empty (NULL) list into a chain - not when the list was marked unusable (orphan) or already held objects (somebody else does it)");
    if (g_added) OBLIGATION(g_added_bin == &bin && g_added_oldN == T_BIN && g_added_link != (Block *)MARK, "C17.pfl: it goes to the bin of its current owner, was not in a mailbox before, and is linked in front of that mailbox's list");
    OBLIGATION(!me_inflight && !me_lock, "C17.pfl: the notifier is done when the call returns, the mailbox lock released");
    OBLIGATION(blk.allocatedCount == ac0 && blk.freeList == fl0, "C17.pfl: a foreign thread leaves the owner's private fields alone");
    VACUITY_END();
}
void h_pfl_ready(void) {         /* the owner, slab not in the mailbox */
    me_owner = true; PRE(N == T_BIN);
    bool r = Block_readyToShare(&blk); FreeObject *after = P; interfere();
    OBLIGATION(after != NULL && P != NULL, "C17.pfl: after readyToShare the list is never empty (NULL) again until the slab is adopted: a later foreign free cannot take itself for the first one");
    OBLIGATION(!r || (after == (FreeObject *)MARK && g_inflight == 0), "C17.pfl: readyToShare answers true only if it marked the empty list unusable - then no notifier exists");
    VACUITY_END();
}
void h_pfl_share(void) {         /* the owner abandons the slab (thread exit) */
    me_owner = true; PRE(1);
    Block_shareOrphaned(&blk, (intptr_t)T_BIN, nondet_unsigned());
    OBLIGATION(N == (Block *)MARK && P != NULL, "C17.pfl: an orphaned slab is marked in nextPrivatizable and its list is not NULL: no foreign free will look for the dead owner's bin");
    OBLIGATION(g_inflight == 0, "C17.pfl: when the slab is orphaned no thread is still on its way to the dead owner's mailbox with it");
    OBLIGATION(g_orphaned == 1 && blk.previous == NULL, "C17.pfl: ownership is dropped once");
    VACUITY_END();
}
void h_pfl_privatize(void) {     /* the owner (reset) taking a slab out of its mailbox / adopting an orphan, or the exclusive holder of the orphan list (no reset) */
    bool reset = nondet_bool(); me_owner = true;
    PRE(P != NULL && g_inflight == 0 && (reset ? N == T_BIN : N == (Block *)MARK));
    g_ac0 = blk.allocatedCount; g_fl0 = blk.freeList;
    Block_privatizePublicFreeList(&blk, reset);
    OBLIGATION(g_xchg == 1 && g_xchg_val == (reset ? NULL : (FreeObject *)MARK), "C17.pfl: the public list is detached by ONE atomic exchange that leaves NULL (owner) or the unusable mark (orphan): every object pushed before it is in the detached chain, every later push starts a new list - none is privatised twice or lost");
    if (SOLID(g_taken)) {
        OBLIGATION((size_t)blk.allocatedCount + g_n == g_ac0, "C17.pfl: allocatedCount drops by exactly the number of objects in the detached chain");
        OBLIGATION(blk.freeList == g_taken && g_links == 1 && g_link_of == g_cur && g_pos + 1 == g_n && g_link_val == g_fl0, "C17.pfl: the detached chain, untouched but for its last link, is put in front of the private free list: every publicly freed object becomes allocatable again, the old private list is kept");
    } else
        OBLIGATION(blk.allocatedCount == g_ac0 && blk.freeList == g_fl0 && g_links == 0, "C17.pfl: nothing to privatise: the private fields stay as they were");
    VACUITY_END();
}
void h_pfl_pop(void) {
    me_owner = true; PRE(1); uint16_t ac0 = blk.allocatedCount; FreeObject *fl0 = blk.freeList;
    __CPROVER_assume(ac0 < (slabSize - sizeof(Block)) / blk.objectSize || fl0 == NULL);    /* accounting invariant: objects on the free list are not counted as allocated */
    g_cur = fl0; g_n = 2; g_pos = 0; g_cur_next = nondet_ptr();
    FreeObject *r = Block_allocateFromFreeList(&blk);
    OBLIGATION(r == fl0, "C17.freelist: the head of the private free list is handed out (NULL if the list is empty)");
    if (fl0 != NULL) OBLIGATION(blk.freeList == g_cur_next && g_pos == 0 && blk.allocatedCount == ac0 + 1 && g_links == 0, "C17.freelist: the list continues with the successor of the object handed out - that object is no longer on it - and it is counted as allocated");
    else OBLIGATION(blk.allocatedCount == ac0 && blk.freeList == NULL, "C17.freelist: an empty list changes nothing");
    VACUITY_END();
}
#endif

#ifdef BE
/* ---- backend: the boundary tags (GuardedSize words: a block's size, or LOCKED / COAL_BLOCK while one thread holds it), FreeBlock::tryLockBlock, Backend::splitBlock ---- */
typedef struct GuardedSize { uintptr_t value; } GuardedSize;
typedef struct FreeBlock { GuardedSize myL, leftL; struct FreeBlock *prev, *next, *nextToFree; size_t sizeTmp; int myBin; bool slabAligned, blockInBin; } FreeBlock;
_Static_assert(sizeof(FreeBlock) == 56, "FreeBlock view (checked against the real class in tv)");
#define minBlockSize sizeof(FreeBlock)          /* const size_t FreeBlock::minBlockSize = sizeof(FreeBlock); (pattern-checked in spec.py) */
#include "alignp.inc"
#ifdef BE_GUARD
/* Rely/guarantee on the guard words.  The words live in ghost memory and are found by address, so blocks may lie anywhere.  Word 1 is the word under test (myL of block F in the
   two-word job); word 2 is leftL of F's right neighbour.  gO_k = number of threads holding word k (it then reads LOCKED or COAL_BLOCK), meO_k: I hold it.
   Boundary-tag rely (two-word job): while F's own tag is free, or held by me, F has size g_S: a free tag 1 reads g_S, and tag 2 (at F+g_S) reads g_S when free. */
static uintptr_t W1, W2, A1, A2, g_S; unsigned long gO1, gO2; bool meO1, meO2, two_words;
#define HELD(w) ((w) <= 1)          /* <= MAX_LOCKED_VAL */
#define INV1 (gO1 <= 1 && (unsigned long)meO1 <= gO1 && (HELD(W1) == (gO1 == 1)))
#define INV2 (gO2 <= 1 && (unsigned long)meO2 <= gO2 && (HELD(W2) == (gO2 == 1)))
#define BT (!two_words || ((HELD(W1) || W1 == g_S) && (!(!HELD(W1) || meO1) || HELD(W2) || W2 == g_S)))
#define INV (INV1 && INV2 && BT)
static void interfere(void) {
    uintptr_t o1 = W1, o2 = W2;
    W1 = nondet_uintptr_t(); W2 = nondet_uintptr_t(); gO1 = nondet_ulong(); gO2 = nondet_ulong();
    __CPROVER_assume(INV);
    if (meO1) __CPROVER_assume(W1 == o1);          /* a word that one thread holds is written by that thread only */
    if (meO2) __CPROVER_assume(W2 == o2);
}
static uintptr_t *gw(void *a) { __CPROVER_assert((uintptr_t)a == A1 || (two_words && (uintptr_t)a == A2), "C17.guard: only the guard words of the block and of its right neighbour (found through the size read from the block's own tag) are touched"); return (uintptr_t)a == A1 ? &W1 : &W2; }
#define RG_SITE(site, f, op) ({ interfere(); uintptr_t *w_ = gw(&(f)); bool first_ = (w_ == &W1); uintptr_t o1_ = W1, o2_ = W2; unsigned long oO1_ = gO1, oO2_ = gO2; bool om1_ = meO1, om2_ = meO2; uintptr_t old_ = *w_; __typeof__(op) r_ = (op); GHOST_GS; \
    __CPROVER_assert(INV, "guarantee: a guard word reads LOCKED/COAL_BLOCK exactly while one thread holds it, and at most one thread holds it; sizes on both sides of a border agree, at " #site); \
    __CPROVER_assert((!(oO1_ == 1 && !om1_) || W1 == o1_) && (!(oO2_ == 1 && !om2_) || W2 == o2_), "guarantee: a guard word held by another thread is not written, at " #site); \
    r_; })
/* ghost: taking = a successful CAS from a size to LOCKED/COAL_BLOCK; releasing = a store of a size by the holder */
#define GHOST_GS do { if (first_) { if (!HELD(old_) && HELD(W1)) { gO1++; meO1 = true; } else if (HELD(old_) && !HELD(W1) && om1_) { gO1--; meO1 = false; } } \
                      else        { if (!HELD(old_) && HELD(W2)) { gO2++; meO2 = true; } else if (HELD(old_) && !HELD(W2) && om2_) { gO2--; meO2 = false; } } } while (0)
#define ATOMIC_LOAD_AT(site, f) RG_SITE(site, f, (*w_))
#define ATOMIC_STORE_AT(site, f, v) RG_SITE(site, f, (*w_ = (v), 0))
#define ATOMIC_CAS_AT(site, f, e, d) RG_SITE(site, f, (*w_ == *(e) ? (*w_ = (d), true) : (*(e) = *w_, false)))
#define ATOMIC_XCHG_AT(site, f, v) RG_SITE(site, f, (*w_ = (v), old_))          /* not in the current text; present so that a change to another primitive is judged by the guarantees */
#define ATOMIC_FETCH_ADD_AT(site, f, v) RG_SITE(site, f, (*w_ += (v), old_))
#define ATOMIC_FETCH_OR_AT(site, f, v) RG_SITE(site, f, (*w_ |= (v), old_))
/* tryLock spins on ONE word, which the caller does not hold; what it holds of the other word does not change */
#define LOOP_gs_tryLock_1 __CPROVER_assigns(sz, W1, W2, gO1, gO2, meO1, meO2) \
    __CPROVER_loop_invariant(INV && ((uintptr_t)self == A1 ? (!meO1 && meO2 == __CPROVER_loop_entry(meO2) && (!meO2 || W2 == __CPROVER_loop_entry(W2))) : (!meO2 && meO1 == __CPROVER_loop_entry(meO1) && (!meO1 || W1 == __CPROVER_loop_entry(W1)))))
#include "guard.inc"
#define PRE(c) do { W1 = nondet_uintptr_t(); W2 = nondet_uintptr_t(); gO1 = nondet_ulong(); gO2 = nondet_ulong(); meO1 = nondet_bool(); meO2 = nondet_bool(); A1 = nondet_uintptr_t(); g_S = nondet_uintptr_t(); \
    __CPROVER_assume(A1 >= 4096 && A1 < ((uintptr_t)1 << 47) && g_S >= minBlockSize && g_S < ((uintptr_t)1 << 46)); A2 = A1 + g_S + sizeof(GuardedSize); __CPROVER_assume(INV && (c)); } while (0)
size_t IN_state, IN_size;
void h_gs_trylock(void) {
    two_words = false; PRE(!meO1); enum GuardedSize_State st = nondet_bool() ? LOCKED : COAL_BLOCK;
    size_t r = GuardedSize_tryLock((GuardedSize *)A1, st); uintptr_t after = W1;
    OBLIGATION((r > MAX_LOCKED_VAL) == meO1, "C17.guard: tryLock reports a size exactly when THIS caller took the word (unique holder among any number of callers)");
    OBLIGATION(!meO1 || (after == (uintptr_t)st && gO1 == 1), "C17.guard: a taken word carries the requested state");
    interfere();
    OBLIGATION(!meO1 || W1 == (uintptr_t)st, "C17.guard: nobody else writes the word while it is held");
    VACUITY_END();
}
void h_gs_unlock(void) {
    two_words = false; PRE(meO1); size_t size = IN_size = nondet_size_t(); __CPROVER_assume(size > MAX_LOCKED_VAL);
    GuardedSize_unlock((GuardedSize *)A1, size);
    OBLIGATION(!meO1 && W1 == size, "C17.guard: unlock publishes the size and gives the word up");
    VACUITY_END();
}
void h_gs_coal(void) {
    two_words = false; PRE(meO1 && W1 == LOCKED);
    GuardedSize_makeCoalscing((GuardedSize *)A1); interfere();
    OBLIGATION(meO1 && W1 == COAL_BLOCK && gO1 == 1, "C17.guard: makeCoalscing keeps the word held, now marked as coalescing");
    VACUITY_END();
}
void h_fb_trylockblock(void) {
    two_words = true; PRE(!meO1 && !meO2);
    size_t r = FreeBlock_tryLockBlock((FreeBlock *)A1); interfere();
    OBLIGATION(r == 0 || (meO1 && meO2 && r == g_S && W1 == LOCKED && W2 == LOCKED), "C17.guard: a block is locked only with BOTH of its tags taken by this thread, and the size reported is the block's size");
    OBLIGATION(r != 0 || (!meO1 && !meO2), "C17.guard: a failed attempt leaves no tag held");
    VACUITY_END();
}
#endif
#ifdef BE_SPLIT
/* Backend::splitBlock in ghost memory: block F = [A_F, A_F + S) taken from a bin (both tags held); the pieces given back and the headers initialised are recorded in order */
static uintptr_t A_F; static size_t g_S;
#define FB_SIZETMP(p) (*({ __CPROVER_assert((uintptr_t)(p) == A_F, "C17.split: only the block that was taken is read"); &g_S; }))
static bool g_fixed; static bool STUB_fixedPool(void) { return g_fixed; }
static unsigned g_clock, g_nih, g_nrel, g_nmark; static uintptr_t g_ih[4], g_rel_p[4]; static size_t g_rel_sz[4]; static bool g_rel_al[4]; static unsigned g_ih_t[4], g_rel_t[4];
static uintptr_t g_mark_p; static int g_mark_num; static size_t g_mark_size;
static void STUB_initHeader(FreeBlock *b) { __CPROVER_assert(g_nih < 4, "C17.split: at most a few headers"); g_ih[g_nih] = (uintptr_t)b; g_ih_t[g_nih] = ++g_clock; g_nih++; }
static void STUB_coalescAndPut(FreeBlock *b, size_t sz, bool al) { __CPROVER_assert(g_nrel < 4, "C17.split: at most a few pieces"); g_rel_p[g_nrel] = (uintptr_t)b; g_rel_sz[g_nrel] = sz; g_rel_al[g_nrel] = al; g_rel_t[g_nrel] = ++g_clock; g_nrel++; }
static void STUB_markBlocks(FreeBlock *b, int num, size_t size) { g_nmark++; g_mark_p = (uintptr_t)b; g_mark_num = num; g_mark_size = size; }
#include "split.inc"
uintptr_t IN_F; size_t IN_S, IN_size; int IN_num; bool IN_blockAligned, IN_needAligned;
static bool header_locked_before(uintptr_t a, unsigned t) { for (unsigned i = 0; i < 4; i++) if (i < g_nih && g_ih[i] == a && g_ih_t[i] < t) return true; return false; }
void h_split(void) {
    A_F = IN_F = nondet_uintptr_t(); g_S = IN_S = nondet_size_t(); int num = IN_num = nondet_int(); size_t size = IN_size = nondet_size_t();
    bool ba = IN_blockAligned = nondet_bool(), na = IN_needAligned = nondet_bool(); g_fixed = nondet_bool();
    __CPROVER_assume(A_F >= 4096 && A_F < ((uintptr_t)1 << 47) && g_S < ((uintptr_t)1 << 46));
    __CPROVER_assume(num >= 1 && num <= (1 << 20) && size >= minBlockSize && size < ((size_t)1 << 44) && (num == 1 || size == slabSize) && (!na || size == slabSize));   /* callers: getSlabBlock(num) asks num*slabSize aligned; getLargeBlock / getBackRefSpace ask 1*size */
    size_t total = (size_t)num * size;
    __CPROVER_assume(!ba || ((A_F + g_S) & (slabSize - 1)) == 0);                                 /* a block from an aligned bin has a slab-aligned right end */
    if (na && !ba) { uintptr_t nb = (A_F + slabSize - 1) & ~(uintptr_t)(slabSize - 1), rn = nb + total, rc = A_F + g_S;   /* what IndexedBins::getFromBin checked before it chose the block (special case) */
        __CPROVER_assume(g_fixed && rn <= rc && (nb == A_F || nb - A_F >= minBlockSize) && (rn == rc || rc - rn >= minBlockSize)); }
    else __CPROVER_assume(g_S >= total && (g_S - total >= minBlockSize || g_S == total));       /* (general case) */
    g_clock = g_nih = g_nrel = g_nmark = 0;
    uintptr_t r = (uintptr_t)Backend_splitBlock((FreeBlock *)A_F, num, size, ba, na);
    OBLIGATION(r >= A_F && r + total <= A_F + g_S, "C17.split: the block handed out lies inside the block that was taken from the bin");
    OBLIGATION(!na || (r & (slabSize - 1)) == 0, "C17.split: a slab request gets a slab-aligned block");
    size_t sum = total;
    for (unsigned i = 0; i < 2; i++) if (i < g_nrel) {
        uintptr_t p = g_rel_p[i]; size_t sz = g_rel_sz[i]; sum += sz;
        OBLIGATION(p >= A_F && sz <= g_S && p + sz <= A_F + g_S && (p + sz <= r || p >= r + total), "C17.split: a piece given back lies inside the block taken and does not overlap the block handed out");
        OBLIGATION(sz >= minBlockSize, "C17.split: a piece given back has room for its own header (a smaller one would put a header into the neighbouring live block)");
        OBLIGATION(!g_rel_al[i] || ((p + sz) & (slabSize - 1)) == 0, "C17.split: a piece filed as slab-aligned has a slab-aligned right end");
        if (p + sz == r) OBLIGATION(header_locked_before(r, g_rel_t[i]), "C17.split: before a left piece is given back the header of the block handed out is locked: coalescing cannot run across the border into it");
        if (p == r + total) OBLIGATION(header_locked_before(p, g_rel_t[i]), "C17.split: before a right piece is given back its own header is locked (its left tag): coalescing cannot run across the border into the block handed out");
    }
    OBLIGATION(g_nrel <= 2 && (g_nrel < 2 || g_rel_p[0] + g_rel_sz[0] <= g_rel_p[1] || g_rel_p[1] + g_rel_sz[1] <= g_rel_p[0]), "C17.split: the pieces given back do not overlap each other");
    OBLIGATION(sum == g_S, "C17.split: the sizes add up: block handed out + pieces given back = block taken (nothing leaks, nothing is given back twice)");
    OBLIGATION(g_nmark == 1 && g_mark_p == r && g_mark_num == num && g_mark_size == size, "C17.split: headers are set up for exactly the blocks handed out");
    VACUITY_END();
}
#endif
#ifdef BE_COAL
/* Backend::doCoalesc on four blocks in a row, L | F | R | N, anywhere in memory (ghost memory found by address):  F = [A_F, A_F+sF) is the block being freed, both of its tags held
   by this thread (LOCKED); L = [A_F-sL, A_F), R = [A_F+sF, A_F+sF+sR), N starts at A_R+sR.  A block X's size sits in X.myL and in leftL of its right neighbour; a word reads
   LOCKED / COAL_BLOCK while one thread holds it.  Guard words: 0 L.myL  1 F.leftL  2 F.myL  3 R.leftL  4 R.myL  5 N.leftL  6 N.myL.  The real GuardedSize / FreeBlock code runs on them
   under rely/guarantee (any number of other threads locking, unlocking, coalescing around us).  sL / sR are the sizes this thread will find when it takes the tags (prophecy: before
   that the neighbours may be merged and split by others).  R (or N) may be the region's LastFreeBlock: its myL then reads LAST_REGION_BLOCK. */
static uintptr_t W[7], A_L, A_F, A_R, A_N, sL, sF, sR; unsigned long gO[7]; bool me[7];
#define HELD(w) ((w) <= 1)
#define INVK(k) (gO[k] <= 1 && (unsigned long)me[k] <= gO[k] && (HELD(W[k]) == (gO[k] == 1)))
static bool g_last_is_R, g_last_is_N;
#define BT ((HELD(W[1]) || W[1] == sL) && (!(!HELD(W[1]) || me[1]) || HELD(W[0]) || W[0] == sL) && (HELD(W[4]) || W[4] == sR) && (!(!HELD(W[4]) || me[4]) || HELD(W[5]) || W[5] == sR) \
            && (HELD(W[6]) || ((W[6] == 2 /* LAST_REGION_BLOCK */) == g_last_is_N)))          /* a region's last block is the one whose free tag reads LAST_REGION_BLOCK */
#define INV (INVK(0) && INVK(1) && INVK(2) && INVK(3) && INVK(4) && INVK(5) && INVK(6) && BT)
#define HAVOCK(k) uintptr_t o##k = W[k]; W[k] = nondet_uintptr_t(); gO[k] = nondet_ulong();
#define STAYK(k) if (me[k]) __CPROVER_assume(W[k] == o##k);          /* a word that one thread holds is written by that thread only */
static void interfere(void) {
    HAVOCK(0) HAVOCK(1) HAVOCK(2) HAVOCK(3) HAVOCK(4) HAVOCK(5) HAVOCK(6)
    __CPROVER_assume(INV);
    STAYK(0) STAYK(1) STAYK(2) STAYK(3) STAYK(4) STAYK(5) STAYK(6)
}
static int gwi(void *p) { uintptr_t a = (uintptr_t)p;
    __CPROVER_assert(a == A_L || a == A_F + 8 || a == A_F || a == A_R + 8 || a == A_R || a == A_N + 8 || a == A_N, "C17.coalesce: only tags of the block and of its true neighbours (found through the sizes read from held tags) are touched");
    return a == A_L ? 0 : a == A_F + 8 ? 1 : a == A_F ? 2 : a == A_R + 8 ? 3 : a == A_R ? 4 : a == A_N + 8 ? 5 : 6; }
#define RG_SITE(site, f, op) ({ interfere(); int k_ = gwi(&(f)); uintptr_t *w_ = &W[k_]; uintptr_t old_ = *w_; bool om_ = me[k_]; unsigned long oO_ = gO[k_]; __typeof__(op) r_ = (op); \
    if (!HELD(old_) && HELD(*w_)) { gO[k_]++; me[k_] = true; } else if (HELD(old_) && !HELD(*w_) && om_) { gO[k_]--; me[k_] = false; } \
    __CPROVER_assert(INV, "guarantee: every tag reads LOCKED/COAL_BLOCK exactly while one thread holds it; sizes on both sides of a border agree, at " #site); \
    __CPROVER_assert(!(oO_ == 1 && !om_) || *w_ == old_, "guarantee: a tag held by another thread is not written, at " #site); \
    r_; })
#define ATOMIC_LOAD_AT(site, f) RG_SITE(site, f, (*w_))
#define ATOMIC_STORE_AT(site, f, v) RG_SITE(site, f, (*w_ = (v), 0))
#define ATOMIC_CAS_AT(site, f, e, d) RG_SITE(site, f, (*w_ == *(e) ? (*w_ = (d), true) : (*(e) = *w_, false)))
#define ATOMIC_XCHG_AT(site, f, v) RG_SITE(site, f, (*w_ = (v), old_))
/* GuardedSize::tryLock / unlock / makeCoalscing by the contracts proved on their real text in jobs guard.tryLock / guard.unlock / guard.makeCoalscing: each is ONE step on its word */
#include "gsenum.inc"
static size_t GuardedSize_tryLock(GuardedSize *self, enum GuardedSize_State state) {        /* a size: this caller took the word (it now reads `state`); LOCKED/COAL_BLOCK: somebody holds it, untouched */
    __CPROVER_assert(state <= MAX_LOCKED_VAL, "TBB_ASSERT: state <= MAX_LOCKED_VAL");
    return RG_SITE(tryLock, self->value, (HELD(*w_) ? *w_ : (*w_ = (uintptr_t)state, old_))); }
static void GuardedSize_unlock(GuardedSize *self, size_t size) {
    __CPROVER_assert(size > MAX_LOCKED_VAL, "TBB_ASSERT: size > MAX_LOCKED_VAL");
    (void)RG_SITE(unlock, self->value, (__CPROVER_assert(om_ && HELD(old_), "TBB_ASSERT: The lock is not locked (unlock by the holder only)"), *w_ = size, 0)); }
static void GuardedSize_makeCoalscing(GuardedSize *self) {
    (void)RG_SITE(makeCoalscing, self->value, (__CPROVER_assert(om_ && old_ == LOCKED, "TBB_ASSERT: value == LOCKED (held by this thread)"), *w_ = COAL_BLOCK, 0)); }
#include "fbm.inc"
/* FreeBlock fields of the four blocks */
typedef struct MemRegion { struct MemRegion *next, *prev; size_t allocSz, blockSz; int type; } MemRegion;
typedef struct LastFreeBlock { FreeBlock fb; MemRegion *memRegion; } LastFreeBlock;
static size_t f_sizeTmp[4]; static bool f_blockInBin[4]; static FreeBlock *f_nextToFree[4];
static int fbi(void *p) { uintptr_t a = (uintptr_t)p; __CPROVER_assert(a == A_L || a == A_F || a == A_R || a == A_N, "C17.coalesce: only headers of the block and of its true neighbours are accessed"); return a == A_L ? 0 : a == A_F ? 1 : a == A_R ? 2 : 3; }
#define FB_RD(p, fld) (f_##fld[fbi(p)])
#define FB_WR(p, fld, v) do { int i_ = fbi(p); __CPROVER_assert(i_ == 1 || (i_ == 0 && me[0] && me[1]) || (i_ == 2 && me[4] && me[5]), "C17.coalesce: a neighbour's header is written only while both of its tags are held by this thread"); f_##fld[i_] = (v); } while (0)
static uintptr_t A_MR; static size_t g_allocSz;
static MemRegion *lfb_memRegion(void *p) { uintptr_t a = (uintptr_t)p;
    __CPROVER_assert((a == A_R && g_last_is_R) || (a == A_N && g_last_is_N), "C17.coalesce: the region pointer is read only from a block whose tag said LAST_REGION_BLOCK");
    return (MemRegion *)A_MR; }
#define LFB_MEMREGION(p) lfb_memRegion(p)
#define MR_ALLOCSZ(p) (*({ __CPROVER_assert((uintptr_t)(p) == A_MR, "C17.coalesce: the region header read is the one the last block names"); &g_allocSz; }))
static unsigned g_nq, g_nrm; static uintptr_t g_q, g_rm[3];
static void STUB_coalescQ_putBlock(FreeBlock *b) { g_nq++; g_q = (uintptr_t)b; }
static void STUB_removeBlockFromBin(FreeBlock *b) { __CPROVER_assert(g_nrm < 3, "C17.coalesce: few bin removals"); g_rm[g_nrm++] = (uintptr_t)b; }
static bool removed(uintptr_t a) { for (unsigned i = 0; i < 3; i++) if (i < g_nrm && g_rm[i] == a) return true; return false; }
#include "coalesc.inc"
uintptr_t IN_F; size_t IN_sL, IN_sF, IN_sR;
void h_coalesce(void) {
    A_F = IN_F = nondet_uintptr_t(); sL = IN_sL = nondet_size_t(); sF = IN_sF = nondet_size_t(); sR = IN_sR = nondet_size_t();
    __CPROVER_assume(sL >= minBlockSize && sL < ((size_t)1 << 44) && sF >= minBlockSize && sF < ((size_t)1 << 44) && (sR == LAST_REGION_BLOCK || (sR >= minBlockSize && sR < ((size_t)1 << 44))));
    __CPROVER_assume(A_F >= ((uintptr_t)1 << 45) && A_F < ((uintptr_t)1 << 46));
    A_L = A_F - sL; A_R = A_F + sF; A_N = A_R + sR;
    for (int k = 0; k < 7; k++) { W[k] = nondet_uintptr_t(); gO[k] = nondet_ulong(); me[k] = (k == 2 || k == 3); }
    __CPROVER_assume(INV && W[2] == LOCKED && W[3] == LOCKED);                  /* the block being freed was taken with both tags LOCKED (tryLockBlock / initHeader) */
    g_last_is_R = (sR == LAST_REGION_BLOCK); g_last_is_N = nondet_bool();      /* where the region ends */
    __CPROVER_assume(!(g_last_is_R && g_last_is_N));
    A_MR = nondet_uintptr_t(); g_allocSz = nondet_size_t();                    /* region layout: header first, then the blocks, the LastFreeBlock inside the region */
    __CPROVER_assume(A_MR >= 4096 && A_MR < A_L - sizeof(MemRegion) && g_allocSz < ((size_t)1 << 47) && A_MR + g_allocSz >= (g_last_is_R ? A_R : A_N) + sizeof(LastFreeBlock));
    for (int b = 0; b < 4; b++) { f_sizeTmp[b] = nondet_size_t(); f_blockInBin[b] = nondet_bool(); }
    f_sizeTmp[1] = sF; g_nq = g_nrm = 0;
    MemRegion *mr = (MemRegion *)(uintptr_t)77;
    uintptr_t r = (uintptr_t)Backend_doCoalesc((FreeBlock *)A_F, &mr);
    uintptr_t wN_seen = W[6];
    bool gotL = me[0] && me[1], gotR = me[4] && me[5];
    OBLIGATION(me[2] && me[3] && W[2] == COAL_BLOCK && W[3] == COAL_BLOCK, "C17.coalesce: the block being freed stays held (marked coalescing) until the caller publishes the result");
    OBLIGATION(me[0] == me[1] && me[4] == me[5] && !me[6], "C17.coalesce: a neighbour is either held with BOTH tags (merged) or not at all - a tag taken in a failed attempt is given back");
    OBLIGATION(!gotL || (W[0] == COAL_BLOCK && W[1] == COAL_BLOCK) , "C17.coalesce: merged left neighbour stays held");
    OBLIGATION(!gotR || (W[4] == COAL_BLOCK && W[5] == COAL_BLOCK), "C17.coalesce: merged right neighbour stays held");
    uintptr_t lo = gotL ? A_L : A_F; size_t tot = (gotL ? sL : 0) + sF + (gotR ? sR : 0);
    if (r != 0) {
        OBLIGATION(r == lo && f_sizeTmp[gotL ? 0 : 1] == tot, "C17.coalesce: the result is the block being freed together with exactly those ADJACENT neighbours whose two tags this thread took from a size (free, not in use, not being coalesced elsewhere); its size is the sum");
        OBLIGATION(g_nq == 0, "C17.coalesce: a finished block is not also queued");
        OBLIGATION(!gotR || (sR != LAST_REGION_BLOCK && removed(A_R)), "C17.coalesce: a merged right neighbour is a real free block and is taken out of its bin (it must not be handed out on its own any more)");
        OBLIGATION(!gotL || f_blockInBin[0], "C17.coalesce: a merged left neighbour is flagged as sitting in a bin, so that the caller re-files or removes it");
        OBLIGATION(mr == NULL || (gotR ? g_last_is_N : g_last_is_R), "C17.coalesce: a region is reported only if the block right after the result is that region's last block");
        OBLIGATION(mr == NULL || mr == (MemRegion *)A_MR, "C17.coalesce: the region reported is the one the last block names");
    } else {
        OBLIGATION(!gotR, "C17.coalesce: a postponed block has not swallowed its right neighbour");
        OBLIGATION(g_nq == 1 && g_q == lo && f_sizeTmp[gotL ? 0 : 1] == tot, "C17.coalesce: a postponed block is queued once, with what it has merged so far");
        OBLIGATION(!gotL || removed(A_L), "C17.coalesce: a postponed block that swallowed its left neighbour has that neighbour taken out of its bin (it must not be handed out on its own any more)");
        OBLIGATION(!gotL || !f_blockInBin[0], "C17.coalesce: ... and no longer flagged as in a bin");
    }
    VACUITY_END();
}
#endif
#endif
