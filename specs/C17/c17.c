/* C17 harnesses (tbbmalloc front end).  *.inc are generated from /repo/src/tbbmalloc on every run. */
#include "verif.h"
#include <stdlib.h>
#define estimatedCacheLineSize 64
typedef struct FreeObject { struct FreeObject *next; } FreeObject;
/* header view of Block: only the members the sliced functions touch; sizeof == 128 == 2*estimatedCacheLineSize (checked natively in tv) */
typedef struct Block { FreeObject *bumpPtr; FreeObject *freeList; uint16_t allocatedCount; uint16_t objectSize; bool isFull; FreeObject *publicFreeList; char pad[128 - 32]; } Block;
_Static_assert(sizeof(Block) == 128, "Block header view");
#include "consts.inc"
#define VERIF_BSR(n) (31u - (unsigned)__builtin_clz(n))     /* assumed contract of the bsr instruction */
#include "sizeclass.inc"

#ifdef SC
unsigned IN_s, IN_s2, IN_sz, IN_al;
void h_sizeclass(void) {
    unsigned s = IN_s = nondet_unsigned(), s2 = IN_s2 = nondet_unsigned();
    __CPROVER_assume(s >= 1 && s <= fittingSize5 && s2 >= 1 && s2 <= fittingSize5);
    unsigned o = getObjectSize(s), i = getIndex(s);
    OBLIGATION(o >= s, "C17.size: the object of a bin is at least as big as the request");
    OBLIGATION(i < numBlockBins, "C17.size: bin index in range");
    OBLIGATION(s <= 8 ? o == 8 : o % 16 == 0, "C17.size: object sizes keep natural alignment (8 for <=8 bytes, 16 otherwise)");
    OBLIGATION(getIndex(o) == i && getObjectSize(o) == o, "C17.size: a bin's object size maps back to the same bin");
    OBLIGATION(!(s <= s2) || (getIndex(s) <= getIndex(s2) && getObjectSize(s) <= getObjectSize(s2)), "C17.size: index and object size are monotone in the request");
    OBLIGATION((getIndex(s) == getIndex(s2)) == (getObjectSize(s) == getObjectSize(s2)), "C17.size: index and object size agree");
    OBLIGATION((slabSize - sizeof(Block)) / o >= 2 || o == fittingSize5, "C17.size: a slab holds at least two objects (one for the largest bin)");
    OBLIGATION(o <= slabSize - sizeof(Block), "C17.size: an object fits into a slab payload");
    VACUITY_END();
}
void h_aligned_case1(void) {
    unsigned sz = IN_sz = nondet_unsigned(), al = IN_al = nondet_unsigned();
    __CPROVER_assume(sz <= maxSegregatedObjectSize && al <= maxSegregatedObjectSize && al >= 1 && (al & (al - 1)) == 0);
    unsigned req = alignUp(sz ? sz : sizeof(size_t), al);
    OBLIGATION(req >= sz && req <= maxSegregatedObjectSize, "C17.aligned: the padded request stays a segregated size");
    OBLIGATION(getObjectSize(req) % al == 0, "C17.aligned: case 1: the bin's object size is a multiple of the alignment, so slab placement (multiples from the slab end) is aligned");
    VACUITY_END();
}
#endif

#ifdef BLK
#include "block.inc"
static union { Block hdr; char bytes[16 * 1024]; } slab;
uint16_t IN_os; size_t IN_k, IN_off;
static bool legal_object_size(uint16_t os) { return os >= 8 && os <= fittingSize5 && getObjectSize(os) == os; }
void h_bump(void) {
    Block *b = &slab.hdr; uint16_t os = IN_os = nondet_ushort(); size_t k = IN_k = nondet_size_t();   /* k objects already carved from the bump region */
    __CPROVER_assume(legal_object_size(os));
    size_t cap = (slabSize - sizeof(Block)) / os;
    __CPROVER_assume(k <= cap);
    b->objectSize = os; b->allocatedCount = (uint16_t)k;
    b->bumpPtr = (k == cap) ? NULL : (FreeObject *)((char *)b + slabSize - (k + 1) * os);
    FreeObject *r = Block_allocateFromBumpPtr(b);
    if (k == cap) OBLIGATION(r == NULL, "C17.bump: an exhausted slab returns NULL");
    else {
        OBLIGATION((char *)r >= (char *)b + sizeof(Block) && (char *)r + os <= (char *)b + slabSize, "C17.bump: the object lies inside the slab payload, clear of the header");
        OBLIGATION((size_t)(((char *)b + slabSize) - (char *)r) % os == 0, "C17.bump: objects sit at multiples of objectSize from the slab end");
        OBLIGATION(b->bumpPtr == NULL || (char *)b->bumpPtr + os == (char *)r, "C17.bump: the bump pointer moves down by exactly one object (never the same address twice)");
        OBLIGATION((b->bumpPtr == NULL) == (k + 1 == cap), "C17.bump: the bump region is exhausted exactly when the slab is full");
        OBLIGATION(b->allocatedCount == k + 1, "C17.bump: allocatedCount counts the objects handed out");
        r->next = NULL;   /* the caller writes into the object: must be an in-bounds write */
    }
    VACUITY_END();
}
void h_find(void) {
    Block *b = &slab.hdr; uint16_t os = IN_os = nondet_ushort(); size_t off = IN_off = nondet_size_t();
    __CPROVER_assume(legal_object_size(os));
    size_t cap = (slabSize - sizeof(Block)) / os;
    __CPROVER_assume(off >= 1 && off <= cap * os);      /* an address inside some object: `off` bytes below the slab end */
    b->objectSize = os;
    const char *address = (const char *)b + slabSize - off;
    FreeObject *r = Block_findAllocatedObject(b, address);
    size_t kk = (off + os - 1) / os;                     /* the object containing it is the kk-th from the slab end */
    const char *expect = (const char *)b + slabSize - kk * os;
    OBLIGATION((const char *)r == expect, "C17.find: an interior pointer is mapped to the start of the object that contains it");
    OBLIGATION((const char *)r <= address && address < (const char *)r + os, "C17.find: the recovered object contains the address");
    VACUITY_END();
}
#endif

#if defined(BLK) && defined(FREE)
/* ---- free path: every address that enters a free list (own or public) is the start of an object of this slab ---- */
static bool is_start(const Block *b, const void *p) {
    return (const char *)p >= (const char *)b + sizeof(Block) && (const char *)p + b->objectSize <= (const char *)b + slabSize && (size_t)(((const char *)b + slabSize) - (const char *)p) % b->objectSize == 0;
}
FreeObject *g_pub_pushed, *g_pub_prev; unsigned g_pub_n, g_notify, g_empty_calls, g_adjust, g_startup;
bool o_pushed;   /* rely: other threads push starts of objects onto publicFreeList (or the owner privatises it), at any time */
uint16_t g_ac0; FreeObject *g_fl0;
/* the link word of a free object: recorded in ghost state (last store), and the store must be a writable 8 bytes inside the slab */
FreeObject *g_link_of, *g_link_val; unsigned g_links;
#define FO_SET_NEXT(p, v) do { g_link_of = (p); g_link_val = (v); g_links++; __CPROVER_assert(__CPROVER_w_ok((p), sizeof(FreeObject)), "C17.free: the link is written inside the slab"); } while (0)
static void interfere(void) { if (nondet_bool()) { FreeObject *x; slab.hdr.publicFreeList = x; o_pushed = true; } }
#define ATOMIC_LOAD_AT(site, f) ({ interfere(); (f); })
#define ATOMIC_CAS_AT(site, f, e, d) ({ interfere(); bool r_ = ((f) == *(e)); if (r_) { g_pub_prev = (f); (f) = (d); g_pub_pushed = (d); g_pub_n++; \
        __CPROVER_assert(g_link_of == (d) && g_link_val == g_pub_prev, "C17.free: the pushed object links to the previous list head (no publicly freed object is dropped)"); \
        __CPROVER_assert(is_start(&slab.hdr, (d)), "C17.free: only starts of objects enter the public free list"); } else *(e) = (f); r_; })
#define LOOP_fpo_1 __CPROVER_assigns(localPublicFreeList, slab.hdr.publicFreeList, o_pushed, g_pub_pushed, g_pub_prev, g_pub_n, g_link_of, g_link_val, g_links) __CPROVER_loop_invariant(g_pub_n == 0 && slab.hdr.objectSize == IN_os && slab.hdr.allocatedCount == g_ac0 && slab.hdr.freeList == g_fl0)
static void STUB_markUsed(Block *b) {}
static void STUB_processEmptyBlock(Block *b) { g_empty_calls++; }
static void STUB_adjustPositionInBin(Block *b) { g_adjust++; }
static void STUB_notifyOwner(Block *b) { g_notify++; }
static void STUB_checkFreePrecond(Block *b, const void *o) {}
static bool STUB_isStartupAllocObject(Block *b) { return false; }   /* slabs of the startup allocator: separate allocator, not covered */
static void STUB_startupFree(Block *b, void *o) { g_startup++; }
bool g_owner;
static bool STUB_isOwnedByCurrentThread(Block *b) { return g_owner; }
/* (Block*)alignDown(object, slabSize) computed by pointer arithmetic, so that CBMC keeps the result attached to the slab object; the address is the one alignDown gives */
#define BLOCK_OF(o) ({ char *p_ = (char *)(o) - ((uintptr_t)(o) & (slabSize - 1)); __CPROVER_assert((uintptr_t)p_ == alignDown((uintptr_t)(o), slabSize), "translation: BLOCK_OF is alignDown(object, slabSize)"); (Block *)p_; })
#include "free.inc"
size_t IN_d;
/* a pointer a client may pass to free: the start S of a live object, or - fitting bins only - an address inside it aligned to 2*fittingAlignment (what allocateAligned returns) */
static char *client_pointer(Block *b, char **start) {
    uint16_t os = IN_os = nondet_ushort(); size_t kk = IN_k = nondet_size_t(), d = IN_d = nondet_size_t();
    __CPROVER_assume(legal_object_size(os));
    size_t cap = (slabSize - sizeof(Block)) / os;
    __CPROVER_assume(kk >= 1 && kk <= cap && d < os);
    b->objectSize = os;
    char *S = (char *)b + slabSize - kk * os, *obj = S + d;
    __CPROVER_assume(d == 0 || (os > maxSegregatedObjectSize && ((uintptr_t)obj & (2 * fittingAlignment - 1)) == 0));
    *start = S; return obj;
}
void h_find_to_free(void) {
    Block *b = &slab.hdr; char *S; char *obj = client_pointer(b, &S);
    FreeObject *r = Block_findObjectToFree(b, obj);
    OBLIGATION((char *)r == S, "C17.free: the pointer given to free is mapped back to the start of the object that was allocated (aligned allocations return interior addresses)");
    OBLIGATION(is_start(b, r), "C17.free: the object to free is properly placed");
    VACUITY_END();
}
void h_free_own(void) {
    Block *b = &slab.hdr; char *S; char *obj = client_pointer(b, &S);
    size_t cap = (slabSize - sizeof(Block)) / b->objectSize;
    uint16_t ac = nondet_ushort(); __CPROVER_assume(ac >= 1 && ac <= cap); b->allocatedCount = ac; b->isFull = false;
    FreeObject *fl0; b->freeList = fl0; g_empty_calls = g_adjust = 0;
    Block_freeOwnObject(b, obj);
    OBLIGATION(b->allocatedCount == ac - 1, "C17.free: one object fewer is allocated");
    if (ac == 1) OBLIGATION(g_empty_calls == 1 && b->freeList == fl0, "C17.free: the last object of a slab empties it (the slab is recycled, its free list is not extended)");
    else {
        OBLIGATION((char *)b->freeList == S && (char *)g_link_of == S && g_link_val == fl0, "C17.free: the freed object - its START, not the client's aligned address - becomes the head of the free list and links to the old head");
        OBLIGATION(g_empty_calls == 0, "C17.free: a slab with live objects is not recycled");
    }
    VACUITY_END();
}
void h_free_public(void) {
    Block *b = &slab.hdr; char *S; char *obj = client_pointer(b, &S);
    FreeObject *p0; b->publicFreeList = p0; g_pub_n = 0; g_notify = 0; g_ac0 = b->allocatedCount; g_fl0 = b->freeList;
    Block_freePublicObject(b, (FreeObject *)S);
    OBLIGATION(g_pub_n == 1 && (char *)g_pub_pushed == S, "C17.free: exactly one successful push, of the object given");
    OBLIGATION((g_notify == 1) == (g_pub_prev == NULL), "C17.free: the owner is notified exactly when the list was empty before this push");
    OBLIGATION(b->allocatedCount == g_ac0 && b->freeList == g_fl0, "C17.free: a foreign thread leaves the owner's private fields alone");
    VACUITY_END();
}
/* freeSmallObject, modularly: freeOwnObject(block, object) and freePublicObject(block, p) are replaced by recorders; what they do with their arguments is proved in free.own / free.public */
unsigned g_own_calls, g_public_calls; Block *g_call_block; void *g_call_arg;
static void REC_freeOwnObject(Block *b, void *o) { g_own_calls++; g_call_block = b; g_call_arg = o; }
static void REC_freePublicObject(Block *b, FreeObject *o) { g_public_calls++; g_call_block = b; g_call_arg = o; }
#define Block_freeOwnObject REC_freeOwnObject
#define Block_freePublicObject REC_freePublicObject
#include "free_small.inc"
#undef Block_freeOwnObject
#undef Block_freePublicObject
void h_free_small(void) {
    Block *b = &slab.hdr; char *S; char *obj = client_pointer(b, &S);
    g_owner = nondet_bool(); g_own_calls = g_public_calls = 0;
    freeSmallObject(obj);
    OBLIGATION(g_call_block == b, "C17.free: the slab header is found by masking the address");
    if (g_owner) OBLIGATION(g_own_calls == 1 && g_public_calls == 0 && (char *)g_call_arg == obj, "C17.free: own-thread free goes to freeOwnObject (which maps the pointer to the object start: free.own)");
    else OBLIGATION(g_own_calls == 0 && g_public_calls == 1 && (char *)g_call_arg == S, "C17.free: foreign-thread free puts the START of the object - not the client's aligned address - on the public free list");
    VACUITY_END();
}
#endif

#ifdef RA
typedef struct MemoryPool MemoryPool;
typedef struct LargeMemoryBlock { void *pool, *next, *prev, *gPrev, *gNext; uintptr_t age; size_t objectSize; size_t unalignedSize; uint64_t backRefIdx; } LargeMemoryBlock;
typedef struct LargeObjectHdr { LargeMemoryBlock *memoryBlock; uint64_t backRefIdx; } LargeObjectHdr;
bool g_large; size_t g_maxbinned;
static bool STUB_isLargeObject(void *p) { return g_large; }
static size_t STUB_getMaxBinnedSize(void) { return g_maxbinned; }
int g_alloc_calls, g_free_calls, g_cpy_calls, g_remap_calls; void *g_new, *g_freed, *g_cpy_dst, *g_remap_res; const void *g_cpy_src; size_t g_cpy_n, g_req, g_req_al, g_remap_old;
static void *do_alloc(size_t size, size_t al) { g_alloc_calls++; g_req = size; g_req_al = al; if (nondet_bool()) return NULL; void *p = malloc(size); __CPROVER_assume(p != NULL); g_new = p; return p; }
static void *allocateAligned(MemoryPool *mp, size_t size, size_t alignment) { return do_alloc(size, alignment); }
static void *internalPoolMalloc(MemoryPool *mp, size_t size) { return do_alloc(size, 0); }
static void *STUB_remap(void *ptr, size_t oldSize, size_t newSize, size_t al) { g_remap_calls++; g_remap_old = oldSize; if (nondet_bool()) return NULL; void *p = malloc(newSize); __CPROVER_assume(p != NULL); g_remap_res = p; return p; }
static size_t g_small_size;
static size_t STUB_findObjectSize(Block *b, void *p) { return g_small_size; }
static bool internalPoolFree(MemoryPool *mp, void *p, size_t s) { g_free_calls++; g_freed = p; return true; }
static void VERIF_memcpy(void *dst, const void *src, size_t n) {
    g_cpy_calls++; g_cpy_dst = dst; g_cpy_src = src; g_cpy_n = n;
    OBLIGATION(__CPROVER_r_ok(src, n), "C17.realloc: the copy reads only bytes of the old block");
    OBLIGATION(__CPROVER_w_ok(dst, n), "C17.realloc: the copy writes only bytes of the new block");
}
#include "realloc.inc"
size_t IN_U, IN_poff, IN_S, IN_new, IN_align;
static void common_post(void *r, void *ptr, size_t old_usable_used, size_t newSize) {
    if (r != ptr && r != NULL && r != g_remap_res) {
        OBLIGATION(r == g_new && g_alloc_calls == 1 && g_req == newSize, "C17.realloc: a moved block comes from one allocation of the new size");
        OBLIGATION(g_cpy_calls == 1 && g_cpy_dst == r && g_cpy_src == ptr && g_cpy_n == (old_usable_used < newSize ? old_usable_used : newSize), "C17.realloc: contents are copied once, min(old size, new size) bytes");
        OBLIGATION(g_free_calls == 1 && g_freed == ptr, "C17.realloc: the old block is freed exactly once, after the copy");
    }
    if (r == NULL)
        OBLIGATION(g_free_calls == 0 && g_cpy_calls == 0 && g_alloc_calls == 1, "C17.realloc: a failed allocation returns NULL and leaves the old block alone");
    if (r == ptr)
        OBLIGATION(g_free_calls == 0 && g_cpy_calls == 0 && g_alloc_calls == 0, "C17.realloc: an in-place answer neither copies nor frees");
}
void h_realloc_large(void) {
    size_t U = IN_U = nondet_size_t(); __CPROVER_assume(U >= 256 && U <= ((size_t)1 << 40));
    char *chunk = malloc(U); __CPROVER_assume(chunk != NULL);
    LargeMemoryBlock *lmb = (LargeMemoryBlock *)chunk;
    size_t off = IN_poff = nondet_size_t();
    __CPROVER_assume(off >= sizeof(LargeMemoryBlock) + sizeof(LargeObjectHdr) && off % 64 == 0 && off < U);
    void *ptr = chunk + off;
    ((LargeObjectHdr *)ptr - 1)->memoryBlock = lmb;
    size_t S = IN_S = nondet_size_t(); __CPROVER_assume(S >= 1 && S <= U - off);
    lmb->unalignedSize = U; lmb->objectSize = S;
    size_t newSize = IN_new = nondet_size_t(), alignment = IN_align = nondet_size_t();
    __CPROVER_assume(newSize >= 1 && newSize <= ((size_t)1 << 41) && (alignment == 0 || ((alignment & (alignment - 1)) == 0 && alignment <= ((size_t)1 << 30))));
    g_large = true; g_maxbinned = nondet_size_t();
    g_alloc_calls = g_free_calls = g_cpy_calls = g_remap_calls = 0; g_new = g_remap_res = NULL;
    void *r = reallocAligned(NULL, ptr, newSize, alignment);
    if (r == ptr) {
        OBLIGATION(newSize <= U - off, "C17.realloc: a block answered in place is big enough: ptr+newSize stays inside its backend block");
        OBLIGATION(alignment == 0 || ((uintptr_t)ptr & (alignment - 1)) == 0, "C17.realloc: a block answered in place has the requested alignment");
        OBLIGATION(lmb->objectSize == newSize, "C17.realloc: the recorded object size follows an in-place resize");
    } else
        OBLIGATION(lmb->objectSize == S || r == g_remap_res, "C17.realloc: the old block's size record is untouched unless resized in place");
    if (g_remap_calls) OBLIGATION(g_remap_old == S, "C17.realloc: remap is told the current object size");
    common_post(r, ptr, S, newSize);
    VACUITY_END();
}
static union { Block hdr; char bytes[16 * 1024]; } slab2;
void h_realloc_small(void) {
    size_t os = IN_S = nondet_size_t(); __CPROVER_assume(os >= 8 && os <= fittingSize5 && getObjectSize((unsigned)os) == os);
    size_t cap = (slabSize - sizeof(Block)) / os, k = nondet_size_t(); __CPROVER_assume(k >= 1 && k <= cap);
    void *ptr = (char *)&slab2 + slabSize - k * os;
    g_small_size = os;
    size_t newSize = IN_new = nondet_size_t(), alignment = IN_align = nondet_size_t();
    __CPROVER_assume(newSize >= 1 && newSize <= ((size_t)1 << 41) && (alignment == 0 || ((alignment & (alignment - 1)) == 0 && alignment <= ((size_t)1 << 30))));
    g_large = false;
    g_alloc_calls = g_free_calls = g_cpy_calls = g_remap_calls = 0; g_new = g_remap_res = NULL;
    void *r = reallocAligned(NULL, ptr, newSize, alignment);
    if (r == ptr) {
        OBLIGATION(newSize <= os, "C17.realloc: a slab object answered in place is big enough");
        OBLIGATION(alignment == 0 || ((uintptr_t)ptr & (alignment - 1)) == 0, "C17.realloc: a slab object answered in place has the requested alignment");
    }
    common_post(r, ptr, os, newSize);
    VACUITY_END();
}
#endif
