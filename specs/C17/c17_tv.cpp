// Translation validation for C17: the extracted C text against the real frontend.cpp (whole allocator included white-box,
// exactly as test_malloc_whitebox.cpp does).
#define __TBB_SOURCE_DIRECTLY_INCLUDED 1
#define __TBB_MALLOC_WHITEBOX_TEST 1
#define WhiteboxTestingYield() ((void)0)
#include <cstdio>
#include <cstdint>
#include <cstddef>
#include "frontend.cpp"
#include "backend.cpp"
#include "backref.cpp"
namespace tbbmalloc_whitebox { std::atomic<size_t> locGetProcessed{}; std::atomic<size_t> locPutProcessed{}; }
#include "large_objects.cpp"
#include "tbbmalloc.cpp"
static_assert(sizeof(rml::internal::Block) == 128, "sizeof(Block) == 2*estimatedCacheLineSize on this target");
namespace ext {
#define VERIF_ASSERT(c, m) ((void)0)
#define RG_NOP() ((void)0)
typedef struct FreeObject { struct FreeObject* next; } FreeObject;
typedef struct Block { FreeObject* bumpPtr; FreeObject* freeList; uint16_t allocatedCount; uint16_t objectSize; char pad[128 - 20]; } Block;
#define estimatedCacheLineSize 64
#include "consts.inc"
#define VERIF_BSR(n) (31u - (unsigned)__builtin_clz(n))
#include "sizeclass.inc"
#include "block.inc"
}
int main() {
    unsigned long cases = 0; int bad = 0;
    for (unsigned s = 1; s <= 8128; ++s) {
        unsigned ri = rml::internal::getIndex(s), ro = rml::internal::getObjectSize(s), ei = ext::getIndex(s), eo = ext::getObjectSize(s);
        cases += 2;
        if ((ri != ei || ro != eo) && bad++ < 5) std::printf("MISMATCH size %u: real index/objsize %u/%u extracted %u/%u\n", s, ri, ro, ei, eo);
    }
    for (unsigned n = 64; n < 1024; ++n) { ++cases; if (rml::internal::highestBitPos(n) != ext::highestBitPos(n) && bad++ < 5) std::printf("MISMATCH highestBitPos(%u)\n", n); }
    // findAllocatedObject on a real Block header placed in a 16K-aligned buffer
    alignas(16384) static char buf[16384];
    rml::internal::Block* rb = (rml::internal::Block*)buf; ext::Block* eb = (ext::Block*)(buf);
    for (unsigned os : {8u, 16u, 24u, 48u, 64u, 80u, 128u, 1024u, 1792u, 2688u, 4032u, 5376u, 8128u}) {
        unsigned cap = (16384 - 128) / os;
        for (unsigned off = 1; off <= cap * os; off += (os > 64 ? 7 : 1)) {
            rb->objectSize = (uint16_t)os; void* r1 = rb->findAllocatedObject(buf + 16384 - off);
            uint16_t keep = rb->objectSize; (void)keep;
            static ext::Block hdr; hdr.objectSize = (uint16_t)os;   // the extracted function only reads objectSize and the address of `self`
            // call the extracted text with self == the same slab address: copy the header view over a scratch slab at the same alignment
            alignas(16384) static char buf2[16384]; ((ext::Block*)buf2)->objectSize = (uint16_t)os;
            void* r2 = ext::Block_findAllocatedObject((ext::Block*)buf2, buf2 + 16384 - off);
            ++cases;
            if (((char*)r1 - buf) != ((char*)r2 - buf2) && bad++ < 5) std::printf("MISMATCH findAllocatedObject os=%u off=%u\n", os, off);
        }
    }
    std::printf("SAMPLE getIndex(100)=%u getObjectSize(100)=%u\n", ext::getIndex(100), ext::getObjectSize(100));
    std::printf("cases=%lu mismatches=%d\n", cases, bad);
    return bad ? 1 : 0;
}
