// Translation validation for C17: the extracted C text against the real frontend.cpp (whole allocator included white-box,
// exactly as test_malloc_whitebox.cpp does).
#define __TBB_SOURCE_DIRECTLY_INCLUDED 1
#define __TBB_MALLOC_WHITEBOX_TEST 1
#define WhiteboxTestingYield() ((void)0)
#include <cstdio>
#include <cstdint>
#include <cstddef>
#include <vector>
#include "frontend.cpp"
#include "backend.cpp"
#include "backref.cpp"
namespace tbbmalloc_whitebox { std::atomic<size_t> locGetProcessed{}; std::atomic<size_t> locPutProcessed{}; }
#include "large_objects.cpp"
#include "tbbmalloc.cpp"
static_assert(sizeof(rml::internal::Block) == 128, "sizeof(Block) == 2*estimatedCacheLineSize on this target");
namespace ext {
#define VERIF_ASSERT(c, m) ((void)0)
#define RG_NOP() ((void)0)
typedef struct FreeObject { struct FreeObject* next; } FreeObject;
typedef struct Block { FreeObject* bumpPtr; FreeObject* freeList; uint16_t allocatedCount; uint16_t objectSize; char pad[128 - 20]; } Block;
#define estimatedCacheLineSize 64
#include "consts.inc"
#define VERIF_BSR(n) (31u - (unsigned)__builtin_clz(n))
#include "sizeclass.inc"
#include "block.inc"
// the large-object bin arithmetic and the header views of the aligned / lloc / backend sections
#define VERIF_SELECT_SIZE_T(u, ull) ((sizeof(size_t) == sizeof(u)) ? (u) : (ull))
#define VERIF_LOG2(n) (63 - __builtin_clzll((unsigned long long)(n)))
#include <climits>
#include "locbins.inc"
typedef struct BackRefIdx { uint32_t main; uint16_t largeObj : 1; uint16_t offset : 15; } BackRefIdx;
typedef struct LargeMemoryBlock { intptr_t blockState[2]; void *pool; struct LargeMemoryBlock *next, *prev, *gPrev, *gNext; uintptr_t age; size_t objectSize; size_t unalignedSize; BackRefIdx backRefIdx; } LargeMemoryBlock;
typedef struct LargeObjectHdr { LargeMemoryBlock *memoryBlock; BackRefIdx backRefIdx; } LargeObjectHdr;
typedef struct GuardedSize { uintptr_t value; } GuardedSize;
typedef struct FreeBlockV { GuardedSize myL, leftL; struct FreeBlockV *prev, *next, *nextToFree; size_t sizeTmp; int myBin; bool slabAligned, blockInBin; } FreeBlockV;
}
#define SAME_FIELD(R, E, f) static_assert(offsetof(R, f) == offsetof(E, f) && sizeof(((R*)0)->f) == sizeof(((E*)0)->f), "layout of " #f)
static_assert(sizeof(rml::internal::BackRefIdx) == sizeof(ext::BackRefIdx), "BackRefIdx view");
static_assert(sizeof(rml::internal::LargeMemoryBlock) == sizeof(ext::LargeMemoryBlock), "LargeMemoryBlock view");
SAME_FIELD(rml::internal::LargeMemoryBlock, ext::LargeMemoryBlock, objectSize); SAME_FIELD(rml::internal::LargeMemoryBlock, ext::LargeMemoryBlock, unalignedSize); SAME_FIELD(rml::internal::LargeMemoryBlock, ext::LargeMemoryBlock, backRefIdx);
static_assert(sizeof(rml::internal::LargeObjectHdr) == sizeof(ext::LargeObjectHdr), "LargeObjectHdr view");
SAME_FIELD(rml::internal::LargeObjectHdr, ext::LargeObjectHdr, memoryBlock); SAME_FIELD(rml::internal::LargeObjectHdr, ext::LargeObjectHdr, backRefIdx);
static_assert(sizeof(rml::internal::FreeBlock) == sizeof(ext::FreeBlockV) && sizeof(rml::internal::LastFreeBlock) == sizeof(ext::FreeBlockV) + sizeof(void*), "FreeBlock / LastFreeBlock view");
static_assert(sizeof(rml::internal::GuardedSize) == sizeof(ext::GuardedSize), "GuardedSize view");
static const size_t ext_minLargeSize = minLargeSize, ext_maxLargeSize = maxLargeSize, ext_maxHugeSize = maxHugeSize;
static_assert(HugeBS_MaxSizeExp == 40 && HugeBS_MinSizeExp == 23 && HugeBS_StepFactorExp == 3 && LargeBS_NumBins == 1023 && HugeBS_NumBins == 136, "Log2<> constants");
#undef minLargeSize
#undef maxLargeSize
#undef maxHugeSize
static_assert(rml::internal::LargeObjectCache::maxHugeSize == ext_maxHugeSize && rml::internal::LargeObjectCache::maxLargeSize == ext_maxLargeSize && rml::internal::LargeObjectCache::minLargeSize == ext_minLargeSize, "large-object cache limits");
int main() {
    unsigned long cases = 0; int bad = 0;
    for (unsigned s = 1; s <= 8128; ++s) {
        unsigned ri = rml::internal::getIndex(s), ro = rml::internal::getObjectSize(s), ei = ext::getIndex(s), eo = ext::getObjectSize(s);
        cases += 2;
        if ((ri != ei || ro != eo) && bad++ < 5) std::printf("MISMATCH size %u: real index/objsize %u/%u extracted %u/%u\n", s, ri, ro, ei, eo);
    }
    for (unsigned n = 64; n < 1024; ++n) { ++cases; if (rml::internal::highestBitPos(n) != ext::highestBitPos(n) && bad++ < 5) std::printf("MISMATCH highestBitPos(%u)\n", n); }
    // findAllocatedObject on a real Block header placed in a 16K-aligned buffer
    alignas(16384) static char buf[16384];
    rml::internal::Block* rb = (rml::internal::Block*)buf; ext::Block* eb = (ext::Block*)(buf);
    for (unsigned os : {8u, 16u, 24u, 48u, 64u, 80u, 128u, 1024u, 1792u, 2688u, 4032u, 5376u, 8128u}) {
        unsigned cap = (16384 - 128) / os;
        for (unsigned off = 1; off <= cap * os; off += (os > 64 ? 7 : 1)) {
            rb->objectSize = (uint16_t)os; void* r1 = rb->findAllocatedObject(buf + 16384 - off);
            uint16_t keep = rb->objectSize; (void)keep;
            static ext::Block hdr; hdr.objectSize = (uint16_t)os;   // the extracted function only reads objectSize and the address of `self`
            // call the extracted text with self == the same slab address: copy the header view over a scratch slab at the same alignment
            alignas(16384) static char buf2[16384]; ((ext::Block*)buf2)->objectSize = (uint16_t)os;
            void* r2 = ext::Block_findAllocatedObject((ext::Block*)buf2, buf2 + 16384 - off);
            ++cases;
            if (((char*)r1 - buf) != ((char*)r2 - buf2) && bad++ < 5) std::printf("MISMATCH findAllocatedObject os=%u off=%u\n", os, off);
        }
    }
    // bin arithmetic of the large-object cache: extracted C vs the real functions (boundaries of every bin + a pseudo-random sample)
    {
        std::vector<size_t> v; unsigned long long x = 88172645463325252ULL;
        for (size_t b = 8192; b <= (size_t)1 << 40; b += (b < (8u << 20) ? 8192 * 37 : b / 8)) for (long d = -2; d <= 2; ++d) v.push_back(b + d);
        for (int sh = 13; sh <= 40; ++sh) for (long d = -1; d <= 1; ++d) v.push_back(((size_t)1 << sh) + d);
        for (int i = 0; i < 20000; ++i) { x ^= x << 13; x ^= x >> 7; x ^= x << 17; v.push_back(8 + x % ((size_t)1 << (14 + i % 27))); }
        for (size_t sz : v) {
            if (sz < 8) continue;
            size_t ra = rml::internal::LargeObjectCache::alignToBin(sz), ea = ext::LargeObjectCache_alignToBin(sz); ++cases;
            if (ra != ea && bad++ < 5) std::printf("MISMATCH alignToBin(%zu): real %zu extracted %zu\n", sz, ra, ea);
            if (ra >= 8192 && ra < ((size_t)1 << 40)) { int ri = rml::internal::LargeObjectCache::sizeToIdx(ra), ei = ext::LargeObjectCache_sizeToIdx(ra); ++cases;
                if (ri != ei && bad++ < 5) std::printf("MISMATCH sizeToIdx(%zu): real %d extracted %d\n", ra, ri, ei); }
        }
    }
    std::printf("SAMPLE getIndex(100)=%u getObjectSize(100)=%u\n", ext::getIndex(100), ext::getObjectSize(100));
    std::printf("cases=%lu mismatches=%d\n", cases, bad);
    return bad ? 1 : 0;
}
