// Native replay of failed C17 obligations against the REAL tbbmalloc (public API + white-box read of the large-object header).
// the allocator is compiled from /repo's CURRENT sources into this program (not linked from a prebuilt library)
#define __TBB_SOURCE_DIRECTLY_INCLUDED 1
#define __TBB_MALLOC_WHITEBOX_TEST 1
#define WhiteboxTestingYield() ((void)0)
#include "frontend.cpp"
#include "backend.cpp"
#include "backref.cpp"
namespace tbbmalloc_whitebox { std::atomic<size_t> locGetProcessed{}; std::atomic<size_t> locPutProcessed{}; }
#include "large_objects.cpp"
#include "tbbmalloc.cpp"
#include <cstdio>
#include <cstring>
#include <cstdlib>
#include <string>
#include <vector>
#include <set>
using namespace rml::internal;
static int realloc_large() {
    for (size_t s0 : {8129u, 9000u, 16000u, 16129u, 40000u, 100000u, 1000000u}) {
        for (long d : {-1L, 0L, 1L, 8L, 15L, 16L, 17L, 64L}) {
            char* p = (char*)scalable_malloc(s0); if (!p) continue;
            LargeObjectHdr* h = (LargeObjectHdr*)p - 1; LargeMemoryBlock* lmb = h->memoryBlock;
            size_t cap = lmb->unalignedSize - ((uintptr_t)p - (uintptr_t)lmb);
            size_t ns = cap + d;
            char* q = (char*)scalable_realloc(p, ns);
            if (q == p && ns > cap) { std::printf("REPRODUCED class=realloc-inplace-too-small p=scalable_malloc(%zu) sits %zu bytes before the end of its backend block; scalable_realloc(p, %zu) returned p itself: the block now ends %zu byte(s) past its backend block\n", s0, cap, ns, ns - cap); return 0; }
            scalable_free(q ? q : p);
        }
    }
    return 1;
}
static int small_objects() {
    // distinct live blocks never overlap, are big enough and aligned; realloc keeps contents
    std::vector<std::pair<char*, size_t>> live;
    for (size_t s = 1; s <= 8128; s += (s < 128 ? 1 : 61)) {
        char* p = (char*)scalable_malloc(s); if (!p) continue;
        if ((uintptr_t)p % (s <= 8 ? 8 : 16)) { std::printf("REPRODUCED class=small-object scalable_malloc(%zu) returned %p: not naturally aligned\n", s, (void*)p); return 0; }
        std::memset(p, (int)(s & 0xff), s); live.push_back({p, s});
    }
    for (auto& a : live) for (size_t i = 0; i < a.second; ++i) if ((unsigned char)a.first[i] != (a.second & 0xff)) { std::printf("REPRODUCED class=small-object block of %zu bytes was overwritten at offset %zu by another allocation\n", a.second, i); return 0; }
    for (auto& a : live) {
        size_t ns = a.second * 2 + 3; char* q = (char*)scalable_realloc(a.first, ns);
        if (!q) continue;
        for (size_t i = 0; i < a.second; ++i) if ((unsigned char)q[i] != (a.second & 0xff)) { std::printf("REPRODUCED class=small-object scalable_realloc(%zu -> %zu) lost byte %zu\n", a.second, ns, i); return 0; }
        a.first = q;
    }
    for (size_t al : {16u, 32u, 64u, 128u, 256u, 1024u, 4096u}) for (size_t s : {1u, 8u, 24u, 100u, 1000u, 1024u, 1025u, 3000u, 8000u, 9000u}) {
        char* p = (char*)scalable_aligned_malloc(s, al); if (!p) continue;
        if ((uintptr_t)p % al) { std::printf("REPRODUCED class=aligned scalable_aligned_malloc(%zu,%zu) returned %p\n", s, al, (void*)p); return 0; }
        std::memset(p, 1, s); scalable_aligned_free(p);
    }
    for (auto& a : live) scalable_free(a.first);
    return 1;
}
#include <thread>
// an over-aligned block of a fitting bin (interior user pointer) is freed by a thread that does not own the slab: what lands on the public free list must be the object's start
static int foreign_free() {
    for (size_t al : {128u, 256u, 512u, 1024u, 2048u}) for (size_t s : {1100u, 1500u, 2000u, 3000u, 5000u}) {
        if (s + al > 8128) continue;
        std::vector<char*> mine; char* p = nullptr; Block* blk = nullptr;
        for (int i = 0; i < 12 && !p; ++i) {
            char* q = (char*)scalable_aligned_malloc(s, al); if (!q) break;
            Block* b = (Block*)alignDown(q, slabSize);
            if (((uintptr_t)b + slabSize - (uintptr_t)q) % b->objectSize) { p = q; blk = b; } else mine.push_back(q);
        }
        if (p) {
            mine.push_back((char*)scalable_aligned_malloc(s, al));   // keeps the slab non-empty
            std::thread([&] { scalable_aligned_free(p); }).join();
            for (FreeObject* f = blk->publicFreeList.load(); isSolidPtr(f); f = f->next)
                if (((uintptr_t)blk + slabSize - (uintptr_t)f) % blk->objectSize) {
                    std::printf("REPRODUCED class=free-list-interior-pointer p=scalable_aligned_malloc(%zu,%zu) lies %zu bytes inside its %u-byte slab object; after scalable_aligned_free(p) on another thread the slab's public free list holds p itself, not the object's start: the owner will hand out a block that overlaps the next object\n",
                                s, al, (size_t)(blk->objectSize - ((uintptr_t)blk + slabSize - (uintptr_t)f) % blk->objectSize), (unsigned)blk->objectSize);
                    return 0;
                }
        }
        for (char* q : mine) if (q) scalable_aligned_free(q);
    }
    return 1;
}
// large and over-aligned objects: aligned, recognised, msize >= request, contents of all live blocks intact (a placement outside the backend block or an overlap shows up as a damaged pattern)
static int large_aligned() {
    struct L { char* p; size_t s; unsigned char tag; };
    std::vector<L> live; unsigned char tag = 1;
    for (size_t al : {64u, 128u, 256u, 4096u, 16384u, 65536u, 1u << 20}) for (size_t s : {8129u, 8192u, 9000u, 16000u, 65536u, 100000u, 1u << 20, (8u << 20) - 200, (8u << 20) + 1, 10u << 20}) {
        for (int rep = 0; rep < 3; ++rep) {
            char* p = (char*)scalable_aligned_malloc(s, al); if (!p) continue;
            if ((uintptr_t)p % al) { std::printf("REPRODUCED class=aligned scalable_aligned_malloc(%zu,%zu) returned %p\n", s, al, (void*)p); return 0; }
            if (!isLargeObject<ourMem>(p)) { std::printf("REPRODUCED class=large-not-recognised scalable_aligned_malloc(%zu,%zu) returned %p which isLargeObject<ourMem>() rejects: free/msize/realloc will treat it as a slab object\n", s, al, (void*)p); return 0; }
            size_t ms = scalable_msize(p);
            if (ms < s) { std::printf("REPRODUCED class=msize-too-small scalable_msize(scalable_aligned_malloc(%zu,%zu)) == %zu\n", s, al, ms); return 0; }
            LargeMemoryBlock* lmb = ((LargeObjectHdr*)p - 1)->memoryBlock;
            if ((uintptr_t)p - sizeof(LargeObjectHdr) < (uintptr_t)lmb + sizeof(LargeMemoryBlock) || (uintptr_t)p + s > (uintptr_t)lmb + lmb->unalignedSize) {
                std::printf("REPRODUCED class=large-object-outside-its-block scalable_aligned_malloc(%zu,%zu): object [%p,+%zu) with header does not fit its backend block [%p,+%zu)\n", s, al, (void*)p, s, (void*)lmb, lmb->unalignedSize); return 0; }
            std::memset(p, tag, s); live.push_back({p, s, tag}); tag = (unsigned char)(tag % 250 + 1);
        }
        if (live.size() > 40) { for (size_t i = 0; i < live.size(); i += 2) { scalable_aligned_free(live[i].p); live[i].p = nullptr; } std::vector<L> keep; for (auto& l : live) if (l.p) keep.push_back(l); live.swap(keep); }
        for (auto& l : live) for (size_t i = 0; i < l.s; i += 61) if ((unsigned char)l.p[i] != l.tag) { std::printf("REPRODUCED class=large-overlap a live large block of %zu bytes was overwritten at offset %zu after scalable_aligned_malloc(%zu,%zu)\n", l.s, i, s, al); return 0; }
    }
    for (auto& l : live) scalable_aligned_free(l.p);
    return 1;
}
// backend split/coalesce churn: blocks of many sizes are allocated, pattern-filled, freed in a scattered order and re-allocated; with all caches cleaned in between the backend must split and merge
static int backend_churn() {
    struct L { char* p; size_t s; unsigned char tag; };
    std::vector<L> live; unsigned char tag = 7; unsigned rnd = 12345;
    for (int round = 0; round < 6; ++round) {
        for (int i = 0; i < 60; ++i) {
            rnd = rnd * 1103515245u + 12345u; size_t s = 9000 + (rnd >> 8) % 300000;
            char* p = (char*)scalable_malloc(s); if (!p) continue;
            if ((uintptr_t)p % 64) { std::printf("REPRODUCED class=large-misaligned scalable_malloc(%zu) returned %p\n", s, (void*)p); return 0; }
            std::memset(p, tag, s); live.push_back({p, s, tag}); tag = (unsigned char)(tag % 250 + 1);
        }
        for (auto& l : live) for (size_t i = 0; i < l.s; i += 127) if ((unsigned char)l.p[i] != l.tag) { std::printf("REPRODUCED class=backend-overlap a live block of %zu bytes was overwritten at offset %zu (round %d): two live blocks overlap, or allocator metadata was written into a live block\n", l.s, i, round); return 0; }
        std::vector<L> keep;
        for (size_t i = 0; i < live.size(); ++i) { if ((i * 7 + round) % 3) { scalable_free(live[i].p); } else keep.push_back(live[i]); }
        live.swap(keep);
        scalable_allocation_command(TBBMALLOC_CLEAN_ALL_BUFFERS, nullptr);
    }
    for (auto& l : live) scalable_free(l.p);
    scalable_allocation_command(TBBMALLOC_CLEAN_ALL_BUFFERS, nullptr);
    return 1;
}
// public free list under real threads: a producer allocates, consumers free (foreign frees), the producer re-allocates: every block handed out must be distinct from all live ones
static int cross_thread_churn() {
    for (size_t s : {16u, 64u, 200u, 1024u, 3000u}) {
        std::vector<char*> blocks; for (int i = 0; i < 2000; ++i) { char* p = (char*)scalable_malloc(s); if (p) { std::memset(p, 0x5a, s); blocks.push_back(p); } }
        std::thread t1([&] { for (size_t i = 0; i < blocks.size(); i += 2) scalable_free(blocks[i]); });
        std::thread t2([&] { for (size_t i = 1; i < blocks.size(); i += 4) scalable_free(blocks[i]); });
        std::set<char*> liveset; for (size_t i = 3; i < blocks.size(); i += 4) liveset.insert(blocks[i]);
        std::vector<char*> fresh;
        for (int i = 0; i < 3000; ++i) { char* p = (char*)scalable_malloc(s); if (!p) continue;
            if (liveset.count(p)) { t1.join(); t2.join(); std::printf("REPRODUCED class=handed-out-twice scalable_malloc(%zu) returned %p, a block that is still live (never freed)\n", s, (void*)p); return 0; }
            liveset.insert(p); fresh.push_back(p); }
        t1.join(); t2.join();
        for (size_t i = 3; i < blocks.size(); i += 4) { for (size_t k = 0; k < s; ++k) if ((unsigned char)blocks[i][k] != 0x5a) { std::printf("REPRODUCED class=live-block-overwritten a live %zu-byte block was written to while other threads freed its neighbours\n", s); return 0; } scalable_free(blocks[i]); }
        for (char* p : fresh) scalable_free(p);
    }
    return 1;
}
int main(int argc, char** argv) {
    std::string job = argc > 1 ? argv[1] : "";
    if (job.rfind("realloc.large", 0) == 0 && realloc_large() == 0) return 0;
    if (job.rfind("free.", 0) == 0 && foreign_free() == 0) return 0;
    if ((job.rfind("lloc.", 0) == 0 || job.rfind("aligned.large", 0) == 0) && large_aligned() == 0) return 0;
    if ((job.rfind("backend.", 0) == 0 || job.rfind("guard.", 0) == 0) && backend_churn() == 0) return 0;
    if ((job.rfind("pfl.", 0) == 0 || job.rfind("freelist.", 0) == 0) && cross_thread_churn() == 0) return 0;
    if (small_objects() == 0) return 0;
    if (foreign_free() == 0) return 0;
    if (realloc_large() == 0) return 0;
    if (large_aligned() == 0) return 0;
    if (backend_churn() == 0) return 0;
    if (cross_thread_churn() == 0) return 0;
    std::printf("NOT-REPRODUCED\n"); return 0;
}
