/* C17 harnesses, part 2: the large-object caches (large_objects.cpp / large_objects.h, LocalLOCImpl in frontend.cpp).  *.inc are generated from /repo/src/tbbmalloc on every run. */
#include "verif.h"
#include <stdlib.h>
#define estimatedCacheLineSize 64
typedef struct FreeObject { struct FreeObject *next; } FreeObject;
typedef struct Block { FreeObject *bumpPtr; FreeObject *freeList; uint16_t allocatedCount; uint16_t objectSize; bool isFull; FreeObject *publicFreeList; struct Block *nextPrivatizable, *next, *previous; char pad[128 - 56]; } Block;
#include "consts.inc"
#define VERIF_BSR(n) (31u - (unsigned)__builtin_clz(n))
#include "sizeclass.inc"
typedef struct BackRefIdx { uint32_t main; uint16_t largeObj : 1; uint16_t offset : 15; } BackRefIdx;
typedef struct MemoryPool { int dummy; } MemoryPool;
typedef struct LargeMemoryBlock { intptr_t blockState[2]; MemoryPool *pool; struct LargeMemoryBlock *next, *prev, *gPrev, *gNext; uintptr_t age; size_t objectSize; size_t unalignedSize; BackRefIdx backRefIdx; } LargeMemoryBlock;
_Static_assert(sizeof(BackRefIdx) == 8 && sizeof(LargeMemoryBlock) == 88, "large-object header views (checked against the real classes in tv)");
#define VERIF_SELECT_SIZE_T(u, ull) ((sizeof(size_t) == sizeof(u)) ? (u) : (ull))   /* tbb::detail::select_size_t_constant<u, ull>::value */
#define VERIF_LOG2(n) (63 - __builtin_clzll((unsigned long long)(n)))                  /* Log2<n>::value for n > 0 */
#include "locbins.inc"
/* a size a large block can have: LargeMemoryBlock::unalignedSize is only ever written with a value alignToBin produced (getFromLLOCache -> mallocLargeObject -> Backend::getLargeBlock; Backend::remap) */
#define BINSIZE(s) ((s) >= minLargeSize && (s) < maxHugeSize && LargeObjectCache_alignToBin(s) == (s))
typedef struct ExtMemoryPool { int dummy; } ExtMemoryPool;
typedef struct LargeObjectCacheImpl { int dummy; } LargeObjectCacheImpl;
typedef struct LargeObjectCache { size_t hugeSizeThreshold; LargeObjectCacheImpl hugeCache, largeCache; ExtMemoryPool *extMemPool; } LargeObjectCache;   /* the members the sliced functions use */

#if defined(LOCPL_BD) || defined(LOCPL_LC) || defined(LLOC_PUT) || defined(LLOC_GET) || defined(LLOC_EXT)
/* ================= lists of large blocks: LargeObjectCache::putList, LocalLOCImpl::put / get =================
   The blocks are the elements of an array `blk` (addresses only); WLOG a list runs through it in array order (block j is the j-th of the list; the code never looks at addresses).
   The three header fields the code uses live in typed ghost memory, reached through the accessors LMB_RD(p, f) / LMB_WR(p, f, v) (spec.py: wrap_derefs), which check that p is a
   block of the list.  In the loop-contract jobs a link field holds the INDEX of the block it points to (NIL for NULL, OUTSIDE for a pointer to something that is no block of the list);
   the accessors convert from / to real block addresses, so that the sliced code computes with real pointers while the invariants are formulas over small integers.
   Blocks are >= 8 KB apart in reality; the array stride (128 bytes: the header view padded to a power of two) is irrelevant to the code, which does no pointer arithmetic here.
   MAXN = 64 blocks: LocalLOCImpl<8,32>, the only producer of these lists, never holds 32 blocks. */
typedef struct Node { LargeMemoryBlock b; } __attribute__((aligned(128))) Node; _Static_assert(sizeof(Node) == 128, "stride");
#define OFF(p) ((size_t)__CPROVER_POINTER_OFFSET(p))
#define P(i) (&blk[i].b)
#define VALID(p) (__CPROVER_same_object((p), blk) && (OFF(p) & 127) == 0 && (OFF(p) >> 7) < N)
#define IDX(p) (OFF(p) >> 7)
#define CI(p) ((p) ? IDX(p) : N)
#endif
#if defined(LOCPL_LC) || defined(LLOC_PUT) || defined(LLOC_GET)
#define MAXN 64
#define NIL 255
#define OUTSIDE 254
typedef unsigned char ix_t;
static Node blk[MAXN]; static char g_outside_obj[8]; static size_t N;
static ix_t NXT[MAXN], PRV[MAXN]; static size_t F_unalignedSize[MAXN];
static size_t lmb_idx(LargeMemoryBlock *p);
static LargeMemoryBlock *ptr_of(ix_t x) { return x == NIL ? (LargeMemoryBlock *)NULL : x < MAXN ? P(x) : (LargeMemoryBlock *)g_outside_obj; }
static ix_t code_of(LargeMemoryBlock *p) { if (p == NULL) return NIL; OBLIGATION(VALID(p), "C17.loc: a link of a block is set to NULL or to a block of the list"); return VALID(p) ? (ix_t)IDX(p) : OUTSIDE; }
#define RD_next(j) ptr_of(NXT[j])
#define RD_prev(j) ptr_of(PRV[j])
#define RD_unalignedSize(j) (F_unalignedSize[j])
#define WR_next(j, v) (NXT[j] = code_of(v))
#define WR_prev(j, v) (PRV[j] = code_of(v))
#define WR_unalignedSize(j, v) (F_unalignedSize[j] = (v))          /* not in any assigns clause: a store into the size record is reported */
#define LMB_RD(p, f) RD_##f(lmb_idx(p))
#define LMB_WR(p, f, v) WR_##f(lmb_idx(p), (v))
#endif

#ifdef LOCPL_BD
/* ---- bounded cross-check: every list of up to NBD blocks of arbitrary sizes and bins, fully unwound, the chains handed over are walked ----
   LargeObjectCache::sizeToIdx by its contract: a function of the size (proved on the real text in job lloc.bins, with "index < LargeBS::NumBins exactly for sizes below maxLargeSize"). */
#ifndef NBD
#define NBD 4
#endif
static LargeObjectCache g_loc;
static Node blk[NBD];
static LargeMemoryBlock *F_next[NBD], *F_prev[NBD]; static size_t F_unalignedSize[NBD];
static size_t N, g_sz[NBD]; static unsigned handed[NBD]; static int g_cls[NBD];
static size_t lmb_idx(LargeMemoryBlock *p) {
    OBLIGATION(VALID(p), "C17.loc.putList: only blocks of the list are dereferenced (bounded)");
    size_t i = VALID(p) ? IDX(p) : 0;
    OBLIGATION(!VALID(p) || handed[i] == 0, "C17.loc.putList: a block that was handed to a cache or to the back end is not touched again - another thread may own it by now (bounded)");
    return i;
}
#define LMB_RD(p, f) (F_##f[lmb_idx(p)])
#define LMB_WR(p, f, v) (F_##f[lmb_idx(p)] = (v))
static int STUB_sizeToIdx(size_t s) {
    OBLIGATION(s <= maxHugeSize, "TBB_ASSERT: size <= maxHugeSize (LargeObjectCache::sizeToIdx) (bounded)");
    for (size_t i = 0; i < NBD; i++) if (i < N && s == g_sz[i]) return g_cls[i];
    OBLIGATION(0, "C17.loc.putList: sizeToIdx is applied to the size of a block of the list (bounded)");
    return 0;
}
/* the rest of the input list after a hand-over: the blocks not handed over so far, still in input order, doubly linked (the head's prev is not used by anyone) */
static void check_rest(void) {
    size_t prev = NBD;
    for (size_t i = 0; i < NBD; i++) if (i < N && handed[i] == 0) {
        if (prev != NBD) {
            OBLIGATION(F_next[prev] == P(i), "C17.loc.putList: after a group was cut out, the rest of the list still links every remaining block to the next remaining one (bounded)");
            OBLIGATION(F_prev[i] == P(prev), "C17.loc.putList: after a group was cut out, the rest of the list is still doubly linked: g->next->prev == g (bounded)");
        }
        prev = i;
    }
    if (prev != NBD) OBLIGATION(F_next[prev] == NULL, "C17.loc.putList: after a group was cut out, the rest of the list is still null-terminated (bounded)");
}
static void hand(LargeMemoryBlock *p) {
    OBLIGATION(VALID(p), "C17.loc.putList: what is handed over is a block of the list (bounded)");
    if (VALID(p)) { OBLIGATION(handed[IDX(p)] == 0, "C17.loc.putList: no block is handed over twice (bounded)"); handed[IDX(p)]++; }
}
static void STUB_returnLargeObject(LargeObjectCache *self, LargeMemoryBlock *p) { hand(p); check_rest(); }
static void put_chain(LargeMemoryBlock *head, bool large) {
    LargeMemoryBlock *p = head; size_t ih = VALID(head) ? IDX(head) : 0;
    for (unsigned s = 0; s < NBD; s++) if (p != NULL) {
        hand(p);
        if (!VALID(p)) { p = NULL; break; }
        size_t i = IDX(p);
        OBLIGATION(F_unalignedSize[i] == g_sz[i], "C17.loc.putList: the size record of a block is left alone (bounded)");
        OBLIGATION(g_cls[i] == g_cls[ih], "C17.loc.putList: every block of a group has the bin index of the group's head - a block filed under another bin would later be handed out for a bigger request (bounded)");
        OBLIGATION((g_sz[i] < maxLargeSize) == large, "C17.loc.putList: every block of a group belongs to the cache (large / huge) the group is handed to (bounded)");
        p = F_next[i];
    }
    OBLIGATION(p == NULL, "C17.loc.putList: the chain handed to a cache is null-terminated and has no more blocks than the list (bounded)");
    check_rest();
}
static void STUB_largeCache_putList(LargeObjectCache *self, LargeMemoryBlock *head) { put_chain(head, true); }
static void STUB_hugeCache_putList(LargeObjectCache *self, LargeMemoryBlock *head) { put_chain(head, false); }
#define LOOP_locpl_outer
#define LOOP_locpl_inner
#include "locsizerange.inc"
#define LargeObjectCache_sizeToIdx STUB_sizeToIdx
#include "locputlist.inc"
#undef LargeObjectCache_sizeToIdx
size_t IN_n, IN_thr; int IN_c0, IN_c1, IN_c2, IN_c3, IN_c4; size_t IN_s0, IN_s1, IN_s2, IN_s3, IN_s4;
void h_locpl_bd(void) {
    N = IN_n = nondet_size_t(); __CPROVER_assume(N >= 1 && N <= NBD);
    g_loc.hugeSizeThreshold = IN_thr = nondet_size_t();
    for (size_t i = 0; i < NBD; i++) {
        size_t s = nondet_size_t(); int c = nondet_int(); __CPROVER_assume(s >= minLargeSize && s < maxHugeSize && c >= 0 && ((c < (int)LargeBS_NumBins) == (s < maxLargeSize)));
        for (size_t j = 0; j < NBD; j++) if (j < i) __CPROVER_assume((g_sz[j] == s) ? g_cls[j] == c : 1);      /* sizeToIdx is a function of the size */
        if (i == 0) { IN_s0 = s; IN_c0 = c; } if (i == 1) { IN_s1 = s; IN_c1 = c; } if (i == 2) { IN_s2 = s; IN_c2 = c; } if (i == 3) { IN_s3 = s; IN_c3 = c; } if (i == 4) { IN_s4 = s; IN_c4 = c; }
        F_unalignedSize[i] = g_sz[i] = s; g_cls[i] = c; handed[i] = 0;
        F_next[i] = (i + 1 < N) ? P(i + 1) : NULL;
        F_prev[i] = (i > 0) ? P(i - 1) : (LargeMemoryBlock *)nondet_ptr();   /* the head's prev: LocalLOC::put leaves the kept tail in it, externalCleanup NULL */
    }
    LargeObjectCache_putList(&g_loc, P(0));
    for (size_t i = 0; i < NBD; i++) if (i < N) OBLIGATION(handed[i] == 1, "C17.loc.putList: every block of the list is handed to a cache or to the back end exactly once - none is lost (bounded)");
    VACUITY_END();
}
#endif

#ifdef LOCPL_LC
/* ---- LargeObjectCache::putList for lists of EVERY length N <= MAXN (symbolic): loop contracts on both loops, facts about arbitrary blocks g_i, g_k (ghost indices) ----
   LargeObjectCache::sizeToIdx by its contract: a function of the size (job lloc.bins); the harness gives every block an arbitrary class id CLSV[j] (equal ids = equal sizeToIdx
   values; 8 bits are enough to tell <= 64 blocks apart) and the side LARGEV[j] of the large / huge border its size lies on; INRV[j]: sizeInCacheRange of its size (real function).
   FIRST[] is a definitional ghost array: FIRST[j] = the block that will be the head of j's group = the first block i <= j with FIRST[i] == i that takes j (i == j, or i is cacheable
   and sizeToIdx gives both the same value).  Such an array exists for every input; it is constrained only by instances of that definition (facts / facts2), supplied where a block is
   looked at.
   Frame of the inner loop: c = curr, pb = b (N when NULL), tp = toProcess (N when NULL), tl = tail.
     GRP  (collected so far)  : FIRST[j] == c and j < pb           -- chained curr -> ... -> tail through next, in input order, no member skipped
     REST (still to process)  : FIRST[j] >= tp, or FIRST[j] == c and j >= pb   -- a doubly linked list from toProcess in input order, no member skipped, null-terminated
     everything else was handed over in an earlier round.
   The outer loop's frame is (c, c, c, c).  The invariant is ONE formula INV2(i, k) proved for the arbitrary pair (g_i, g_k); being proved for every pair it holds for every pair at
   every loop head, and the loop bodies use it for blocks that depend on the state (b, b->prev, b->next, the neighbours of g_i, group heads): those instances of the SAME formula are
   assumed by hook_outer / hook_inner, which run at the head of the loop body, before any store (they sit in the LOOP_ macros, in front of the body). */
static LargeObjectCache g_loc;
static ix_t FIRST[MAXN], CLSV[MAXN], INRV[MAXN], LARGEV[MAXN];
static size_t g_i, g_k, g_last; static unsigned handed_i, handed_k;
#define CLSIDX(j) ((int)CLSV[j] + (LARGEV[j] ? 0 : (int)LargeBS_NumBins))
#define REST(j, c, pb, tp) (FIRST[j] >= (tp) || (FIRST[j] == (c) && (j) >= (pb)))
#define GRP(j, c, pb) (FIRST[j] == (c) && (j) < (pb))
#define NXOK(j, c, pb, tp) (NXT[j] == NIL || (NXT[j] < N && NXT[j] > (j) && REST(NXT[j], c, pb, tp) && PRV[NXT[j]] == (j)))
#define PVOK(j, c, pb, tp) (PRV[j] < N && PRV[j] < (j) && REST(PRV[j], c, pb, tp) && NXT[PRV[j]] == (j))
#define GNXOK(j, c, pb) (NXT[j] < N && NXT[j] > (j) && GRP(NXT[j], c, pb))
#define NODE_OK(j, c, pb, tp, tl) ((REST(j, c, pb, tp) ? (NXOK(j, c, pb, tp) && ((j) != (tp) ? PVOK(j, c, pb, tp) : 1)) : 1) && ((GRP(j, c, pb) && (j) != (tl)) ? GNXOK(j, c, pb) : 1))
#define NOSKIP(j, k, c, pb, tp) ((((j) < (k) && REST(j, c, pb, tp) && REST(k, c, pb, tp)) ? (NXT[j] < N && NXT[j] <= (k)) : 1) && (((j) < (k) && GRP(j, c, pb) && GRP(k, c, pb)) ? (NXT[j] < N && NXT[j] <= (k)) : 1))
#define HEADMIN(k, c, pb, tp) (REST(k, c, pb, tp) ? (tp) <= (k) : 1)
#define TAILMAX(k, c, pb, tl) (GRP(k, c, pb) ? (k) <= (tl) : 1)
#define HANDED(j, c, pb, tp) (!REST(j, c, pb, tp) && !GRP(j, c, pb))
#define INV2(j, k, c, pb, tp, tl) (NODE_OK(j, c, pb, tp, tl) && NOSKIP(j, k, c, pb, tp) && HEADMIN(j, c, pb, tp) && HEADMIN(k, c, pb, tp) && TAILMAX(j, c, pb, tl) && TAILMAX(k, c, pb, tl) \
    && handed_i == (HANDED(j, c, pb, tp) ? 1u : 0u) && handed_k == (HANDED(k, c, pb, tp) ? 1u : 0u))
static size_t lmb_idx(LargeMemoryBlock *p) {
    OBLIGATION(VALID(p), "C17.loc.putList: only blocks of the list are dereferenced");
    __CPROVER_assume(VALID(p));
    size_t j = IDX(p);
    OBLIGATION((j != g_k || handed_k == 0) && (j != g_i || handed_i == 0), "C17.loc.putList: a block that was handed to a cache or to the back end is not touched again - another thread may own it by now");
    g_last = j;
    return j;
}
static int STUB_sizeToIdx(size_t s) {
    OBLIGATION(g_last < N && s == F_unalignedSize[g_last < MAXN ? g_last : 0], "C17.loc.putList: sizeToIdx is applied to the size of a block of the list");
    OBLIGATION(s <= maxHugeSize, "TBB_ASSERT: size <= maxHugeSize (LargeObjectCache::sizeToIdx)");
    return CLSIDX(g_last < MAXN ? g_last : 0);
}
#include "locsizerange.inc"
/* instances of the definitions of FIRST / CLSV / LARGEV / INRV at block j, and of "a head c takes exactly the later blocks of its index that nobody took before" */
static void facts(size_t j) {
    if (j < N) { size_t s = F_unalignedSize[j];
        __CPROVER_assume(s >= minLargeSize && s < maxHugeSize && FIRST[j] <= j && FIRST[FIRST[j]] == FIRST[j] && ((INRV[j] != 0) == LargeObjectCache_sizeInCacheRange(&g_loc, s))
            && ((LARGEV[j] != 0) == (s < maxLargeSize)) && (FIRST[j] != j ? (INRV[FIRST[j]] != 0 && CLSV[FIRST[j]] == CLSV[j] && (LARGEV[FIRST[j]] != 0) == (LARGEV[j] != 0)) : 1)); }
}
static void facts2(size_t c, size_t j) {
    if (c < N && j < N && c < j && FIRST[c] == c && FIRST[j] >= c) __CPROVER_assume(INRV[c] != 0 ? ((CLSIDX(j) == CLSIDX(c)) == (FIRST[j] == c)) : FIRST[j] != c);
}
static void inst_node(size_t x, size_t c, size_t pb, size_t tp, size_t tl) { if (x < N && c < N) __CPROVER_assume(NODE_OK(x, c, pb, tp, tl) && HEADMIN(x, c, pb, tp) && TAILMAX(x, c, pb, tl)); }
static void inst_pair(size_t x, size_t y, size_t c, size_t pb, size_t tp) { if (x < N && y < N && c < N) __CPROVER_assume(NOSKIP(x, y, c, pb, tp)); }
#define NXI(j) ((j) < N ? (size_t)NXT[j] : (size_t)NIL)
#define PVI(j) ((j) < N ? (size_t)PRV[j] : (size_t)NIL)
#define FST(j) ((j) < N ? (size_t)FIRST[j] : (size_t)NIL)
/* the blocks whose status (REST / GRP / handed over) the step has to re-derive: g_i, g_k and the two neighbours of g_i, plus their group heads */
#define STATUS_INSTANCES(a, c, pb, tp) { size_t J_[4] = { g_i, g_k, NXI(g_i), PVI(g_i) }; \
    facts(J_[0]); facts(J_[1]); facts(J_[2]); facts(J_[3]); facts(FST(J_[0])); facts(FST(J_[1])); facts(FST(J_[2])); facts(FST(J_[3])); \
    facts2(c, J_[0]); facts2(c, J_[1]); facts2(c, J_[2]); facts2(c, J_[3]); \
    inst_pair(a, J_[0], c, pb, tp); inst_pair(a, J_[1], c, pb, tp); inst_pair(a, J_[2], c, pb, tp); inst_pair(a, J_[3], c, pb, tp); \
    inst_pair(a, FST(J_[0]), c, pb, tp); inst_pair(a, FST(J_[1]), c, pb, tp); inst_pair(a, FST(J_[2]), c, pb, tp); inst_pair(a, FST(J_[3]), c, pb, tp); \
    if (J_[2] < N) __CPROVER_assume(HEADMIN(J_[2], c, pb, tp)); if (J_[3] < N) __CPROVER_assume(HEADMIN(J_[3], c, pb, tp)); }
static int hook_outer(LargeMemoryBlock *curr) {          /* frame (c, c, c, c) */
    size_t c = IDX(curr), cn = NXI(c);
    facts(c); facts(cn); facts(FST(cn)); facts2(c, cn); inst_node(c, c, c, c, c); inst_pair(c, FST(cn), c, c, c);
    STATUS_INSTANCES(c, c, c, c)
    return 0;
}
/* The proof is split by execution class into jobs over the same text (LOCPL_PART): 1 = everything but the inner loop's step (outer loop, entry and exit of the inner loop, hand-over
   obligations); 2 / 3 / 4 = the inner loop's step when block b does not join the group / joins it as the head of the rest / joins it from the middle of the rest. */
#ifndef LOCPL_PART
#define LOCPL_PART 0
#endif
#define PART_STEP() __CPROVER_assume(LOCPL_PART == 0 || (LOCPL_PART == 2 && !(FIRST[pb] == c)) || (LOCPL_PART == 3 && FIRST[pb] == c && tp == pb) || (LOCPL_PART == 4 && FIRST[pb] == c && tp != pb))
#define PART_HANDOVER() __CPROVER_assume(LOCPL_PART <= 1)
static int hook_inner(LargeMemoryBlock *curr, LargeMemoryBlock *b, LargeMemoryBlock *tail, LargeMemoryBlock *toProcess) {
    size_t c = IDX(curr), pb = IDX(b), tp = CI(toProcess), tl = IDX(tail), pn = NXI(pb), pp = PVI(pb);
    PART_STEP();
    facts(c); facts(pb); facts2(c, pb); facts(pn); facts(FST(pn)); inst_node(pb, c, pb, tp, tl); inst_node(pn, c, pb, tp, tl); if (pb != tp) inst_node(pp, c, pb, tp, tl);
    inst_pair(pb, FST(pn), c, pb, tp); if (pb != tp) { inst_pair(pp, g_i, c, pb, tp); inst_pair(pp, g_k, c, pb, tp); }
    STATUS_INSTANCES(pb, c, pb, tp)
    return 0;
}
/* hand-over points */
static void rest_ok(void) {
    if (handed_i == 0) OBLIGATION(NXT[g_i] == NIL || (NXT[g_i] < N && NXT[g_i] > g_i && PRV[NXT[g_i]] == g_i),
        "C17.loc.putList: after a group was cut out, the rest of the list is still a well-formed doubly linked list in input order: for every block g left in it, g->next is NULL or a later block with g->next->prev == g");
}
static void STUB_returnLargeObject(LargeObjectCache *self, LargeMemoryBlock *p) {
    PART_HANDOVER();
    OBLIGATION(VALID(p), "C17.loc.putList: what is handed over is a block of the list"); __CPROVER_assume(VALID(p));
    size_t c = IDX(p);
    if (c == g_k) { OBLIGATION(handed_k == 0, "C17.loc.putList: no block is handed over twice"); handed_k++; }
    if (c == g_i) { OBLIGATION(handed_i == 0, "C17.loc.putList: no block is handed over twice"); handed_i++; }
    rest_ok();
}
#define G(j) (FIRST[j] == c)
static void group_handover(LargeMemoryBlock *head, bool large) {
    PART_HANDOVER();
    OBLIGATION(VALID(head), "C17.loc.putList: what is handed over is a block of the list"); __CPROVER_assume(VALID(head));
    size_t c = IDX(head);
    facts(g_i); facts(g_k); facts(c);
    OBLIGATION(G(c) && (!G(g_k) || c <= g_k), "C17.loc.putList: the chain handed to a cache starts with the first block of the group");
    OBLIGATION(!G(g_k) || (CLSIDX(g_k) == CLSIDX(c) && ((F_unalignedSize[g_k] < maxLargeSize) == large)),
        "C17.loc.putList: every block of a group has the bin index of the group's head and belongs to the cache (large / huge) the group is handed to - a block filed under another bin would later be handed out for a bigger request");
    OBLIGATION(!G(g_i) || NXT[g_i] == NIL || (NXT[g_i] < N && NXT[g_i] > g_i && G(NXT[g_i])),
        "C17.loc.putList: the chain handed to a cache contains only members of the group and is null-terminated: from every member, next is NULL or a LATER block of the SAME group");
    OBLIGATION(!(G(g_i) && G(g_k) && g_i < g_k) || (NXT[g_i] < N && NXT[g_i] <= g_k),
        "C17.loc.putList: no block is lost: the chain never jumps over a member of the group (a member's successor is at or before every later member)");
    if (G(g_k)) { OBLIGATION(handed_k == 0, "C17.loc.putList: no block is handed over twice"); handed_k++; }
    if (G(g_i)) { OBLIGATION(handed_i == 0, "C17.loc.putList: no block is handed over twice"); handed_i++; }
    rest_ok();
}
static void STUB_largeCache_putList(LargeObjectCache *self, LargeMemoryBlock *head) { group_handover(head, true); }
static void STUB_hugeCache_putList(LargeObjectCache *self, LargeMemoryBlock *head) { group_handover(head, false); }
#define C_O CI(curr)
#define LOOP_locpl_outer __CPROVER_assigns(curr, toProcess, n, g_last, handed_i, handed_k, __CPROVER_object_whole(NXT), __CPROVER_object_whole(PRV)) \
    __CPROVER_loop_invariant(self == &g_loc && (curr == NULL || (VALID(curr) && FIRST[IDX(curr)] == IDX(curr))) && INV2(g_i, g_k, C_O, C_O, C_O, C_O)) \
    __CPROVER_decreases(N - C_O) \
    if (hook_outer(curr)) ; else
#define C_I IDX(curr)
#define PB_I CI(b)
#define TP_I CI(toProcess)
#define TL_I IDX(tail)
#define LOOP_locpl_inner __CPROVER_assigns(b, n, tail, toProcess, g_last, __CPROVER_object_whole(NXT), __CPROVER_object_whole(PRV)) \
    __CPROVER_loop_invariant(self == &g_loc && VALID(curr) && FIRST[C_I] == C_I && INRV[C_I] != 0 && currIdx == CLSIDX(C_I) \
        && (b == NULL || (VALID(b) && (FIRST[PB_I] >= TP_I || FIRST[PB_I] == C_I))) && C_I < PB_I && VALID(tail) && GRP(TL_I, C_I, PB_I) \
        && (toProcess == NULL || (VALID(toProcess) && FIRST[TP_I] == TP_I) || (toProcess == b && FIRST[TP_I] == C_I)) && C_I < TP_I && TP_I <= PB_I && INV2(g_i, g_k, C_I, PB_I, TP_I, TL_I)) \
    __CPROVER_decreases(N - PB_I) \
    if (hook_inner(curr, b, tail, toProcess)) ; else
#define LargeObjectCache_sizeToIdx STUB_sizeToIdx
#include "locputlist.inc"
#undef LargeObjectCache_sizeToIdx
#define ORIG(j) ((j) < N ? (NXT[j] == ((j) + 1 < N ? (j) + 1 : NIL) && ((j) > 0 ? PRV[j] == (j) - 1 : 1)) : 1)
size_t IN_n, IN_gi, IN_gk;
void h_locpl_lc(void) {
    N = IN_n = nondet_size_t(); __CPROVER_assume(N >= 1 && N <= MAXN);
    __CPROVER_havoc_object(NXT); __CPROVER_havoc_object(PRV); __CPROVER_havoc_object(F_unalignedSize); __CPROVER_havoc_object(FIRST); __CPROVER_havoc_object(CLSV); __CPROVER_havoc_object(INRV); __CPROVER_havoc_object(LARGEV);
    g_loc.hugeSizeThreshold = nondet_size_t();
    g_i = IN_gi = nondet_size_t(); g_k = IN_gk = nondet_size_t(); __CPROVER_assume(g_i < N && g_k < N);
    handed_i = handed_k = 0; g_last = N;
    /* precondition: the input list is blk[0] -> blk[1] -> ... -> blk[N-1] -> NULL, doubly linked but for the head's prev (which may point outside); instances for the blocks the base case looks at */
    __CPROVER_assume(ORIG(0) && ORIG(g_i) && ORIG(g_i + 1) && ORIG(g_k) && (g_i > 0 ? ORIG(g_i - 1) : 1));
    facts(g_i); facts(g_k); facts(0);
    LargeObjectCache_putList(&g_loc, P(0));
    OBLIGATION(handed_k == 1 && handed_i == 1, "C17.loc.putList: every block of the list is handed to a cache or to the back end exactly once - none is lost, none twice");
    VACUITY_END();
}
#endif

#if defined(LLOC_PUT) || defined(LLOC_GET) || defined(LLOC_EXT)
/* ================= LocalLOCImpl<8,32>: the thread-local cache of large blocks (frontend.cpp) =================
   The `head` word is shared: the owner thread takes the whole list out (exchange with NULL), works on it privately and stores it back; any other thread (a cleaner:
   externalCleanup through the cleanup of all local caches) may at any time take the whole list the same way.  Rely: other threads only ever turn head from non-NULL to NULL.
   Stale fields: after a cleaner took the list, tail / totalSize / numOfBlocks keep their old values; put() must reset them, get() must not use them. */
typedef struct LocalLOC { LargeMemoryBlock *tail; LargeMemoryBlock *head; size_t totalSize; int numOfBlocks; } LocalLOC;   /* member order as in the class (pattern-checked in spec.py) */
#include "llocal_consts.inc"
static LocalLOC g_ll; static ExtMemoryPool g_pool; static size_t g_M, g_g;
static bool g_stolen; static unsigned g_xchg, g_store, g_load, g_flol; static LargeMemoryBlock *g_stored, *g_flol_head, *g_taken;
static void interfere(LocalLOC *s) { if (s->head != NULL && nondet_bool()) { s->head = NULL; g_stolen = true; } }
#define ATOMIC_LOAD_AT(site, f) ({ interfere(self); g_load++; (f); })
#define ATOMIC_XCHG_AT(site, f, v) ({ interfere(self); LargeMemoryBlock *o_ = (f); (f) = (v); g_xchg++; g_taken = o_; g_M = TAKEN_LEN(o_); \
    OBLIGATION((v) == NULL, "C17.lloc: the list is taken out of the shared head word by an exchange with NULL (whoever gets a non-NULL answer owns the whole list)"); o_; })
#define ATOMIC_STORE_AT(site, f, v) ({ interfere(self); OBLIGATION((f) == NULL && g_xchg == 1, "C17.lloc: a list is published only by the thread that took it, into the empty head word - no list is overwritten"); (f) = (v); g_store++; g_stored = (v); })
#define ATOMIC_CAS_AT(site, f, e, d) ({ interfere(self); bool r_ = ((f) == *(e)); if (r_) (f) = (d); else *(e) = (f); r_; })
#endif
#if defined(LLOC_PUT) || defined(LLOC_GET)
static size_t lmb_idx(LargeMemoryBlock *p) {
    OBLIGATION(VALID(p) && IDX(p) < g_M, "C17.lloc: only blocks of the list this thread holds are dereferenced (not a stale tail, not a block of a list a cleaner took)");
    __CPROVER_assume(VALID(p) && IDX(p) < g_M);
    return IDX(p);
}
/* definitional ghost array: PS[j] = sum of the sizes of blocks 0..j-1; blocks in a local cache are large blocks of at most MAX_TOTAL_SIZE bytes (put refuses bigger ones) */
static size_t PS[MAXN + 1];
#define PSREC(j) ((j) < N ? (PS[(j) + 1] == PS[j] + F_unalignedSize[j] && F_unalignedSize[j] >= minLargeSize && F_unalignedSize[j] <= MAX_TOTAL_SIZE && PS[j] <= (j) * MAX_TOTAL_SIZE) : 1)
#endif

#ifdef LLOC_PUT
/* put(object): object = block 0; the cached list = blocks 1..N-1 (head = block 1, tail = block N-1), or nothing (N == 1 / the list was taken by a cleaner: stale fields) */
#define TAKEN_LEN(o) ((o) != NULL ? N : 1)
#define LINKED(j, m) (NXT[j] == ((j) + 1 < (m) ? (j) + 1 : NIL) && PRV[j] == ((j) > 0 ? (j) - 1 : NIL))
#define OLDLINKED(j) (((j) >= 1 && (j) < N) ? (NXT[j] == ((j) + 1 < N ? (j) + 1 : NIL) && PRV[j] == ((j) > 1 ? (j) - 1 : NIL)) : 1)
static size_t g_cut, g_t;
static void STUB_freeLargeObjectList(ExtMemoryPool *p, LargeMemoryBlock *h) {
    g_flol++; g_flol_head = h;
    __CPROVER_assume(!VALID(g_ll.tail) || IDX(g_ll.tail) == g_t);      /* prophecy resolved: g_t is where the cut ends (the precondition was instantiated there before the call) */
    OBLIGATION(VALID(g_ll.tail) && IDX(g_ll.tail) + 1 < g_M && h == P(IDX(g_ll.tail) + 1), "C17.lloc.put: the chain handed to the global cache starts right behind the block that stays last");
    __CPROVER_assume(VALID(g_ll.tail)); g_cut = IDX(g_ll.tail);
    OBLIGATION(NXT[g_cut] == NIL, "C17.lloc.put: the kept list is cut off (null-terminated) before the rest is handed over");
    if (g_g > g_cut && g_g < g_M) OBLIGATION(NXT[g_g] == (g_g + 1 < g_M ? g_g + 1 : NIL), "C17.lloc.put: the chain handed over holds exactly the blocks behind the cut, in order, null-terminated");
}
static int hook_cut(LocalLOC *self) { size_t t = VALID(self->tail) ? IDX(self->tail) : N; if (t < g_M) __CPROVER_assume(LINKED(t, g_M) && PSREC(t) && (t > 0 ? PSREC(t - 1) : 1)); return 0; }
#define T_ (IDX(self->tail))
#define LOOP_lloc_put_cut __CPROVER_assigns(self->totalSize, self->numOfBlocks, self->tail) \
    __CPROVER_loop_invariant(self == &g_ll && VALID(self->tail) && T_ < g_M && self->numOfBlocks == (int)(T_ + 1) && self->totalSize == PS[T_ + 1] && localHead == P(0) && object == P(0) && (g_g < g_M ? LINKED(g_g, g_M) : 1)) \
    __CPROVER_decreases(T_) \
    if (hook_cut(self)) ; else
#include "llocal_put.inc"
size_t IN_n; int IN_nb;
void h_lloc_put(void) {
    N = IN_n = nondet_size_t(); __CPROVER_assume(N >= 1 && N <= MAXN);
    __CPROVER_havoc_object(NXT); __CPROVER_havoc_object(PRV); __CPROVER_havoc_object(F_unalignedSize); __CPROVER_havoc_object(PS);
    g_g = nondet_size_t(); __CPROVER_assume(g_g < N);
    size_t s0 = F_unalignedSize[0]; bool refused = s0 > MAX_TOTAL_SIZE;
    __CPROVER_assume(PS[0] == 0 && s0 >= minLargeSize && (refused || PSREC(0)) && PSREC(g_g) && (N > 1 ? PSREC(1) && PSREC(N - 1) : 1) && (g_g > 0 ? PSREC(g_g - 1) : 1));
    if (N > 1 && nondet_bool()) {       /* a consistent cache: head -> block 1 -> ... -> block N-1 = tail, prev links back, head's prev NULL; counters agree */
        g_ll.head = P(1); g_ll.tail = P(N - 1); g_ll.numOfBlocks = (int)(N - 1); g_ll.totalSize = PS[N] - PS[1];
        g_t = nondet_size_t(); __CPROVER_assume(g_t < N);            /* prophecy: the block the cut will stop at */
        __CPROVER_assume(OLDLINKED(1) && OLDLINKED(N - 1) && OLDLINKED(g_g) && OLDLINKED(g_t) && OLDLINKED(g_t + 1) && PSREC(g_t));
        __CPROVER_assume(PS[N] >= PS[1] && PS[N] <= N * MAX_TOTAL_SIZE);
    } else {                              /* empty, or emptied by a cleaner: the fields are whatever they were */
        g_ll.head = NULL; g_ll.tail = nondet_ptr(); g_ll.numOfBlocks = nondet_int(); g_ll.totalSize = nondet_size_t(); g_t = 0;
    }
    LocalLOC before = g_ll; g_M = 1; /* the caller holds the block it puts */ g_xchg = g_store = g_load = g_flol = 0; g_stolen = false;
    bool r = LocalLOC_put(&g_ll, P(0), &g_pool);
    if (refused) {
        OBLIGATION(!r && g_xchg == 0 && g_store == 0 && g_flol == 0 && g_ll.tail == before.tail && g_ll.totalSize == before.totalSize && g_ll.numOfBlocks == before.numOfBlocks,
            "C17.lloc.put: a block too big for the local cache is refused and nothing is touched (the caller then gives it to the global cache)");
    } else {
        OBLIGATION(r && g_xchg == 1 && g_store == 1 && g_stored == P(0), "C17.lloc.put: the list is taken once and published once, with the new block at its head");
        OBLIGATION(VALID(g_ll.tail) && IDX(g_ll.tail) < g_M, "C17.lloc.put: tail is a block of the list"); __CPROVER_assume(VALID(g_ll.tail));
        size_t t = IDX(g_ll.tail);
        OBLIGATION(g_ll.numOfBlocks == (int)(t + 1) && g_ll.totalSize == PS[t + 1], "C17.lloc.put: numOfBlocks and totalSize agree with the list that stays (also after a cleaner had emptied the cache: stale values are reset)");
        OBLIGATION(g_flol <= 1 && (g_flol == 0 ? t + 1 == g_M : (t + 1 < g_M && g_cut == t)), "C17.lloc.put: without a cut every block stays; with a cut the blocks behind the new tail were handed over once");
        if (g_g <= t) OBLIGATION(NXT[g_g] == (g_g < t ? g_g + 1 : NIL) && PRV[g_g] == (g_g > 0 ? g_g - 1 : NIL),
            "C17.lloc.put: the list that stays is the new block followed by the old list up to the tail, doubly linked, null-terminated, head's prev NULL");
        if (g_flol == 0) OBLIGATION(!(g_ll.totalSize > MAX_TOTAL_SIZE || g_ll.numOfBlocks >= HIGH_MARK), "C17.lloc.put: no cut only while the cache is within its limits");
    }
    VACUITY_END();
}
#endif

#ifdef LLOC_GET
/* get(size): the cached list = blocks 0..N-1 (head = block 0, tail = block N-1), or nothing (taken by a cleaner: stale fields) */
#define TAKEN_LEN(o) ((o) != NULL ? N : 0)
#define LINKED(j) (NXT[j] == ((j) + 1 < N ? (j) + 1 : NIL) && PRV[j] == ((j) > 0 ? (j) - 1 : NIL))
static void STUB_freeLargeObjectList(ExtMemoryPool *p, LargeMemoryBlock *h) { g_flol++; }
static size_t g_T0;
static int hook_search(LargeMemoryBlock *curr) { size_t c = IDX(curr); __CPROVER_assume(LINKED(c) && (c > 0 ? LINKED(c - 1) : 1) && (c + 1 < N ? LINKED(c + 1) : 1)); return 0; }
#define LOOP_lloc_get_search __CPROVER_assigns(curr, res, localHead, self->tail, self->totalSize, self->numOfBlocks, __CPROVER_object_whole(NXT), __CPROVER_object_whole(PRV)) \
    __CPROVER_loop_invariant(self == &g_ll && g_M == N && (curr == NULL || VALID(curr)) && res == NULL && localHead == P(0) && self->tail == P(N - 1) && self->totalSize == g_T0 && self->numOfBlocks == (int)N && LINKED(g_g)) \
    __CPROVER_decreases(N - CI(curr)) \
    if (hook_search(curr)) ; else
#include "llocal_get.inc"
size_t IN_n, IN_size;
void h_lloc_get(void) {
    N = IN_n = nondet_size_t(); __CPROVER_assume(N >= 1 && N <= MAXN);
    __CPROVER_havoc_object(NXT); __CPROVER_havoc_object(PRV); __CPROVER_havoc_object(F_unalignedSize);
    g_g = nondet_size_t(); __CPROVER_assume(g_g < N);
    bool cached = nondet_bool();
    if (cached) { g_ll.head = P(0); g_ll.tail = P(N - 1); g_ll.numOfBlocks = (int)N; g_ll.totalSize = g_T0 = nondet_size_t();
        __CPROVER_assume(LINKED(g_g) && LINKED(0) && LINKED(N - 1) && (g_g > 0 ? LINKED(g_g - 1) : 1) && (g_g + 1 < N ? LINKED(g_g + 1) : 1)); }
    else { g_ll.head = NULL; g_ll.tail = nondet_ptr(); g_ll.numOfBlocks = nondet_int(); g_ll.totalSize = nondet_size_t(); }
    LocalLOC before = g_ll; g_M = 0; g_xchg = g_store = g_load = g_flol = 0; g_stolen = false;
    size_t size = IN_size = nondet_size_t();
    LargeMemoryBlock *r = LocalLOC_get(&g_ll, size);
    OBLIGATION(g_flol == 0, "C17.lloc.get: get hands nothing to the global cache");
    if (g_xchg == 0 || g_taken == NULL) {
        OBLIGATION(r == NULL && g_store == 0 && g_ll.tail == before.tail && g_ll.totalSize == before.totalSize && g_ll.numOfBlocks == before.numOfBlocks,
            "C17.lloc.get: without a list (empty cache, list taken by a cleaner, request too big) get returns NULL, publishes nothing and leaves the fields alone");
    } else if (r == NULL) {
        OBLIGATION(g_store == 1 && g_stored == P(0) && g_ll.tail == P(N - 1) && g_ll.totalSize == g_T0 && g_ll.numOfBlocks == (int)N && LINKED(g_g), "C17.lloc.get: a miss puts the untouched list back");
    } else {
        OBLIGATION(VALID(r), "C17.lloc.get: the block returned is a block of the list"); __CPROVER_assume(VALID(r));
        size_t x = IDX(r);
        OBLIGATION(F_unalignedSize[x] == size, "C17.lloc.get: a get returns only a block whose unalignedSize equals the request (getFromLLOCache places size + headers + alignment into it)");
        OBLIGATION(g_store == 1 && g_stored == (x == 0 ? (N > 1 ? P(1) : (LargeMemoryBlock *)NULL) : P(0)), "C17.lloc.get: the list is published back once, its head being the old head or, if that was taken, its successor");
        OBLIGATION(g_ll.totalSize == g_T0 - size && g_ll.numOfBlocks == (int)N - 1, "C17.lloc.get: totalSize and numOfBlocks are lowered by exactly the block taken");
        OBLIGATION(g_ll.tail == (x == N - 1 ? (N > 1 ? P(N - 2) : (LargeMemoryBlock *)NULL) : P(N - 1)), "C17.lloc.get: tail is the old tail or, if that was taken, its predecessor");
        if (g_g != x) OBLIGATION(NXT[g_g] == (g_g + 1 == x ? (x + 1 < N ? x + 1 : NIL) : (g_g + 1 < N ? g_g + 1 : NIL)) && PRV[g_g] == (g_g == x + 1 ? (x > 0 ? x - 1 : NIL) : (g_g > 0 ? g_g - 1 : NIL)),
            "C17.lloc.get: exactly the returned block is unlinked: every other block keeps its place, its neighbours being the old ones or, next to the gap, the block on the other side of it");
    }
    VACUITY_END();
}
#endif

#ifdef LLOC_EXT
#define TAKEN_LEN(o) 0
static Node blk[1]; static size_t N;
static void STUB_freeLargeObjectList(ExtMemoryPool *p, LargeMemoryBlock *h) { g_flol++; g_flol_head = h; }
#include "llocal_externalCleanup.inc"
void h_lloc_ext(void) {           /* any thread */
    LargeMemoryBlock *h = nondet_ptr(); g_ll.head = h; g_ll.tail = nondet_ptr(); g_ll.numOfBlocks = nondet_int(); g_ll.totalSize = nondet_size_t();
    LocalLOC before = g_ll; g_xchg = g_store = g_load = g_flol = 0; g_stolen = false;
    bool r = LocalLOC_externalCleanup(&g_ll, &g_pool);
    OBLIGATION(g_xchg == 1 && g_store == 0 && g_ll.head == NULL, "C17.lloc.cleanup: a cleaner takes the whole list by one exchange with NULL and never stores into the head word");
    OBLIGATION(g_taken != NULL ? (r && g_flol == 1 && g_flol_head == g_taken) : (!r && g_flol == 0), "C17.lloc.cleanup: the list taken - and nothing else - is handed to the global cache, once");
    OBLIGATION(g_ll.tail == before.tail && g_ll.totalSize == before.totalSize && g_ll.numOfBlocks == before.numOfBlocks, "C17.lloc.cleanup: a cleaner leaves the owner's private fields alone");
    VACUITY_END();
}
#endif

#ifdef LOCIMPL
/* ================= which bin a block is filed under and which bin a request looks into: LargeObjectCache::put / get -> LargeObjectCacheImpl<Props>::putList / get ================= */
#include "locsizerange.inc"
static unsigned g_put_calls, g_get_calls, g_back_calls; static int g_put_cache, g_put_bin, g_get_cache, g_get_bin; static LargeMemoryBlock *g_put_head; static size_t g_get_size;
static LargeObjectCache g_loc; static LargeMemoryBlock g_B, g_C;
#define WHICH(s) ((s) == &g_loc.largeCache ? 1 : (s) == &g_loc.hugeCache ? 2 : 0)
static void STUB_bin_putList(LargeObjectCacheImpl *self, unsigned numBins, int bin, LargeMemoryBlock *head, int idxArg) {
    OBLIGATION(bin >= 0 && (unsigned)bin < numBins, "C17.loc.impl: the bin a chain is filed under lies inside the cache's bin array");
    g_put_calls++; g_put_cache = WHICH(self); g_put_bin = bin; g_put_head = head;
}
static LargeMemoryBlock *STUB_bin_get(LargeObjectCacheImpl *self, unsigned numBins, int bin, size_t size, int idxArg) {
    OBLIGATION(bin >= 0 && (unsigned)bin < numBins, "C17.loc.impl: the bin a request looks into lies inside the cache's bin array");
    g_get_calls++; g_get_cache = WHICH(self); g_get_bin = bin; g_get_size = size;
    return nondet_bool() ? &g_C : NULL;
}
static void STUB_returnLargeObject(LargeObjectCache *self, LargeMemoryBlock *p) { g_back_calls++; }
#include "locimpl.inc"
size_t IN_s1, IN_s2, IN_thr;
void h_loc_impl(void) {
    size_t s1 = IN_s1 = nondet_size_t(), s2 = IN_s2 = nondet_size_t(); g_loc.hugeSizeThreshold = IN_thr = nondet_size_t();
    __CPROVER_assume(BINSIZE(s1) && BINSIZE(s2));        /* s1: the size record of a block being freed; s2: what getFromLLOCache asks for (alignToBin(size + headers + alignment), >= minLargeSize) */
    __CPROVER_havoc_object(&g_B); g_B.unalignedSize = s1;
    g_put_calls = g_get_calls = g_back_calls = 0; g_put_cache = g_get_cache = 0;
    LargeObjectCache_put(&g_loc, &g_B);
    OBLIGATION(g_put_calls + g_back_calls == 1, "C17.loc.impl: a freed block goes to exactly one place: one bin of one cache, or the back end");
    OBLIGATION(g_put_calls == 0 || (g_put_head == &g_B && g_B.next == NULL && g_put_cache == (s1 < maxLargeSize ? 1 : 2)), "C17.loc.impl: a single block is filed as a null-terminated chain of one, in the cache its size belongs to");
    OBLIGATION(g_B.unalignedSize == s1, "C17.loc.impl: the size record of a cached block is left alone");
    LargeMemoryBlock *r = LargeObjectCache_get(&g_loc, s2);
    OBLIGATION(g_get_calls <= 1 && (r == NULL || g_get_calls == 1), "C17.loc.impl: a block is only ever taken out of the one bin that was looked into");
    if (g_put_calls == 1 && g_get_calls == 1 && g_put_cache == g_get_cache && g_put_bin == g_get_bin)
        OBLIGATION(s1 == s2, "C17.loc.impl: a block is filed under the bin of its own size and a request looks only into the bin of the requested size, and two bin sizes never share a bin: what a request finds is exactly as big as requested (msize >= size; a smaller block would make the object overlap its neighbours)");
    if (g_get_calls == 1) OBLIGATION(g_get_size == s2, "C17.loc.impl: the bin is asked for the requested size");
    VACUITY_END();
}
/* the chains LargeObjectCache::putList builds are filed by the same two functions under the bin of the chain's HEAD */
void h_loc_impl_chain(void) {
    size_t s1 = IN_s1 = nondet_size_t(), s2 = IN_s2 = nondet_size_t();
    __CPROVER_assume(BINSIZE(s1) && BINSIZE(s2) && (s1 < maxLargeSize) == (s2 < maxLargeSize));
    __CPROVER_havoc_object(&g_B); g_B.unalignedSize = s1; g_put_calls = 0;
    if (s1 < maxLargeSize) LargeCache_putList(&g_loc.largeCache, NULL, &g_B); else HugeCache_putList(&g_loc.hugeCache, NULL, &g_B);
    int bin_head = g_put_bin;
    OBLIGATION(g_put_calls == 1 && g_put_head == &g_B, "C17.loc.impl: the chain is handed to one bin, whole");
    /* a member of the chain: LargeObjectCache::putList guarantees it has the head's sorting index (job loc.putList) */
    __CPROVER_assume(LargeObjectCache_sizeToIdx(s2) == LargeObjectCache_sizeToIdx(s1));
    int bin_member = s2 < maxLargeSize ? LargeBS_sizeToIdx(s2) : HugeBS_sizeToIdx(s2);
    OBLIGATION(bin_member == bin_head && s2 == s1, "C17.loc.impl: every member of a chain grouped by LargeObjectCache::sizeToIdx belongs to the bin its head is filed under, and has the head's size");
    VACUITY_END();
}
#endif

#ifdef CBIN
/* ================= one bin of the global cache: the operations the aggregator runs one at a time (CacheBin::putList / get / cleanAll, "unsafe methods") =================
   Representation invariant of a bin (what get / cleanToThreshold / cleanAll rely on): first == NULL <=> last == NULL; the list runs first -> ... -> last through next, last->next == NULL,
   prev links back, first->prev == NULL; oldest == last->age; every block has the bin's size; cachedSize == (number of blocks) * size.
   Window: the blocks these loop-free functions can reach - head H, a middle block M, tail T of the chain being put; first F, a middle block X, last L of the bin's list. */
typedef struct BinBitMask { int dummy; } BinBitMask;
typedef struct CacheBin { LargeMemoryBlock *first; LargeMemoryBlock *last; uintptr_t oldest; uintptr_t lastCleanedAge; intptr_t ageThreshold; size_t usedSize; size_t cachedSize; intptr_t meanHitRange; uintptr_t lastGet; } CacheBin;
#define ATOMIC_LOAD(x) (x)
#define ATOMIC_STORE(x, v) ((x) = (v))
static unsigned g_mask_calls;
static void STUB_bitMask_set(BinBitMask *m, int idx, bool v) { g_mask_calls++; }
#include "cachebin.inc"
static LargeMemoryBlock nd[6]; static CacheBin g_bin; static BinBitMask g_mask;
#define H (&nd[0])
#define M (&nd[1])
#define T (&nd[2])
#define F (&nd[3])
#define X (&nd[4])
#define L (&nd[5])
static size_t g_size, g_cnt0; static LargeMemoryBlock *g_first0, *g_last0; static int g_shape;
static void setup_bin(void) {          /* an arbitrary bin satisfying the representation invariant, holding g_cnt0 blocks */
    for (int i = 0; i < 6; i++) { __CPROVER_havoc_object(&nd[i]); }
    g_size = nondet_size_t(); __CPROVER_assume(BINSIZE(g_size));
    for (int i = 0; i < 6; i++) nd[i].unalignedSize = g_size;
    __CPROVER_havoc_object(&g_bin);
    g_shape = nondet_int(); g_cnt0 = nondet_size_t();
    if (g_shape == 0) { g_bin.first = g_bin.last = NULL; g_cnt0 = 0; g_bin.oldest = 0; }
    else if (g_shape == 1) { g_bin.first = g_bin.last = F; F->prev = NULL; F->next = NULL; g_cnt0 = 1; }
    else if (g_shape == 2) { g_bin.first = F; g_bin.last = L; F->prev = NULL; F->next = L; L->prev = F; L->next = NULL; g_cnt0 = 2; }
    else { g_bin.first = F; g_bin.last = L; F->prev = NULL; F->next = X; X->prev = nondet_bool() ? F : X; X->next = nondet_bool() ? L : X; L->prev = X; L->next = NULL; __CPROVER_assume(g_cnt0 >= 3 && g_cnt0 <= ((size_t)1 << 20)); }
    if (g_bin.last) { g_bin.oldest = g_bin.last->age; __CPROVER_assume(g_bin.last->age != 0 && g_bin.last->age != -1U); }
    g_first0 = g_bin.first; g_last0 = g_bin.last; g_mask_calls = 0;
}
int IN_num, IN_shape;
/* num is a compile-time constant per call (1, 2, 3 and 1000 blocks): the code depends on it only through num--, num != 0 and num * size, and a product of two symbolic 64-bit
   operands is out of SAT reach */
static void run_putlist(const int num) {
    setup_bin(); IN_shape = g_shape; IN_num = num;
    LargeMemoryBlock *tail, *tprev;
    H->prev = NULL;                                   /* the functor clears the head's prev before it calls putList (large_objects.cpp: `curr->prev = nullptr`) */
    if (num == 1) { tail = H; H->next = NULL; tprev = NULL; }
    else if (num == 2) { tail = T; H->next = T; T->prev = H; T->next = NULL; tprev = H; }
    else { tail = T; H->next = M; M->next = T; T->prev = M; T->next = NULL; tprev = M; }     /* M: the last of the num-2 blocks in between */
    size_t thr = nondet_size_t(), c0 = g_bin.cachedSize;
    LargeMemoryBlock *r = CacheBin_putList(&g_bin, H, tail, &g_mask, nondet_int(), num, thr);
    OBLIGATION(r == NULL || r == tail, "C17.bin.putList: the only block of a chain that may be kept out of the cache (returned to the back end) is the chain's last one");
    LargeMemoryBlock *t2 = r ? tprev : tail;            /* the last block that entered the bin */
    OBLIGATION(g_bin.cachedSize == c0 + (r ? (size_t)(num - 1) * g_size : (size_t)num * g_size), "C17.bin.putList: cachedSize grows by exactly the blocks that entered the bin (all of the bin's size)");
    if (num == 1 && r) OBLIGATION(g_bin.first == g_first0 && g_bin.last == g_last0, "C17.bin.putList: a chain whose only block is kept out leaves the bin's list alone");
    else {
        OBLIGATION(g_bin.first == H && H->prev == NULL, "C17.bin.putList: the chain goes in front: first is its head, whose prev is NULL");
        OBLIGATION(t2->next == g_first0 && (g_first0 == NULL || g_first0->prev == t2), "C17.bin.putList: the chain's last cached block is linked to the old first block, both ways (none of the old blocks is lost)");
        OBLIGATION(num < 2 || (H->next == (num == 2 ? (r ? g_first0 : T) : M)), "C17.bin.putList: the links inside the chain are kept");
        OBLIGATION(num < 3 || M->next == (r ? g_first0 : T), "C17.bin.putList: the links inside the chain are kept up to the last cached block");
        OBLIGATION(g_bin.last == (g_last0 ? g_last0 : t2) && g_bin.last->next == NULL, "C17.bin.putList: last is the old last block or, for an empty bin, the chain's last cached block; the list stays null-terminated");
        OBLIGATION(g_bin.oldest == g_bin.last->age, "C17.bin.putList: oldest is the age of the last block");
    }
    for (int i = 0; i < 6; i++) OBLIGATION(nd[i].unalignedSize == g_size, "C17.bin.putList: size records are left alone");
}
void h_cbin_putlist(void) {
    int w = nondet_int();
    if (w == 0) run_putlist(1); else if (w == 1) run_putlist(2); else if (w == 2) run_putlist(3); else run_putlist(1000);
    VACUITY_END();
}
void h_cbin_get(void) {
    setup_bin(); IN_shape = g_shape;
    LargeMemoryBlock *second = g_first0 ? g_first0->next : NULL;
    LargeMemoryBlock *r = CacheBin_get(&g_bin);
    OBLIGATION(r == g_first0, "C17.bin.get: the block handed out is the bin's first block (NULL for an empty bin)");
    if (r) {
        OBLIGATION(g_bin.first == second && (second == NULL || second->prev == NULL), "C17.bin.get: the list continues with the successor of the block handed out, which is no longer reachable from it (first->prev == NULL)");
        OBLIGATION(second != NULL ? (g_bin.last == g_last0) : (g_bin.last == NULL && g_bin.oldest == 0), "C17.bin.get: last / oldest follow: unchanged, or cleared when the bin became empty");
        OBLIGATION(r->unalignedSize == g_size, "C17.bin.get: the block handed out has the bin's size");
    } else OBLIGATION(g_bin.first == NULL && g_bin.last == NULL, "C17.bin.get: an empty bin stays as it is");
    VACUITY_END();
}
void h_cbin_cleanall(void) {
    setup_bin(); IN_shape = g_shape;
    LargeMemoryBlock *r = CacheBin_cleanAll(&g_bin, &g_mask, nondet_int());
    OBLIGATION(r == g_first0 && g_bin.first == NULL && g_bin.last == NULL && (g_first0 == NULL || g_bin.cachedSize == 0), "C17.bin.cleanAll: the whole list is handed out at once and the bin is left empty: no block is both cached and released");
    VACUITY_END();
}
#endif

#ifdef MLO
/* ================= ExtMemoryPool::mallocLargeObject + Backend::getLargeBlock: what MemoryPool::getFromLLOCache receives from the global cache / the back end ================= */
enum DecreaseOrIncrease { decrease, increase };
#include "mlo_pre.inc"
static LargeMemoryBlock g_cached, g_fresh; static ExtMemoryPool g_pool; static MemoryPool g_mp;
static unsigned g_locget, g_nbr, g_ggb, g_rm, g_upd, g_add; static size_t g_locget_size, g_ggb_size, g_upd_size; static int g_ggb_num, g_upd_op; static BackRefIdx g_new_idx, g_rm_idx; static bool g_nbr_large;
/* LargeObjectCache::get(size) by the contract proved in loc.impl / bin.get / loc.putList: NULL, or a cached block whose size record equals the request; a cached block keeps the
   back-reference index it got when it was first allocated (nobody writes LargeMemoryBlock::backRefIdx while the block is cached: loc.putList / lloc.* / bin.* leave it alone) */
static LargeMemoryBlock *STUB_loc_get(ExtMemoryPool *self, size_t size) { g_locget++; g_locget_size = size; if (nondet_bool()) return NULL;
    g_cached.unalignedSize = size; g_cached.backRefIdx.largeObj = 1; __CPROVER_assume(g_cached.backRefIdx.main != BackRefIdx_invalid); return &g_cached; }
static BackRefIdx STUB_newBackRef(bool largeObj) { g_nbr++; g_nbr_large = largeObj; BackRefIdx i; i.main = nondet_u32(); i.offset = nondet_ushort(); i.largeObj = largeObj; g_new_idx = i; return i; }   /* main == invalid: the table is full */
static void *STUB_genericGetBlock(int num, size_t size, bool aligned) { g_ggb++; g_ggb_num = num; g_ggb_size = size; if (nondet_bool()) return NULL; __CPROVER_havoc_object(&g_fresh); return &g_fresh; }
static bool STUB_userPool(ExtMemoryPool *p) { return nondet_bool(); }
static void STUB_lmbList_add(ExtMemoryPool *p, LargeMemoryBlock *b) { g_add++; }
static void STUB_removeBackRef(BackRefIdx i) { g_rm++; g_rm_idx = i; }
static void STUB_loc_updateCacheState(ExtMemoryPool *p, int op, size_t size) { g_upd++; g_upd_op = op; g_upd_size = size; }
#include "mlo.inc"
size_t IN_size;
void h_mlo(void) {
    size_t size = IN_size = nondet_size_t();
    __CPROVER_havoc_object(&g_cached);
    g_locget = g_nbr = g_ggb = g_rm = g_upd = g_add = 0;
    LargeMemoryBlock *r = ExtMemoryPool_mallocLargeObject(&g_pool, &g_mp, size);
    OBLIGATION(g_locget == 1 && g_locget_size == size, "C17.mlo: the cache is asked once, for the size requested");
    if (r) {
        OBLIGATION(r->unalignedSize == size, "C17.mlo: the block handed to getFromLLOCache records exactly the size that was asked for (the aligned allocation size: object + headers + alignment fit, lloc.place)");
        OBLIGATION(r->backRefIdx.largeObj == 1 && r->backRefIdx.main != BackRefIdx_invalid, "C17.mlo: the block carries a valid back-reference index marked 'large object' (free / msize will recognise the pointer)");
        OBLIGATION(r == &g_cached || (r == &g_fresh && g_ggb == 1 && g_ggb_num == 1 && g_ggb_size == size && g_nbr == 1 && g_nbr_large && r->pool == &g_mp), "C17.mlo: a new block comes from one back-end request of exactly that size, after a large-object back reference was obtained for it, and names its pool");
        OBLIGATION(g_rm == 0, "C17.mlo: the back reference of a block that is handed out is not released");
    } else {
        OBLIGATION(g_ggb <= 1 && (g_ggb == 0 || (g_rm == 1 && g_rm_idx.main == g_new_idx.main && g_rm_idx.offset == g_new_idx.offset)), "C17.mlo: when the back end has no block, the back reference obtained for it is given back (no table entry is left for a block that does not exist)");
    }
    VACUITY_END();
}
#endif
