"""C17 -- tbbmalloc blocks are disjoint, aligned, big enough, and keep their contents (per-function arithmetic + placement)."""
import os
import sys
import re
HERE = os.path.dirname(os.path.abspath(__file__))
sys.path.insert(0, os.path.join(HERE, '..'))
sys.path.insert(0, os.path.join(HERE, '..', '..', 'tools'))
import common
import native
import cxx2c
from cxx2c import Rewriter, slice_block, slice_stmt, ExtractionBreak, load
from prove import Job

FE = 'src/tbbmalloc/frontend.cpp'
TI = 'src/tbbmalloc/tbbmalloc_internal.h'
SU = 'src/tbbmalloc/shared_utils.h'
MAC = {'__ARCH_x86_32': 0, '__ARCH_x86_64': 1, '__unix__': 1, '__APPLE__': None, '__MINGW32__': None, '_WIN32': None, '_WIN64': None, '__INTEL_COMPILER': None,
       '_MSC_VER': None, '__arm__': None, 'BACKEND_HAS_MREMAP': 1, 'MALLOC_DEBUG': 0}


def consts(rw, sliced):
    out = []
    for rel, names in ((FE, ['minSmallObjectIndex', 'numSmallObjectBins', 'maxSmallObjectSize', 'minSegregatedObjectIndex', 'numSegregatedObjectBins', 'maxSegregatedObjectSize',
                             'minFittingIndex', 'numFittingBins', 'fittingAlignment', 'fittingSize1', 'fittingSize2', 'fittingSize3', 'fittingSize4', 'fittingSize5',
                             'numBlockBins', 'minLargeObjectSize']),
                       (TI, ['slabSize', 'largeObjectAlignment'])):
        for n in names:
            s = slice_stmt(rel, r'const (?:uint32_t|uintptr_t|size_t) %s\s*=' % n)
            sliced.append('%s:%d %s' % (rel, s.line, n))
            m = re.match(r'const (uint32_t|uintptr_t|size_t) (\w+)\s*=\s*(.*);', s.text, re.S)
            if not m:
                raise ExtractionBreak('cannot parse constant %s' % n)
            out.append('#define %s ((%s)(%s))' % (m.group(2), m.group(1), m.group(3).strip()))   # const-global -> #define (a C `const` is nondet in CBMC)
            rw.fired['const-global->#define'] = rw.fired.get('const-global->#define', 0) + 1
    s = slice_stmt(FE, r'#define SET_FITTING_SIZE\(N\)')
    m = re.search(r'#define SET_FITTING_SIZE\(N\) (.*)', load(FE))
    out.insert(0, '#define SET_FITTING_SIZE(N) (%s)' % m.group(1).strip())
    if not re.search(r'static_assert\(sizeof\(Block\) <= 2\*estimatedCacheLineSize', load(FE)):
        raise ExtractionBreak('static_assert on sizeof(Block) disappeared')
    return '\n'.join(out) + '\n'


def extract(ctx):
    sliced, fired = [], {}
    rw = Rewriter('tbbmalloc')
    common.write(ctx, 'consts.inc', consts(rw, sliced))
    out = []
    # alignUp / alignDown / isAligned / isPowerOfTwo (shared_utils.h): templates over T bound to uintptr_t
    for name in ('alignDown', 'alignUp'):
        s = slice_block(SU, r'static inline T %s\s*\(T arg, uintptr_t alignment\)' % name)
        sliced.append('%s:%d %s' % (SU, s.line, name))
        t = rw.sub(s.text, r'static inline T %s\s*\(T arg, uintptr_t alignment\)' % name, 'static inline uintptr_t %s(uintptr_t arg, uintptr_t alignment)' % name, 1, 1, name='bind-template(T:=uintptr_t)')
        t = rw.sub(t, r'\bT\b', 'uintptr_t', 0, name='bind-template(T:=uintptr_t)')
        t = rw.fcasts(t, ['uintptr_t'], 1)
        out.append(t)
    s = slice_block('include/oneapi/tbb/detail/_utils.h', r'(?:constexpr )?bool is_aligned\(T\* pointer, std::uintptr_t alignment\)')
    sliced.append('%s:%d is_aligned' % (s.rel, s.line))
    t = rw.sub(s.text, r'(?:constexpr )?bool is_aligned\(T\* pointer, std::uintptr_t alignment\)', 'static inline bool isAligned(const void* pointer, uintptr_t alignment)', 1, 1, name='sig (Customize.h isAligned forwards to it) + bind-template(T:=void)')
    t = rw.casts(t, 1)
    out.append(rw.std(t))
    # size classes
    s = slice_block(FE, r'static inline unsigned int highestBitPos\(unsigned int n\)')
    sliced.append('%s:%d highestBitPos' % (FE, s.line))
    t = cxx2c.cpp_resolve(s.text, MAC, 'highestBitPos')
    rw.fired['cpp-resolve(x86-64 unix)'] = 1
    t = rw.sub(t, r'__asm__ \("bsr %1,%0" : "=r"\(pos\) : "r"\(n\)\);', 'pos = VERIF_BSR(n);', 1, 1, name='asm-leaf->assumed contract (bsr)')
    t = rw.asserts(t, 1, macro='MALLOC_ASSERT')
    out.append(t)
    s = slice_block(FE, r'unsigned int getSmallObjectIndex\(unsigned int size\)')
    sliced.append('%s:%d getSmallObjectIndex' % (FE, s.line))
    out.append(rw.std(s.text))
    s = slice_block(FE, r'static unsigned int getIndexOrObjectSize \(unsigned int size\)')
    sliced.append('%s:%d getIndexOrObjectSize<indexRequest>' % (FE, s.line))
    t = rw.sub(s.text, r'static unsigned int getIndexOrObjectSize \(unsigned int size\)', 'static unsigned int getIndexOrObjectSize(const bool indexRequest, unsigned int size)', 1, 1, name='template bool -> parameter')
    t = rw.asserts(t, 2, macro='MALLOC_ASSERT')
    out.append(t)
    for name, val in (('getIndex', 'true'), ('getObjectSize', 'false')):
        s = slice_block(FE, r'static unsigned int %s \(unsigned int size\)' % name)
        sliced.append('%s:%d %s' % (FE, s.line, name))
        t = rw.sub(s.text, r'getIndexOrObjectSize<%s>\(size\)' % val, 'getIndexOrObjectSize(%s, size)' % val, 1, 1, name='template-arg -> argument')
        out.append(t)
    common.write(ctx, 'sizeclass.inc', '\n'.join(out) + '\n')
    # Block members used by the placement functions
    for pat, what in ((r'FreeObject  \*bumpPtr;', 'bumpPtr'), (r'FreeObject  \*freeList;', 'freeList'), (r'uint16_t     allocatedCount;', 'allocatedCount'), (r'uint16_t     objectSize;', 'objectSize')):
        if not re.search(pat, load(FE)):
            raise ExtractionBreak('Block member %s changed' % what)
    out = []
    s = slice_block(FE, r'FreeObject \*Block::allocateFromBumpPtr\(\)')
    sliced.append('%s:%d Block::allocateFromBumpPtr' % (FE, s.line))
    t = rw.sub(s.text, r'FreeObject \*Block::allocateFromBumpPtr\(\)', 'FreeObject *Block_allocateFromBumpPtr(Block *self)', 1, 1, name='sig')
    t = rw.sub(t, r'(?<![\w.>])(bumpPtr|objectSize|allocatedCount)\b', r'self->\1', 5, name='field')
    t = rw.sub(t, r'\(uintptr_t\)this', '(uintptr_t)self', 1, 1, name='this')
    t = rw.sub(t, r'STAT_increment\([^;]*\);', 'RG_NOP();', 1, 1, name='stat->RG_NOP')
    t = rw.asserts(t, 1, macro='MALLOC_ASSERT')
    out.append(rw.std(t))
    s = slice_block(FE, r'FreeObject \*Block::findAllocatedObject\(const void \*address\) const')
    sliced.append('%s:%d Block::findAllocatedObject' % (FE, s.line))
    t = rw.sub(s.text, r'FreeObject \*Block::findAllocatedObject\(const void \*address\) const', 'FreeObject *Block_findAllocatedObject(const Block *self, const void *address)', 1, 1, name='sig')
    t = rw.sub(t, r'(?<![\w.>])(objectSize)\b', r'self->\1', 2, name='field')
    t = rw.sub(t, r'\(uintptr_t\)this', '(uintptr_t)self', 1, 1, name='this')
    t = rw.sub(t, r'\(FreeObject\*\)\(\(uintptr_t\)address - \(', '(FreeObject*)((const char*)address - (', 1, 1, name='integer arithmetic on an address -> char* arithmetic (same address on a flat memory; keeps the pointer attached to its object for CBMC)')
    t = rw.asserts(t, 1, macro='MALLOC_ASSERT')
    out.append(rw.std(t))
    common.write(ctx, 'block.inc', '\n'.join(out) + '\n')
    # ---- the free path of slab objects: every address that enters a free list is the start of an object ----
    out = []
    for pat, what in ((r'std::atomic<FreeObject\*>\s+publicFreeList;', 'publicFreeList'), (r'#define FREELIST_NONBLOCKING 1', 'FREELIST_NONBLOCKING')):
        if not re.search(pat, load(FE)):
            raise ExtractionBreak('frontend.cpp: %s changed' % what)
    MACF = dict(MAC); MACF.update({'FREELIST_NONBLOCKING': 1, 'COLLECT_STATISTICS': 0, 'MALLOC_CHECK_RECURSION': 1, 'MALLOC_DEBUG': 1, 'TBB_REVAMP_TODO': 0})
    s = slice_block(FE, r'inline bool Block::isProperlyPlaced\(const void \*object\) const')
    sliced.append('%s:%d Block::isProperlyPlaced' % (FE, s.line))
    t = rw.sub(s.text, r'inline bool Block::isProperlyPlaced\(const void \*object\) const', 'static bool Block_isProperlyPlaced(const Block *self, const void *object)', 1, 1, name='sig')
    t = rw.sub(t, r'\(uintptr_t\)this', '(uintptr_t)self', 1, 1, name='this')
    t = rw.sub(t, r'(?<![\w.>])(objectSize)\b', r'self->\1', 1, name='field')
    out.append(t)
    s = slice_block(FE, r'FreeObject \*Block::findObjectToFree\(const void \*object\) const')
    sliced.append('%s:%d Block::findObjectToFree' % (FE, s.line))
    t = rw.sub(s.text, r'FreeObject \*Block::findObjectToFree\(const void \*object\) const', 'FreeObject *Block_findObjectToFree(const Block *self, const void *object)', 1, 1, name='sig')
    t = rw.sub(t, r'(?<![\w.>])(objectSize)\b', r'self->\1', 1, name='field')
    t = rw.sub(t, r'\bfindAllocatedObject\(object\)', 'Block_findAllocatedObject(self, object)', 1, 1, name='method')
    t = rw.sub(t, r'\bisProperlyPlaced\(', 'Block_isProperlyPlaced(self, ', 1, 1, name='method')
    t = rw.asserts(t, 2, macro='MALLOC_ASSERT')
    out.append(rw.std(t))
    common.write(ctx, 'placed.inc', '\n'.join(out) + '\n')
    out = []
    s = slice_block(FE, r'bool empty\(\) const')
    sliced.append('%s:%d Block::empty' % (FE, s.line))
    t = rw.sub(s.text, r'bool empty\(\) const', 'static bool Block_empty(const Block *self)', 1, 1, name='sig')
    t = rw.sub(t, r'MALLOC_ASSERT\(!isSolidPtr\(publicFreeList\.load\(std::memory_order_relaxed\)\), ASSERT_TEXT\);', '/* assertion on the cross-thread accounting dropped */', 1, 1, name='drop: empty() asserts that no publicly freed object is pending (global accounting)')
    t = rw.sub(t, r'(?<![\w.>])(allocatedCount)\b', r'self->\1', 1, name='field')
    out.append(t)
    s = slice_block(FE, r'void Block::freeOwnObject\(void \*object\)')
    sliced.append('%s:%d Block::freeOwnObject' % (FE, s.line))
    t = cxx2c.cpp_resolve(s.text, MACF, 'freeOwnObject')
    t = rw.sub(t, r'void Block::freeOwnObject\(void \*object\)', 'void Block_freeOwnObject(Block *self, void *object)', 1, 1, name='sig')
    t = rw.sub(t, r'tlsPtr\.load\(std::memory_order_relaxed\)->markUsed\(\);', 'STUB_markUsed(self);', 1, 1, name='callee stub')
    t = rw.sub(t, r'tlsPtr\.load\(std::memory_order_relaxed\)->getAllocationBin\(objectSize\)->processEmptyBlock\(this,\s*(?:/\*.*?\*/)?\s*true\);', 'STUB_processEmptyBlock(self);', 1, 1, name='callee stub')
    t = rw.sub(t, r'if \(empty\(\)\)', 'if (Block_empty(self))', 1, 1, name='method')
    t = rw.sub(t, r'\bfindObjectToFree\(object\)', 'Block_findObjectToFree(self, object)', 1, 1, name='method')
    t = rw.sub(t, r'\badjustPositionInBin\(\);', 'STUB_adjustPositionInBin(self);', 1, 1, name='callee stub')
    t = rw.sub(t, r'\bobjectToFree->next = ([^;]+);', r'FO_SET_NEXT(objectToFree, \1);', 1, 1, name='store into a free object -> FO_SET_NEXT (ghost record + writability obligation; the 16 KB payload is not read back)')
    t = rw.sub(t, r'(?<![\w.>])(objectSize|allocatedCount|freeList|isFull)\b', r'self->\1', 5, name='field')
    t = rw.asserts(t, 2, macro='MALLOC_ASSERT')
    out.append(rw.std(t))
    s = slice_block(FE, r'(?m)^void Block::freePublicObject \(FreeObject \*objectToFree\)')
    sliced.append('%s:%d Block::freePublicObject (list push only; the whole function: pfl.push)' % (FE, s.line))
    t = cxx2c.cpp_resolve(s.text, MACF, 'freePublicObject')
    mk = cxx2c.mask(t)
    m = re.search(r'\}\s*while\s*\(', mk)
    if not m:
        raise ExtractionBreak('freePublicObject: the push loop (do .. while) not found')
    e = mk.find(';', cxx2c.match_close(mk, m.end() - 1, '(', ')'))
    t = t[:e + 1] + '\n    /* tail cut here: the mailbox hand-off that follows is proved on the whole function in job pfl.push */\n}'
    rw.fired['cut tail of freePublicObject'] = 1
    t = rw.sub(t, r'void Block::freePublicObject \(FreeObject \*objectToFree\)', 'void Block_freePublicObject(Block *self, FreeObject *objectToFree)', 1, 1, name='sig')
    t = rw.sub(t, r'FreeObject\* localPublicFreeList\{\};', 'FreeObject* localPublicFreeList = NULL;', 1, 1, name='brace-init')
    t = rw.sub(t, r'MALLOC_ITT_SYNC_RELEASING\([^;]*\);', 'RG_NOP();', 1, 1, name='itt->RG_NOP')
    t = rw.sub(t, r'\bobjectToFree->next = ([^;]+);', r'FO_SET_NEXT(objectToFree, \1);', 1, 1, name='store into a free object -> FO_SET_NEXT (ghost record + writability obligation; the 16 KB payload is not read back)')
    t = rw.atomics(t, ['publicFreeList'], 2)
    t = rw.sub(t, r'(?<![\w.>])(publicFreeList)\b', r'self->\1', 2, name='field')
    t = rw.std(t)
    t = rw.number_sites(t, 'fpo', by_kind=True)
    t = cxx2c.tag_loops(t, 'fpo', rw, expect=1)
    out.append(t)
    common.write(ctx, 'free.inc', '\n'.join(out) + '\n')
    out = []
    s = slice_block(FE, r'static inline void freeSmallObject\(void \*object\)')
    sliced.append('%s:%d freeSmallObject' % (FE, s.line))
    t = cxx2c.cpp_resolve(s.text, MACF, 'freeSmallObject')
    t = rw.sub(t, r'static inline void freeSmallObject\(void \*object\)', 'static void freeSmallObject(void *object)', 1, 1, name='sig')
    t = rw.sub(t, r'\(Block \*\)alignDown\(object, slabSize\)', 'BLOCK_OF(object)', 1, 1, name='alignDown on a pointer -> BLOCK_OF: char* arithmetic to the same address (equality with the extracted alignDown is a proof obligation inside the macro)')
    t = rw.sub(t, r'block->checkFreePrecond\(object\);', 'STUB_checkFreePrecond(block, object);', 1, 1, name='callee stub (debug checks)')
    t = rw.sub(t, r'block->isStartupAllocObject\(\)', 'STUB_isStartupAllocObject(block)', 1, 1, name='callee stub')
    t = rw.sub(t, r'\(\(StartupBlock \*\)block\)->free\(object\);', 'STUB_startupFree(block, object);', 1, 1, name='callee stub')
    t = rw.sub(t, r'block->isOwnedByCurrentThread\(\)', 'STUB_isOwnedByCurrentThread(block)', 1, 1, name='callee stub')
    t = rw.sub(t, r'block->(freeOwnObject|freePublicObject)\(', r'Block_\1(block, ', 2, 2, name='method')
    t = rw.sub(t, r'block->(findObjectToFree)\(', r'Block_\1(block, ', 0, name='method (optional)')
    out.append(rw.std(t))
    common.write(ctx, 'free_small.inc', '\n'.join(out) + '\n')
    # reallocAligned
    for pat, what in ((r'size_t\s+objectSize;\s*// the size requested by a client', 'LargeMemoryBlock::objectSize'), (r'size_t\s+unalignedSize; // the size requested from backend', 'LargeMemoryBlock::unalignedSize'),
                      (r'struct LargeObjectHdr \{\s*LargeMemoryBlock \*memoryBlock;', 'LargeObjectHdr::memoryBlock')):
        if not re.search(pat, load(TI)):
            raise ExtractionBreak('tbbmalloc_internal.h: %s changed' % what)
    s = slice_block(FE, r'static void \*reallocAligned\(MemoryPool \*memPool, void \*ptr,\s*size_t newSize, size_t alignment = 0\)')
    sliced.append('%s:%d reallocAligned' % (FE, s.line))
    t = cxx2c.cpp_resolve(s.text, MAC, 'reallocAligned')
    t = rw.sub(t, r'size_t alignment = 0\)', 'size_t alignment)', 1, 1, name='default-arg dropped')
    t = rw.sub(t, r'isLargeObject<ourMem>\(ptr\)', 'STUB_isLargeObject(ptr)', 1, 1, name='callee stub')
    t = rw.sub(t, r'memPool->extMemPool\.backend\.getMaxBinnedSize\(\)', 'STUB_getMaxBinnedSize()', 1, 1, name='callee stub')
    t = rw.sub(t, r'if \(void \*r = memPool->extMemPool\.remap\(ptr, copySize, newSize,\s*([^;]*?)\)\)\s*return r;', r'{ void *r = STUB_remap(ptr, copySize, newSize, \1); if (r) return r; }', 1, 1, name='decl-in-condition + callee stub')
    t = rw.sub(t, r'block->findObjectSize\(ptr\)', 'STUB_findObjectSize(block, ptr)', 1, 1, name='callee stub')
    t = rw.sub(t, r'\(Block \*\)alignDown\(ptr, slabSize\)', '(Block *)alignDown((uintptr_t)ptr, slabSize)', 1, 1, name='bind-template(T:=uintptr_t)')
    t = rw.sub(t, r'\bmemcpy\(', 'VERIF_memcpy(', 1, 1, name='memcpy -> bounds-checking stub')
    t = rw.std(t)
    common.write(ctx, 'realloc.inc', t + '\n')
    fired['tbbmalloc'] = rw.fired
    return sliced, fired


LO_H = 'src/tbbmalloc/large_objects.h'
LO_C = 'src/tbbmalloc/large_objects.cpp'
CUST = 'src/tbbmalloc/Customize.h'
UTILS = 'include/oneapi/tbb/detail/_utils.h'
MACA = dict(MAC); MACA.update({'MALLOC_CHECK_RECURSION': 1, '__TBB_USE_THREAD_SANITIZER': 0, 'COLLECT_STATISTICS': 0})


def extract_aligned(ctx, sliced, fired):
    """allocateAligned, internalMsize, Block::findObjectSize/getSize, isLargeObject<>, getFromLLOCache and the large-object bin arithmetic"""
    rw = Rewriter('aligned')
    out = []
    # pointer instantiations of alignUp / alignDown
    for name in ('alignDown', 'alignUp'):
        s = slice_block(SU, r'static inline T %s\s*\(T arg, uintptr_t alignment\)' % name)
        t = rw.sub(s.text, r'static inline T %s\s*\(T arg, uintptr_t alignment\)' % name, 'static inline void* %s_ptr(void* arg, uintptr_t alignment)' % name, 1, 1, name='bind-template(T:=void*)')
        t = rw.sub(t, r'\bT\(', '(void*)(', 1, 1, name='bind-template(T:=void*)')
        out.append(t)
    s = slice_block(UTILS, r'constexpr bool is_power_of_two\( IntegerType arg \)')
    sliced.append('%s:%d is_power_of_two' % (UTILS, s.line))
    t = rw.sub(s.text, r'constexpr bool is_power_of_two\( IntegerType arg \)', 'static bool isPowerOfTwo(uintptr_t arg)', 1, 1, name='sig (Customize.h isPowerOfTwo forwards to it) + bind-template(IntegerType:=uintptr_t)')
    t = rw.sub(t, r'(?s)static_assert\(std::is_integral<IntegerType>::value,.*?\);', 'RG_NOP();', 1, 1, name='static_assert on the template type -> RG_NOP')
    out.append(t)
    if not re.search(r'static inline bool isPowerOfTwo\(uintptr_t arg\) \{\s*return tbb::detail::is_power_of_two\(arg\);', load(CUST)):
        raise ExtractionBreak('Customize.h: isPowerOfTwo no longer forwards to is_power_of_two')
    common.write(ctx, 'alignp.inc', '\n'.join(out) + '\n')
    out = []
    # back references: the index type and its accessors
    for pat, what in ((r'main_t main;\s*// index in BackRefMain\s*uint16_t largeObj:1;\s*// is this object "large"\?\s*uint16_t offset\s*:15;', 'BackRefIdx layout'),
                      (r'enum MemoryOrigin \{\s*ourMem,[^}]*unknownMem', 'MemoryOrigin'), (r'const uint16_t startupAllocObjSizeMark = ~\(uint16_t\)0;', 'startupAllocObjSizeMark'),
                      (r'struct LargeMemoryBlock : public BlockI \{\s*MemoryPool\s*\*pool;', 'LargeMemoryBlock layout'), (r'intptr_t\s+blockState\[2\];', 'BlockI layout'),
                      (r'unsigned\s+currCacheIdx;', 'TLSData::currCacheIdx')):
        if not re.search(pat, load(TI) + load(FE)):
            raise ExtractionBreak('tbbmalloc: %s changed' % what)
    s = slice_stmt(FE, r'const uint16_t startupAllocObjSizeMark\s*=')
    m = re.match(r'const uint16_t (\w+)\s*=\s*(.*);', s.text, re.S)
    if not m:
        raise ExtractionBreak('cannot parse startupAllocObjSizeMark')
    mark = '#define %s ((uint16_t)(%s))' % (m.group(1), m.group(2).strip())
    rw.fired['const-global->#define'] = 1
    s = slice_block(TI, r'BackRefIdx dereference\(const BackRefIdx\* ptr\)', nth=1)
    sliced.append('%s:%d dereference' % (TI, s.line))
    out.append('static ' + s.text)
    s = slice_block(TI, r'bool isLargeObject\(\) const')
    sliced.append('%s:%d BackRefIdx::isLargeObject' % (TI, s.line))
    out.append(rw.sub(s.text, r'bool isLargeObject\(\) const \{ return largeObj; \}', 'static bool BackRefIdx_isLargeObject(const BackRefIdx *self) { return self->largeObj; }', 1, 1, name='sig + field'))
    s = slice_block(FE, r'static inline BackRefIdx safer_dereference \(const BackRefIdx \*ptr\)')
    sliced.append('%s:%d safer_dereference' % (FE, s.line))
    out.append(cxx2c.cpp_resolve(s.text, MACA, 'safer_dereference'))
    s = slice_block(FE, r'template<MemoryOrigin memOrigin>\s*bool isLargeObject\(void \*object\)')
    sliced.append('%s:%d isLargeObject<memOrigin>' % (FE, s.line))
    t = rw.sub(s.text, r'template<MemoryOrigin memOrigin>\s*bool isLargeObject\(void \*object\)', 'static bool isLargeObject(const int memOrigin, void *object)', 1, 1, name='template enum -> parameter')
    t = rw.sub(t, r'\bgetBackRef\(', 'STUB_getBackRef(', 0, name='callee stub (the back-reference table)')
    t = rw.sub(t, r'\bidx\.isLargeObject\(\)', 'BackRefIdx_isLargeObject(&idx)', 0, name='method')
    out.append(rw.std(t))
    common.write(ctx, 'recog.inc', '\n'.join(out) + '\n')
    out = [mark]
    # slab object size
    s = slice_block(FE, r'bool isStartupAllocObject\(\) const')
    sliced.append('%s:%d Block::isStartupAllocObject' % (FE, s.line))
    out.append(rw.sub(s.text, r'bool isStartupAllocObject\(\) const \{ return objectSize == startupAllocObjSizeMark; \}', 'static bool Block_isStartupAllocObject(const Block *self) { return self->objectSize == startupAllocObjSizeMark; }', 1, 1, name='sig + field'))
    s = slice_block(FE, r'unsigned int getSize\(\) const')
    sliced.append('%s:%d Block::getSize' % (FE, s.line))
    t = rw.sub(s.text, r'unsigned int getSize\(\) const', 'static unsigned int Block_getSize(const Block *self)', 1, 1, name='sig')
    t = rw.sub(t, r'\bisStartupAllocObject\(\)', 'Block_isStartupAllocObject(self)', 2, 2, name='method')
    t = rw.sub(t, r'(?<![\w.>])(objectSize)\b', r'self->\1', 2, name='field')
    t = rw.asserts(t, 1, macro='MALLOC_ASSERT')
    out.append(t)
    s = slice_block(FE, r'size_t Block::findObjectSize\(void \*object\) const')
    sliced.append('%s:%d Block::findObjectSize' % (FE, s.line))
    t = cxx2c.cpp_resolve(s.text, MACA, 'findObjectSize')
    t = rw.sub(t, r'size_t Block::findObjectSize\(void \*object\) const', 'static size_t Block_findObjectSize(const Block *self, void *object)', 1, 1, name='sig')
    t = rw.sub(t, r'\bgetSize\(\)', 'Block_getSize(self)', 1, 1, name='method')
    t = rw.sub(t, r'StartupBlock::msize\(object\)', 'STUB_StartupBlock_msize(object)', 1, 1, name='callee stub (startup allocator)')
    t = rw.sub(t, r'\bfindObjectToFree\(object\)', 'Block_findObjectToFree(self, object)', 0, name='method')
    t = rw.asserts(t, 0, macro='MALLOC_ASSERT')
    out.append(t)
    s = slice_block(FE, r'static size_t internalMsize\(void\* ptr\)')
    sliced.append('%s:%d internalMsize' % (FE, s.line))
    t = rw.sub(s.text, r'isLargeObject<ourMem>\(ptr\)', 'isLargeObject(ourMem, ptr)', 0, name='template-arg -> argument')
    t = rw.sub(t, r'\(Block\*\)alignDown\(ptr, slabSize\)', '(Block*)alignDown_ptr(ptr, slabSize)', 0, name='bind-template(T:=void*)')
    t = rw.sub(t, r'block->findObjectSize\(ptr\)', 'Block_findObjectSize(block, ptr)', 0, name='method')
    t = rw.asserts(t, 0, macro='MALLOC_ASSERT')
    out.append(t)
    common.write(ctx, 'msize.inc', '\n'.join(out) + '\n')
    # allocateAligned
    s = slice_block(FE, r'static void \*allocateAligned\(MemoryPool \*memPool, size_t size, size_t alignment\)')
    sliced.append('%s:%d allocateAligned' % (FE, s.line))
    t = s.text
    t = rw.sub(t, r'\bisMallocInitialized\(\)', 'STUB_isMallocInitialized()', 1, 1, name='callee stub')
    t = rw.sub(t, r'\bdoInitialization\(\)', 'STUB_doInitialization()', 1, 1, name='callee stub')
    t = rw.sub(t, r'alignUp\(unaligned, alignment\)', 'alignUp_ptr(unaligned, alignment)', 0, name='bind-template(T:=void*)')
    t = rw.sub(t, r'memPool->getTLS\(\s*true\)', 'STUB_getTLS(memPool, true)', 1, 1, name='callee stub')
    t = rw.sub(t, r'memPool->getFromLLOCache\(', 'MemoryPool_getFromLLOCache(memPool, ', 0, name='method')
    t = rw.sub(t, r'(?m)^(\s*LargeObjAlloc:)\s*$', r'\1 ;', 0, name='label before a declaration gets an empty statement (C grammar)')
    t = rw.asserts(t, 0, macro='MALLOC_ASSERT')
    t = rw.std(t)
    common.write(ctx, 'aligned.inc', t + '\n')
    fired['aligned'] = rw.fired


def with_literals_protected(text, fn):
    """apply fn to text with string literals replaced by comma-free placeholders (the assert rule splits arguments at commas)"""
    lits = []

    def stash(mm):
        lits.append(mm.group(0))
        return '"@LIT%d@"' % (len(lits) - 1)
    text = re.sub(r'"(?:[^"\\\n]|\\.)*"', stash, text)
    text = fn(text)
    return re.sub(r'"@LIT(\d+)@"', lambda mm: lits[int(mm.group(1))], text)


def extract_lloc(ctx, sliced, fired):
    """MemoryPool::getFromLLOCache and the bin arithmetic of the large-object cache (alignToBin / sizeToIdx of the arithmetic and the geometric bins)"""
    rw = Rewriter('lloc')
    H = load(LO_H)
    out = []
    m = re.search(r'static const size_t minLargeSize = ([^,;]+),\s*maxLargeSize = ([^,;]+),\s*(?://[^\n]*\n\s*)*maxHugeSize = ([^;]+);', cxx2c.strip_comments(H))
    if not m:
        raise ExtractionBreak('large_objects.h: minLargeSize/maxLargeSize/maxHugeSize declaration changed')
    for n, v in zip(('minLargeSize', 'maxLargeSize', 'maxHugeSize'), m.groups()):
        v = rw.sub(v.strip(), r'tbb::detail::select_size_t_constant<([^<>]*)>::value', r'VERIF_SELECT_SIZE_T(\1)', 0, name='select_size_t_constant<u, ull>::value -> macro (sizeof(size_t) == 8 picks ull; value cross-checked natively in tv)')
        out.append('#define %s ((size_t)(%s))' % (n, v))
    for cls, pre in (('LargeBinStructureProps', 'LargeBS'), ('HugeBinStructureProps', 'HugeBS')):
        m = re.search(r'typedef %s<(\w+), (\w+)> %sProps;' % (cls, pre), H)
        if not m:
            raise ExtractionBreak('large_objects.h: typedef of %sProps changed' % pre)
        out.append('#define %s_MIN_SIZE (%s)\n#define %s_MAX_SIZE (%s)' % (pre, m.group(1), pre, m.group(2)))
        rw.fired['bind-template(MIN_SIZE, MAX_SIZE)'] = rw.fired.get('bind-template(MIN_SIZE, MAX_SIZE)', 0) + 1
        body = slice_block(LO_H, r'struct %s \{' % cls).text
        names = []
        for cm in re.finditer(r'static const (?:size_t|unsigned|int)\s+((?:\w+\s*=\s*[^,;]+,?\s*)+);', body):
            for one in cxx2c.split_args(cm.group(1)):
                k, v = [x.strip() for x in one.split('=', 1)]
                names.append((k, v))
        if not names:
            raise ExtractionBreak('%s: no constants found' % cls)
        allk = [k for k, _ in names]
        for k, v in names:
            v = re.sub(r'Log2<(\w+)>::value', r'VERIF_LOG2(\1)', v)
            v = re.sub(r'\b(%s|MIN_SIZE|MAX_SIZE)\b' % '|'.join(allk), pre + r'_\1', v)
            out.append('#define %s_%s (%s)' % (pre, k, v))
            rw.fired['class-constant->#define'] = rw.fired.get('class-constant->#define', 0) + 1
        for fn, ret in (('alignToBin', 'size_t'), ('sizeToIdx', 'int')):
            s = slice_block(LO_H, r'static %s %s\(size_t size\)' % (ret, fn), within=r'struct %s \{' % cls)
            sliced.append('%s:%d %s::%s' % (LO_H, s.line, cls, fn))
            t = rw.sub(s.text, r'static %s %s\(size_t size\)' % (ret, fn), 'static %s %s_%s(size_t size)' % (ret, pre, fn), 1, 1, name='sig')
            t = with_literals_protected(t, lambda x: rw.asserts(rw.sub(x, r'\b(%s)\b' % '|'.join(allk), pre + r'_\1', 1, name='class constant'), 0, macro='MALLOC_ASSERT'))
            out.append(t)
    for fn in ('alignToBin', 'sizeToIdx'):
        if not re.search(r'static (?:size_t|int) %s\(size_t size\) \{\s*return Props::%s\(size\);' % (fn, fn), H):
            raise ExtractionBreak('LargeObjectCacheImpl::%s no longer forwards to Props::%s' % (fn, fn))
    if not re.search(r'static const uint32_t numBins = Props::NumBins;', H):
        raise ExtractionBreak('LargeObjectCacheImpl::numBins is no longer Props::NumBins')
    s = slice_block(CUST, r'inline intptr_t BitScanRev\(uintptr_t x\)')
    sliced.append('%s:%d BitScanRev' % (CUST, s.line))
    t = rw.sub(s.text, r'inline intptr_t BitScanRev\(uintptr_t x\)', 'static intptr_t BitScanRev(uintptr_t x)', 1, 1, name='sig')
    t = rw.sub(t, r'tbb::detail::log2\(', 'tbb_log2(', 1, 1, name='ns-strip')
    t = rw.casts(t, 1)
    out.insert(0, t)
    log2_txt, f = common.log2_c(ctx, sliced)
    out.insert(0, log2_txt)
    fired['log2'] = f
    for fn, ret in (('alignToBin', 'size_t'), ('sizeToIdx', 'int')):
        s = slice_block(LO_C, r'%s LargeObjectCache::%s\(size_t size\)' % (ret, fn))
        sliced.append('%s:%d LargeObjectCache::%s' % (LO_C, s.line, fn))
        t = rw.sub(s.text, r'%s LargeObjectCache::%s\(size_t size\)' % (ret, fn), 'static %s LargeObjectCache_%s(size_t size)' % (ret, fn), 1, 1, name='sig')
        t = rw.sub(t, r'LargeCacheType::(alignToBin|sizeToIdx)\(', r'LargeBS_\1(', 1, 1, name='LargeObjectCacheImpl<Props>::f forwards to Props::f')
        t = rw.sub(t, r'HugeCacheType::(alignToBin|sizeToIdx)\(', r'HugeBS_\1(', 1, 1, name='LargeObjectCacheImpl<Props>::f forwards to Props::f')
        t = rw.sub(t, r'LargeCacheType::numBins', 'LargeBS_NumBins', 0, name='numBins == Props::NumBins')
        t = rw.asserts(t, 0, macro='MALLOC_ASSERT')
        out.append(t)
    common.write(ctx, 'locbins.inc', '\n'.join(out) + '\n')
    s = slice_block(FE, r'void \*MemoryPool::getFromLLOCache\(TLSData\* tls, size_t size, size_t alignment\)')
    sliced.append('%s:%d MemoryPool::getFromLLOCache' % (FE, s.line))
    t = rw.sub(s.text, r'void \*MemoryPool::getFromLLOCache\(TLSData\* tls, size_t size, size_t alignment\)', 'static void *MemoryPool_getFromLLOCache(MemoryPool *self, TLSData* tls, size_t size, size_t alignment)', 1, 1, name='sig')
    t = rw.sub(t, r'LargeObjectCache::alignToBin\(', 'LargeObjectCache_alignToBin(', 1, 1, name='ns-strip')
    t = rw.sub(t, r'tls->markUsed\(\);', 'STUB_tls_markUsed(tls);', 0, name='callee stub')
    t = rw.sub(t, r'tls->lloc\.get\(', 'STUB_lloc_get(tls, ', 0, name='callee stub (thread-local cache of large blocks: exact-size match)')
    t = rw.sub(t, r'extMemPool\.mallocLargeObject\(this, ', 'STUB_mallocLargeObject(self, ', 0, name='callee stub (global cache / backend)')
    t = rw.sub(t, r'\bsetBackRef\(', 'STUB_setBackRef(', 0, name='callee stub (the back-reference table)')
    t = rw.sub(t, r'isLargeObject<unknownMem>\(', 'isLargeObject(unknownMem, ', 0, name='template-arg -> argument')
    t = with_literals_protected(t, lambda x: rw.asserts(x, 0, macro='MALLOC_ASSERT'))
    t = rw.std(t)
    # the block header and the object header are reached through accessor macros: the harness keeps these two records as ghost memory, so that the block may sit at ANY address
    t = rw.sub(t, r'\b(lmb|header)->(\w+) = ([^;]+);', lambda m: '%s_WR(%s, %s, %s);' % ('LMB' if m.group(1) == 'lmb' else 'HDR', m.group(1), m.group(2), m.group(3)), 0, name='store into LargeMemoryBlock / LargeObjectHdr -> LMB_WR / HDR_WR')
    t = rw.sub(t, r'\b(lmb|header)->(\w+)\b', lambda m: '%s_RD(%s, %s)' % ('LMB' if m.group(1) == 'lmb' else 'HDR', m.group(1), m.group(2)), 1, name='load from LargeMemoryBlock / LargeObjectHdr -> LMB_RD / HDR_RD')
    common.write(ctx, 'lloc.inc', t + '\n')
    # isLargeObject once more, its header loads behind the same accessors (the text is otherwise the one of recog.inc)
    s = slice_block(FE, r'template<MemoryOrigin memOrigin>\s*bool isLargeObject\(void \*object\)')
    t = rw.sub(s.text, r'template<MemoryOrigin memOrigin>\s*bool isLargeObject\(void \*object\)', 'static bool isLargeObject(const int memOrigin, void *object)', 1, 1, name='template enum -> parameter')
    t = rw.sub(t, r'\bgetBackRef\(', 'STUB_getBackRef(', 0, name='callee stub (the back-reference table)')
    t = rw.sub(t, r'\bidx\.isLargeObject\(\)', 'BackRefIdx_isLargeObject(&idx)', 0, name='method')
    t = rw.sub(t, r'\b(?:safer_)?dereference\(&header->backRefIdx\)', 'HDR_RD(header, backRefIdx)', 2, 2, name='dereference(&header->f) (a plain copy: `return *ptr`) -> HDR_RD')
    t = rw.sub(t, r'\bheader->(\w+)\b', r'HDR_RD(header, \1)', 0, name='load from LargeObjectHdr -> HDR_RD')
    s2 = slice_block(TI, r'bool isLargeObject\(\) const')
    t2 = rw.sub(s2.text, r'bool isLargeObject\(\) const \{ return largeObj; \}', 'static bool BackRefIdx_isLargeObject(const BackRefIdx *self) { return self->largeObj; }', 1, 1, name='sig + field')
    common.write(ctx, 'recog_acc.inc', t2 + '\n' + rw.std(t) + '\n')
    fired['lloc'] = rw.fired


MACP = dict(MAC); MACP.update({'FREELIST_NONBLOCKING': 1, 'COLLECT_STATISTICS': 0, 'MALLOC_CHECK_RECURSION': 1, 'MALLOC_DEBUG': 1, 'TBB_REVAMP_TODO': 0})


def extract_pfl(ctx, sliced, fired):
    """the public free list protocol: Block::freePublicObject (whole), privatizePublicFreeList, readyToShare, shareOrphaned, Bin::addPublicFreeListBlock, and the pop side Block::allocateFromFreeList"""
    rw = Rewriter('pfl')
    out = []
    s = slice_stmt(FE, r'const intptr_t UNUSABLE\s*=')
    m = re.match(r'const intptr_t UNUSABLE\s*=\s*(.*);', s.text, re.S)
    if not m:
        raise ExtractionBreak('cannot parse UNUSABLE')
    out.append('#define UNUSABLE ((intptr_t)(%s))' % m.group(1).strip())
    rw.fired['const-global->#define'] = 1
    for name in ('isSolidPtr', 'isNotForUse'):
        s = slice_block(FE, r'inline bool %s\( void\* ptr \)' % name)
        sliced.append('%s:%d %s' % (FE, s.line, name))
        out.append(rw.sub(s.text, r'inline bool %s\( void\* ptr \)' % name, 'static bool %s(void* ptr)' % name, 1, 1, name='sig'))
    FIELDS = r'(?<![\w.>])(publicFreeList|nextPrivatizable|allocatedCount|objectSize|freeList|previous|bumpPtr|isFull)\b'

    def common_rules(t, fname, nloops=None):
        t = rw.sub(t, r'STAT_increment\([^;]*\);', 'RG_NOP();', 0, name='stat->RG_NOP')
        t = rw.sub(t, r'MALLOC_ITT_SYNC_(?:RELEASING|ACQUIRED)\([^;]*\);', 'RG_NOP();', 0, name='itt->RG_NOP')
        t = rw.atomics(t, ['publicFreeList', 'nextPrivatizable', 'mailbox'], 1)
        t = rw.sub(t, FIELDS, r'self->\1', 0, name='field')
        t = with_literals_protected(t, lambda x: rw.asserts(x, 0, macro='MALLOC_ASSERT'))
        t = rw.casts(t, 0)
        t = rw.std(t)
        t = with_literals_protected(t, lambda x: rw.number_sites(x, fname, by_kind=True))
        t = cxx2c.tag_loops(t, fname, rw, expect=nloops)
        return t
    # pop side
    s = slice_block(FE, r'FreeObject \*Block::allocateFromFreeList\(\)')
    sliced.append('%s:%d Block::allocateFromFreeList' % (FE, s.line))
    t = rw.sub(s.text, r'FreeObject \*Block::allocateFromFreeList\(\)', 'FreeObject *Block_allocateFromFreeList(Block *self)', 1, 1, name='sig')
    t = rw.sub(t, r'\bresult->next\b', 'FO_NEXT(result)', 0, name='load of a free object\'s link -> FO_NEXT (ghost list)')
    t = rw.sub(t, r'STAT_increment\([^;]*\);', 'RG_NOP();', 0, name='stat->RG_NOP')
    t = rw.sub(t, FIELDS, r'self->\1', 0, name='field')
    t = rw.asserts(t, 0, macro='MALLOC_ASSERT')
    out.append(rw.std(t))
    # privatise
    s = slice_block(FE, r'void Block::privatizePublicFreeList\( bool reset \)')
    sliced.append('%s:%d Block::privatizePublicFreeList' % (FE, s.line))
    t = cxx2c.cpp_resolve(s.text, MACP, 'privatizePublicFreeList')
    t = rw.sub(t, r'void Block::privatizePublicFreeList\( bool reset \)', 'void Block_privatizePublicFreeList(Block *self, bool reset)', 1, 1, name='sig')
    t = rw.sub(t, r'isNotForUse\(publicFreeList\)', 'isNotForUse(publicFreeList.load(std::memory_order_relaxed))', 0, name='implicit atomic load in assert')
    t = rw.sub(t, r'\bisOwnedByCurrentThread\(\)', 'STUB_isOwnedByCurrentThread(self)', 0, name='callee stub')
    t = rw.sub(t, r'\btemp->next = ([^;]+);', r'FO_SET_NEXT(temp, \1);', 0, name='store into a free object -> FO_SET_NEXT (ghost list)')
    t = rw.sub(t, r'\btemp->next\b', 'FO_NEXT(temp)', 0, name='load of a free object\'s link -> FO_NEXT (ghost list)')
    out.append(common_rules(t, 'ppfl', 1))
    # push, whole function
    s = slice_block(FE, r'(?m)^void Block::freePublicObject \(FreeObject \*objectToFree\)')
    sliced.append('%s:%d Block::freePublicObject (with the mailbox hand-off)' % (FE, s.line))
    t = cxx2c.cpp_resolve(s.text, MACP, 'freePublicObject')
    t = rw.sub(t, r'void Block::freePublicObject \(FreeObject \*objectToFree\)', 'void Block_freePublicObject2(Block *self, FreeObject *objectToFree)', 1, 1, name='sig')
    t = rw.sub(t, r'FreeObject\* localPublicFreeList\{\};', 'FreeObject* localPublicFreeList = NULL;', 1, 1, name='brace-init')
    t = rw.sub(t, r'\bobjectToFree->next = ([^;]+);', r'FO_SET_NEXT(objectToFree, \1);', 0, name='store into a free object -> FO_SET_NEXT (ghost list)')
    t = rw.sub(t, r'theBin->addPublicFreeListBlock\(this\);', 'Bin_addPublicFreeListBlock(theBin, self);', 0, name='method')
    out_fpo = common_rules(t, 'fpo2', 1)
    # the owner's side of orphaning
    s = slice_block(FE, r'bool Block::readyToShare\(\)')
    sliced.append('%s:%d Block::readyToShare' % (FE, s.line))
    t = cxx2c.cpp_resolve(s.text, MACP, 'readyToShare')
    t = rw.sub(t, r'bool Block::readyToShare\(\)', 'bool Block_readyToShare(Block *self)', 1, 1, name='sig')
    out.append(common_rules(t, 'rts', 0))
    s = slice_block(FE, r'void Block::shareOrphaned\(intptr_t binTag, unsigned index\)')
    sliced.append('%s:%d Block::shareOrphaned' % (FE, s.line))
    t = rw.sub(s.text, r'void Block::shareOrphaned\(intptr_t binTag, unsigned index\)', 'void Block_shareOrphaned(Block *self, intptr_t binTag, unsigned index)', 1, 1, name='sig')
    t = rw.sub(t, r'tbb::detail::suppress_unused_warning\(index\);', 'RG_NOP();', 1, 1, name='unused-warning helper -> RG_NOP')
    t = rw.sub(t, r'\bmarkOrphaned\(\);', 'STUB_markOrphaned(self);', 0, name='callee stub (clears tlsPtr)')
    t = rw.sub(t, r'\breadyToShare\(\)', 'Block_readyToShare(self)', 0, name='method')
    t = rw.sub(t, r'\bdo_yield\(\);', 'RG_NOP();', 0, name='yield -> RG_NOP')
    out.append(common_rules(t, 'so', 1))
    s = slice_block(FE, r'void Bin::addPublicFreeListBlock\(Block\* block\)')
    sliced.append('%s:%d Bin::addPublicFreeListBlock' % (FE, s.line))
    t = rw.sub(s.text, r'void Bin::addPublicFreeListBlock\(Block\* block\)', 'void Bin_addPublicFreeListBlock(Bin *self, Block* block)', 1, 1, name='sig')
    t = rw.scoped_locks(t, r'MallocMutex::scoped_lock scoped_cs\((mailLock)\);', 1, 1)
    t = rw.sub(t, r'(?<![\w.>])(mailLock|mailbox)\b', r'self->\1', 2, name='field')
    t = rw.atomics(t, ['nextPrivatizable', 'mailbox'], 1)
    t = rw.std(t)
    t = rw.number_sites(t, 'apfb', by_kind=True)
    out.append(t)
    out.append(out_fpo)
    common.write(ctx, 'pfl.inc', '\n'.join(out) + '\n')
    fired['pfl'] = rw.fired


BE = 'src/tbbmalloc/backend.cpp'
BH = 'src/tbbmalloc/backend.h'


def extract_backend(ctx, sliced, fired):
    """backend: GuardedSize (the lock-or-size word of the boundary tags), FreeBlock::tryLockBlock, Backend::splitBlock"""
    rw = Rewriter('backend')
    out = []
    GS = r'class GuardedSize'
    s = slice_block(BE, r'enum State \{', within=GS)
    sliced.append('%s:%d GuardedSize::State' % (BE, s.line))
    out.append(rw.sub(s.text, r'enum State \{', 'enum GuardedSize_State {', 1, 1, name='sig') + ';')
    common.write(ctx, 'gsenum.inc', out[0] + '\n')
    if not re.search(r'class GuardedSize : tbb::detail::no_copy \{\s*std::atomic<uintptr_t> value;', load(BE)):
        raise ExtractionBreak('GuardedSize layout changed')
    if not re.search(r'class BlockMutexes \{\s*protected:\s*GuardedSize myL,\s*(?://[^\n]*\n)?\s*leftL;', load(BE)):
        raise ExtractionBreak('BlockMutexes layout changed')

    def gs_method(name, sig, csig, nloops):
        s = slice_block(BE, sig, within=GS)
        sliced.append('%s:%d GuardedSize::%s' % (BE, s.line, name))
        t = rw.sub(s.text, sig, csig, 1, 1, name='sig')
        t = rw.atomics(t, ['value'], 1)
        t = rw.sub(t, r'(?<![\w.>])value\b', 'self->value', 1, name='field')
        t = with_literals_protected(t, lambda x: rw.asserts(x, 0, macro='MALLOC_ASSERT'))
        t = rw.std(t)
        t = with_literals_protected(t, lambda x: rw.number_sites(x, 'gs_' + name, by_kind=True))
        return cxx2c.tag_loops(t, 'gs_' + name, rw, expect=nloops)
    out.append(gs_method('initLocked', r'void initLocked\(\)', 'static void GuardedSize_initLocked(GuardedSize *self)', 0))
    out.append(gs_method('makeCoalscing', r'void makeCoalscing\(\)', 'static void GuardedSize_makeCoalscing(GuardedSize *self)', 0))
    out.append(gs_method('tryLock', r'size_t tryLock\(State state\)', 'static size_t GuardedSize_tryLock(GuardedSize *self, enum GuardedSize_State state)', 1))
    out.append(gs_method('unlock', r'void unlock\(size_t size\)', 'static void GuardedSize_unlock(GuardedSize *self, size_t size)', 0))
    common.write(ctx, 'gs.inc', '\n'.join(out) + '\n')
    out_gs, out = out, []
    FB = r'class FreeBlock : BlockMutexes'

    def fb_method(name, sig, csig):
        s = slice_block(BE, sig, within=FB)
        sliced.append('%s:%d FreeBlock::%s' % (BE, s.line, name))
        t = rw.sub(s.text, sig, csig, 1, 1, name='sig')
        t = rw.sub(t, r'rightNeig\(([^()]*)\)->leftL\.(\w+)\(\)', r'GuardedSize_\2(&FreeBlock_rightNeig(self, \1)->leftL)', 0, name='member of the right neighbour')
        t = rw.sub(t, r'rightNeig\(([^()]*)\)->(\w+)\(', r'FreeBlock_\2(FreeBlock_rightNeig(self, \1), ', 0, name='method of the right neighbour')
        t = rw.sub(t, r'\b(myL|leftL)\.(\w+)\(\)', r'GuardedSize_\2(&self->\1)', 0, name='member-object method')
        t = rw.sub(t, r'\b(myL|leftL)\.(\w+)\(', r'GuardedSize_\2(&self->\1, ', 0, name='member-object method')
        t = rw.sub(t, r'(?<![\w.>:_])(trySetMeUsed|setMeFree|trySetLeftUsed|setLeftFree)\(', r'FreeBlock_\1(self, ', 0, name='method')
        t = rw.sub(t, r'GuardedSize::State\b', 'enum GuardedSize_State', 0, name='ns-strip')
        t = rw.sub(t, r'GuardedSize::', '', 0, name='ns-strip')
        t = rw.sub(t, r'\(uintptr_t\)this', '(uintptr_t)self', 0, name='this')
        t = rw.sub(t, r'(?<![\w.>])(sizeTmp|nextToFree)\b', r'self->\1', 0, name='field')
        t = with_literals_protected(t, lambda x: rw.asserts(x, 0, macro='MALLOC_ASSERT'))
        return rw.std(t)
    out.append(fb_method('rightNeig', r'FreeBlock \*rightNeig\(size_t sz\) const', 'static FreeBlock *FreeBlock_rightNeig(const FreeBlock *self, size_t sz)'))
    out.append(fb_method('leftNeig', r'FreeBlock \*leftNeig\(size_t sz\) const', 'static FreeBlock *FreeBlock_leftNeig(const FreeBlock *self, size_t sz)'))
    out.append(fb_method('setMeFree', r'void setMeFree\(size_t size\)', 'static void FreeBlock_setMeFree(FreeBlock *self, size_t size)'))
    out.append(fb_method('trySetMeUsed', r'size_t trySetMeUsed\(GuardedSize::State s\)', 'static size_t FreeBlock_trySetMeUsed(FreeBlock *self, enum GuardedSize_State s)'))
    out.append(fb_method('setLeftFree', r'void setLeftFree\(size_t sz\)', 'static void FreeBlock_setLeftFree(FreeBlock *self, size_t sz)'))
    out.append(fb_method('trySetLeftUsed', r'size_t trySetLeftUsed\(GuardedSize::State s\)', 'static size_t FreeBlock_trySetLeftUsed(FreeBlock *self, enum GuardedSize_State s)'))
    out.append(fb_method('tryLockBlock', r'size_t tryLockBlock\(\)', 'static size_t FreeBlock_tryLockBlock(FreeBlock *self)'))
    if not re.search(r'const size_t FreeBlock::minBlockSize = sizeof\(FreeBlock\);', load(BE)):   # pattern-check minBlockSize
        raise ExtractionBreak('FreeBlock::minBlockSize is no longer sizeof(FreeBlock)')
    common.write(ctx, 'fbm.inc', '\n'.join(out) + '\n')
    common.write(ctx, 'guard.inc', '\n'.join(out_gs + out) + '\n')
    # splitBlock
    out = []
    s = slice_block(BH, r'static bool toAlignedBin\(FreeBlock \*block, size_t size\)')
    sliced.append('%s:%d Backend::toAlignedBin' % (BH, s.line))
    out.append(s.text)
    s = slice_block(BE, r'FreeBlock \*Backend::splitBlock\(FreeBlock \*fBlock, int num, size_t size, bool blockIsAligned, bool needAlignedBlock\)')
    sliced.append('%s:%d Backend::splitBlock' % (BE, s.line))
    t = rw.sub(s.text, r'FreeBlock \*Backend::splitBlock\(FreeBlock \*fBlock, int num, size_t size, bool blockIsAligned, bool needAlignedBlock\)\s*\{',
               'static FreeBlock *Backend_splitBlock(FreeBlock *fBlock, int num, size_t size, bool blockIsAligned, bool needAlignedBlock)\n{\n    size_t splitSize;', 1, 1, name='sig + declaration hoisted out of an if-condition (C grammar)')
    t = rw.sub(t, r'\} else if \(size_t splitSize = ([^\n]*?)\) \{', r'} else if ((splitSize = \1)) {', 0, name='declaration hoisted out of an if-condition (C grammar)')
    t = rw.sub(t, r'extMemPool->fixedPool', 'STUB_fixedPool()', 0, name='callee stub')
    t = rw.sub(t, r'FreeBlock \*newBlock = alignUp\(fBlock, slabSize\);', 'FreeBlock *newBlock = (FreeBlock *)alignUp_ptr(fBlock, slabSize);', 0, name='bind-template(T:=FreeBlock*)')
    t = rw.sub(t, r'\b(\w+)->initHeader\(\);', r'STUB_initHeader(\1);', 0, name='callee stub (locks both guard words of a header inside the block this thread holds)')
    t = rw.sub(t, r'\bcoalescAndPut\(', 'STUB_coalescAndPut(', 0, name='callee stub (gives a piece back to the free bins)')
    t = rw.sub(t, r'FreeBlock::markBlocks\(', 'STUB_markBlocks(', 0, name='callee stub')
    t = rw.sub(t, r'\bfBlock->sizeTmp\b', 'FB_SIZETMP(fBlock)', 0, name='load of FreeBlock::sizeTmp -> accessor (ghost memory: the block may lie at any address)')
    t = with_literals_protected(t, lambda x: rw.asserts(x, 0, macro='MALLOC_ASSERT'))
    out.append(rw.std(t))
    common.write(ctx, 'split.inc', '\n'.join(out) + '\n')
    # doCoalesc: FreeBlock fields through accessors (ghost memory: four blocks in a row at arbitrary addresses), the guard words through the real GuardedSize code
    ACC_W = lambda t: rw.sub(t, r'\b(\w+)->(sizeTmp|blockInBin|nextToFree) = ([^;]+);', r'FB_WR(\1, \2, \3);', 0, name='store into FreeBlock field -> FB_WR (ghost memory)')
    ACC_R = lambda t: rw.sub(t, r'\b(\w+)->(sizeTmp|blockInBin|nextToFree)\b', r'FB_RD(\1, \2)', 0, name='load of FreeBlock field -> FB_RD (ghost memory)')
    out = []
    out.append(ACC_R(ACC_W(fb_method('markCoalescing', r'void markCoalescing\(size_t blockSz\)', 'static void FreeBlock_markCoalescing(FreeBlock *self, size_t blockSz)'))))
    s = slice_block(BE, r'FreeBlock \*Backend::doCoalesc\(FreeBlock \*fBlock, MemRegion \*\*mRegion\)')
    sliced.append('%s:%d Backend::doCoalesc' % (BE, s.line))
    t = rw.sub(s.text, r'FreeBlock \*Backend::doCoalesc\(FreeBlock \*fBlock, MemRegion \*\*mRegion\)', 'static FreeBlock *Backend_doCoalesc(FreeBlock *fBlock, MemRegion **mRegion)', 1, 1, name='sig')
    t = rw.sub(t, r'\b(\w+)->\s*(markCoalescing|trySetLeftUsed|trySetMeUsed|setLeftFree|setMeFree|leftNeig|rightNeig)\(', r'FreeBlock_\2(\1, ', 1, name='method')
    t = rw.sub(t, r'(FreeBlock_rightNeig\([^()]*\))->\s*(trySetLeftUsed|trySetMeUsed|setLeftFree|setMeFree)\(', r'FreeBlock_\2(\1, ', 0, name='method of a neighbour')
    t = rw.sub(t, r'\bcoalescQ\.putBlock\(', 'STUB_coalescQ_putBlock(', 0, name='callee stub (delayed-coalescing queue)')
    t = rw.sub(t, r'(?<![\w.>])removeBlockFromBin\(', 'STUB_removeBlockFromBin(', 0, name='callee stub (takes a free block out of its bin, under the bin lock)')
    t = rw.sub(t, r'static_cast<LastFreeBlock\*>\((\w+)\)->memRegion', r'LFB_MEMREGION(\1)', 0, name='load of LastFreeBlock::memRegion -> accessor')
    t = rw.sub(t, r'\bmemRegion->allocSz\b', 'MR_ALLOCSZ(memRegion)', 0, name='load of MemRegion::allocSz -> accessor')
    t = rw.sub(t, r'GuardedSize::', '', 0, name='ns-strip')
    t = ACC_R(ACC_W(t))
    t, _ = cxx2c.sub_call(t, r'\bMALLOC_ASSERT', lambda m, a: 'MALLOC_ASSERT(%s)' % ', '.join(re.sub(r'\s+', ' ', x) for x in a))   # an assertion spread over two lines: joined (its text becomes the obligation's name)
    t = with_literals_protected(t, lambda x: rw.asserts(x, 0, macro='MALLOC_ASSERT'))
    out.append(rw.std(t))
    common.write(ctx, 'coalesc.inc', '\n'.join(out) + '\n')
    fired['backend'] = rw.fired


def wrap_derefs(rw, text, ids, fields, minc=1):
    """Field accesses through block pointers go through the harness's accessors (which check that the pointer is a block of the list and keep the three header fields in typed
    ghost memory: CBMC cannot dereference a pointer it read back after a loop-contract havoc, and byte-wise access to a block array is out of SAT reach):
        loads   p->f, p->f->g            ->  LMB_RD(p, f), LMB_RD(LMB_RD(p, f), g)
        stores  p->f = e;  p->f->g = e;  ->  LMB_WR(p, f, e);  LMB_WR(LMB_RD(p, f), g, e);
    (p one of `ids`; f, g among `fields`).  Pure re-wrapping: operands, operators and statement order stay as they are.  Stores are behaviour-bearing statements: the rule has
    minimum count 0, a deleted store simply is not there."""
    pat = re.compile(r'(?<![\w>.\)])(%s)((?:->(?:%s)\b)+)' % ('|'.join(ids), '|'.join(fields)))
    n = [0, 0]

    def fn(m):
        e = m.group(1)
        for f in re.findall(r'->(\w+)', m.group(2)):
            e = 'LMB_RD(%s, %s)' % (e, f)
            n[0] += 1
        return e
    text = pat.sub(fn, text)
    # a load that is the whole left-hand side of an assignment statement is a store
    out, pos = [], 0
    for m in re.finditer(r'LMB_RD\(', text):
        if m.start() < pos:
            continue
        k = m.start() - 1
        while k >= 0 and text[k].isspace():
            k -= 1
        if not (k < 0 or text[k] in ';{})' or text[max(0, k - 3):k + 1] == 'else'):
            continue
        c = cxx2c.match_close(text, m.end() - 1, '(', ')')
        am = re.match(r'\s*=(?!=)', text[c + 1:])
        if not am:
            continue
        e = text.find(';', c + 1)
        args = cxx2c.split_args(text[m.end():c])
        out.append(text[pos:m.start()])
        out.append('LMB_WR(%s, %s, %s);' % (', '.join(args[:-1]), args[-1], text[c + 1 + am.end():e].strip()))
        pos = e + 1
        n[1] += 1
    out.append(text[pos:])
    text = ''.join(out)
    rw._rec('load p->f -> LMB_RD(p, f)', n[0] - n[1], minc)
    rw._rec('store p->f = e; -> LMB_WR(p, f, e);', n[1], 0)
    return text


LMB_FIELDS = ['next', 'prev', 'unalignedSize', 'objectSize', 'age', 'backRefIdx', 'pool']


def extract_loc(ctx, sliced, fired):
    """the large-object cache: LargeObjectCache::putList / put / get / sizeInCacheRange, LargeObjectCacheImpl<Props>::putList / get, the unsafe CacheBin operations,
    the put-list pass of the aggregator's OperationPreprocessor, LocalLOCImpl::put / get / externalCleanup, ExtMemoryPool::mallocLargeObject"""
    rw = Rewriter('loc')
    H = cxx2c.strip_comments(load(LO_H))
    m = re.search(r'static const size_t defaultMaxHugeSize = ([^;]+);', H)
    if not m:
        raise ExtractionBreak('large_objects.h: defaultMaxHugeSize changed')
    out = ['#define defaultMaxHugeSize ((size_t)(%s))' % m.group(1).strip()]
    rw.fired['class-constant->#define'] = 1
    s = slice_block(LO_C, r'bool LargeObjectCache::sizeInCacheRange\(size_t size\)')
    sliced.append('%s:%d LargeObjectCache::sizeInCacheRange' % (LO_C, s.line))
    t = rw.sub(s.text, r'bool LargeObjectCache::sizeInCacheRange\(size_t size\)', 'static bool LargeObjectCache_sizeInCacheRange(LargeObjectCache *self, size_t size)', 1, 1, name='sig')
    t = rw.sub(t, r'(?<![\w.>])(hugeSizeThreshold)\b', r'self->\1', 0, name='field')
    out.append(t)
    common.write(ctx, 'locsizerange.inc', '\n'.join(out) + '\n')
    out = []
    # ---- LargeObjectCache::putList: groups a list of freed blocks by bin ----
    s = slice_block(LO_C, r'void LargeObjectCache::putList\(LargeMemoryBlock \*list\)')
    sliced.append('%s:%d LargeObjectCache::putList' % (LO_C, s.line))
    t = rw.sub(s.text, r'void LargeObjectCache::putList\(LargeMemoryBlock \*list\)', 'static void LargeObjectCache_putList(LargeObjectCache *self, LargeMemoryBlock *list)', 1, 1, name='sig')
    t = rw.sub(t, r'extMemPool->backend\.returnLargeObject\(', 'STUB_returnLargeObject(self, ', 0, name='callee stub (hand-over to the back end)')
    t = rw.sub(t, r'\b(large|huge)Cache\.putList\(extMemPool, ', r'STUB_\1Cache_putList(self, ', 0, name='callee stub (hand-over to a cache: LargeObjectCacheImpl<Props>::putList, jobs loc.impl.*)')
    t = rw.sub(t, r'(?<![\w.>:])sizeInCacheRange\(', 'LargeObjectCache_sizeInCacheRange(self, ', 0, name='method')
    t = rw.sub(t, r'(?<![\w.>:])sizeToIdx\(', 'LargeObjectCache_sizeToIdx(', 0, name='method (static)')
    t = wrap_derefs(rw, t, ['curr', 'tail', 'toProcess', 'b', 'n', 'list'], LMB_FIELDS)
    t = rw.std(t)
    t = cxx2c.tag_loops(t, 'locpl', rw, names=[(r'\bcurr\s*=\s*list\b', 'outer'), (r'\bb\s*=\s*toProcess\b', 'inner')])
    out.append(t)
    common.write(ctx, 'locputlist.inc', '\n'.join(out) + '\n')
    # ---- LocalLOCImpl<LOW_MARK, HIGH_MARK>: the thread-local cache of large blocks ----
    out = []
    LL = r'class LocalLOCImpl \{'
    cls = slice_block(FE, LL).text
    m = re.search(r'static const size_t MAX_TOTAL_SIZE = ([^;]+);', cls)
    m2 = re.search(r'typedef LocalLOCImpl<(\d+),\s*(\d+)> LocalLOC;', load(FE))
    if not m or not m2:
        raise ExtractionBreak('LocalLOCImpl: MAX_TOTAL_SIZE / the LocalLOC typedef changed')
    out.append('#define MAX_TOTAL_SIZE ((size_t)(%s))\n#define LOW_MARK (%s)\n#define HIGH_MARK (%s)' % (m.group(1).strip(), m2.group(1), m2.group(2)))
    rw.fired['class-constant / template-arg -> #define'] = 3
    for pat, what in ((r'LargeMemoryBlock \*tail;', 'tail'), (r'std::atomic<LargeMemoryBlock\*> head;', 'head'), (r'size_t\s+totalSize;', 'totalSize'), (r'int\s+numOfBlocks;', 'numOfBlocks')):
        if not re.search(pat, cls):
            raise ExtractionBreak('LocalLOCImpl member %s changed' % what)
    LLF = r'(?<![\w.>])(tail|head|totalSize|numOfBlocks)\b'
    for name, sig, csig, ids in (
            ('put', r'bool LocalLOCImpl<LOW_MARK, HIGH_MARK>::put\(LargeMemoryBlock \*object, ExtMemoryPool \*extMemPool\)', 'static bool LocalLOC_put(LocalLOC *self, LargeMemoryBlock *object, ExtMemoryPool *extMemPool)', ['object', 'localHead', 'tail', 'headToRelease']),
            ('get', r'LargeMemoryBlock \*LocalLOCImpl<LOW_MARK, HIGH_MARK>::get\(size_t size\)', 'static LargeMemoryBlock *LocalLOC_get(LocalLOC *self, size_t size)', ['curr', 'localHead', 'tail', 'res']),
            ('externalCleanup', r'bool LocalLOCImpl<LOW_MARK, HIGH_MARK>::externalCleanup\(ExtMemoryPool \*extMemPool\)', 'static bool LocalLOC_externalCleanup(LocalLOC *self, ExtMemoryPool *extMemPool)', ['localHead'])):
        s = slice_block(FE, sig)
        sliced.append('%s:%d LocalLOCImpl::%s' % (FE, s.line, name))
        t = rw.sub(s.text, sig, csig, 1, 1, name='sig')
        t = rw.sub(t, r'if \(LargeMemoryBlock \*localHead = (head\.exchange\(nullptr\))\) \{', r'{ LargeMemoryBlock *localHead = \1; if (localHead) {', 0, 1, name='decl-in-condition (C grammar)')
        if name == 'externalCleanup':
            t = rw.sub(t, r'return true;\s*\}', 'return true; } }', 1, 1, name='decl-in-condition (C grammar): closing brace')
        t = rw.sub(t, r'extMemPool->freeLargeObjectList\(', 'STUB_freeLargeObjectList(extMemPool, ', 0, name='callee stub (ExtMemoryPool::freeLargeObjectList -> LargeObjectCache::putList: jobs loc.putList.*)')
        t = wrap_derefs(rw, t, ids, LMB_FIELDS, minc=0)
        t = rw.atomics(t, ['head'], 1)
        t = rw.sub(t, LLF, r'self->\1', 1, name='field')
        t = rw.std(t)
        t = rw.number_sites(t, 'lloc_' + name, by_kind=True)
        t = cxx2c.tag_loops(t, 'lloc_' + name, rw, names=[(r'\bwhile\s*\(\s*totalSize|self->totalSize >', 'cut'), (r'\bcurr\s*=\s*localHead\b', 'search')])
        common.write(ctx, 'llocal_%s.inc' % name, t + '\n')
    common.write(ctx, 'llocal_consts.inc', out[0] + '\n')
    # ---- the bins of the global cache: CacheBin (the operations the aggregator runs one at a time), LargeObjectCacheImpl<Props>, LargeObjectCache::put / get ----
    H = load(LO_H)
    for pat, what in ((r'LargeMemoryBlock\* first;\s*std::atomic<LargeMemoryBlock\*> last;', 'CacheBin::first/last'), (r'std::atomic<size_t> usedSize;', 'usedSize'), (r'std::atomic<size_t> cachedSize;', 'cachedSize'),
                      (r'uintptr_t\s+lastCleanedAge;', 'lastCleanedAge'), (r'std::atomic<uintptr_t> oldest;', 'oldest'), (r'CacheBin bin\[numBins\];', 'bin[numBins]')):
        if not re.search(pat, H):
            raise ExtractionBreak('large_objects.h: %s changed' % what)
    BINF = r'(?<![\w.>])(first|last|oldest|lastCleanedAge|ageThreshold|usedSize|cachedSize|meanHitRange|lastGet)\b'

    def bin_method(name, sig, csig):
        s = slice_block(LO_C, sig)
        sliced.append('%s:%d LargeObjectCacheImpl<Props>::CacheBin::%s' % (LO_C, s.line, name))
        t = rw.sub(s.text, sig, csig, 1, 1, name='sig')
        t = rw.atomics(t, ['last', 'oldest', 'usedSize', 'cachedSize', 'ageThreshold'], 1)
        t = rw.sub(t, BINF, r'self->\1', 1, name='field')
        t = rw.sub(t, r'bitMask->set\(', 'STUB_bitMask_set(bitMask, ', 0, name='callee stub (bin occupancy bit)')
        t, _ = cxx2c.sub_call(t, r'\bMALLOC_ASSERT', lambda m, a: 'MALLOC_ASSERT(%s)' % ', '.join(re.sub(r'\s+', ' ', x) for x in a))
        t = with_literals_protected(t, lambda x: rw.asserts(x, 0, macro='MALLOC_ASSERT'))
        return rw.std(t)
    out = []
    out.append(bin_method('putList (unsafe)', r'template<typename Props> LargeMemoryBlock \*LargeObjectCacheImpl<Props>::\s*CacheBin::putList\(LargeMemoryBlock \*head, LargeMemoryBlock \*tail, BinBitMask \*bitMask, int idx, int num, size_t hugeSizeThreshold\)',
                          'static LargeMemoryBlock *CacheBin_putList(CacheBin *self, LargeMemoryBlock *head, LargeMemoryBlock *tail, BinBitMask *bitMask, int idx, int num, size_t hugeSizeThreshold)'))
    out.append(bin_method('get (unsafe)', r'template<typename Props> LargeMemoryBlock \*LargeObjectCacheImpl<Props>::\s*CacheBin::get\(\)', 'static LargeMemoryBlock *CacheBin_get(CacheBin *self)'))
    out.append(bin_method('cleanAll (unsafe)', r'template<typename Props> LargeMemoryBlock \*LargeObjectCacheImpl<Props>::\s*CacheBin::cleanAll\(BinBitMask \*bitMask, int idx\)', 'static LargeMemoryBlock *CacheBin_cleanAll(CacheBin *self, BinBitMask *bitMask, int idx)'))
    common.write(ctx, 'cachebin.inc', '\n'.join(out) + '\n')
    out = []
    for pre, cname in (('LargeBS', 'LargeCache'), ('HugeBS', 'HugeCache')):
        s = slice_block(LO_C, r'void LargeObjectCacheImpl<Props>::putList\(ExtMemoryPool \*extMemPool, LargeMemoryBlock \*toCache\)')
        if pre == 'LargeBS':
            sliced.append('%s:%d LargeObjectCacheImpl<Props>::putList' % (LO_C, s.line))
        t = rw.sub(s.text, r'void LargeObjectCacheImpl<Props>::putList\(ExtMemoryPool \*extMemPool, LargeMemoryBlock \*toCache\)', 'static void %s_putList(LargeObjectCacheImpl *self, ExtMemoryPool *extMemPool, LargeMemoryBlock *toCache)' % cname, 1, 1, name='sig + bind-template(Props)')
        t = rw.sub(t, r'Props::sizeToIdx\(', pre + '_sizeToIdx(', 0, name='bind-template(Props)')
        t = rw.sub(t, r'MALLOC_ITT_SYNC_(?:RELEASING|ACQUIRED)\([^;]*\);', 'RG_NOP();', 0, name='itt->RG_NOP')
        t = rw.sub(t, r'\bbin\[(\w+)\]\.putList\(extMemPool, (\w+), &bitMask, (\w+)\);', r'STUB_bin_putList(self, %s_NumBins, \1, \2, \3);' % pre, 0, name='callee stub (CacheBin::putList through the aggregator: recorder with a bounds obligation on bin[])')
        out.append(rw.std(t))
        s = slice_block(LO_C, r'LargeMemoryBlock \*LargeObjectCacheImpl<Props>::get\(ExtMemoryPool \*extMemoryPool, size_t size\)')
        if pre == 'LargeBS':
            sliced.append('%s:%d LargeObjectCacheImpl<Props>::get' % (LO_C, s.line))
        t = rw.sub(s.text, r'LargeMemoryBlock \*LargeObjectCacheImpl<Props>::get\(ExtMemoryPool \*extMemoryPool, size_t size\)', 'static LargeMemoryBlock *%s_get(LargeObjectCacheImpl *self, ExtMemoryPool *extMemoryPool, size_t size)' % cname, 1, 1, name='sig + bind-template(Props)')
        t = rw.sub(t, r'Props::sizeToIdx\(', pre + '_sizeToIdx(', 0, name='bind-template(Props)')
        t = rw.sub(t, r'MALLOC_ITT_SYNC_(?:RELEASING|ACQUIRED)\([^;]*\);', 'RG_NOP();', 0, name='itt->RG_NOP')
        t = rw.sub(t, r'STAT_increment\([^;]*\);', 'RG_NOP();', 0, name='stat->RG_NOP')
        t = rw.sub(t, r'\bbin\[(\w+)\]\.get\(extMemoryPool, (\w+), &bitMask, (\w+)\)', r'STUB_bin_get(self, %s_NumBins, \1, \2, \3)' % pre, 0, name='callee stub (CacheBin::get through the aggregator: recorder with a bounds obligation on bin[])')
        out.append(rw.std(t))
    for name, sig, csig in (('put', r'void LargeObjectCache::put\(LargeMemoryBlock \*largeBlock\)', 'static void LargeObjectCache_put(LargeObjectCache *self, LargeMemoryBlock *largeBlock)'),
                            ('get', r'LargeMemoryBlock \*LargeObjectCache::get\(size_t size\)', 'static LargeMemoryBlock *LargeObjectCache_get(LargeObjectCache *self, size_t size)')):
        s = slice_block(LO_C, sig)
        sliced.append('%s:%d LargeObjectCache::%s' % (LO_C, s.line, name))
        t = rw.sub(s.text, sig, csig, 1, 1, name='sig')
        t = rw.sub(t, r'extMemPool->backend\.returnLargeObject\(', 'STUB_returnLargeObject(self, ', 0, name='callee stub (hand-over to the back end)')
        t = rw.sub(t, r'\b(large|huge)Cache\.putList\(extMemPool, ', lambda m: '%sCache_putList(&self->%sCache, self->extMemPool, ' % (m.group(1).capitalize(), m.group(1)), 0, name='member-object method')
        t = rw.sub(t, r'\b(large|huge)Cache\.get\(extMemPool, ', lambda m: '%sCache_get(&self->%sCache, self->extMemPool, ' % (m.group(1).capitalize(), m.group(1)), 0, name='member-object method')
        t = rw.sub(t, r'(?<![\w.>:])sizeInCacheRange\(', 'LargeObjectCache_sizeInCacheRange(self, ', 0, name='method')
        t = with_literals_protected(t, lambda x: rw.asserts(x, 0, macro='MALLOC_ASSERT'))
        out.append(rw.std(t))
    common.write(ctx, 'locimpl.inc', '\n'.join(out) + '\n')
    # ---- ExtMemoryPool::mallocLargeObject and Backend::getLargeBlock: what a block source hands to getFromLLOCache ----
    out = []
    MACL = dict(MAC); MACL.update({'__TBB_MALLOC_LOCACHE_STAT': 0, 'COLLECT_STATISTICS': 0})
    s = slice_block(BE, r'LargeMemoryBlock \*Backend::getLargeBlock\(size_t size\)')
    sliced.append('%s:%d Backend::getLargeBlock' % (BE, s.line))
    t = rw.sub(s.text, r'LargeMemoryBlock \*Backend::getLargeBlock\(size_t size\)', 'static LargeMemoryBlock *Backend_getLargeBlock(ExtMemoryPool *extMemPool, size_t size)', 1, 1, name='sig (Backend::extMemPool passed as parameter)')
    t = rw.sub(t, r'genericGetBlock\(', 'STUB_genericGetBlock(', 0, name='callee stub (back end: a block of at least num*size bytes or NULL: backend.split / bin.getFromBin)')
    t = rw.sub(t, r'extMemPool->userPool\(\)', 'STUB_userPool(extMemPool)', 0, name='callee stub')
    t = rw.sub(t, r'extMemPool->lmbList\.add\(', 'STUB_lmbList_add(extMemPool, ', 0, name='callee stub (list of all large blocks of a user pool: gPrev/gNext links)')
    t = rw.sub(t, r'/\*needAlignedRes=\*/', '', 0, name='comment')
    out.append(rw.std(t))
    s = slice_block(LO_C, r'LargeMemoryBlock \*ExtMemoryPool::mallocLargeObject\(MemoryPool \*pool, size_t allocationSize\)')
    sliced.append('%s:%d ExtMemoryPool::mallocLargeObject' % (LO_C, s.line))
    t = cxx2c.cpp_resolve(s.text, MACL, 'mallocLargeObject')
    t = rw.sub(t, r'LargeMemoryBlock \*ExtMemoryPool::mallocLargeObject\(MemoryPool \*pool, size_t allocationSize\)', 'static LargeMemoryBlock *ExtMemoryPool_mallocLargeObject(ExtMemoryPool *self, MemoryPool *pool, size_t allocationSize)', 1, 1, name='sig')
    t = rw.sub(t, r'\bloc\.get\(', 'STUB_loc_get(self, ', 0, name='callee stub (LargeObjectCache::get by the contract proved in loc.impl.* / loc.bin.*)')
    t = rw.sub(t, r'BackRefIdx::newBackRef\(\s*(?:/\*.*?\*/)?\s*(\w+)\)', r'STUB_newBackRef(\1)', 0, name='callee stub (the back-reference table)')
    t = rw.sub(t, r'\bbackRefIdx\.isInvalid\(\)', 'BackRefIdx_isInvalid(&backRefIdx)', 0, name='method')
    t = rw.sub(t, r'\bbackend\.getLargeBlock\(', 'Backend_getLargeBlock(self, ', 0, name='member-object method')
    t = rw.sub(t, r'(?<![\w.>])removeBackRef\(', 'STUB_removeBackRef(', 0, name='callee stub (the back-reference table)')
    t = rw.sub(t, r'\bloc\.updateCacheState\(', 'STUB_loc_updateCacheState(self, ', 0, name='callee stub (used-size accounting of the bins)')
    t = rw.sub(t, r'STAT_increment\([^;]*\);', 'RG_NOP();', 0, name='stat->RG_NOP')
    out.append(rw.std(t))
    s = slice_block(TI, r'bool isInvalid\(\) const')
    sliced.append('%s:%d BackRefIdx::isInvalid' % (TI, s.line))
    t2 = rw.sub(s.text, r'bool isInvalid\(\) const \{ return main == invalid; \}', 'static bool BackRefIdx_isInvalid(const BackRefIdx *self) { return self->main == BackRefIdx_invalid; }', 1, 1, name='sig + field')
    if not re.search(r'static const main_t invalid = ~main_t\(0\);', load(TI)) or not re.search(r'struct MainIndexSelect \{\s*typedef uint32_t main_type;', load(TI)) \
            or not re.search(r'typedef MainIndexSelect<4 < sizeof\(uintptr_t\)>::main_type main_t;', load(TI)):
        raise ExtractionBreak('BackRefIdx::invalid / main_t changed')
    common.write(ctx, 'mlo_pre.inc', '#define BackRefIdx_invalid (~(uint32_t)0)   /* static const main_t invalid = ~main_t(0); main_t = uint32_t on 64-bit (pattern-checked) */\n' + t2 + '\n')
    common.write(ctx, 'mlo.inc', '\n'.join(out) + '\n')
    fired['loc'] = rw.fired


def loc_jobs(ctx, CL):
    nbd = 4 if ctx.tier == 'quick' else 5
    return [
        # NOT registered: the loop-contract proof of LargeObjectCache::putList for lists of every length (c17_loc.c, section LOCPL_LC, h_locpl_lc, split by LOCPL_PART) is unfinished:
        # parts 1-3 discharge, but the frame assumed for the inner-loop step "b joins the group from the middle of the rest" (LOCPL_PART=4) is contradictory, i.e. that step is not
        # decided yet (the seeded back-link deletion passes it).  Until it is repaired the function is covered by the bounded job below only (see not_decided).
        Job('loc.putList.bounded', CL, 'h_locpl_bd', route='BD', defines=['LOCPL_BD', 'NBD=%d' % nbd], unwind=nbd + 1, solver='cadical', timeout=2400,
            target='LargeObjectCache::putList + sizeInCacheRange (lists of <= %d blocks, chains walked; cross-check of loc.putList)' % nbd, source=LO_C,
            bound_text='lists of at most %d blocks (every combination of sizes and bin indices, every huge-size threshold), loops fully unwound' % nbd,
            inputs=['IN_n', 'IN_s0', 'IN_s1', 'IN_s2', 'IN_s3', 'IN_s4', 'IN_c0', 'IN_c1', 'IN_c2', 'IN_c3', 'IN_c4', 'IN_thr']),
        Job('localloc.put', CL, 'h_lloc_put', route='LC', defines=['LLOC_PUT'], loops=True, nloops=1, solver='cadical', timeout=1200,
            target='LocalLOCImpl<8,32>::put (lists of every length up to 64 blocks)', source=FE, inputs=['IN_n']),
        Job('localloc.get', CL, 'h_lloc_get', route='LC', defines=['LLOC_GET'], loops=True, nloops=1, solver='cadical', timeout=1200,
            target='LocalLOCImpl<8,32>::get (lists of every length up to 64 blocks)', source=FE, inputs=['IN_n', 'IN_size']),
        Job('localloc.cleanup', CL, 'h_lloc_ext', route='RG', defines=['LLOC_EXT'], target='LocalLOCImpl<8,32>::externalCleanup', source=FE, timeout=600),
        Job('loc.impl', CL, 'h_loc_impl', route='LF', defines=['LOCIMPL'], target='LargeObjectCache::put / get + LargeObjectCacheImpl<Props>::putList / get (Props = large, huge) + sizeInCacheRange + Props::sizeToIdx', source=LO_C, timeout=900,
            inputs=['IN_s1', 'IN_s2', 'IN_thr']),
        Job('loc.impl.chain', CL, 'h_loc_impl_chain', route='LF', defines=['LOCIMPL'], target='LargeObjectCacheImpl<Props>::putList on the head of a chain grouped by LargeObjectCache::sizeToIdx', source=LO_C, timeout=900, inputs=['IN_s1', 'IN_s2']),
        Job('bin.putList', CL, 'h_cbin_putlist', route='LF', defines=['CBIN'], unwind=8, target='LargeObjectCacheImpl<Props>::CacheBin::putList (the aggregated operation)', source=LO_C, timeout=900, inputs=['IN_num', 'IN_shape']),
        Job('bin.get', CL, 'h_cbin_get', route='LF', defines=['CBIN'], unwind=8, target='LargeObjectCacheImpl<Props>::CacheBin::get (the aggregated operation)', source=LO_C, timeout=900, inputs=['IN_shape']),
        Job('bin.cleanAll', CL, 'h_cbin_cleanall', route='LF', defines=['CBIN'], unwind=8, target='LargeObjectCacheImpl<Props>::CacheBin::cleanAll (the aggregated operation)', source=LO_C, timeout=900, inputs=['IN_shape']),
        Job('loc.mallocLargeObject', CL, 'h_mlo', route='LF', defines=['MLO'], target='ExtMemoryPool::mallocLargeObject + Backend::getLargeBlock + BackRefIdx::isInvalid', source=LO_C, timeout=600, inputs=['IN_size']),
    ]


def build(ctx):
    sliced, fired = extract(ctx)
    extract_aligned(ctx, sliced, fired)
    extract_lloc(ctx, sliced, fired)
    extract_pfl(ctx, sliced, fired)
    extract_backend(ctx, sliced, fired)
    extract_loc(ctx, sliced, fired)
    C = os.path.join(HERE, 'c17.c')
    CL = os.path.join(HERE, 'c17_loc.c')
    jobs = [
        Job('sizeclass.map', C, 'h_sizeclass', route='LF', defines=['SC'], target='getSmallObjectIndex/getIndexOrObjectSize/getIndex/getObjectSize/highestBitPos', source=FE, timeout=600),
        Job('sizeclass.aligned_case1', C, 'h_aligned_case1', route='LF', defines=['SC'], target='allocateAligned case 1 arithmetic: getObjectSize(alignUp(size,a)) % a == 0', source=FE, timeout=600),
        Job('block.bump', C, 'h_bump', route='LF', defines=['BLK'], target='Block::allocateFromBumpPtr', source=FE, timeout=600),
        Job('block.find', C, 'h_find', route='LF', defines=['BLK'], target='Block::findAllocatedObject', source=FE, timeout=600),
        Job('free.find_to_free', C, 'h_find_to_free', route='LF', defines=['BLK', 'FREE'], target='Block::findObjectToFree + isProperlyPlaced', source=FE, timeout=600),
        Job('free.own', C, 'h_free_own', route='LF', defines=['BLK', 'FREE'], target='Block::freeOwnObject', source=FE, timeout=600),
        Job('free.public', C, 'h_free_public', route='RG', defines=['BLK', 'FREE'], loops=True, nloops=1, target='Block::freePublicObject (public list push)', source=FE, timeout=600),
        Job('free.small', C, 'h_free_small', route='LF', defines=['BLK', 'FREE'], target='freeSmallObject (own / foreign thread dispatch; callees by their proved behaviour)', source=FE, timeout=600),
        Job('realloc.large', C, 'h_realloc_large', route='LF', defines=['RA'], target='reallocAligned (large-object branch)', source=FE, timeout=600),
        Job('aligned.slab', C, 'h_aligned_slab', route='LF', defines=['ALN'], target='allocateAligned (slab answers: cases 1-3) + Block::findObjectToFree on the returned pointer', source=FE, timeout=600),
        Job('aligned.slab.msize', C, 'h_aligned_slab_msize', route='LF', defines=['ALN', 'ALN_RECSTUB=0'], target='allocateAligned (slab answers) + internalMsize + Block::findObjectSize/getSize (isLargeObject by its proved answer for slab addresses)', source=FE, timeout=600),
        Job('recognise.slab', C, 'h_recognise_slab', route='LF', defines=['ALN'], target='isLargeObject<ourMem|unknownMem> on an address inside a slab', source=FE, timeout=600),
        Job('aligned.large', C, 'h_aligned_large', route='LF', defines=['ALN'], target='allocateAligned (large-object answers) + isLargeObject<ourMem>', source=FE, timeout=600),
        Job('aligned.large.msize', C, 'h_aligned_large', route='LF', defines=['ALN', 'ALN_RECSTUB=1'], target='allocateAligned (large-object answers) + internalMsize (isLargeObject by its proved answer)', source=FE, timeout=600),
        Job('lloc.guard', C, 'h_lloc_guard', route='LF', defines=['LLOC'], target='MemoryPool::getFromLLOCache (size + headers + alignment wrap-around guard, full 64-bit domain) + LargeObjectCache::alignToBin', source=FE, timeout=600),
    ] + [Job('lloc.place.a%d' % j, C, 'h_lloc_place', route='LF', defines=['LLOC', 'LLOC_PLACE', 'LLOC_ALIGN_EXP=%d' % j], twin=(j == 6), target='MemoryPool::getFromLLOCache (placement with cache-line shuffling, alignment 2^%d) + isLargeObject<unknownMem>' % j, source=FE, timeout=300)
         for j in range(6, 32)] + [
        Job('lloc.place.a32plus', C, 'h_lloc_place', route='LF', defines=['LLOC', 'LLOC_PLACE', 'LLOC_ALIGN_MIN_EXP=32'], target='MemoryPool::getFromLLOCache (placement, every power-of-two alignment >= 2^32) + isLargeObject<unknownMem>', source=FE, timeout=300),
        Job('lloc.bins', C, 'h_lloc_bins', route='LF', defines=['LLOC'], target='LargeObjectCache::alignToBin/sizeToIdx, LargeBinStructureProps / HugeBinStructureProps ::alignToBin/sizeToIdx, BitScanRev', source=LO_H, timeout=600),
        Job('pfl.push', C, 'h_pfl_push', route='RG', defines=['PFL'], loops=True, nloops=1, target='Block::freePublicObject (whole: push + mailbox hand-off) + Bin::addPublicFreeListBlock', source=FE, timeout=300),
        Job('pfl.ready', C, 'h_pfl_ready', route='RG', defines=['PFL'], loops=True, target='Block::readyToShare', source=FE, timeout=300),
        Job('pfl.share', C, 'h_pfl_share', route='RG', defines=['PFL'], loops=True, nloops=1, target='Block::shareOrphaned + readyToShare', source=FE, timeout=300),
        Job('pfl.privatize', C, 'h_pfl_privatize', route='RG', defines=['PFL'], loops=True, nloops=1, target='Block::privatizePublicFreeList (reset / no reset), chains of any length', source=FE, timeout=300),
        Job('freelist.pop', C, 'h_pfl_pop', route='LF', defines=['PFL'], loops=True, target='Block::allocateFromFreeList', source=FE, timeout=300),
        Job('guard.tryLock', C, 'h_gs_trylock', route='RG', defines=['BE', 'BE_GUARD'], loops=True, nloops=1, target='GuardedSize::tryLock', source=BE, timeout=300),
        Job('guard.unlock', C, 'h_gs_unlock', route='RG', defines=['BE', 'BE_GUARD'], loops=True, target='GuardedSize::unlock', source=BE, timeout=300),
        Job('guard.makeCoalscing', C, 'h_gs_coal', route='RG', defines=['BE', 'BE_GUARD'], loops=True, target='GuardedSize::makeCoalscing', source=BE, timeout=300),
        Job('guard.tryLockBlock', C, 'h_fb_trylockblock', route='RG', defines=['BE', 'BE_GUARD'], loops=True, nloops=1, target='FreeBlock::tryLockBlock (+ trySetMeUsed, trySetLeftUsed, setMeFree, rightNeig, GuardedSize::tryLock/unlock)', source=BE, timeout=300),
        Job('backend.split', C, 'h_split', route='LF', defines=['BE', 'BE_SPLIT'], target='Backend::splitBlock + toAlignedBin', source=BE, timeout=300, unwind=6),
        Job('backend.coalesce', C, 'h_coalesce', route='RG', defines=['BE', 'BE_COAL'], unwind=8, target='Backend::doCoalesc + FreeBlock::markCoalescing/trySet*Used/set*Free/leftNeig/rightNeig (GuardedSize operations by their proved contracts)', source=BE, timeout=600),
        Job('realloc.small', C, 'h_realloc_small', route='LF', defines=['RA'], target='reallocAligned (slab-object branch)', source=FE, timeout=600),
    ] + loc_jobs(ctx, CL)
    return {
        'jobs': jobs, 'sliced': sliced, 'fired': fired,
        'trusted': ['bsr instruction == index of the highest set bit (VERIF_BSR; cross-checked natively in tv)', 'sizeof(Block) == 128 == 2*estimatedCacheLineSize on x86-64 (static_assert in frontend.cpp gives <=; equality checked natively in tv)',
                    'allocateAligned / internalPoolMalloc / internalPoolFree / remap / findObjectSize / getMaxBinnedSize / isLargeObject as contract stubs in the reallocAligned proof',
                    'memcpy replaced by a stub that checks both ranges are accessible for the requested length (no bytes copied)',
                    'aligned.*: internalPoolMalloc by contract (NULL, or the START of an object of the bin of the requested size in some slab; a large size goes to getFromLLOCache) - bin choice: sizeclass.map, starts only: block.bump, free.*, freelist.pop, pfl.privatize; getFromLLOCache by the contract proved in lloc.place.*/lloc.guard; isMallocInitialized/doInitialization/getTLS: arbitrary answers',
                    'the back-reference table (backref.cpp: getBackRef/setBackRef/newBackRef) is not sliced: one entry is tracked, every other entry is NULL, a slab base, another live LargeObjectHdr or a link inside the table - never an address inside the slab payload or the large block under test',
                    'lloc.place.*: the two block sources (LocalLOC::get, ExtMemoryPool::mallocLargeObject) by contract: NULL or a block with unalignedSize >= the size asked and a back-reference index with the largeObj bit; LargeObjectCache::alignToBin replaced by the lemma proved in lloc.guard (result < size, or result - size >= headers + alignment); in-code assertions are proved, then assumed',
                    'Log2<N>::value == floor(log2 N), select_size_t_constant picks the 64-bit value, header layouts (BackRefIdx 8, LargeMemoryBlock 88, LargeObjectHdr 16, FreeBlock 56 bytes): cross-checked natively in tv (static_assert against the real classes)',
                    'pfl.*: Block::isOwnedByCurrentThread / markOrphaned stubs; the mailbox lock as a critical section (mailbox written under it only); the mailbox holds slab pointers or NULL',
                    'guard.* / backend.coalesce: boundary-tag rely - a free tag of a block reads the block\'s size on both sides of the border while the other tag is free or held by this thread; sizes found at lock time are prophesied; backend.coalesce uses GuardedSize::tryLock/unlock/makeCoalscing by the contracts proved in guard.*; CoalRequestQ::putBlock and removeBlockFromBin are recorders',
                    'backend.split: coalescAndPut / initHeader / markBlocks are recorders; preconditions are the checks IndexedBins::getFromBin makes before it chooses a block (not sliced), num == 1 or size == slabSize',
                    'loc.putList.bounded: Backend::returnLargeObject and LargeObjectCacheImpl<Props>::putList are recorders that walk the chain they get; LargeObjectCache::sizeToIdx by contract (a function of the size; index < LargeBS::NumBins exactly below maxLargeSize)',
                    'localloc.*: ExtMemoryPool::freeLargeObjectList is a recorder; rely on the shared head word: other threads only take the whole list (non-NULL -> NULL), only the owner thread calls put/get; blocks in a local cache have minLargeSize <= unalignedSize <= MAX_TOTAL_SIZE (put refuses bigger ones); the prefix sums PS[] of the block sizes are a definitional ghost array (instances of the recurrence at the blocks looked at); the block where the tail cut stops is prophesied',
                    'loc.impl*: CacheBin::putList / get (through the aggregator) are recorders with a bounds obligation on bin[]; sizes are bin sizes (alignToBin fixed points in [minLargeSize, maxHugeSize)): LargeMemoryBlock::unalignedSize is only written with such values (getLargeBlock: loc.mallocLargeObject, Backend::remap: C18)',
                    'bin.*: the aggregator runs these operations one at a time (atomics of the bin read as plain fields); the bin satisfies its representation invariant on entry; chains of 1, 2, 3 and 1000 blocks (num is a constant per call: a product of two symbolic 64-bit operands is out of SAT reach); BitMask::set is a recorder',
                    'loc.mallocLargeObject: LargeObjectCache::get by the contract loc.impl / bin.get establish (NULL or a block whose size record equals the request and whose back-reference index is the one it was allocated with); BackRefIdx::newBackRef / removeBackRef, genericGetBlock, AllLargeBlocksList::add, updateCacheState are stubs / recorders'],
        'drops': ['namespace-scope const -> #define', 'MALLOC_ASSERT -> proof obligation', 'STAT_increment / ITT / do_yield / suppress_unused_warning -> RG_NOP()', 'template<bool>, template<MemoryOrigin> -> parameter', '#if chains resolved for x86-64 linux (BACKEND_HAS_MREMAP=1, FREELIST_NONBLOCKING=1, MALLOC_CHECK_RECURSION=1)',
                  'loads/stores of FreeObject::next, LargeMemoryBlock/LargeObjectHdr fields (lloc.*), FreeBlock fields (backend.*) -> accessor macros over ghost memory (blocks at arbitrary integer addresses)',
                  'dereference(&header->backRefIdx) -> HDR_RD in the accessor rendering of isLargeObject (lloc.place.*)', 'label before a declaration gets an empty statement; a declaration inside an if-condition is hoisted (C grammar)',
                  'the tail of freePublicObject is cut in job free.public (the whole function is job pfl.push)', 'empty(): assertion on the cross-thread accounting dropped (free.own)',
                  'loc.putList.* / localloc.*: field accesses through LargeMemoryBlock pointers -> LMB_RD(p, f) / LMB_WR(p, f, v) (typed ghost memory keyed by the block, pointers checked to be blocks of the list); template arguments of LocalLOCImpl<8,32> and class constants -> #define; `if (T *x = e)` -> declaration + if (C grammar); Props::f -> LargeBS_f / HugeBS_f (both instantiations)'],
        'not_decided': ['the callers of privatizePublicFreeList (Bin::getPrivatizedFreeListBlock, cleanPublicFreeLists, privatizeOrphaned, OrphanedBlocks::cleanup) are not sliced: that they establish its precondition (slab out of the mailbox / orphaned, no notifier under way) is assumed; adoption of an orphan (privatizeOrphaned) and the LifoList of orphans',
                        'the accounting invariant "publicly freed objects are still counted in allocatedCount; objects on the free list are not" is assumed at privatize / pop, not derived globally',
                        'internalPoolMalloc as a whole (search order active slab / mailbox / orphan / new slab), Block::allocate, restoreBumpPtr, initEmptyBlock, StartupBlock',
                        'LargeObjectCache::putList for lists of more than 4 (thorough: 5) blocks: only the bounded job loc.putList.bounded decides it; the loop-contract proof for every length (c17_loc.c, section LOCPL_LC: ghost-index invariants over index-encoded links, split by execution class) is written but not registered - its inner-loop step for a block unlinked from the middle of the rest is vacuous as it stands',
                        'the aggregator side of the global cache: CacheBinFunctor / OperationPreprocessor (merging of put lists and gets, the pass that rebuilds the prev links and counts a chain, ages and hit statistics), CacheBin::putList(ExtMemoryPool*, ...) placing the operation record behind the block header, ExecuteOperation, CacheBin::cleanToThreshold (list walk by age), regularCleanup / bit masks, usedSize accounting; that every chain handed to CacheBin::putList has head->prev == NULL, the stated length and blocks of one size is the contract between loc.putList.* / the functor and bin.putList, not a theorem',
                        'LargeObjectCache::sizeToIdx is used as "a function of the size" in loc.putList.bounded (its real text: lloc.bins); LocalLOC lists longer than 64 blocks (the class never holds 32); which of several cached blocks of the right size LocalLOC::get returns is not constrained',
                        'Backend::genericGetBlock / getFromBin / coalescAndPutList loop / releaseRegion / regions, BackRef table',
                        'doCoalesc is proved per call with prophesied neighbour sizes; that the blocks of a region always tile it (global boundary-tag invariant) is the rely, not a theorem', 'mremap-based realloc (remap)', 'never writes into a live block (global)', 'scalable_calloc zero-fill',
                        'memory orders weaker than SC (publicFreeList / nextPrivatizable / guard words use acquire/release/relaxed)', 'termination of the spin in shareOrphaned and of the CAS loops'],
        'assumptions': ['slab objects are placed at multiples of objectSize from the slab end (established by allocateFromBumpPtr: proved; preserved by the free lists: every address pushed by freeOwnObject / freePublicObject is proved to be such a start; popped unchanged: freelist.pop, pfl.privatize)',
                        'a pointer passed to free is the start of a live slab object, or (fitting bins only) an address inside it aligned to 2*fittingAlignment - what allocateAligned hands out (now proved: aligned.slab)',
                        'alignment passed to allocateAligned is a power of two (validated by the entry points: C18)', 'addresses below 2^47 (user half of the x86-64 address space) in lloc.place.* / backend.*; block sizes below 2^44..2^46',
                        'pfl.*: the slab is not adopted by a new owner during one call (adoption needs nextPrivatizable == UNUSABLE, which excludes a notifier under way); sequentially consistent atomics',
                        'a public free list / private free list is a well-formed chain (no cycle) of objects',
                        'loc.putList.bounded / localloc.*: the input list is a null-terminated chain of pairwise distinct blocks, doubly linked except for the head\'s prev (LocalLOC::put leaves the kept tail there); WLOG it runs through the block array in order'],
    }

def tv(ctx):
    exe = native.build([os.path.join(HERE, 'c17_tv.cpp')], os.path.join(ctx.work, 'c17_tv'), flags=['-fno-access-control', '-I', os.path.join(ctx.repo, 'src/tbbmalloc'), '-I', os.path.join(ctx.repo, 'src'), '-D__TBBMALLOC_BUILD=1', '-ldl'], includes=[ctx.work, HERE])
    rc, out = native.run([exe], timeout=300)
    if rc != 0 and 'MISMATCH' not in out:
        raise native.NativeError('tv run failed rc=%s: %s' % (rc, out[-800:]))
    m = re.search(r'cases=(\d+)', out)
    return {'cases': int(m.group(1)) if m else 0, 'mismatches': [l for l in out.splitlines() if l.startswith('MISMATCH')],
            'note': 'getIndex/getObjectSize/highestBitPos (all sizes 1..8128) and findAllocatedObject: extracted C vs the real frontend.cpp, exhaustive over the stated domain; LargeObjectCache::alignToBin/sizeToIdx at every bin boundary + 20000 pseudo-random sizes; sizeof(Block)==128 and the header views of the large-object / backend sections (static_assert against the real classes)',
            'samples': [l for l in out.splitlines() if l.startswith('SAMPLE')][:5]}


def replay(ctx, jobname, failure):
    exe = native.build([os.path.join(HERE, 'c17_replay.cpp')], os.path.join(ctx.work, 'c17_replay'), flags=['-fno-access-control', '-I', os.path.join(ctx.repo, 'src/tbbmalloc'), '-I', os.path.join(ctx.repo, 'src'), '-D__TBBMALLOC_BUILD=1', '-ldl'])
    ins = failure.get('inputs', {}) or {}
    args = [exe, jobname] + ['%s=%s' % (k, v) for k, v in sorted(ins.items()) if isinstance(v, int)]
    rc, out = native.run(args, timeout=120)
    rep = {'cmd': ' '.join(args), 'rc': rc, 'output': out[-1500:], 'reproduced': False, 'detail': 'native search found no failing input'}
    m = re.search(r'REPRODUCED (.*)', out)
    if m:
        rep['reproduced'] = True
        rep['detail'] = m.group(1)
        w = re.search(r'class=(\S+)', m.group(1))
        rep['witness_class'] = w.group(1) if w else None
    return rep
