"""C17 -- tbbmalloc blocks are disjoint, aligned, big enough, and keep their contents (per-function arithmetic + placement)."""
import os
import sys
import re
HERE = os.path.dirname(os.path.abspath(__file__))
sys.path.insert(0, os.path.join(HERE, '..'))
sys.path.insert(0, os.path.join(HERE, '..', '..', 'tools'))
import common
import native
import cxx2c
from cxx2c import Rewriter, slice_block, slice_stmt, ExtractionBreak, load
from prove import Job

FE = 'src/tbbmalloc/frontend.cpp'
TI = 'src/tbbmalloc/tbbmalloc_internal.h'
SU = 'src/tbbmalloc/shared_utils.h'
MAC = {'__ARCH_x86_32': 0, '__ARCH_x86_64': 1, '__unix__': 1, '__APPLE__': None, '__MINGW32__': None, '_WIN32': None, '_WIN64': None, '__INTEL_COMPILER': None,
       '_MSC_VER': None, '__arm__': None, 'BACKEND_HAS_MREMAP': 1, 'MALLOC_DEBUG': 0}


def consts(rw, sliced):
    out = []
    for rel, names in ((FE, ['minSmallObjectIndex', 'numSmallObjectBins', 'maxSmallObjectSize', 'minSegregatedObjectIndex', 'numSegregatedObjectBins', 'maxSegregatedObjectSize',
                             'minFittingIndex', 'numFittingBins', 'fittingAlignment', 'fittingSize1', 'fittingSize2', 'fittingSize3', 'fittingSize4', 'fittingSize5',
                             'numBlockBins', 'minLargeObjectSize']),
                       (TI, ['slabSize', 'largeObjectAlignment'])):
        for n in names:
            s = slice_stmt(rel, r'const (?:uint32_t|uintptr_t|size_t) %s\s*=' % n)
            sliced.append('%s:%d %s' % (rel, s.line, n))
            m = re.match(r'const (uint32_t|uintptr_t|size_t) (\w+)\s*=\s*(.*);', s.text, re.S)
            if not m:
                raise ExtractionBreak('cannot parse constant %s' % n)
            out.append('#define %s ((%s)(%s))' % (m.group(2), m.group(1), m.group(3).strip()))   # const-global -> #define (a C `const` is nondet in CBMC)
            rw.fired['const-global->#define'] = rw.fired.get('const-global->#define', 0) + 1
    s = slice_stmt(FE, r'#define SET_FITTING_SIZE\(N\)')
    m = re.search(r'#define SET_FITTING_SIZE\(N\) (.*)', load(FE))
    out.insert(0, '#define SET_FITTING_SIZE(N) (%s)' % m.group(1).strip())
    if not re.search(r'static_assert\(sizeof\(Block\) <= 2\*estimatedCacheLineSize', load(FE)):
        raise ExtractionBreak('static_assert on sizeof(Block) disappeared')
    return '\n'.join(out) + '\n'


def extract(ctx):
    sliced, fired = [], {}
    rw = Rewriter('tbbmalloc')
    common.write(ctx, 'consts.inc', consts(rw, sliced))
    out = []
    # alignUp / alignDown / isAligned / isPowerOfTwo (shared_utils.h): templates over T bound to uintptr_t
    for name in ('alignDown', 'alignUp'):
        s = slice_block(SU, r'static inline T %s\s*\(T arg, uintptr_t alignment\)' % name)
        sliced.append('%s:%d %s' % (SU, s.line, name))
        t = rw.sub(s.text, r'static inline T %s\s*\(T arg, uintptr_t alignment\)' % name, 'static inline uintptr_t %s(uintptr_t arg, uintptr_t alignment)' % name, 1, 1, name='bind-template(T:=uintptr_t)')
        t = rw.sub(t, r'\bT\b', 'uintptr_t', 0, name='bind-template(T:=uintptr_t)')
        t = rw.fcasts(t, ['uintptr_t'], 1)
        out.append(t)
    s = slice_block('include/oneapi/tbb/detail/_utils.h', r'(?:constexpr )?bool is_aligned\(T\* pointer, std::uintptr_t alignment\)')
    sliced.append('%s:%d is_aligned' % (s.rel, s.line))
    t = rw.sub(s.text, r'(?:constexpr )?bool is_aligned\(T\* pointer, std::uintptr_t alignment\)', 'static inline bool isAligned(const void* pointer, uintptr_t alignment)', 1, 1, name='sig (Customize.h isAligned forwards to it) + bind-template(T:=void)')
    t = rw.casts(t, 1)
    out.append(rw.std(t))
    # size classes
    s = slice_block(FE, r'static inline unsigned int highestBitPos\(unsigned int n\)')
    sliced.append('%s:%d highestBitPos' % (FE, s.line))
    t = cxx2c.cpp_resolve(s.text, MAC, 'highestBitPos')
    rw.fired['cpp-resolve(x86-64 unix)'] = 1
    t = rw.sub(t, r'__asm__ \("bsr %1,%0" : "=r"\(pos\) : "r"\(n\)\);', 'pos = VERIF_BSR(n);', 1, 1, name='asm-leaf->assumed contract (bsr)')
    t = rw.asserts(t, 1, macro='MALLOC_ASSERT')
    out.append(t)
    s = slice_block(FE, r'unsigned int getSmallObjectIndex\(unsigned int size\)')
    sliced.append('%s:%d getSmallObjectIndex' % (FE, s.line))
    out.append(rw.std(s.text))
    s = slice_block(FE, r'static unsigned int getIndexOrObjectSize \(unsigned int size\)')
    sliced.append('%s:%d getIndexOrObjectSize<indexRequest>' % (FE, s.line))
    t = rw.sub(s.text, r'static unsigned int getIndexOrObjectSize \(unsigned int size\)', 'static unsigned int getIndexOrObjectSize(const bool indexRequest, unsigned int size)', 1, 1, name='template bool -> parameter')
    t = rw.asserts(t, 2, macro='MALLOC_ASSERT')
    out.append(t)
    for name, val in (('getIndex', 'true'), ('getObjectSize', 'false')):
        s = slice_block(FE, r'static unsigned int %s \(unsigned int size\)' % name)
        sliced.append('%s:%d %s' % (FE, s.line, name))
        t = rw.sub(s.text, r'getIndexOrObjectSize<%s>\(size\)' % val, 'getIndexOrObjectSize(%s, size)' % val, 1, 1, name='template-arg -> argument')
        out.append(t)
    common.write(ctx, 'sizeclass.inc', '\n'.join(out) + '\n')
    # Block members used by the placement functions
    for pat, what in ((r'FreeObject  \*bumpPtr;', 'bumpPtr'), (r'FreeObject  \*freeList;', 'freeList'), (r'uint16_t     allocatedCount;', 'allocatedCount'), (r'uint16_t     objectSize;', 'objectSize')):
        if not re.search(pat, load(FE)):
            raise ExtractionBreak('Block member %s changed' % what)
    out = []
    s = slice_block(FE, r'FreeObject \*Block::allocateFromBumpPtr\(\)')
    sliced.append('%s:%d Block::allocateFromBumpPtr' % (FE, s.line))
    t = rw.sub(s.text, r'FreeObject \*Block::allocateFromBumpPtr\(\)', 'FreeObject *Block_allocateFromBumpPtr(Block *self)', 1, 1, name='sig')
    t = rw.sub(t, r'(?<![\w.>])(bumpPtr|objectSize|allocatedCount)\b', r'self->\1', 5, name='field')
    t = rw.sub(t, r'\(uintptr_t\)this', '(uintptr_t)self', 1, 1, name='this')
    t = rw.sub(t, r'STAT_increment\([^;]*\);', 'RG_NOP();', 1, 1, name='stat->RG_NOP')
    t = rw.asserts(t, 1, macro='MALLOC_ASSERT')
    out.append(rw.std(t))
    s = slice_block(FE, r'FreeObject \*Block::findAllocatedObject\(const void \*address\) const')
    sliced.append('%s:%d Block::findAllocatedObject' % (FE, s.line))
    t = rw.sub(s.text, r'FreeObject \*Block::findAllocatedObject\(const void \*address\) const', 'FreeObject *Block_findAllocatedObject(const Block *self, const void *address)', 1, 1, name='sig')
    t = rw.sub(t, r'(?<![\w.>])(objectSize)\b', r'self->\1', 2, name='field')
    t = rw.sub(t, r'\(uintptr_t\)this', '(uintptr_t)self', 1, 1, name='this')
    t = rw.sub(t, r'\(FreeObject\*\)\(\(uintptr_t\)address - \(', '(FreeObject*)((const char*)address - (', 1, 1, name='integer arithmetic on an address -> char* arithmetic (same address on a flat memory; keeps the pointer attached to its object for CBMC)')
    t = rw.asserts(t, 1, macro='MALLOC_ASSERT')
    out.append(rw.std(t))
    common.write(ctx, 'block.inc', '\n'.join(out) + '\n')
    # ---- the free path of slab objects: every address that enters a free list is the start of an object ----
    out = []
    for pat, what in ((r'std::atomic<FreeObject\*>\s+publicFreeList;', 'publicFreeList'), (r'#define FREELIST_NONBLOCKING 1', 'FREELIST_NONBLOCKING')):
        if not re.search(pat, load(FE)):
            raise ExtractionBreak('frontend.cpp: %s changed' % what)
    MACF = dict(MAC); MACF.update({'FREELIST_NONBLOCKING': 1, 'COLLECT_STATISTICS': 0, 'MALLOC_CHECK_RECURSION': 1, 'MALLOC_DEBUG': 1, 'TBB_REVAMP_TODO': 0})
    s = slice_block(FE, r'inline bool Block::isProperlyPlaced\(const void \*object\) const')
    sliced.append('%s:%d Block::isProperlyPlaced' % (FE, s.line))
    t = rw.sub(s.text, r'inline bool Block::isProperlyPlaced\(const void \*object\) const', 'static bool Block_isProperlyPlaced(const Block *self, const void *object)', 1, 1, name='sig')
    t = rw.sub(t, r'\(uintptr_t\)this', '(uintptr_t)self', 1, 1, name='this')
    t = rw.sub(t, r'(?<![\w.>])(objectSize)\b', r'self->\1', 1, name='field')
    out.append(t)
    s = slice_block(FE, r'FreeObject \*Block::findObjectToFree\(const void \*object\) const')
    sliced.append('%s:%d Block::findObjectToFree' % (FE, s.line))
    t = rw.sub(s.text, r'FreeObject \*Block::findObjectToFree\(const void \*object\) const', 'FreeObject *Block_findObjectToFree(const Block *self, const void *object)', 1, 1, name='sig')
    t = rw.sub(t, r'(?<![\w.>])(objectSize)\b', r'self->\1', 1, name='field')
    t = rw.sub(t, r'\bfindAllocatedObject\(object\)', 'Block_findAllocatedObject(self, object)', 1, 1, name='method')
    t = rw.sub(t, r'\bisProperlyPlaced\(', 'Block_isProperlyPlaced(self, ', 1, 1, name='method')
    t = rw.asserts(t, 2, macro='MALLOC_ASSERT')
    out.append(rw.std(t))
    s = slice_block(FE, r'bool empty\(\) const')
    sliced.append('%s:%d Block::empty' % (FE, s.line))
    t = rw.sub(s.text, r'bool empty\(\) const', 'static bool Block_empty(const Block *self)', 1, 1, name='sig')
    t = rw.sub(t, r'MALLOC_ASSERT\(!isSolidPtr\(publicFreeList\.load\(std::memory_order_relaxed\)\), ASSERT_TEXT\);', '/* assertion on the cross-thread accounting dropped */', 1, 1, name='drop: empty() asserts that no publicly freed object is pending (global accounting)')
    t = rw.sub(t, r'(?<![\w.>])(allocatedCount)\b', r'self->\1', 1, name='field')
    out.append(t)
    s = slice_block(FE, r'void Block::freeOwnObject\(void \*object\)')
    sliced.append('%s:%d Block::freeOwnObject' % (FE, s.line))
    t = cxx2c.cpp_resolve(s.text, MACF, 'freeOwnObject')
    t = rw.sub(t, r'void Block::freeOwnObject\(void \*object\)', 'void Block_freeOwnObject(Block *self, void *object)', 1, 1, name='sig')
    t = rw.sub(t, r'tlsPtr\.load\(std::memory_order_relaxed\)->markUsed\(\);', 'STUB_markUsed(self);', 1, 1, name='callee stub')
    t = rw.sub(t, r'tlsPtr\.load\(std::memory_order_relaxed\)->getAllocationBin\(objectSize\)->processEmptyBlock\(this,\s*(?:/\*.*?\*/)?\s*true\);', 'STUB_processEmptyBlock(self);', 1, 1, name='callee stub')
    t = rw.sub(t, r'if \(empty\(\)\)', 'if (Block_empty(self))', 1, 1, name='method')
    t = rw.sub(t, r'\bfindObjectToFree\(object\)', 'Block_findObjectToFree(self, object)', 1, 1, name='method')
    t = rw.sub(t, r'\badjustPositionInBin\(\);', 'STUB_adjustPositionInBin(self);', 1, 1, name='callee stub')
    t = rw.sub(t, r'\bobjectToFree->next = ([^;]+);', r'FO_SET_NEXT(objectToFree, \1);', 1, 1, name='store into a free object -> FO_SET_NEXT (ghost record + writability obligation; the 16 KB payload is not read back)')
    t = rw.sub(t, r'(?<![\w.>])(objectSize|allocatedCount|freeList|isFull)\b', r'self->\1', 5, name='field')
    t = rw.asserts(t, 2, macro='MALLOC_ASSERT')
    out.append(rw.std(t))
    s = slice_block(FE, r'(?m)^void Block::freePublicObject \(FreeObject \*objectToFree\)')
    sliced.append('%s:%d Block::freePublicObject (list push; the mailbox notification after it is cut)' % (FE, s.line))
    t = cxx2c.cpp_resolve(s.text, MACF, 'freePublicObject')
    m = re.search(r'\n\s*if\( localPublicFreeList==nullptr \) \{', t)
    if not m:
        raise ExtractionBreak('freePublicObject: the "first object on the public list" tail not found')
    t = t[:m.start()] + '\n    if( localPublicFreeList==nullptr ) STUB_notifyOwner(self);   /* tail cut: mailbox hand-off to the owner bin */\n}'
    rw.fired['cut tail of freePublicObject'] = 1
    t = rw.sub(t, r'void Block::freePublicObject \(FreeObject \*objectToFree\)', 'void Block_freePublicObject(Block *self, FreeObject *objectToFree)', 1, 1, name='sig')
    t = rw.sub(t, r'FreeObject\* localPublicFreeList\{\};', 'FreeObject* localPublicFreeList = NULL;', 1, 1, name='brace-init')
    t = rw.sub(t, r'MALLOC_ITT_SYNC_RELEASING\([^;]*\);', 'RG_NOP();', 1, 1, name='itt->RG_NOP')
    t = rw.sub(t, r'\bobjectToFree->next = ([^;]+);', r'FO_SET_NEXT(objectToFree, \1);', 1, 1, name='store into a free object -> FO_SET_NEXT (ghost record + writability obligation; the 16 KB payload is not read back)')
    t = rw.atomics(t, ['publicFreeList'], 2)
    t = rw.sub(t, r'(?<![\w.>])(publicFreeList)\b', r'self->\1', 2, name='field')
    t = rw.std(t)
    t = rw.number_sites(t, 'fpo', by_kind=True)
    t = cxx2c.tag_loops(t, 'fpo', rw, expect=1)
    out.append(t)
    common.write(ctx, 'free.inc', '\n'.join(out) + '\n')
    out = []
    s = slice_block(FE, r'static inline void freeSmallObject\(void \*object\)')
    sliced.append('%s:%d freeSmallObject' % (FE, s.line))
    t = cxx2c.cpp_resolve(s.text, MACF, 'freeSmallObject')
    t = rw.sub(t, r'static inline void freeSmallObject\(void \*object\)', 'static void freeSmallObject(void *object)', 1, 1, name='sig')
    t = rw.sub(t, r'\(Block \*\)alignDown\(object, slabSize\)', 'BLOCK_OF(object)', 1, 1, name='alignDown on a pointer -> BLOCK_OF: char* arithmetic to the same address (equality with the extracted alignDown is a proof obligation inside the macro)')
    t = rw.sub(t, r'block->checkFreePrecond\(object\);', 'STUB_checkFreePrecond(block, object);', 1, 1, name='callee stub (debug checks)')
    t = rw.sub(t, r'block->isStartupAllocObject\(\)', 'STUB_isStartupAllocObject(block)', 1, 1, name='callee stub')
    t = rw.sub(t, r'\(\(StartupBlock \*\)block\)->free\(object\);', 'STUB_startupFree(block, object);', 1, 1, name='callee stub')
    t = rw.sub(t, r'block->isOwnedByCurrentThread\(\)', 'STUB_isOwnedByCurrentThread(block)', 1, 1, name='callee stub')
    t = rw.sub(t, r'block->(freeOwnObject|freePublicObject)\(', r'Block_\1(block, ', 2, 2, name='method')
    t = rw.sub(t, r'block->(findObjectToFree)\(', r'Block_\1(block, ', 0, name='method (optional)')
    out.append(rw.std(t))
    common.write(ctx, 'free_small.inc', '\n'.join(out) + '\n')
    # reallocAligned
    for pat, what in ((r'size_t\s+objectSize;\s*// the size requested by a client', 'LargeMemoryBlock::objectSize'), (r'size_t\s+unalignedSize; // the size requested from backend', 'LargeMemoryBlock::unalignedSize'),
                      (r'struct LargeObjectHdr \{\s*LargeMemoryBlock \*memoryBlock;', 'LargeObjectHdr::memoryBlock')):
        if not re.search(pat, load(TI)):
            raise ExtractionBreak('tbbmalloc_internal.h: %s changed' % what)
    s = slice_block(FE, r'static void \*reallocAligned\(MemoryPool \*memPool, void \*ptr,\s*size_t newSize, size_t alignment = 0\)')
    sliced.append('%s:%d reallocAligned' % (FE, s.line))
    t = cxx2c.cpp_resolve(s.text, MAC, 'reallocAligned')
    t = rw.sub(t, r'size_t alignment = 0\)', 'size_t alignment)', 1, 1, name='default-arg dropped')
    t = rw.sub(t, r'isLargeObject<ourMem>\(ptr\)', 'STUB_isLargeObject(ptr)', 1, 1, name='callee stub')
    t = rw.sub(t, r'memPool->extMemPool\.backend\.getMaxBinnedSize\(\)', 'STUB_getMaxBinnedSize()', 1, 1, name='callee stub')
    t = rw.sub(t, r'if \(void \*r = memPool->extMemPool\.remap\(ptr, copySize, newSize,\s*([^;]*?)\)\)\s*return r;', r'{ void *r = STUB_remap(ptr, copySize, newSize, \1); if (r) return r; }', 1, 1, name='decl-in-condition + callee stub')
    t = rw.sub(t, r'block->findObjectSize\(ptr\)', 'STUB_findObjectSize(block, ptr)', 1, 1, name='callee stub')
    t = rw.sub(t, r'\(Block \*\)alignDown\(ptr, slabSize\)', '(Block *)alignDown((uintptr_t)ptr, slabSize)', 1, 1, name='bind-template(T:=uintptr_t)')
    t = rw.sub(t, r'\bmemcpy\(', 'VERIF_memcpy(', 1, 1, name='memcpy -> bounds-checking stub')
    t = rw.std(t)
    common.write(ctx, 'realloc.inc', t + '\n')
    fired['tbbmalloc'] = rw.fired
    return sliced, fired


def build(ctx):
    sliced, fired = extract(ctx)
    C = os.path.join(HERE, 'c17.c')
    jobs = [
        Job('sizeclass.map', C, 'h_sizeclass', route='LF', defines=['SC'], target='getSmallObjectIndex/getIndexOrObjectSize/getIndex/getObjectSize/highestBitPos', source=FE, timeout=600),
        Job('sizeclass.aligned_case1', C, 'h_aligned_case1', route='LF', defines=['SC'], target='allocateAligned case 1 arithmetic: getObjectSize(alignUp(size,a)) % a == 0', source=FE, timeout=600),
        Job('block.bump', C, 'h_bump', route='LF', defines=['BLK'], target='Block::allocateFromBumpPtr', source=FE, timeout=600),
        Job('block.find', C, 'h_find', route='LF', defines=['BLK'], target='Block::findAllocatedObject', source=FE, timeout=600),
        Job('free.find_to_free', C, 'h_find_to_free', route='LF', defines=['BLK', 'FREE'], target='Block::findObjectToFree + isProperlyPlaced', source=FE, timeout=600),
        Job('free.own', C, 'h_free_own', route='LF', defines=['BLK', 'FREE'], target='Block::freeOwnObject', source=FE, timeout=600),
        Job('free.public', C, 'h_free_public', route='RG', defines=['BLK', 'FREE'], loops=True, nloops=1, target='Block::freePublicObject (public list push)', source=FE, timeout=600),
        Job('free.small', C, 'h_free_small', route='LF', defines=['BLK', 'FREE'], target='freeSmallObject (own / foreign thread dispatch; callees by their proved behaviour)', source=FE, timeout=600),
        Job('realloc.large', C, 'h_realloc_large', route='LF', defines=['RA'], target='reallocAligned (large-object branch)', source=FE, timeout=600),
        Job('realloc.small', C, 'h_realloc_small', route='LF', defines=['RA'], target='reallocAligned (slab-object branch)', source=FE, timeout=600),
    ]
    return {
        'jobs': jobs, 'sliced': sliced, 'fired': fired,
        'trusted': ['bsr instruction == index of the highest set bit (VERIF_BSR; cross-checked natively in tv)', 'sizeof(Block) == 128 == 2*estimatedCacheLineSize on x86-64 (static_assert in frontend.cpp gives <=; equality checked natively in tv)',
                    'allocateAligned / internalPoolMalloc / internalPoolFree / remap / findObjectSize / getMaxBinnedSize / isLargeObject as contract stubs in the reallocAligned proof',
                    'memcpy replaced by a stub that checks both ranges are accessible for the requested length (no bytes copied)'],
        'drops': ['namespace-scope const -> #define', 'MALLOC_ASSERT -> proof obligation', 'STAT_increment -> RG_NOP()', 'template<bool> -> parameter', '#if chains resolved for x86-64 linux (BACKEND_HAS_MREMAP=1)'],
        'not_decided': ['privatizePublicFreeList / orphan adoption races; the mailbox notification tail of freePublicObject', 'backend coalescing (disjointness between slabs and large blocks)', 'getFromLLOCache placement', 'allocateAligned as a whole',
                        'never writes into a live block (global)', 'scalable_calloc zero-fill'],
        'assumptions': ['slab objects are placed at multiples of objectSize from the slab end (established by allocateFromBumpPtr: proved; preserved by the free lists: every address pushed by freeOwnObject / freePublicObject is proved to be such a start; the pop side (allocateFromFreeList, privatizePublicFreeList) is not under contract)', 'a pointer passed to free is the start of a live slab object, or (fitting bins only) an address inside it aligned to 2*fittingAlignment - what allocateAligned hands out'],
    }


def tv(ctx):
    exe = native.build([os.path.join(HERE, 'c17_tv.cpp')], os.path.join(ctx.work, 'c17_tv'), flags=['-fno-access-control', '-I', os.path.join(ctx.repo, 'src/tbbmalloc'), '-I', os.path.join(ctx.repo, 'src'), '-D__TBBMALLOC_BUILD=1', '-ldl'], includes=[ctx.work, HERE])
    rc, out = native.run([exe], timeout=300)
    if rc != 0 and 'MISMATCH' not in out:
        raise native.NativeError('tv run failed rc=%s: %s' % (rc, out[-800:]))
    m = re.search(r'cases=(\d+)', out)
    return {'cases': int(m.group(1)) if m else 0, 'mismatches': [l for l in out.splitlines() if l.startswith('MISMATCH')],
            'note': 'getIndex/getObjectSize/highestBitPos (all sizes 1..8128) and findAllocatedObject: extracted C vs the real frontend.cpp, exhaustive over the stated domain; sizeof(Block)==128',
            'samples': [l for l in out.splitlines() if l.startswith('SAMPLE')][:5]}


def replay(ctx, jobname, failure):
    exe = native.build([os.path.join(HERE, 'c17_replay.cpp')], os.path.join(ctx.work, 'c17_replay'), flags=['-fno-access-control', '-I', os.path.join(ctx.repo, 'src/tbbmalloc'), '-I', os.path.join(ctx.repo, 'src'), '-D__TBBMALLOC_BUILD=1', '-ldl'])
    ins = failure.get('inputs', {}) or {}
    args = [exe, jobname] + ['%s=%s' % (k, v) for k, v in sorted(ins.items()) if isinstance(v, int)]
    rc, out = native.run(args, timeout=120)
    rep = {'cmd': ' '.join(args), 'rc': rc, 'output': out[-1500:], 'reproduced': False, 'detail': 'native search found no failing input'}
    m = re.search(r'REPRODUCED (.*)', out)
    if m:
        rep['reproduced'] = True
        rep['detail'] = m.group(1)
        w = re.search(r'class=(\S+)', m.group(1))
        rep['witness_class'] = w.group(1) if w else None
    return rep
