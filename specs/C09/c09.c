/* C09 harnesses: ticket arithmetic (all 2^64 tickets), the ticket-claim loops under rely/guarantee (CLAIM, WAKE), one lane (micro_queue) under rely/guarantee
   (LANE, LANESEQ), the queue representation (REP). */
#include "verif.h"
typedef size_t size_type; typedef size_t ticket_type;
#define n_queue ((size_type)8)
#define phi ((size_type)3)
#define IS_POW2(x) ((x) != 0 && (((x) & ((x) - 1)) == 0))

#ifdef TICKET
#include "ticket.inc"
ticket_type IN_k, IN_k2; size_t IN_item;
void h_lanes(void) {
    ticket_type k = IN_k = nondet_size_t();
    OBLIGATION(rep_index(k) < n_queue, "C09.lane: lane index < 8");
    OBLIGATION(rep_index(k) == rep_index(k + n_queue), "C09.lane: tickets k and k+8 meet in the same lane");
    size_t j = nondet_size_t(); __CPROVER_assume(j >= 1 && j < n_queue);
    OBLIGATION(rep_index(k + j) != rep_index(k), "C09.lane: 8 consecutive tickets go to 8 different lanes");
    VACUITY_END();
}
void h_slots(void) {
    ticket_type k = IN_k = nondet_size_t(), k2 = IN_k2 = nondet_size_t(); size_t item = IN_item = nondet_size_t();
    __CPROVER_assume(item >= 1);
    size_t ipp = items_per_page_of(item);
    OBLIGATION(IS_POW2(ipp) && ipp <= 32 && ipp >= 1, "C09.slot: items_per_page is a power of two <= 32 (mask-bit shift defined)");
    OBLIGATION(ipp * (item < 128 ? item : 1) <= 256 || item > 128, "C09.slot: a page stays small");
    size_t s = slot_of(k, ipp);
    OBLIGATION(s < ipp, "C09.slot: slot index inside the page");
    OBLIGATION(slot_of(k + n_queue, ipp) == (s + 1) % ipp, "C09.slot: the next ticket of the lane takes the next slot; a page boundary is exactly slot 0");
    /* (lane, turn) is injective in the ticket: two tickets of the same lane and the same turn are the same ticket */
    if (rep_index(k) == rep_index(k2) && k / n_queue == k2 / n_queue) OBLIGATION(k == k2, "C09.slot: (lane, turn) determines the ticket: distinct tickets never share a cell");
    VACUITY_END();
}
#endif

#ifdef CLAIM
struct rep { ticket_type head_counter, tail_counter; };
struct concurrent_monitor { int dummy; };
struct bqueue { struct rep *my_queue_representation; ptrdiff_t my_capacity; struct concurrent_monitor *my_monitors; };
struct pop_result { bool first; ticket_type second; };
static struct rep R;
/* ghost */
bool o_made; ticket_type o_t;          /* one arbitrary ticket claimed by some other thread's CAS on the same counter */
bool my_made; ticket_type my_t;
ptrdiff_t g_size_at_tail_read, g_size_at_head_read; unsigned long g_lane_calls; ticket_type g_lane_ticket;
int g_which;   /* 0: claims are on head_counter (pop), 1: on tail_counter (push) */
#define LIM ((size_t)1 << 62)
#define CNT (g_which ? R.tail_counter : R.head_counter)
#define QINV (R.head_counter < LIM && R.tail_counter < LIM && (!o_made || o_t < CNT) && (!my_made || my_t < CNT) && (!(o_made && my_made) || o_t != my_t))
static void interfere(void) {
    /* rely: both counters only grow (each step is another thread's successful CAS / fetch_add); one of those steps is the Skolem claim o_t */
    size_t a = nondet_size_t(), b = nondet_size_t(), c = nondet_size_t(), d = nondet_size_t();
    __CPROVER_assume(a < LIM && b < LIM && c < LIM && d < LIM);
    R.head_counter += a; R.tail_counter += b;
    if (!o_made && nondet_bool()) { o_t = CNT; if (g_which) R.tail_counter += 1; else R.head_counter += 1; o_made = true; }
    R.head_counter += c; R.tail_counter += d;
    __CPROVER_assume(R.head_counter < LIM && R.tail_counter < LIM);
}
#define ATOMIC_LOAD_AT(site, f) ({ interfere(); GHOST_##site; (f); })
#define ATOMIC_CAS_AT(site, f, e, d) ({ interfere(); __CPROVER_assume((f) < LIM - 1); /* counters do not wrap (stated assumption) */ bool r_ = ((f) == *(e)); if (r_) { my_t = (f); my_made = true; GHOSTCAS_##site; (f) = (d); } else *(e) = (f); \
        __CPROVER_assert(QINV, "guarantee: INV re-established at " #site); r_; })
#define GHOST_pop_LOAD_1 ((void)0)
#define GHOST_pop_LOAD_2 (g_size_at_tail_read = (ptrdiff_t)(R.tail_counter - R.head_counter))
#define GHOST_push_LOAD_1 ((void)0)
#define GHOST_push_LOAD_2 (g_size_at_head_read = (ptrdiff_t)(R.tail_counter - R.head_counter))
#define GHOSTCAS_pop_CAS_1 __CPROVER_assert((ptrdiff_t)(R.tail_counter - my_t) > 0, "C09.pop: a pop ticket is only taken while the queue holds (or is being given) an item for it: tail - ticket > 0 at the CAS")
static struct bqueue *g_bq;
#define GHOSTCAS_push_CAS_1 __CPROVER_assert((ptrdiff_t)(my_t - R.head_counter) < g_bq->my_capacity, "C09.push: a push ticket is taken without blocking only while size < capacity at the CAS")
static bool STUB_lane_pop(struct rep *q, ticket_type t) { g_lane_calls++; g_lane_ticket = t; __CPROVER_assert(my_made && t == my_t, "C09.pop: the lane is asked for exactly the claimed ticket"); bool ok = nondet_bool(); if (!ok) my_made = false; /* invalid entry: the ticket is consumed, retry */ return ok; }
static void STUB_lane_push(struct bqueue *b, ticket_type t) { g_lane_calls++; g_lane_ticket = t; }
bool g_notified; ticket_type g_notified_t;
static void STUB_notify(ticket_type t) { g_notified = true; g_notified_t = t; }
#define LOOPC(extra) __CPROVER_assigns(ticket, R, o_made, o_t, my_made, my_t, g_size_at_tail_read, g_size_at_head_read, g_lane_calls, g_lane_ticket) __CPROVER_loop_invariant(QINV && ticket < LIM && !my_made && (extra))
/* a ticket held in a local is a past value of the counter it was read from */
#define LOOP_pop_1 LOOPC(1)
#define LOOP_pop_2 LOOPC(ticket <= R.head_counter)
#define LOOP_push_1 LOOPC(ticket <= R.tail_counter && g_lane_calls == 0)
#include "claim.inc"
static void init(int which) {
    g_which = which; R.head_counter = nondet_size_t(); R.tail_counter = nondet_size_t(); o_made = nondet_bool(); o_t = nondet_size_t(); my_made = false; g_lane_calls = 0;
    __CPROVER_assume(QINV);
}
void h_try_pop(void) {
    init(0);
    struct pop_result r = internal_try_pop_impl(NULL, &R);
    interfere();
    if (r.first) {
        OBLIGATION(my_made && r.second == my_t && g_lane_ticket == my_t, "C09.pop: a successful pop returns the ticket it claimed");
        OBLIGATION(!o_made || o_t != my_t, "C09.pop: tickets handed to poppers are unique (any number of concurrent poppers)");
        OBLIGATION(my_t < R.head_counter, "C09.pop: a claimed ticket lies below head_counter for ever");
    } else
        OBLIGATION(g_size_at_tail_read <= 0 && !my_made, "C09.pop: empty is reported only from an instant at which the queue held no item, and no ticket was consumed");
    VACUITY_END();
}
ptrdiff_t IN_cap;
void h_push_if_not_full(void) {
    init(1);
    struct bqueue b; b.my_queue_representation = &R; b.my_capacity = IN_cap = nondet_long(); g_bq = &b;
    __CPROVER_assume(b.my_capacity >= 1);
    bool ok = internal_push_if_not_full(&b);
    interfere();
    if (ok) {
        OBLIGATION(my_made && g_lane_calls == 1 && g_lane_ticket == my_t, "C09.push: the item is pushed once, under the claimed ticket");
        OBLIGATION(!o_made || o_t != my_t, "C09.push: push tickets are unique");
        OBLIGATION(g_notified && g_notified_t == my_t, "C09.push: poppers waiting for this ticket are notified with it");
    } else
        OBLIGATION(g_size_at_head_read >= b.my_capacity && !my_made && g_lane_calls == 0, "C09.push: full is reported only from an instant at which size() >= capacity (a negative size, i.e. waiting poppers, is never full)");
    VACUITY_END();
}
#ifdef WAKE
/* ---- who is woken: blocked push/pop complete as soon as space/items appear (no lost wake-up) ----
   A sleeper of monitor `tag` with context c sleeps only while counter(tag) <= c  (pop: tail_counter <= its ticket; push: head_counter <= ticket - capacity).
   The step of counter(tag) from c to c+1 is the claim of ticket c by a push (tag items_avail) / pop (tag slots_avail).
   Proved here, for a ghost sleeper context W chosen arbitrarily:
     (P) notify(tag, t) wakes every sleeper of `tag` with context <= t                     (predicate_leq + notify_bounded_queue_monitor)
     (Q) an operation that claimed tickets c1..ck on counter(tag) calls notify(tag, t) with t >= every ci, after its lane operation  (internal_pop / internal_push / *_if_*)
   Hence every sleeper whose wait condition was falsified by this operation is woken by it. */
#include "wake_decl.inc"
size_t W; bool g_woken[2]; unsigned g_notifies[2]; size_t g_nt[2]; struct concurrent_monitor MON[2];
bool g_claimed_W;            /* this call claimed ticket W on the counter it advances */
unsigned long g_lane_at_notify; unsigned g_waits; size_t g_wait_tag; ptrdiff_t g_wait_ctx;
static void STUB_monitor_notify(struct concurrent_monitor *m, struct predicate_leq p) {
    size_t tag = (size_t)(m - MON);
    __CPROVER_assert(tag < 2, "C09.wake: a monitor of this queue");
    bool w = predicate_leq_call(&p, (uintptr_t)W);
    __CPROVER_assert(!(W <= p.my_ticket) || w, "C09.wake: notify(t) wakes every sleeper whose context is <= t (a sleeper whose own ticket never notifies - throwing constructor, skipped invalid slot - is still woken)");
    g_woken[tag] = g_woken[tag] || w; g_notifies[tag]++; g_nt[tag] = p.my_ticket; g_lane_at_notify = g_lane_calls;
}
static void STUB_wait(struct bqueue *b, size_t tag, ptrdiff_t ctx) { g_waits++; g_wait_tag = tag; g_wait_ctx = ctx; }
static struct pop_result STUB_try_pop_impl(struct rep *q) {
    /* contract proved in claim.try_pop: on success the returned ticket was claimed on head_counter */
    struct pop_result r; r.first = nondet_bool(); r.second = nondet_size_t();
    if (r.first) { __CPROVER_assume(r.second < q->head_counter); my_made = true; my_t = r.second; if (r.second == W) g_claimed_W = true; }
    return r;
}
#undef ATOMIC_LOAD_AT
#define ATOMIC_LOAD_AT(site, f) ({ interfere(); (f); })
#define ATOMIC_POSTINC_AT(site, f) ({ interfere(); __CPROVER_assume((f) < LIM - 1); size_t old_ = (f); (f) = old_ + 1; my_t = old_; my_made = true; if (old_ == W) g_claimed_W = true; \
        __CPROVER_assert(QINV, "guarantee: INV re-established at " #site); old_; })
#define LOOP_bpop_1 __CPROVER_assigns(target, R, o_made, o_t, my_made, my_t, g_lane_calls, g_lane_ticket, g_claimed_W, g_waits, g_wait_tag, g_wait_ctx) __CPROVER_loop_invariant(QINV && g_notifies[0] == 0 && g_notifies[1] == 0 && (!g_claimed_W || W < R.head_counter) && !my_made && (g_waits == 0 || g_wait_tag == cbq_items_avail_tag))
#include "wake.inc"
static void winit(int which, struct bqueue *b) {
    init(which); W = nondet_size_t(); g_woken[0] = g_woken[1] = false; g_notifies[0] = g_notifies[1] = 0; g_claimed_W = false; g_waits = 0;
    b->my_queue_representation = &R; b->my_capacity = nondet_long(); b->my_monitors = MON; g_bq = b;
    __CPROVER_assume(b->my_capacity >= 1);
}
size_t IN_w, IN_t;
void h_wake_pred(void) {
    struct bqueue b; winit(0, &b);
    size_t tag = nondet_size_t(), t = IN_t = nondet_size_t(); IN_w = W; __CPROVER_assume(tag < monitors_number);
    notify_bounded_queue_monitor(MON, tag, t);
    OBLIGATION(g_notifies[tag] == 1 && g_notifies[1 - tag] == 0 && g_nt[tag] == t, "C09.wake: the notification goes to the monitor named by the tag, with the ticket");
    OBLIGATION(!(W <= t) || g_woken[tag], "C09.wake: every sleeper with context <= ticket is woken");
    VACUITY_END();
}
void h_wake_pop(void) {
    struct bqueue b; winit(0, &b);
    internal_pop(&b, NULL);
    OBLIGATION(g_notifies[cbq_slots_avail_tag] == 1 && g_notifies[cbq_items_avail_tag] == 0, "C09.wake: a pop notifies the pushers' monitor once, and only it");
    OBLIGATION(my_made && g_nt[cbq_slots_avail_tag] == my_t && g_lane_ticket == my_t && g_lane_at_notify == g_lane_calls, "C09.wake: pushers are notified with the ticket actually popped, after the pop");
    OBLIGATION(!g_claimed_W || g_woken[cbq_slots_avail_tag], "C09.wake: a pusher waiting for ANY head ticket this pop consumed (including skipped invalid slots) is woken");
    OBLIGATION(g_waits == 0 || (g_wait_tag == cbq_items_avail_tag), "C09.wake: a pop sleeps on the items monitor");
    VACUITY_END();
}
void h_wake_push(void) {
    struct bqueue b; winit(1, &b);
    internal_push(&b);
    OBLIGATION(g_notifies[cbq_items_avail_tag] == 1 && g_notifies[cbq_slots_avail_tag] == 0, "C09.wake: a push notifies the poppers' monitor once, and only it");
    OBLIGATION(my_made && g_nt[cbq_items_avail_tag] == my_t && g_lane_calls == 1 && g_lane_ticket == my_t && g_lane_at_notify == 1, "C09.wake: poppers are notified with the pushed ticket, after the item is stored");
    OBLIGATION(!g_claimed_W || g_woken[cbq_items_avail_tag], "C09.wake: the popper waiting for this ticket is woken");
    OBLIGATION(g_waits == 0 || (g_wait_tag == cbq_slots_avail_tag && g_wait_ctx == (ptrdiff_t)(my_t - (size_t)b.my_capacity)), "C09.wake: a full-queue push sleeps on the slots monitor with context ticket - capacity: it is runnable as soon as pop number ticket-capacity has taken its ticket");
    VACUITY_END();
}
void h_wake_popif(void) {
    struct bqueue b; winit(0, &b);
    bool ok = internal_pop_if_present(&b, NULL);
    OBLIGATION(ok == my_made, "C09.wake: try_pop result");
    OBLIGATION(!ok || (g_notifies[cbq_slots_avail_tag] == 1 && g_nt[cbq_slots_avail_tag] == my_t && (!g_claimed_W || g_woken[cbq_slots_avail_tag])), "C09.wake: a successful try_pop wakes the pusher waiting for its ticket");
    VACUITY_END();
}
#endif
#endif

#ifdef LANE
/* ---- micro_queue: one lane.  push / prepare_page / spin_wait_until_my_turn / pop / assign_and_destroy_item / micro_queue_pop_finalizer ----------------
   Rely/guarantee proof of ONE call (the push or the pop of an arbitrary ticket: some page of the lane, slot g_idx, any of the six page-size classes) against
   any number of other pushes and pops of the same lane (every other ticket; tickets are unique: claim.* jobs).  Shared state: tail_counter, head_counter,
   head_page, tail_page, page_mutex, the pages.
   Ghost: the turn tail_counter / head_counter stand at, as (page, slot) RELATIVE to this call's page: (TP, TS) and (HP, HS); g_app / g_rem = the push in
   progress (slot 0) has already appended its page / the pop in progress (last slot) has already removed its page.  The code sees real counter values; it
   uses them only in equality tests with its ticket (and `c & 1`), so away from the ticket the real value is arbitrary (a multiple of n_queue other than the
   ticket) - no wide arithmetic is needed.  The window holds the two pages this call can reach: PREVO (relative page -1) and CURO (relative page 0); every
   other page is an opaque token.
   Every atomic operation, every lock / unlock is a step: the guarantee is checked for what this call did since the previous step, then the environment
   runs (havoc constrained by INV and the rely).  The history the lane is compared with: gvalid[s] / gval[s] = whether the push of slot s of this call's
   page constructed an element, and which. */
#include "ticket.inc"
typedef unsigned char value_type;
struct padded_page { struct padded_page *next; uintptr_t mask; value_type items[32]; };
struct micro_queue { struct padded_page *head_page; ticket_type head_counter; struct padded_page *tail_page; ticket_type tail_counter; int page_mutex; };
struct queue_rep { size_t n_invalid_entries; };
struct finalizer { ticket_type my_ticket_type; struct micro_queue *my_queue; struct padded_page *my_page; int *allocator; };
static size_type items_per_page;
static struct micro_queue Q; static struct queue_rep BASE; static struct padded_page PREVO, CURO; static char tok_next_, tok_lo_, tok_hi_;
#define TOK_NEXT ((struct padded_page *)&tok_next_)
#define TOK_LO ((struct padded_page *)&tok_lo_)
#define TOK_HI ((struct padded_page *)&tok_hi_)
#define INVALID_PAGE ((struct padded_page *)(uintptr_t)1)
enum { PUSH = 0, POP = 1 };
static int g_role; static unsigned g_lg; static size_t g_idx, g_s; static ticket_type K8;
static long TP, HP; static size_t TS, HS; static bool g_app, g_rem;
static bool gvalid[32]; static value_type gval[32];
static bool g_seq;                      /* sequential scenario (no other thread, no lane invariant): lane.pop.invalid_page */
static bool g_fail_alloc;               /* the page allocation of this push throws */
static bool me_tail_passed;             /* this pop has seen tail_counter beyond its ticket (counters only grow: it stays beyond) */
static bool me_adv, me_linked, me_unlinked, me_hold, me_private, me_destroyed, me_read_in_turn, cur_freed, g_exc;
static unsigned n_adv, n_alloc, n_construct, n_free, n_destroy, n_lock, n_read; static long my_nie; static bool adv_bit; static value_type adv_item; static bool adv_in_turn;
struct snap { ticket_type tc, hc; long linked, unlinked; struct padded_page *hp, *tp, *pn, *cn; int mutex; uintptr_t pm, cm; value_type ps, cs, ci; bool adv, t_after; };
static struct snap S;
#define PMAXD ((long)1 << 40)
#define LT2(p1, s1, p2, s2) ((p1) < (p2) || ((p1) == (p2) && (s1) < (s2)))
#define LE2(p1, s1, p2, s2) ((p1) < (p2) || ((p1) == (p2) && (s1) <= (s2)))
#define T_AT_ME (TP == 0 && TS == g_idx)
#define H_AT_ME (HP == 0 && HS == g_idx)
#define T_AFTER_ME LT2(0, g_idx, TP, TS)
#define H_AFTER_ME LT2(0, g_idx, HP, HS)
#define LAST_ (items_per_page - 1)
/* number of pages ever appended to / removed from the lane's list, relative to this call's page: a page is appended during the turn of its slot 0 and removed during the turn of its last slot */
#define LINKED_D (TP + (TS != 0 ? 1 : 0) + (g_app ? 1 : 0))
#define UNLINKED_D (HP + (g_rem ? 1 : 0))
#define LIVE_(d) (UNLINKED_D <= (d) && (d) < LINKED_D)
#define PAGEPTR(d) ((d) == 0 ? &CURO : ((d) == -1 ? &PREVO : ((d) == 1 ? TOK_NEXT : ((d) < 0 ? TOK_LO : TOK_HI))))
#define BIT_(s) ((CURO.mask >> (s)) & 1)
/* counters: head never passes tail; the real counters are multiples of n_queue (no failed page allocation so far: assumption of these jobs) and equal the ticket exactly in the ticket's turn */
#define INV_COUNTERS (TS < items_per_page && HS < items_per_page && LE2(HP, HS, TP, TS) && -PMAXD < HP && TP < PMAXD && (Q.tail_counter & 7) == 0 && (Q.head_counter & 7) == 0 \
             && (Q.tail_counter == K8) == T_AT_ME && (Q.head_counter == K8) == H_AT_ME)
/* a page is appended only during the turn of its slot 0, removed only during the turn of its last slot, which starts only after that slot was pushed */
#define INV_BOUNDS ((!g_app || TS == 0) && (!g_rem || (HS == LAST_ && LT2(HP, HS, TP, TS))))
/* what only this call can do has not happened unless this call did it (tickets are unique); a counter seen beyond the ticket stays beyond it */
#define INV_ME ((g_role != PUSH || (me_adv ? T_AFTER_ME : !T_AFTER_ME)) && (g_role != PUSH || g_idx != 0 || me_linked || LINKED_D <= 0) \
             && (g_role != POP || (me_adv ? H_AFTER_ME : !H_AFTER_ME)) && (g_role != POP || g_idx != LAST_ || me_unlinked || UNLINKED_D <= 0) && (!me_tail_passed || T_AFTER_ME))
/* what the two lock-free reads depend on, at every instant (also while somebody is inside a page_mutex section):
   head_page is the oldest page not yet removed as soon as that page has been appended; tail_page is the page of the ticket being pushed unless that page is still to be appended */
#define INV_READERS ((UNLINKED_D >= LINKED_D || Q.head_page == PAGEPTR(UNLINKED_D)) && ((TS == 0 && !g_app) || Q.tail_page == PAGEPTR(LINKED_D - 1)))
/* the list, whenever nobody is inside a page_mutex section */
#define INV_LIST (Q.page_mutex != 0 || (Q.head_page == (UNLINKED_D < LINKED_D ? PAGEPTR(UNLINKED_D) : NULL) && Q.tail_page == (UNLINKED_D < LINKED_D ? PAGEPTR(LINKED_D - 1) : NULL) \
             && (!LIVE_(-1) || PREVO.next == (0 < LINKED_D ? &CURO : NULL)) && (!LIVE_(0) || CURO.next == (1 < LINKED_D ? TOK_NEXT : NULL))))
/* a cell of this call's page: pushed (turn below tail): the mask bit says whether an element was constructed, and the element is there until its pop's turn; not yet pushed: bit clear */
#define PUSHED_(s) (TP > 0 || (TP == 0 && (s) < TS))
#define UNPOPPED_(s) (HP < 0 || (HP == 0 && HS < (s)) || (HP == 0 && HS == (s) && g_role == POP && (s) == g_idx && !me_destroyed))
#define CELL_(s) (!LIVE_(0) || (PUSHED_(s) ? (BIT_(s) == (uintptr_t)gvalid[s] && (!gvalid[s] || !UNPOPPED_(s) || CURO.items[s] == gval[s])) : ((TP == 0 && TS == (s)) ? (BIT_(s) == 0 || gvalid[s]) : BIT_(s) == 0)))
#define INV (INV_COUNTERS && INV_BOUNDS && INV_ME && INV_READERS && INV_LIST && CELL_(g_idx) && CELL_(g_s))
#define SNAP_CUR (S.tc == Q.tail_counter && S.hc == Q.head_counter && S.linked == LINKED_D && S.unlinked == UNLINKED_D && S.hp == Q.head_page && S.tp == Q.tail_page && S.pn == PREVO.next && S.cn == CURO.next \
             && S.mutex == Q.page_mutex && S.pm == PREVO.mask && S.cm == CURO.mask && S.ps == PREVO.items[g_s] && S.cs == CURO.items[g_s] && S.ci == CURO.items[g_idx] && S.adv == me_adv && S.t_after == T_AFTER_ME)
static void capture(struct snap *s) {
    s->tc = Q.tail_counter; s->hc = Q.head_counter; s->linked = LINKED_D; s->unlinked = UNLINKED_D; s->hp = Q.head_page; s->tp = Q.tail_page; s->pn = PREVO.next; s->cn = CURO.next;
    s->mutex = Q.page_mutex; s->pm = PREVO.mask; s->cm = CURO.mask; s->ps = PREVO.items[g_s]; s->cs = CURO.items[g_s]; s->ci = CURO.items[g_idx]; s->adv = me_adv; s->t_after = T_AFTER_ME;
}
struct padded_page nondet_page(void);
/* guarantee: what this call did since the previous step is something the rely of every other call allows */
static void guarantee_check(void) {
    if (g_seq) return;
    __CPROVER_assert(INV_COUNTERS && INV_BOUNDS, "guarantee: the lane's counters stay multiples of n_queue with head <= tail; a page is appended only in the turn of its slot 0 and removed only in the turn of its last slot");
    __CPROVER_assert(INV_ME, "guarantee: a counter is moved past a ticket, and the page of a turn appended / removed, only by the call that holds the ticket");
    __CPROVER_assert(INV_READERS, "guarantee: at every instant head_page is the oldest page not yet removed as soon as that page is appended (what a pop reads without the lock), and tail_page the page of the ticket being pushed once that page is appended (what a push reads without the lock)");
    __CPROVER_assert(INV_LIST, "guarantee: outside page_mutex sections head_page .. tail_page is the list of the appended, unconsumed pages in page order, null when there is none");
    __CPROVER_assert(CELL_(g_idx) && CELL_(g_s), "guarantee: a pushed cell's mask bit tells whether an element was constructed and the element stays until its own pop; the bit of a cell not yet pushed is clear");
    bool listsame = Q.head_page == S.hp && Q.tail_page == S.tp && PREVO.next == S.pn && (CURO.next == S.cn || me_private);
    __CPROVER_assert(listsame || S.mutex == 1, "guarantee: head_page, tail_page and the next links are written only inside a page_mutex section");
    __CPROVER_assert(PREVO.mask == S.pm && PREVO.items[g_s] == S.ps, "guarantee: the cells of another page are not touched");
    if (g_role == PUSH) {
        __CPROVER_assert(Q.head_counter == S.hc && UNLINKED_D == S.unlinked, "guarantee: a push never moves head_counter and never removes a page");
        __CPROVER_assert(Q.tail_counter == S.tc || (S.tc == K8 && !S.adv && Q.tail_counter == K8 + n_queue && n_adv == 1), "guarantee: tail_counter is advanced only in the ticket's own turn, by exactly n_queue, once");
        __CPROVER_assert(me_private || (((CURO.mask ^ S.cm) & ~((uintptr_t)1 << g_idx)) == 0 && (g_s == g_idx || CURO.items[g_s] == S.cs)), "guarantee: a push writes no cell and no mask bit but its own");
        __CPROVER_assert(me_private || (CURO.mask == S.cm && CURO.items[g_idx] == S.ci) || (S.tc == K8 && !S.adv), "guarantee: a push writes its cell and its mask bit only during its own turn");
    } else {
        __CPROVER_assert(Q.tail_counter == S.tc && LINKED_D == S.linked, "guarantee: a pop never moves tail_counter and never appends a page");
        __CPROVER_assert(Q.head_counter == S.hc || (S.hc == K8 && !S.adv && S.t_after && Q.head_counter == K8 + n_queue && n_adv == 1), "guarantee: head_counter is advanced only in the ticket's own turn, after the push of the same ticket, by exactly n_queue, once");
        __CPROVER_assert(CURO.mask == S.cm && (g_s == g_idx || CURO.items[g_s] == S.cs), "guarantee: a pop changes no mask bit and no cell but its own");
        __CPROVER_assert(CURO.items[g_idx] == S.ci || (S.hc == K8 && !S.adv && S.t_after), "guarantee: a pop takes its cell only during its own turn, after the push of the same ticket");
    }
}
/* rely: what the other pushes and pops of the lane can do, in any number of steps, given what this call holds.  Everything is havocked under INV except:
   - the counter whose turn is this call's, and whether that turn's page operation has happened (only the ticket holder moves a counter past its ticket and
     appends / removes the page of its turn; tickets are unique);
   - while this call is inside a page_mutex section: head_page, tail_page, the next links of linked pages, and the page counts;
   - during the turn of a push: the mask word and the cell of its slot (pops of the page only read other bits / cells; the next push waits for the turn);
   - a page that is still private to this call.
   Two-state facts the proofs need are kept as one-state facts in INV_ME (a counter that was seen beyond the ticket stays beyond it). */
static void env(void) {
    if (g_seq) return;
    long o_linked = LINKED_D, o_unlinked = UNLINKED_D; bool prevlive = LIVE_(-1), curlive = LIVE_(0);
    bool my_turn_push = g_role == PUSH && !me_adv && T_AT_ME, my_turn_pop = g_role == POP && !me_adv && H_AT_ME;
    struct padded_page *pn = PREVO.next, *cn = CURO.next; uintptr_t cm = CURO.mask; value_type ci = CURO.items[g_idx];
    if (!my_turn_push) { TP = nondet_long(); TS = nondet_size_t(); g_app = nondet_bool(); }
    if (!my_turn_pop) { HP = nondet_long(); HS = nondet_size_t(); g_rem = nondet_bool(); }
    ticket_type ot = nondet_size_t(), oh = nondet_size_t(); __CPROVER_assume((ot & 7) == 0 && ot != K8 && (oh & 7) == 0 && oh != K8);
    Q.tail_counter = T_AT_ME ? K8 : ot; Q.head_counter = H_AT_ME ? K8 : oh;
    BASE.n_invalid_entries = nondet_size_t();
    if (!me_hold) { Q.head_page = nondet_ptr(); Q.tail_page = nondet_ptr(); Q.page_mutex = nondet_bool() ? 2 : 0; }
    PREVO = nondet_page(); if (me_hold && prevlive) PREVO.next = pn;
    if (!me_private) { CURO = nondet_page(); if (me_hold) CURO.next = cn; if (my_turn_push && curlive) { CURO.mask = cm; CURO.items[g_idx] = ci; } }
    __CPROVER_assume(INV);
    if (me_hold) __CPROVER_assume(LINKED_D == o_linked && UNLINKED_D == o_unlinked);
}
static void step(void) { guarantee_check(); env(); capture(&S); }
static void sync(void) { guarantee_check(); capture(&S); }    /* a plain write by a stub: checked at once, so that S is current when a spin loop is entered */
static void lock_mutex(int *m) { guarantee_check(); env(); __CPROVER_assert(!me_hold, "C09.page: page_mutex is not taken twice by the same call"); __CPROVER_assume(*m == 0); *m = 1; me_hold = true; n_lock++; capture(&S); }
static void unlock_mutex(int *m) {
    step(); __CPROVER_assert(me_hold && *m == 1, "C09.page: only the holder releases page_mutex");
    if (g_role == PUSH && !me_linked && !g_exc) { g_app = true; me_linked = true; me_private = false; }   /* ghost: the section appended this call's page */
    *m = 0; me_hold = false; guarantee_check(); capture(&S);
}
#define LOCK_MUTEX(m) lock_mutex(&(m))
#define UNLOCK_MUTEX(m) unlock_mutex(&(m))
static void on_write(void *a, long d) {
    if (a == (void *)&Q.tail_counter || a == (void *)&Q.head_counter) {
        n_adv++; me_adv = true; adv_bit = BIT_(g_idx) != 0; adv_item = CURO.items[g_idx];
        /* ghost: the turn moves on */
        if (a == (void *)&Q.tail_counter) { adv_in_turn = Q.tail_counter == K8; g_app = false; if (TS + 1 == items_per_page) { TP++; TS = 0; } else TS++; }
        else { adv_in_turn = Q.head_counter == K8; g_rem = false; if (HS + 1 == items_per_page) { HP++; HS = 0; } else HS++; }
    }
    if (a == (void *)&BASE.n_invalid_entries) my_nie += d;
}
static void after_write(void *a) { if (a == (void *)&Q.head_page && g_role == POP && me_hold && !me_unlinked) { g_rem = true; me_unlinked = true; } }   /* ghost: the section removed this call's page */
static void note_load(void *a) { if (a == (void *)&Q.tail_counter && g_role == POP && Q.tail_counter != K8 && H_AT_ME) me_tail_passed = true; }   /* head <= tail, head at the ticket, tail not at it: beyond */
#define ATOMIC_LOAD_AT(site, f) ({ step(); note_load((void *)&(f)); (f); })
#define ATOMIC_STORE_AT(site, f, v) ({ __typeof__(f) v_ = (v); step(); on_write((void *)&(f), 0); (f) = v_; after_write((void *)&(f)); (void)0; })
#define ATOMIC_FETCH_ADD_AT(site, f, v) ({ __typeof__(f) a_ = (v); step(); on_write((void *)&(f), 0); __typeof__(f) o_ = (f); (f) = o_ + a_; o_; })
#define ATOMIC_PREINC_AT(site, f) ({ step(); on_write((void *)&(f), 1); ++(f); })
#define ATOMIC_PREDEC_AT(site, f) ({ step(); on_write((void *)&(f), -1); --(f); })
static struct padded_page *page_access(const struct padded_page *p) {
    bool cur_ok = p == &CURO && !cur_freed && (g_seq || me_private || LIVE_(0) || (g_role == POP && me_unlinked));
    bool prev_ok = p == &PREVO && LIVE_(-1);
    __CPROVER_assert(cur_ok || prev_ok, "C09.page: a page is touched only while it is certain to exist (linked and not yet retired, or still private to this call) - never a null, invalid, foreign or possibly freed page");
    return p == &PREVO ? &PREVO : &CURO;
}
#define PAGE_NEXT(p) (page_access(p)->next)
#define PAGE_MASK(p) (page_access(p)->mask)
#define PAGE_ITEMS(p) (page_access(p)->items)
#define ALLOC_REBIND(a, b) int a = 0; (void)(b)
#define EXC_PENDING() (g_exc)
#define EXC_THROW(x) (g_exc = true)
#define EXC_RETHROW(r) return r
#define EXC_PROPAGATE(...) do { if (g_exc) return __VA_ARGS__; } while (0)
static struct padded_page *STUB_page_allocate(void) {
    __CPROVER_assert(g_role == PUSH && g_idx == 0 && n_alloc == 0, "C09.page: a page is allocated exactly by the push that takes slot 0 of that page, once");
    n_alloc++; if (g_fail_alloc) { g_exc = true; return NULL; }
    CURO = nondet_page(); me_private = true; sync(); return &CURO;
}
static void STUB_page_construct(struct padded_page *p) { __CPROVER_assert(p == &CURO && me_private, "C09.page: the page constructed is the one just allocated"); CURO.next = NULL; CURO.mask = 0; sync(); }
static void STUB_construct_item(value_type *loc, const value_type *args) {
    n_construct++;
    __CPROVER_assert(loc == &CURO.items[g_idx], "C09.cell: the element of ticket k is constructed in page (k / n_queue) / items_per_page of its lane, slot (k / n_queue) mod items_per_page");
    __CPROVER_assert(Q.tail_counter == K8 && !me_adv && LIVE_(0), "C09.turnstile: the element is constructed only during the ticket's own turn (tail_counter == k & -n_queue), in a page that is linked into the lane");
    if (!gvalid[g_idx]) { g_exc = true; return; }     /* the element constructor throws */
    CURO.items[g_idx] = *args; sync();
}
static value_type *note_read(value_type *from) { n_read++; me_read_in_turn = Q.head_counter == K8 && !me_adv && (g_seq || T_AFTER_ME) && from == &CURO.items[g_idx]; return from; }
#define MOVE_FROM(from) (*note_read(from))
#define DESTROYER_CTOR(x) value_type *destroyer_my_value_ = (x)
#define DESTROYER_DTOR(x) STUB_destroy_item(destroyer_my_value_)
static void STUB_destroy_item(value_type *loc) { __CPROVER_assert(loc == &CURO.items[g_idx] && Q.head_counter == K8 && !me_adv, "C09.cell: the element destroyed is the one of the popped ticket, in the ticket's own turn"); n_destroy++; me_destroyed = true; *loc = nondet_uchar(); sync(); }
static void STUB_page_destroy(struct padded_page *p) { }
static void STUB_page_deallocate(struct padded_page *p) {
    __CPROVER_assert(p == &CURO && g_role == POP && g_idx == LAST_ && me_unlinked && !cur_freed, "C09.page: a page is freed only by the pop of its last slot, after that pop removed it from the lane's list, once");
    n_free++; cur_freed = true;
}
#define LANE_ASSIGNS Q, BASE, TP, TS, HP, HS, g_app, g_rem, PREVO, CURO, S, me_tail_passed
/* spin loops: the environment runs in every iteration; what env() keeps fixed is restated against the loop-entry state */
#define KEPT_SINCE_ENTRY ((g_role != POP || me_adv || __CPROVER_loop_entry(Q.head_counter) != K8 || (Q.head_counter == K8 && g_rem == __CPROVER_loop_entry(g_rem))) \
  && (g_role != PUSH || me_adv || __CPROVER_loop_entry(Q.tail_counter) != K8 || (Q.tail_counter == K8 && g_app == __CPROVER_loop_entry(g_app))) \
  && (!me_private || (CURO.next == __CPROVER_loop_entry(CURO.next) && CURO.mask == __CPROVER_loop_entry(CURO.mask))))
#define LOOP_turn_1 __CPROVER_assigns(LANE_ASSIGNS, my_nie, g_exc) __CPROVER_loop_invariant(INV && SNAP_CUR && KEPT_SINCE_ENTRY && !g_exc && my_nie == __CPROVER_loop_entry(my_nie))
#define LOOP_swweq_1 __CPROVER_assigns(LANE_ASSIGNS, snapshot) __CPROVER_loop_invariant(INV && SNAP_CUR && KEPT_SINCE_ENTRY && snapshot == *location && (location != &Q.tail_counter || g_role != POP || snapshot == K8 || !H_AT_ME || me_tail_passed))
#define LOOP_swueq_1 __CPROVER_assigns(LANE_ASSIGNS, snapshot) __CPROVER_loop_invariant(INV && SNAP_CUR && KEPT_SINCE_ENTRY && snapshot == *location)
#include "lane.inc"
size_t IN_lg, IN_idx, IN_lowbits;
static ticket_type lane_init(int role) {
    g_role = role; g_lg = nondet_unsigned(); __CPROVER_assume(g_lg <= 5);
    items_per_page = (size_type)1 << g_lg; IN_lg = g_lg;
    OBLIGATION(items_per_page == items_per_page_of((size_t)1 << (8 - g_lg)), "C09.slot: the six page-size classes are items_per_page = 1, 2, 4, 8, 16, 32");
    size_t pg = nondet_size_t(); g_idx = IN_idx = nondet_size_t(); g_s = nondet_size_t(); __CPROVER_assume(pg < ((size_t)1 << 50) && g_idx < items_per_page && g_s < items_per_page);
    K8 = ((pg << g_lg) | g_idx) << 3;         /* the lane ticket (low bits cleared): absolute page pg, slot g_idx */
    for (unsigned i = 0; i < 32; ++i) { gvalid[i] = nondet_bool(); gval[i] = nondet_uchar(); }
    me_tail_passed = me_adv = me_linked = me_unlinked = me_hold = me_private = me_destroyed = me_read_in_turn = cur_freed = g_exc = false; n_adv = n_alloc = n_construct = n_free = n_destroy = n_lock = n_read = 0; my_nie = 0;
    TP = nondet_long(); TS = nondet_size_t(); HP = nondet_long(); HS = nondet_size_t(); g_app = nondet_bool(); g_rem = nondet_bool();
    Q.tail_counter = nondet_size_t(); Q.head_counter = nondet_size_t(); Q.head_page = nondet_ptr(); Q.tail_page = nondet_ptr();
    Q.page_mutex = nondet_bool() ? 2 : 0; BASE.n_invalid_entries = nondet_size_t(); PREVO = nondet_page(); CURO = nondet_page();
    __CPROVER_assume(INV); capture(&S);
    size_t r = IN_lowbits = nondet_size_t(); __CPROVER_assume(r < n_queue);
    return K8 | r;      /* the global ticket: its low bits select the lane and are masked off by push / pop */
}
void h_lane_push(void) {
    g_fail_alloc = false; g_seq = false; ticket_type k = lane_init(PUSH);
    value_type v = gval[g_idx];
    mq_push(&Q, k, &BASE, NULL, &v);
    guarantee_check();
    OBLIGATION(g_exc == !gvalid[g_idx], "C09.fault: push leaves by exception exactly if the element constructor threw");
    OBLIGATION(n_construct == 1, "C09.cell: exactly one element construction per push");
    OBLIGATION(n_adv == 1 && me_adv && adv_in_turn, "C09.turnstile: a push hands the lane's turn on exactly once (tail_counter += n_queue, in its own turn) - also when the element constructor throws, so the lane is never blocked");
    OBLIGATION(adv_bit == gvalid[g_idx], "C09.cell: when the turn is handed on the slot's mask bit is set exactly if the element was constructed (a throwing constructor leaves an invalid slot)");
    OBLIGATION(!gvalid[g_idx] || adv_item == v, "C09.cell: when the turn is handed on the slot holds the pushed value");
    OBLIGATION(my_nie == (gvalid[g_idx] ? 0 : 1), "C09.fault: a push whose constructor threw is counted as exactly one invalid entry, a successful push as none");
    OBLIGATION((n_alloc == 1) == (g_idx == 0) && me_linked == (g_idx == 0) && !me_private, "C09.page: a new page is allocated and appended to the lane exactly when the ticket takes slot 0 of a page");
    OBLIGATION(!me_hold && n_lock == (g_idx == 0 ? 1u : 0u), "C09.page: page_mutex is released; it is taken only to append a page");
    VACUITY_END();
}
/* abort_push: a bounded-queue push that gives up (abort / exception while waiting for space) after it took its ticket: the slot is consumed, left invalid */
void h_lane_abort_push(void) {
    g_fail_alloc = false; g_seq = false; ticket_type k = lane_init(PUSH);
    __CPROVER_assume(!gvalid[g_idx]);          /* the history: the push of this ticket constructs nothing */
    mq_abort_push(&Q, k, &BASE, NULL);
    guarantee_check();
    OBLIGATION(!g_exc && n_construct == 0, "C09.fault: an aborted push constructs no element");
    OBLIGATION(n_adv == 1 && me_adv && adv_in_turn, "C09.turnstile: an aborted push still hands the lane's turn on exactly once (tail_counter += n_queue, in its own turn), so the lane is never blocked");
    OBLIGATION(!adv_bit, "C09.cell: the slot of an aborted push is left invalid (mask bit clear): the pop of that ticket skips it");
    OBLIGATION(my_nie == 1, "C09.fault: an aborted push is counted as exactly one invalid entry");
    OBLIGATION((n_alloc == 1) == (g_idx == 0) && me_linked == (g_idx == 0) && !me_private, "C09.page: also an aborted push allocates and appends the page when its ticket takes slot 0 (the later tickets of the page rely on it)");
    OBLIGATION(!me_hold && n_lock == (g_idx == 0 ? 1u : 0u), "C09.page: page_mutex is released; it is taken only to append a page");
    VACUITY_END();
}
value_type IN_dst;
void h_lane_pop(void) {
    g_fail_alloc = false; g_seq = false; ticket_type k = lane_init(POP);
    value_type dst = IN_dst = nondet_uchar(), dst0 = dst;
    bool ok = mq_pop(&Q, &dst, k, &BASE, NULL);
    guarantee_check();
    OBLIGATION(ok == gvalid[g_idx], "C09.cell: pop of ticket k reports an item exactly if the push of ticket k constructed one (the mask bit of the same cell); an invalid slot is skipped");
    OBLIGATION(!ok || dst == gval[g_idx], "C09.fifo: pop of ticket k delivers the value the push of ticket k stored - nothing lost, invented or taken from another ticket (per-lane ticket order)");
    OBLIGATION(ok || dst == dst0, "C09.fifo: a skipped invalid slot delivers nothing");
    OBLIGATION(n_destroy == (ok ? 1u : 0u) && n_read == (ok ? 1u : 0u) && (!ok || me_read_in_turn), "C09.turnstile: the element is moved out and destroyed exactly once, in the ticket's own turn and after the push of the same ticket finished; an invalid slot is not touched");
    OBLIGATION(my_nie == (ok ? 0 : -1), "C09.fault: a skipped invalid slot is taken out of n_invalid_entries exactly once");
    OBLIGATION(n_adv == 1 && me_adv && adv_in_turn, "C09.turnstile: a pop hands the lane's turn on exactly once (head_counter = k + n_queue, in its own turn)");
    OBLIGATION((n_free == 1) == (g_idx == LAST_) && me_unlinked == (g_idx == LAST_), "C09.page: the page is removed from the lane and freed exactly by the pop of its last slot");
    OBLIGATION(!me_hold && n_lock == (g_idx == LAST_ ? 1u : 0u), "C09.page: page_mutex is released; it is taken only to remove a page");
    VACUITY_END();
}
#endif

#ifdef LANESEQ
/* ---- a lane after a failed page allocation (fault sequence; one thread) -------------------------------------------------------------------------
   invalidate_page has marked the lane: tail_counter is odd for ever, the list ends in the invalid page pointer (padded_page*)1.  Every ticket of the lane from
   the failed one on is an invalid entry (its push threw bad_alloc / bad_last_alloc and counted itself in n_invalid_entries).  Once the older pages are
   consumed head_page IS the invalid pointer, and the pop of such a ticket finds no page at all. */
#include "ticket.inc"
typedef unsigned char value_type;
struct padded_page { struct padded_page *next; uintptr_t mask; value_type items[32]; };
struct micro_queue { struct padded_page *head_page; ticket_type head_counter; struct padded_page *tail_page; ticket_type tail_counter; int page_mutex; };
struct queue_rep { size_t n_invalid_entries; };
struct finalizer { ticket_type my_ticket_type; struct micro_queue *my_queue; struct padded_page *my_page; int *allocator; };
static size_type items_per_page;
static struct micro_queue Q; static struct queue_rep BASE; static struct padded_page NOPAGE; struct padded_page nondet_page(void);
#define INVALID_PAGE ((struct padded_page *)(uintptr_t)1)
static unsigned n_bad_access, n_head_adv, n_tail_writes, n_lock, n_free, n_destroy, n_read, n_alloc, n_construct; static long my_nie; static bool g_exc, g_fail_alloc;
static struct padded_page *page_access(const struct padded_page *p) { n_bad_access++; return &NOPAGE; }      /* there is no page in this scenario: every page access is a wild one */
#define PAGE_NEXT(p) (page_access(p)->next)
#define PAGE_MASK(p) (page_access(p)->mask)
#define PAGE_ITEMS(p) (page_access(p)->items)
static void on_write(void *a, long d) { if (a == (void *)&Q.head_counter) n_head_adv++; if (a == (void *)&Q.tail_counter) n_tail_writes++; if (a == (void *)&BASE.n_invalid_entries) my_nie += d; }
#define ATOMIC_LOAD_AT(site, f) (f)
#define ATOMIC_STORE_AT(site, f, v) ({ __typeof__(f) v_ = (v); on_write((void *)&(f), 0); (f) = v_; (void)0; })
#define ATOMIC_FETCH_ADD_AT(site, f, v) ({ __typeof__(f) a_ = (v); on_write((void *)&(f), 0); __typeof__(f) o_ = (f); (f) = o_ + a_; o_; })
#define ATOMIC_PREINC_AT(site, f) ({ on_write((void *)&(f), 1); ++(f); })
#define ATOMIC_PREDEC_AT(site, f) ({ on_write((void *)&(f), -1); --(f); })
#define LOCK_MUTEX(m) do { __CPROVER_assert((m) == 0, "C09.page: page_mutex is free when taken"); (m) = 1; n_lock++; } while (0)
#define UNLOCK_MUTEX(m) do { __CPROVER_assert((m) == 1, "C09.page: only the holder releases page_mutex"); (m) = 0; } while (0)
#define ALLOC_REBIND(a, b) int a = 0; (void)(b)
#define EXC_PENDING() (g_exc)
#define EXC_THROW(x) (g_exc = true)
#define EXC_RETHROW(r) return r
#define EXC_PROPAGATE(...) do { if (g_exc) return __VA_ARGS__; } while (0)
static struct padded_page *STUB_page_allocate(void) { n_alloc++; __CPROVER_assert(g_fail_alloc, "(scenario) the only allocation of this scenario throws"); g_exc = true; return NULL; }
static void STUB_page_construct(struct padded_page *p) { n_construct++; }
static void STUB_construct_item(value_type *loc, const value_type *args) { n_construct++; }
static value_type *note_read(value_type *from) { n_read++; return from; }
#define MOVE_FROM(from) (*note_read(from))
#define DESTROYER_CTOR(x) value_type *destroyer_my_value_ = (x)
#define DESTROYER_DTOR(x) STUB_destroy_item(destroyer_my_value_)
static void STUB_destroy_item(value_type *loc) { n_destroy++; }
static void STUB_page_destroy(struct padded_page *p) { }
static void STUB_page_deallocate(struct padded_page *p) { n_free++; }
/* one thread, nothing changes while it spins: the loops are decided by unwinding (a spin that would not end shows up as an unwinding assertion -> undecided) */
#define LOOP_turn_1
#define LOOP_swweq_1
#define LOOP_swueq_1
#include "lane.inc"
size_t IN_lg, IN_idx, IN_lowbits;
static ticket_type K8;
static ticket_type seq_init(void) {
    unsigned lg = nondet_unsigned(); __CPROVER_assume(lg <= 5); items_per_page = (size_type)1 << lg; IN_lg = lg;
    size_t pg = nondet_size_t(), idx = IN_idx = nondet_size_t(); __CPROVER_assume(pg < ((size_t)1 << 50) && idx < items_per_page);
    K8 = ((pg << lg) | idx) << 3;
    n_bad_access = n_head_adv = n_tail_writes = n_lock = n_free = n_destroy = n_read = n_alloc = n_construct = 0; my_nie = 0; g_exc = false; g_fail_alloc = false;
    Q.page_mutex = 0; BASE.n_invalid_entries = nondet_size_t(); NOPAGE = nondet_page();   /* whatever a wild read finds */
    size_t r = IN_lowbits = nondet_size_t(); __CPROVER_assume(r < n_queue);
    return K8 | r;
}
void h_lane_pop_invalid(void) {
    ticket_type k = seq_init();
    /* the lane was invalidated at or before this ticket, all older tickets are consumed: it is this ticket's turn to be popped */
    ticket_type k0 = nondet_size_t(); __CPROVER_assume((k0 & 7) == 0 && k0 <= K8);
    Q.tail_counter = k0 + n_queue + 1; Q.head_counter = K8; Q.head_page = INVALID_PAGE; Q.tail_page = nondet_bool() ? INVALID_PAGE : NULL;
    __CPROVER_assume(BASE.n_invalid_entries >= 1);
    value_type dst = nondet_uchar(), dst0 = dst; size_t nie0 = BASE.n_invalid_entries;
    bool ok = mq_pop(&Q, &dst, k, &BASE, NULL);
    OBLIGATION(n_bad_access == 0, "C09.fault: pop of a ticket whose page allocation failed does not dereference the invalid page pointer (head_page == (padded_page*)1): there is no page to read");
    OBLIGATION(!ok && dst == dst0 && n_read == 0 && n_destroy == 0, "C09.fault: pop of a ticket whose page allocation failed reports no item and delivers nothing");
    OBLIGATION(my_nie == -1 && BASE.n_invalid_entries == nie0 - 1, "C09.fault: pop of a ticket whose page allocation failed takes the ticket out of the invalid-entry count (--n_invalid_entries), exactly once");
    OBLIGATION(n_head_adv == 1 && Q.head_counter == K8 + n_queue && n_tail_writes == 0, "C09.fault: pop of a ticket whose page allocation failed still hands the lane's head turn on (the pops of the later tickets of the lane are not blocked)");
    OBLIGATION(n_free == 0 && n_lock == 0 && Q.head_page == INVALID_PAGE && Q.page_mutex == 0, "C09.fault: pop of a ticket whose page allocation failed frees nothing and leaves the invalid marker in place");
    VACUITY_END();
}
#endif

#ifdef REP
/* ---- concurrent_queue_rep::choose / size / empty, concurrent_queue::internal_push / internal_try_pop / unsafe_size ----------------------------------- */
#include "ticket.inc"
struct lane { int dummy; };
struct rep { struct lane array[8]; ticket_type head_counter, tail_counter; size_t n_invalid_entries; };
struct cqueue { struct rep *my_queue_representation; };
struct pop_result { bool first; ticket_type second; };
static struct rep R; static struct cqueue C;
#define LIM ((size_t)1 << 62)
static bool o_made, my_made; static ticket_type o_t, my_t; static unsigned n_lane_push; static struct lane *g_lane; static ticket_type g_lane_ticket; static bool g_quiescent;
#define QINV (R.tail_counter < LIM && (!o_made || o_t < R.tail_counter) && (!my_made || my_t < R.tail_counter) && (!(o_made && my_made) || o_t != my_t))
/* rely: other pushes - each takes the current value of tail_counter as its ticket and adds one (one of them is the Skolem claim o_t) */
static void interfere(void) {
    if (g_quiescent) return;
    size_t a = nondet_size_t(), b = nondet_size_t(); __CPROVER_assume(a < LIM && b < LIM);
    R.tail_counter += a; if (!o_made && nondet_bool()) { o_t = R.tail_counter; R.tail_counter += 1; o_made = true; } R.tail_counter += b;
    __CPROVER_assume(R.tail_counter < LIM);
}
#define ATOMIC_LOAD_AT(site, f) ({ interfere(); (f); })
#define ATOMIC_POSTINC_AT(site, f) ({ interfere(); __CPROVER_assume((f) < LIM - 1); ticket_type old_ = (f); (f) = old_ + 1; my_t = old_; my_made = true; __CPROVER_assert(QINV, "guarantee: every ticket handed out lies below tail_counter and no two are equal, at " #site); old_; })
static void STUB_lane_push_on(struct lane *l, ticket_type k) { n_lane_push++; g_lane = l; g_lane_ticket = k; }
static struct pop_result g_impl;
static struct pop_result STUB_try_pop_impl(struct rep *q) { return g_impl; }
#include "rep.inc"
ticket_type IN_k; size_t IN_h, IN_t, IN_n;
void h_rep_choose(void) {
    ticket_type k = IN_k = nondet_size_t();
    struct lane *l = rep_choose(&R, k);
    OBLIGATION(l >= &R.array[0] && l <= &R.array[n_queue - 1], "C09.lane: choose(k) is one of the queue's 8 lanes");
    OBLIGATION(l == rep_choose(&R, k + n_queue), "C09.lane: tickets k and k+8 meet in the same lane (the lane's turn counters advance by n_queue per ticket)");
    size_t j = nondet_size_t(); __CPROVER_assume(j >= 1 && j < n_queue);
    OBLIGATION(rep_choose(&R, k + j) != l, "C09.lane: 8 consecutive tickets go to 8 different lanes");
    VACUITY_END();
}
void h_cq_push(void) {
    g_quiescent = false; C.my_queue_representation = &R; R.tail_counter = nondet_size_t(); o_made = nondet_bool(); o_t = nondet_size_t(); my_made = false; n_lane_push = 0; __CPROVER_assume(QINV);
    cq_internal_push(&C);
    interfere();
    OBLIGATION(my_made && n_lane_push == 1 && g_lane_ticket == my_t, "C09.push: the element is pushed exactly once, under the ticket the call took with one atomic increment of tail_counter");
    OBLIGATION(g_lane == rep_choose(&R, my_t), "C09.lane: the element is pushed on the lane its ticket maps to");
    OBLIGATION(!o_made || o_t != my_t, "C09.push: push tickets are unique (any number of concurrent pushes)");
    OBLIGATION(my_t < R.tail_counter, "C09.push: a ticket taken lies below tail_counter for ever");
    VACUITY_END();
}
void h_cq_try_pop(void) {
    g_quiescent = true; C.my_queue_representation = &R; g_impl.first = nondet_bool(); g_impl.second = nondet_size_t();
    OBLIGATION(cq_internal_try_pop(&C, NULL) == g_impl.first, "C09.pop: try_pop reports exactly what the ticket loop reports (claim.try_pop: an item delivered under a claimed ticket, or empty at an instant during the call)");
    VACUITY_END();
}
/* size / empty / unsafe_size with no operation in flight: h pops and t pushes have been started and finished (or, bounded queue, h - t pops are blocked waiting);
   n of the tickets in [h, t) are invalid entries (their push constructed nothing; lane.push / lane.abort_push count each exactly once, lane.pop uncounts each exactly once) */
void h_rep_size(void) {
    g_quiescent = true; C.my_queue_representation = &R;
    size_t h = IN_h = nondet_size_t(), t = IN_t = nondet_size_t(), n = IN_n = nondet_size_t();
    __CPROVER_assume(h < LIM && t < LIM && (h <= t ? n <= t - h : n == 0));
    R.head_counter = h; R.tail_counter = t; R.n_invalid_entries = n;
    ptrdiff_t items = h <= t ? (ptrdiff_t)(t - h - n) : 0, waiting = h <= t ? 0 : (ptrdiff_t)(h - t);
    OBLIGATION(rep_size(&R) == items - waiting, "C09.size: with no operation in flight size() is the number of items (tickets between head and tail that are not invalid entries), or minus the number of blocked pops");
    OBLIGATION(rep_empty(&R) == (items == 0), "C09.size: with no operation in flight empty() holds exactly when the queue holds no item (invalid entries do not count)");
    OBLIGATION(cq_unsafe_size(&C) == (size_t)items, "C09.size: with no operation in flight unsafe_size() is the number of items");
    VACUITY_END();
}
#endif
