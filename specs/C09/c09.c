/* C09 harnesses: ticket arithmetic (all 2^64 tickets) and the ticket-claim loops under rely/guarantee. */
#include "verif.h"
typedef size_t size_type; typedef size_t ticket_type;
#define n_queue ((size_type)8)
#define phi ((size_type)3)
#define IS_POW2(x) ((x) != 0 && (((x) & ((x) - 1)) == 0))

#ifdef TICKET
#include "ticket.inc"
ticket_type IN_k, IN_k2; size_t IN_item;
void h_lanes(void) {
    ticket_type k = IN_k = nondet_size_t();
    OBLIGATION(rep_index(k) < n_queue, "C09.lane: lane index < 8");
    OBLIGATION(rep_index(k) == rep_index(k + n_queue), "C09.lane: tickets k and k+8 meet in the same lane");
    size_t j = nondet_size_t(); __CPROVER_assume(j >= 1 && j < n_queue);
    OBLIGATION(rep_index(k + j) != rep_index(k), "C09.lane: 8 consecutive tickets go to 8 different lanes");
    VACUITY_END();
}
void h_slots(void) {
    ticket_type k = IN_k = nondet_size_t(), k2 = IN_k2 = nondet_size_t(); size_t item = IN_item = nondet_size_t();
    __CPROVER_assume(item >= 1);
    size_t ipp = items_per_page_of(item);
    OBLIGATION(IS_POW2(ipp) && ipp <= 32 && ipp >= 1, "C09.slot: items_per_page is a power of two <= 32 (mask-bit shift defined)");
    OBLIGATION(ipp * (item < 128 ? item : 1) <= 256 || item > 128, "C09.slot: a page stays small");
    size_t s = slot_of(k, ipp);
    OBLIGATION(s < ipp, "C09.slot: slot index inside the page");
    OBLIGATION(slot_of(k + n_queue, ipp) == (s + 1) % ipp, "C09.slot: the next ticket of the lane takes the next slot; a page boundary is exactly slot 0");
    /* (lane, turn) is injective in the ticket: two tickets of the same lane and the same turn are the same ticket */
    if (rep_index(k) == rep_index(k2) && k / n_queue == k2 / n_queue) OBLIGATION(k == k2, "C09.slot: (lane, turn) determines the ticket: distinct tickets never share a cell");
    VACUITY_END();
}
#endif

#ifdef CLAIM
struct rep { ticket_type head_counter, tail_counter; };
struct concurrent_monitor { int dummy; };
struct bqueue { struct rep *my_queue_representation; ptrdiff_t my_capacity; struct concurrent_monitor *my_monitors; };
struct pop_result { bool first; ticket_type second; };
static struct rep R;
/* ghost */
bool o_made; ticket_type o_t;          /* one arbitrary ticket claimed by some other thread's CAS on the same counter */
bool my_made; ticket_type my_t;
ptrdiff_t g_size_at_tail_read, g_size_at_head_read; unsigned long g_lane_calls; ticket_type g_lane_ticket;
int g_which;   /* 0: claims are on head_counter (pop), 1: on tail_counter (push) */
#define LIM ((size_t)1 << 62)
#define CNT (g_which ? R.tail_counter : R.head_counter)
#define QINV (R.head_counter < LIM && R.tail_counter < LIM && (!o_made || o_t < CNT) && (!my_made || my_t < CNT) && (!(o_made && my_made) || o_t != my_t))
static void interfere(void) {
    /* rely: both counters only grow (each step is another thread's successful CAS / fetch_add); one of those steps is the Skolem claim o_t */
    size_t a = nondet_size_t(), b = nondet_size_t(), c = nondet_size_t(), d = nondet_size_t();
    __CPROVER_assume(a < LIM && b < LIM && c < LIM && d < LIM);
    R.head_counter += a; R.tail_counter += b;
    if (!o_made && nondet_bool()) { o_t = CNT; if (g_which) R.tail_counter += 1; else R.head_counter += 1; o_made = true; }
    R.head_counter += c; R.tail_counter += d;
    __CPROVER_assume(R.head_counter < LIM && R.tail_counter < LIM);
}
#define ATOMIC_LOAD_AT(site, f) ({ interfere(); GHOST_##site; (f); })
#define ATOMIC_CAS_AT(site, f, e, d) ({ interfere(); __CPROVER_assume((f) < LIM - 1); /* counters do not wrap (stated assumption) */ bool r_ = ((f) == *(e)); if (r_) { my_t = (f); my_made = true; GHOSTCAS_##site; (f) = (d); } else *(e) = (f); \
        __CPROVER_assert(QINV, "guarantee: INV re-established at " #site); r_; })
#define GHOST_pop_LOAD_1 ((void)0)
#define GHOST_pop_LOAD_2 (g_size_at_tail_read = (ptrdiff_t)(R.tail_counter - R.head_counter))
#define GHOST_push_LOAD_1 ((void)0)
#define GHOST_push_LOAD_2 (g_size_at_head_read = (ptrdiff_t)(R.tail_counter - R.head_counter))
#define GHOSTCAS_pop_CAS_1 __CPROVER_assert((ptrdiff_t)(R.tail_counter - my_t) > 0, "C09.pop: a pop ticket is only taken while the queue holds (or is being given) an item for it: tail - ticket > 0 at the CAS")
static struct bqueue *g_bq;
#define GHOSTCAS_push_CAS_1 __CPROVER_assert((ptrdiff_t)(my_t - R.head_counter) < g_bq->my_capacity, "C09.push: a push ticket is taken without blocking only while size < capacity at the CAS")
static bool STUB_lane_pop(struct rep *q, ticket_type t) { g_lane_calls++; g_lane_ticket = t; __CPROVER_assert(my_made && t == my_t, "C09.pop: the lane is asked for exactly the claimed ticket"); bool ok = nondet_bool(); if (!ok) my_made = false; /* invalid entry: the ticket is consumed, retry */ return ok; }
static void STUB_lane_push(struct bqueue *b, ticket_type t) { g_lane_calls++; g_lane_ticket = t; }
bool g_notified; ticket_type g_notified_t;
static void STUB_notify(ticket_type t) { g_notified = true; g_notified_t = t; }
#define LOOPC(extra) __CPROVER_assigns(ticket, R, o_made, o_t, my_made, my_t, g_size_at_tail_read, g_size_at_head_read, g_lane_calls, g_lane_ticket) __CPROVER_loop_invariant(QINV && ticket < LIM && !my_made && (extra))
/* a ticket held in a local is a past value of the counter it was read from */
#define LOOP_pop_1 LOOPC(1)
#define LOOP_pop_2 LOOPC(ticket <= R.head_counter)
#define LOOP_push_1 LOOPC(ticket <= R.tail_counter && g_lane_calls == 0)
#include "claim.inc"
static void init(int which) {
    g_which = which; R.head_counter = nondet_size_t(); R.tail_counter = nondet_size_t(); o_made = nondet_bool(); o_t = nondet_size_t(); my_made = false; g_lane_calls = 0;
    __CPROVER_assume(QINV);
}
void h_try_pop(void) {
    init(0);
    struct pop_result r = internal_try_pop_impl(NULL, &R);
    interfere();
    if (r.first) {
        OBLIGATION(my_made && r.second == my_t && g_lane_ticket == my_t, "C09.pop: a successful pop returns the ticket it claimed");
        OBLIGATION(!o_made || o_t != my_t, "C09.pop: tickets handed to poppers are unique (any number of concurrent poppers)");
        OBLIGATION(my_t < R.head_counter, "C09.pop: a claimed ticket lies below head_counter for ever");
    } else
        OBLIGATION(g_size_at_tail_read <= 0 && !my_made, "C09.pop: empty is reported only from an instant at which the queue held no item, and no ticket was consumed");
    VACUITY_END();
}
ptrdiff_t IN_cap;
void h_push_if_not_full(void) {
    init(1);
    struct bqueue b; b.my_queue_representation = &R; b.my_capacity = IN_cap = nondet_long(); g_bq = &b;
    __CPROVER_assume(b.my_capacity >= 1);
    bool ok = internal_push_if_not_full(&b);
    interfere();
    if (ok) {
        OBLIGATION(my_made && g_lane_calls == 1 && g_lane_ticket == my_t, "C09.push: the item is pushed once, under the claimed ticket");
        OBLIGATION(!o_made || o_t != my_t, "C09.push: push tickets are unique");
        OBLIGATION(g_notified && g_notified_t == my_t, "C09.push: poppers waiting for this ticket are notified with it");
    } else
        OBLIGATION(g_size_at_head_read >= b.my_capacity && !my_made && g_lane_calls == 0, "C09.push: full is reported only from an instant at which size() >= capacity (a negative size, i.e. waiting poppers, is never full)");
    VACUITY_END();
}
#ifdef WAKE
/* ---- who is woken: blocked push/pop complete as soon as space/items appear (no lost wake-up) ----
   A sleeper of monitor `tag` with context c sleeps only while counter(tag) <= c  (pop: tail_counter <= its ticket; push: head_counter <= ticket - capacity).
   The step of counter(tag) from c to c+1 is the claim of ticket c by a push (tag items_avail) / pop (tag slots_avail).
   Proved here, for a ghost sleeper context W chosen arbitrarily:
     (P) notify(tag, t) wakes every sleeper of `tag` with context <= t                     (predicate_leq + notify_bounded_queue_monitor)
     (Q) an operation that claimed tickets c1..ck on counter(tag) calls notify(tag, t) with t >= every ci, after its lane operation  (internal_pop / internal_push / *_if_*)
   Hence every sleeper whose wait condition was falsified by this operation is woken by it. */
#include "wake_decl.inc"
size_t W; bool g_woken[2]; unsigned g_notifies[2]; size_t g_nt[2]; struct concurrent_monitor MON[2];
bool g_claimed_W;            /* this call claimed ticket W on the counter it advances */
unsigned long g_lane_at_notify; unsigned g_waits; size_t g_wait_tag; ptrdiff_t g_wait_ctx;
static void STUB_monitor_notify(struct concurrent_monitor *m, struct predicate_leq p) {
    size_t tag = (size_t)(m - MON);
    __CPROVER_assert(tag < 2, "C09.wake: a monitor of this queue");
    bool w = predicate_leq_call(&p, (uintptr_t)W);
    __CPROVER_assert(!(W <= p.my_ticket) || w, "C09.wake: notify(t) wakes every sleeper whose context is <= t (a sleeper whose own ticket never notifies - throwing constructor, skipped invalid slot - is still woken)");
    g_woken[tag] = g_woken[tag] || w; g_notifies[tag]++; g_nt[tag] = p.my_ticket; g_lane_at_notify = g_lane_calls;
}
static void STUB_wait(struct bqueue *b, size_t tag, ptrdiff_t ctx) { g_waits++; g_wait_tag = tag; g_wait_ctx = ctx; }
static struct pop_result STUB_try_pop_impl(struct rep *q) {
    /* contract proved in claim.try_pop: on success the returned ticket was claimed on head_counter */
    struct pop_result r; r.first = nondet_bool(); r.second = nondet_size_t();
    if (r.first) { __CPROVER_assume(r.second < q->head_counter); my_made = true; my_t = r.second; if (r.second == W) g_claimed_W = true; }
    return r;
}
#undef ATOMIC_LOAD_AT
#define ATOMIC_LOAD_AT(site, f) ({ interfere(); (f); })
#define ATOMIC_POSTINC_AT(site, f) ({ interfere(); __CPROVER_assume((f) < LIM - 1); size_t old_ = (f); (f) = old_ + 1; my_t = old_; my_made = true; if (old_ == W) g_claimed_W = true; \
        __CPROVER_assert(QINV, "guarantee: INV re-established at " #site); old_; })
#define LOOP_bpop_1 __CPROVER_assigns(target, R, o_made, o_t, my_made, my_t, g_lane_calls, g_lane_ticket, g_claimed_W, g_waits, g_wait_tag, g_wait_ctx) __CPROVER_loop_invariant(QINV && g_notifies[0] == 0 && g_notifies[1] == 0 && (!g_claimed_W || W < R.head_counter) && !my_made && (g_waits == 0 || g_wait_tag == cbq_items_avail_tag))
#include "wake.inc"
static void winit(int which, struct bqueue *b) {
    init(which); W = nondet_size_t(); g_woken[0] = g_woken[1] = false; g_notifies[0] = g_notifies[1] = 0; g_claimed_W = false; g_waits = 0;
    b->my_queue_representation = &R; b->my_capacity = nondet_long(); b->my_monitors = MON; g_bq = b;
    __CPROVER_assume(b->my_capacity >= 1);
}
size_t IN_w, IN_t;
void h_wake_pred(void) {
    struct bqueue b; winit(0, &b);
    size_t tag = nondet_size_t(), t = IN_t = nondet_size_t(); IN_w = W; __CPROVER_assume(tag < monitors_number);
    notify_bounded_queue_monitor(MON, tag, t);
    OBLIGATION(g_notifies[tag] == 1 && g_notifies[1 - tag] == 0 && g_nt[tag] == t, "C09.wake: the notification goes to the monitor named by the tag, with the ticket");
    OBLIGATION(!(W <= t) || g_woken[tag], "C09.wake: every sleeper with context <= ticket is woken");
    VACUITY_END();
}
void h_wake_pop(void) {
    struct bqueue b; winit(0, &b);
    internal_pop(&b, NULL);
    OBLIGATION(g_notifies[cbq_slots_avail_tag] == 1 && g_notifies[cbq_items_avail_tag] == 0, "C09.wake: a pop notifies the pushers' monitor once, and only it");
    OBLIGATION(my_made && g_nt[cbq_slots_avail_tag] == my_t && g_lane_ticket == my_t && g_lane_at_notify == g_lane_calls, "C09.wake: pushers are notified with the ticket actually popped, after the pop");
    OBLIGATION(!g_claimed_W || g_woken[cbq_slots_avail_tag], "C09.wake: a pusher waiting for ANY head ticket this pop consumed (including skipped invalid slots) is woken");
    OBLIGATION(g_waits == 0 || (g_wait_tag == cbq_items_avail_tag), "C09.wake: a pop sleeps on the items monitor");
    VACUITY_END();
}
void h_wake_push(void) {
    struct bqueue b; winit(1, &b);
    internal_push(&b);
    OBLIGATION(g_notifies[cbq_items_avail_tag] == 1 && g_notifies[cbq_slots_avail_tag] == 0, "C09.wake: a push notifies the poppers' monitor once, and only it");
    OBLIGATION(my_made && g_nt[cbq_items_avail_tag] == my_t && g_lane_calls == 1 && g_lane_ticket == my_t && g_lane_at_notify == 1, "C09.wake: poppers are notified with the pushed ticket, after the item is stored");
    OBLIGATION(!g_claimed_W || g_woken[cbq_items_avail_tag], "C09.wake: the popper waiting for this ticket is woken");
    OBLIGATION(g_waits == 0 || (g_wait_tag == cbq_slots_avail_tag && g_wait_ctx == (ptrdiff_t)(my_t - (size_t)b.my_capacity)), "C09.wake: a full-queue push sleeps on the slots monitor with context ticket - capacity: it is runnable as soon as pop number ticket-capacity has taken its ticket");
    VACUITY_END();
}
void h_wake_popif(void) {
    struct bqueue b; winit(0, &b);
    bool ok = internal_pop_if_present(&b, NULL);
    OBLIGATION(ok == my_made, "C09.wake: try_pop result");
    OBLIGATION(!ok || (g_notifies[cbq_slots_avail_tag] == 1 && g_nt[cbq_slots_avail_tag] == my_t && (!g_claimed_W || g_woken[cbq_slots_avail_tag])), "C09.wake: a successful try_pop wakes the pusher waiting for its ticket");
    VACUITY_END();
}
#endif
#endif
