// Native recipes for failed C09 obligations on the REAL queue headers.
#include <oneapi/tbb/concurrent_queue.h>
#include <thread>
#include <vector>
#include <atomic>
#include <chrono>
#include <cstdio>
#include <string>
using namespace std::chrono_literals;
static bool negative_size_try_push(std::string& why) {
    for (long cap : {1L, 4L, 1000L}) for (int K : {1, 3}) {
        tbb::concurrent_bounded_queue<int> q; q.set_capacity(cap);
        std::vector<std::thread> poppers; std::atomic<int> got{0};
        for (int i = 0; i < K; ++i) poppers.emplace_back([&] { int v; q.pop(v); ++got; });
        for (int i = 0; i < 2000 && q.size() != -K; ++i) std::this_thread::sleep_for(1ms);
        bool bad = false;
        for (int i = 0; i < K; ++i) if (!q.try_push(100 + i)) { bad = true; q.push(100 + i); }
        for (auto& t : poppers) t.join();
        if (bad) { why = "concurrent_bounded_queue<int> capacity " + std::to_string(cap) + " with " + std::to_string(K) + " thread(s) blocked in pop() (size() == -" + std::to_string(K) + "): try_push returned false (\"full\") on a queue that holds no item"; return true; }
    }
    return false;
}
template <class Q> static bool fifo_stress(std::string& why, const char* name) {
    Q q; const int P = 4, N = 20000; std::vector<std::thread> ts; std::atomic<long> bad{0}; std::atomic<int> popped{0};
    for (int p = 0; p < P; ++p) ts.emplace_back([&, p] { for (int i = 0; i < N; ++i) q.push(p * N + i); });
    std::vector<std::vector<int>> seen(2);
    for (int c = 0; c < 2; ++c) ts.emplace_back([&, c] { int v; while (popped < P * N) { if (q.try_pop(v)) { seen[c].push_back(v); ++popped; } } });
    for (auto& t : ts) t.join();
    std::vector<int> cnt(P * N, 0);
    for (auto& s : seen) { std::vector<int> last(P, -1); for (int v : s) { cnt[v]++; int p = v / N; if (v % N <= last[p]) ++bad; last[p] = v % N; } }
    for (int c : cnt) if (c != 1) ++bad;
    if (bad) { why = std::string(name) + ": " + std::to_string(bad.load()) + " items lost, duplicated or out of per-producer order under a 4-producer/2-consumer run"; return true; }
    return false;
}
struct Thrower { int v; Thrower() : v(0) {} explicit Thrower(int x) : v(x) { if (x < 0) throw 1; } };
// a popper sleeps on ticket 0; the push that takes ticket 0 throws (no notification), the push with ticket 1 stores an item: the sleeper must be woken by notify(1)
static bool lost_wakeup(std::string& why) {
    for (int round = 0; round < 3; ++round) {
        tbb::concurrent_bounded_queue<Thrower> q; std::atomic<int> got{-1};
        std::thread c([&] { Thrower t; try { q.pop(t); got = t.v; } catch (...) { got = -2; } });
        for (int i = 0; i < 2000 && q.size() != -1; ++i) std::this_thread::sleep_for(1ms);
        std::this_thread::sleep_for(50ms);
        try { q.emplace(-1); } catch (int) {}
        q.emplace(7);
        for (int i = 0; i < 3000 && got == -1; ++i) std::this_thread::sleep_for(1ms);
        bool bad = got == -1;
        if (bad) q.abort();
        c.join();
        if (bad) { why = "concurrent_bounded_queue: a consumer sleeping in pop() (ticket 0) is still asleep 3 s after emplace(-1) threw (ticket 0, invalid slot) and emplace(7) stored an item (ticket 1): the notification for ticket 1 did not wake the sleeper with context 0"; return true; }
    }
    return false;
}
int main(int argc, char** argv) {
    std::string job = argc > 1 ? argv[1] : "", why;
    if (job.rfind("wake", 0) == 0 && lost_wakeup(why)) { std::printf("REPRODUCED class=bounded-queue-lost-wakeup %s\n", why.c_str()); return 0; }
    if (negative_size_try_push(why)) { std::printf("REPRODUCED class=bounded-queue-false-full %s\n", why.c_str()); return 0; }
    if (fifo_stress<tbb::concurrent_queue<int>>(why, "concurrent_queue<int>") || fifo_stress<tbb::concurrent_bounded_queue<int>>(why, "concurrent_bounded_queue<int>")) { std::printf("REPRODUCED class=queue-fifo %s\n", why.c_str()); return 0; }
    std::printf("NOT-REPRODUCED\n"); return 0;
}
