// Native recipes for failed C09 obligations on the REAL queue headers.
#include <oneapi/tbb/concurrent_queue.h>
#include <thread>
#include <vector>
#include <atomic>
#include <chrono>
#include <cstdio>
#include <string>
using namespace std::chrono_literals;
static bool negative_size_try_push(std::string& why) {
    for (long cap : {1L, 4L, 1000L}) for (int K : {1, 3}) {
        tbb::concurrent_bounded_queue<int> q; q.set_capacity(cap);
        std::vector<std::thread> poppers; std::atomic<int> got{0};
        for (int i = 0; i < K; ++i) poppers.emplace_back([&] { int v; q.pop(v); ++got; });
        for (int i = 0; i < 2000 && q.size() != -K; ++i) std::this_thread::sleep_for(1ms);
        bool bad = false;
        for (int i = 0; i < K; ++i) if (!q.try_push(100 + i)) { bad = true; q.push(100 + i); }
        for (auto& t : poppers) t.join();
        if (bad) { why = "concurrent_bounded_queue<int> capacity " + std::to_string(cap) + " with " + std::to_string(K) + " thread(s) blocked in pop() (size() == -" + std::to_string(K) + "): try_push returned false (\"full\") on a queue that holds no item"; return true; }
    }
    return false;
}
template <class Q> static bool fifo_stress(std::string& why, const char* name) {
    Q q; const int P = 4, N = 20000; std::vector<std::thread> ts; std::atomic<long> bad{0}; std::atomic<int> popped{0};
    for (int p = 0; p < P; ++p) ts.emplace_back([&, p] { for (int i = 0; i < N; ++i) q.push(p * N + i); });
    std::vector<std::vector<int>> seen(2);
    for (int c = 0; c < 2; ++c) ts.emplace_back([&, c] { int v; while (popped < P * N) { if (q.try_pop(v)) { seen[c].push_back(v); ++popped; } } });
    for (auto& t : ts) t.join();
    std::vector<int> cnt(P * N, 0);
    for (auto& s : seen) { std::vector<int> last(P, -1); for (int v : s) { cnt[v]++; int p = v / N; if (v % N <= last[p]) ++bad; last[p] = v % N; } }
    for (int c : cnt) if (c != 1) ++bad;
    if (bad) { why = std::string(name) + ": " + std::to_string(bad.load()) + " items lost, duplicated or out of per-producer order under a 4-producer/2-consumer run"; return true; }
    return false;
}
struct Thrower { int v; Thrower() : v(0) {} explicit Thrower(int x) : v(x) { if (x < 0) throw 1; } };
// a popper sleeps on ticket 0; the push that takes ticket 0 throws (no notification), the push with ticket 1 stores an item: the sleeper must be woken by notify(1)
static bool lost_wakeup(std::string& why) {
    for (int round = 0; round < 3; ++round) {
        tbb::concurrent_bounded_queue<Thrower> q; std::atomic<int> got{-1};
        std::thread c([&] { Thrower t; try { q.pop(t); got = t.v; } catch (...) { got = -2; } });
        for (int i = 0; i < 2000 && q.size() != -1; ++i) std::this_thread::sleep_for(1ms);
        std::this_thread::sleep_for(50ms);
        try { q.emplace(-1); } catch (int) {}
        q.emplace(7);
        for (int i = 0; i < 3000 && got == -1; ++i) std::this_thread::sleep_for(1ms);
        bool bad = got == -1;
        if (bad) q.abort();
        c.join();
        if (bad) { why = "concurrent_bounded_queue: a consumer sleeping in pop() (ticket 0) is still asleep 3 s after emplace(-1) threw (ticket 0, invalid slot) and emplace(7) stored an item (ticket 1): the notification for ticket 1 did not wake the sleeper with context 0"; return true; }
    }
    return false;
}
// ---- pop of a ticket whose page allocation failed (lane.pop.invalid_page) -------------------------------------------------------------------------
// An allocator that throws on the n-th page allocation.  push(ticket with slot 0 of a new page) -> bad_alloc, the lane is invalidated (head_page / next = (padded_page*)1).
// The later try_pop that claims THAT ticket runs micro_queue::pop, which dereferences head_page == (padded_page*)1.  The scenario runs in a forked child so that the
// replay survives the crash.  A correct pop reports the ticket as an invalid entry: try_pop skips it, every item pushed on the other lanes comes out, nothing crashes.
#include <sys/wait.h>
#include <unistd.h>
#include <new>
static int g_fail_at = -1, g_allocs = 0;
template <class T> struct FailingAlloc {
    using value_type = T;
    FailingAlloc() = default; template <class U> FailingAlloc(const FailingAlloc<U>&) {}
    T* allocate(std::size_t n) { if (g_allocs++ == g_fail_at) throw std::bad_alloc(); return static_cast<T*>(::operator new(n * sizeof(T))); }
    void deallocate(T* p, std::size_t) { ::operator delete(p); }
    template <class U> bool operator==(const FailingAlloc<U>&) const { return true; }
    template <class U> bool operator!=(const FailingAlloc<U>&) const { return false; }
};
// child exit code: 0 = every successfully pushed value came out exactly once in order and the queue ended empty; 3 = wrong values; killed by a signal = crash
template <class Q> static int failed_alloc_child(int fail_at, int npush) {
    Q q; g_allocs = 0; g_fail_at = fail_at; std::vector<int> pushed;
    for (int i = 0; i < npush; ++i) { try { q.push(i); pushed.push_back(i); } catch (std::bad_alloc&) {} }
    g_fail_at = -1;
    std::vector<int> got; int v;
    for (int i = 0; i < npush + 4; ++i) if (q.try_pop(v)) got.push_back(v);
    return got == pushed ? 0 : 3;
}
template <class Q> static bool pop_after_failed_alloc(std::string& why, const char* name) {
    struct { int fail_at, npush; const char* what; } sc[] = { {0, 3, "the first page allocation of the queue throws (push(0)), push(1), push(2) succeed on other lanes"},
                                                               {1, 12, "the second page allocation throws (push(1)), 10 further pushes succeed or throw bad_last_alloc"} };
    for (auto& s : sc) {
        pid_t pid = fork();
        if (pid == 0) { std::fclose(stdout); _exit(failed_alloc_child<Q>(s.fail_at, s.npush)); }
        int st = 0; waitpid(pid, &st, 0);
        if (WIFSIGNALED(st)) why += std::string(why.empty() ? "" : " || ") + name + ": " + s.what + "; the try_pop that claims the failed push's ticket dies with signal " + std::to_string(WTERMSIG(st)) + " (micro_queue::pop dereferences head_page == (padded_page*)1)";
        else if (WIFEXITED(st) && WEXITSTATUS(st) != 0) why += std::string(why.empty() ? "" : " || ") + name + ": " + s.what + "; the values popped afterwards are not the successfully pushed ones in order (exit " + std::to_string(WEXITSTATUS(st)) + ")";
    }
    return !why.empty();
}
int main(int argc, char** argv) {
    std::string job = argc > 1 ? argv[1] : "", why;
    if (job.rfind("lane.pop.invalid_page", 0) == 0) {
        if (pop_after_failed_alloc<tbb::concurrent_queue<int, FailingAlloc<int>>>(why, "concurrent_queue<int, FailingAlloc>") || pop_after_failed_alloc<tbb::concurrent_bounded_queue<int, FailingAlloc<int>>>(why, "concurrent_bounded_queue<int, FailingAlloc>"))
            std::printf("REPRODUCED class=pop-after-failed-page-allocation %s\n", why.c_str());
        else std::printf("NOT-REPRODUCED\n");
        return 0;
    }
    if (job.rfind("wake", 0) == 0 && lost_wakeup(why)) { std::printf("REPRODUCED class=bounded-queue-lost-wakeup %s\n", why.c_str()); return 0; }
    if (negative_size_try_push(why)) { std::printf("REPRODUCED class=bounded-queue-false-full %s\n", why.c_str()); return 0; }
    if (fifo_stress<tbb::concurrent_queue<int>>(why, "concurrent_queue<int>") || fifo_stress<tbb::concurrent_bounded_queue<int>>(why, "concurrent_bounded_queue<int>")) { std::printf("REPRODUCED class=queue-fifo %s\n", why.c_str()); return 0; }
    std::printf("NOT-REPRODUCED\n"); return 0;
}
