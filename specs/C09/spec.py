"""C09 -- concurrent queues: ticket arithmetic and the ticket-claim protocols (rely/guarantee on head/tail counters)."""
import os
import sys
import re
HERE = os.path.dirname(os.path.abspath(__file__))
sys.path.insert(0, os.path.join(HERE, '..'))
sys.path.insert(0, os.path.join(HERE, '..', '..', 'tools'))
import common
import native
import cxx2c
from cxx2c import Rewriter, slice_block, slice_stmt, tag_loops, ExtractionBreak, load
from prove import Job

CQ = 'include/oneapi/tbb/concurrent_queue.h'
QB = 'include/oneapi/tbb/detail/_concurrent_queue_base.h'
UT = 'include/oneapi/tbb/detail/_utils.h'
BQ = 'src/tbb/concurrent_bounded_queue.cpp'


def extract(ctx):
    sliced, fired = [], {}
    rw = Rewriter('queue')
    out = []
    for pat, what in ((r'static constexpr size_type n_queue = 8;', 'n_queue'), (r'static constexpr size_type phi = 3;', 'phi'), (r'using ticket_type = std::size_t;', 'ticket_type')):
        if not re.search(pat, load(QB)):
            raise ExtractionBreak('_concurrent_queue_base.h: %s changed' % what)
    s = slice_stmt(QB, r'static constexpr size_type items_per_page = item_size <=')
    sliced.append('%s:%d items_per_page' % (QB, s.line))
    t = rw.sub(s.text, r'static constexpr size_type items_per_page =', 'static size_t items_per_page_of(size_t item_size) { return', 1, 1, name='constexpr member -> function of item_size')
    out.append(t + ' }')
    s = slice_block(UT, r'inline ArgIntegerType modulo_power_of_two\(ArgIntegerType arg, DivisorIntegerType divisor\)')
    sliced.append('%s:%d modulo_power_of_two' % (UT, s.line))
    t = rw.sub(s.text, r'inline ArgIntegerType modulo_power_of_two\(ArgIntegerType arg, DivisorIntegerType divisor\)', 'static size_t modulo_power_of_two(size_t arg, size_t divisor)', 1, 1, name='sig + bind-template')
    t = rw.sub(t, r'is_power_of_two\(divisor\)', 'IS_POW2(divisor)', 1, 1, name='callee')
    t = rw.asserts(t, 1)
    out.append(t)
    s = slice_block(QB, r'static size_type index\( ticket_type k \)')
    sliced.append('%s:%d concurrent_queue_rep::index' % (QB, s.line))
    out.append(rw.sub(s.text, r'static size_type index\( ticket_type k \)', 'static size_type rep_index(ticket_type k)', 1, 1, name='sig'))
    # the slot computation shared by prepare_page / pop: sliced statement pair
    s = slice_block(QB, r'size_type prepare_page\( ticket_type k, queue_rep_type& base, page_allocator_type page_allocator,\s*padded_page\*& p \)')
    sliced.append('%s:%d micro_queue::prepare_page (slot computation statements)' % (QB, s.line))
    m = re.search(r'k &= -queue_rep_type::n_queue;\s*size_type index = modulo_power_of_two\(k / queue_rep_type::n_queue, items_per_page\);', s.text)
    if not m:
        raise ExtractionBreak('prepare_page: slot computation statements not found')
    t = 'static size_type slot_of(ticket_type k, size_type items_per_page) {\n    ' + m.group(0) + '\n    return index;\n}'
    t = rw.sub(t, r'queue_rep_type::n_queue', 'n_queue', 2, 2, name='ns-strip')
    out.append(t)
    s2 = slice_block(QB, r'bool pop\( void\* dst, ticket_type k, queue_rep_type& base, queue_allocator_type& allocator \)')
    if not re.search(r'k &= -queue_rep_type::n_queue;', s2.text) or not re.search(r'size_type index = modulo_power_of_two\( k/queue_rep_type::n_queue, items_per_page \);', s2.text):
        raise ExtractionBreak('micro_queue::pop no longer uses the same slot computation as prepare_page')
    common.write(ctx, 'ticket.inc', '\n'.join(out) + '\n')
    # ---- ticket-claim loops --------------------------------------------------------------
    out = []
    s = slice_block(CQ, r'std::pair<bool, ticket_type> internal_try_pop_impl\(void\* dst, QueueRep& queue, Allocator& alloc \)')
    sliced.append('%s:%d internal_try_pop_impl' % (CQ, s.line))
    t = rw.sub(s.text, r'std::pair<bool, ticket_type> internal_try_pop_impl\(void\* dst, QueueRep& queue, Allocator& alloc \)', 'struct pop_result internal_try_pop_impl(void* dst, struct rep* queue)', 1, 1, name='sig (pair -> struct; allocator dropped)')
    t = rw.sub(t, r'\bqueue\.', 'queue->', 3, name='ref-param')
    t = rw.atomics(t, ['head_counter', 'tail_counter'], 3)
    t = rw.sub(t, r'queue->choose\(ticket\)\.pop\(dst, ticket, queue, alloc\)', 'STUB_lane_pop(queue, ticket)', 1, 1, name='callee stub (micro_queue::pop)')
    t = rw.sub(t, r'return \{ (\w+), ticket \};', r'return (struct pop_result){ \1, ticket };', 2, 2, name='pair-init')
    t = rw.sub(t, r'ticket_type ticket\{\};', 'ticket_type ticket = 0;', 1, 1, name='brace-init')
    t = rw.casts(t, 1)
    t = rw.std(t)
    t = rw.number_sites(t, 'pop', by_kind=True)
    t = tag_loops(t, 'pop', rw, expect=2)
    out.append(t)
    s = slice_block(CQ, r'bool internal_push_if_not_full\( Args&&\.\.\. args \)')
    sliced.append('%s:%d concurrent_bounded_queue::internal_push_if_not_full' % (CQ, s.line))
    t = rw.sub(s.text, r'bool internal_push_if_not_full\( Args&&\.\.\. args \)', 'bool internal_push_if_not_full(struct bqueue* self)', 1, 1, name='sig + bind-pack(forwarded only)')
    t = rw.sub(t, r'\bmy_queue_representation->', 'self->my_queue_representation->', 4, name='field')
    t = rw.sub(t, r'(?<![\w>])my_capacity\b', 'self->my_capacity', 1, 1, name='field')
    t = rw.atomics(t, ['head_counter', 'tail_counter'], 3)
    t = rw.sub(t, r'self->my_queue_representation->choose\(ticket\)\.push\(ticket, \*my_queue_representation, my_allocator, std::forward<Args>\(args\)\.\.\.\);', 'STUB_lane_push(self, ticket);', 1, 1, name='callee stub (micro_queue::push)')
    t = rw.sub(t, r'r1::notify_bounded_queue_monitor\(my_monitors, cbq_items_avail_tag, ticket\);', 'STUB_notify(ticket);', 1, 1, name='callee stub')
    t = rw.casts(t, 1)
    t = rw.std(t)
    t = rw.number_sites(t, 'push', by_kind=True)
    t = tag_loops(t, 'push', rw, expect=1)
    out.append(t)
    common.write(ctx, 'claim.inc', '\n'.join(out) + '\n')
    # ---- blocking push/pop: who is woken (no lost wake-up) ------------------------------------
    out = []
    rw2 = Rewriter('wake')
    for rel, nm_ in ((CQ, 'cbq_slots_avail_tag'), (CQ, 'cbq_items_avail_tag'), (BQ, 'monitors_number')):
        m = re.search(r'static constexpr std::size_t %s = (\d+);' % nm_, load(rel))
        if not m:
            raise ExtractionBreak('%s: constant %s not found' % (rel, nm_))
        out.append('#define %s ((size_t)%s)' % (nm_, m.group(1)))
    s = slice_block(BQ, r'struct predicate_leq')
    sliced.append('%s:%d predicate_leq' % (BQ, s.line))
    if not re.search(r'predicate_leq\( std::size_t ticket \) : my_ticket\(ticket\) \{\}', s.text):
        raise ExtractionBreak('predicate_leq: constructor no longer stores its argument in my_ticket')
    s = slice_block(BQ, r'bool operator\(\) \( std::uintptr_t ticket \) const', within=r'struct predicate_leq')
    t = rw2.sub(s.text, r'bool operator\(\) \( std::uintptr_t ticket \) const', 'static bool predicate_leq_call(const struct predicate_leq *self, uintptr_t ticket)', 1, 1, name='sig (functor -> function)')
    t = rw2.sub(t, r'\bmy_ticket\b', 'self->my_ticket', 1, name='field')
    t = rw2.casts(t, 0)
    t = rw2.std(t)
    out.append('struct predicate_leq { size_t my_ticket; };\n' + t)
    common.write(ctx, 'wake_decl.inc', '\n'.join(out) + '\n')
    out = []
    s = slice_block(BQ, r'void __TBB_EXPORTED_FUNC notify_bounded_queue_monitor\( concurrent_monitor\* monitors,\s*std::size_t monitor_tag, std::size_t ticket\)')
    sliced.append('%s:%d notify_bounded_queue_monitor' % (BQ, s.line))
    t = rw2.sub(s.text, r'void __TBB_EXPORTED_FUNC notify_bounded_queue_monitor\( concurrent_monitor\* monitors,\s*std::size_t monitor_tag, std::size_t ticket\)',
                'static void notify_bounded_queue_monitor(struct concurrent_monitor *monitors, size_t monitor_tag, size_t ticket)', 1, 1, name='sig')
    t = rw2.sub(t, r'concurrent_monitor& monitor = monitors\[monitor_tag\];', 'struct concurrent_monitor *monitor = &monitors[monitor_tag];', 1, 1, name='ref-local')
    t = rw2.sub(t, r'monitor\.notify\(predicate_leq\(ticket\)\);', 'STUB_monitor_notify(monitor, (struct predicate_leq){ ticket });', 1, 1, name='callee stub (concurrent_monitor::notify(predicate)); functor constructed from the ticket')
    t = rw2.asserts(t, 1)
    out.append(t)
    WAIT = (r'auto pred = \[&\] \{\s*if \(my_abort_counter\.load\(std::memory_order_relaxed\) != old_abort_counter\) \{\s*throw_exception\(exception_id::user_abort\);\s*\}\s*'
            r'return (?P<cond>[^;]*);\s*\};\s*try_call\( \[&\] \{\s*internal_wait\(my_monitors, (?P<tag>\w+), (?P<ctx>\w+), pred\);\s*\}\)\.on_exception\( \[&\] \{[^}]*\}\);')
    WAITREP = r'STUB_wait(self, \g<tag>, \g<ctx>); __CPROVER_assume(!(\g<cond>)); /* wait returns (normally) only once its predicate is false */'
    for sig, csig, nm in ((r'void internal_pop\( void\* dst \)', 'static void internal_pop(struct bqueue* self, void* dst)', 'bpop'),
                          (r'void internal_push\( Args&&\.\.\. args \)', 'static void internal_push(struct bqueue* self)', 'bpush'),
                          (r'bool internal_pop_if_present\( void\* dst \)', 'static bool internal_pop_if_present(struct bqueue* self, void* dst)', 'bpopif')):
        s = slice_block(CQ, sig, within=r'class concurrent_bounded_queue \{')
        sliced.append('%s:%d concurrent_bounded_queue::%s' % (CQ, s.line, csig.split('(')[0].split()[-1]))
        t = rw2.sub(s.text, sig, csig, 1, 1, name='sig')
        if nm != 'bpopif':
            t = rw2.sub(t, WAIT, WAITREP, 1, 1, name='wait block: lambda predicate + try_call/on_exception -> STUB_wait + assume(!pred); abort/exception path dropped')
            t = rw2.sub(t, r'unsigned old_abort_counter = my_abort_counter\.load\(std::memory_order_relaxed\);', '', 1, 1, name='abort counter (dropped with the abort path)')
        t = rw2.sub(t, r'\*my_queue_representation\b', '*self->my_queue_representation', 0, name='field')
        t = rw2.sub(t, r'(?<![\w>*])my_queue_representation->', 'self->my_queue_representation->', 0 if nm == 'bpopif' else 1, name='field')
        t = rw2.sub(t, r'(?<![\w>])my_capacity\b', 'self->my_capacity', 0, name='field')
        t = rw2.asserts(t, 0)
        t = rw2.atomics(t, ['head_counter', 'tail_counter'], 0)
        t = rw2.sub(t, r'self->my_queue_representation->choose\(target\)\.pop\(dst, target, \*self->my_queue_representation, my_allocator\)', 'STUB_lane_pop(self->my_queue_representation, target)', 0, name='callee stub (micro_queue::pop)')
        t = rw2.sub(t, r'self->my_queue_representation->choose\(ticket\)\.push\(ticket, \*self->my_queue_representation, my_allocator, std::forward<Args>\(args\)\.\.\.\);', 'STUB_lane_push(self, ticket);', 0, name='callee stub (micro_queue::push)')
        t = rw2.sub(t, r'r1::notify_bounded_queue_monitor\(my_monitors,', 'notify_bounded_queue_monitor(self->my_monitors,', 1, name='callee (extracted)')
        t = rw2.sub(t, r'bool present\{\};\s*ticket_type ticket\{\};\s*std::tie\(present, ticket\) = internal_try_pop_impl\(dst, \*self->my_queue_representation, my_allocator\);',
                    'struct pop_result pr_ = STUB_try_pop_impl(self->my_queue_representation); bool present = pr_.first; ticket_type ticket = pr_.second;', 0, name='std::tie of pair -> struct; callee under its proved contract (claim.try_pop)')
        t = rw2.casts(t, 0)
        t = rw2.std(t)
        t = rw2.number_sites(t, nm, by_kind=True)
        if nm == 'bpop':
            t = tag_loops(t, nm, rw2, expect=1)
        out.append(t)
    common.write(ctx, 'wake.inc', '\n'.join(out) + '\n')
    fired['wake'] = rw2.fired
    fired['queue'] = rw.fired
    return sliced, fired


def build(ctx):
    sliced, fired = extract(ctx)
    C = os.path.join(HERE, 'c09.c')
    jobs = [
        Job('ticket.lanes', C, 'h_lanes', route='LF', defines=['TICKET'], target='concurrent_queue_rep::index', source=QB),
        Job('ticket.slots', C, 'h_slots', route='LF', defines=['TICKET'], target='micro_queue slot computation (prepare_page/pop) + modulo_power_of_two + items_per_page', source=QB),
        Job('claim.try_pop', C, 'h_try_pop', route='RG', defines=['CLAIM'], loops=True, nloops=2, target='internal_try_pop_impl (ticket loop)', source=CQ),
        Job('wake.predicate', C, 'h_wake_pred', route='LF', defines=['CLAIM', 'WAKE'], target='predicate_leq::operator() + notify_bounded_queue_monitor', source=BQ),
        Job('wake.pop', C, 'h_wake_pop', route='RG', defines=['CLAIM', 'WAKE'], loops=True, nloops=1, target='concurrent_bounded_queue::internal_pop (claim, wait, notify)', source=CQ),
        Job('wake.push', C, 'h_wake_push', route='RG', defines=['CLAIM', 'WAKE'], target='concurrent_bounded_queue::internal_push (claim, wait, notify)', source=CQ),
        Job('wake.pop_if_present', C, 'h_wake_popif', route='LF', defines=['CLAIM', 'WAKE'], target='concurrent_bounded_queue::internal_pop_if_present (notify)', source=CQ),
        Job('claim.push_if_not_full', C, 'h_push_if_not_full', route='RG', defines=['CLAIM'], loops=True, nloops=1, target='concurrent_bounded_queue::internal_push_if_not_full', source=CQ),
    ]
    return {
        'jobs': jobs, 'sliced': sliced, 'fired': fired,
        'trusted': ['micro_queue::push / pop (lane turnstiles, page hand-over): stubs', 'concurrent_monitor::wait/notify(predicate): notify(p) wakes exactly the sleepers whose context satisfies p; a sleeper re-evaluates its predicate before sleeping (C02, not applicable)', 'sequentially consistent atomics', 'rely: head_counter and tail_counter only grow, by the CAS / fetch_add of the same functions',
                    'fewer than 2^62 tickets between head and tail (signed differences do not wrap)'],
        'drops': ['std::pair result -> struct', 'allocator / forwarded argument packs dropped', 'memory orders'],
        'not_decided': ['linearizability proper', 'micro-queue turnstiles and page hand-over', 'invalid-entry accounting on exceptions', 'blocking push/pop: the abort / exception paths (on_exception handlers) are dropped; the monitor itself is C02', 'unsafe_size / empty snapshots'],
        'assumptions': ['atomics are sequentially consistent'],
    }


def replay(ctx, jobname, failure):
    exe = native.build([os.path.join(HERE, 'c09_replay.cpp')], os.path.join(ctx.work, 'c09_replay'), flags=['-fno-access-control'], link_tbb=True)
    rc, out = native.run([exe, jobname], timeout=120)
    rep = {'cmd': exe + ' ' + jobname, 'rc': rc, 'output': out[-1500:], 'reproduced': False, 'detail': 'native recipes found no failing sequence'}
    m = re.search(r'REPRODUCED (.*)', out)
    if m:
        rep['reproduced'] = True
        rep['detail'] = m.group(1)
        w = re.search(r'class=(\S+)', m.group(1))
        rep['witness_class'] = w.group(1) if w else None
    return rep
