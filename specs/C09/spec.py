"""C09 -- concurrent queues: ticket arithmetic, the ticket-claim protocols (rely/guarantee on head/tail counters), the per-lane turnstile / page list / cells
(micro_queue push, abort_push, pop under rely/guarantee), the queue representation (choose, size, empty, unbounded push / try_pop)."""
import os
import sys
import re
HERE = os.path.dirname(os.path.abspath(__file__))
sys.path.insert(0, os.path.join(HERE, '..'))
sys.path.insert(0, os.path.join(HERE, '..', '..', 'tools'))
import common
import native
import cxx2c
from cxx2c import Rewriter, slice_block, slice_stmt, tag_loops, ExtractionBreak, load
from prove import Job

CQ = 'include/oneapi/tbb/concurrent_queue.h'
QB = 'include/oneapi/tbb/detail/_concurrent_queue_base.h'
UT = 'include/oneapi/tbb/detail/_utils.h'
BQ = 'src/tbb/concurrent_bounded_queue.cpp'


def extract(ctx):
    sliced, fired = [], {}
    rw = Rewriter('queue')
    out = []
    for pat, what in ((r'static constexpr size_type n_queue = 8;', 'n_queue'), (r'static constexpr size_type phi = 3;', 'phi'), (r'using ticket_type = std::size_t;', 'ticket_type')):
        if not re.search(pat, load(QB)):
            raise ExtractionBreak('_concurrent_queue_base.h: %s changed' % what)
    s = slice_stmt(QB, r'static constexpr size_type items_per_page = item_size <=')
    sliced.append('%s:%d items_per_page' % (QB, s.line))
    t = rw.sub(s.text, r'static constexpr size_type items_per_page =', 'static size_t items_per_page_of(size_t item_size) { return', 1, 1, name='constexpr member -> function of item_size')
    out.append(t + ' }')
    s = slice_block(UT, r'inline ArgIntegerType modulo_power_of_two\(ArgIntegerType arg, DivisorIntegerType divisor\)')
    sliced.append('%s:%d modulo_power_of_two' % (UT, s.line))
    t = rw.sub(s.text, r'inline ArgIntegerType modulo_power_of_two\(ArgIntegerType arg, DivisorIntegerType divisor\)', 'static size_t modulo_power_of_two(size_t arg, size_t divisor)', 1, 1, name='sig + bind-template')
    t = rw.sub(t, r'is_power_of_two\(divisor\)', 'IS_POW2(divisor)', 1, 1, name='callee')
    t = rw.asserts(t, 1)
    out.append(t)
    s = slice_block(QB, r'static size_type index\( ticket_type k \)')
    sliced.append('%s:%d concurrent_queue_rep::index' % (QB, s.line))
    out.append(rw.sub(s.text, r'static size_type index\( ticket_type k \)', 'static size_type rep_index(ticket_type k)', 1, 1, name='sig'))
    # the slot computation shared by prepare_page / pop: sliced statement pair
    s = slice_block(QB, r'size_type prepare_page\( ticket_type k, queue_rep_type& base, page_allocator_type page_allocator,\s*padded_page\*& p \)')
    sliced.append('%s:%d micro_queue::prepare_page (slot computation statements)' % (QB, s.line))
    m = re.search(r'k &= -queue_rep_type::n_queue;\s*size_type index = modulo_power_of_two\(k / queue_rep_type::n_queue, items_per_page\);', s.text)
    if not m:
        raise ExtractionBreak('prepare_page: slot computation statements not found')
    t = 'static size_type slot_of(ticket_type k, size_type items_per_page) {\n    ' + m.group(0) + '\n    return index;\n}'
    t = rw.sub(t, r'queue_rep_type::n_queue', 'n_queue', 2, 2, name='ns-strip')
    out.append(t)
    s2 = slice_block(QB, r'bool pop\( void\* dst, ticket_type k, queue_rep_type& base, queue_allocator_type& allocator \)')
    if not re.search(r'k &= -queue_rep_type::n_queue;', s2.text) or not re.search(r'size_type index = modulo_power_of_two\( k/queue_rep_type::n_queue, items_per_page \);', s2.text):
        raise ExtractionBreak('micro_queue::pop no longer uses the same slot computation as prepare_page')
    common.write(ctx, 'ticket.inc', '\n'.join(out) + '\n')
    # ---- ticket-claim loops --------------------------------------------------------------
    out = []
    s = slice_block(CQ, r'std::pair<bool, ticket_type> internal_try_pop_impl\(void\* dst, QueueRep& queue, Allocator& alloc \)')
    sliced.append('%s:%d internal_try_pop_impl' % (CQ, s.line))
    t = rw.sub(s.text, r'std::pair<bool, ticket_type> internal_try_pop_impl\(void\* dst, QueueRep& queue, Allocator& alloc \)', 'struct pop_result internal_try_pop_impl(void* dst, struct rep* queue)', 1, 1, name='sig (pair -> struct; allocator dropped)')
    t = rw.sub(t, r'\bqueue\.', 'queue->', 3, name='ref-param')
    t = rw.atomics(t, ['head_counter', 'tail_counter'], 3)
    t = rw.sub(t, r'queue->choose\(ticket\)\.pop\(dst, ticket, queue, alloc\)', 'STUB_lane_pop(queue, ticket)', 1, 1, name='callee stub (micro_queue::pop)')
    t = rw.sub(t, r'return \{ (\w+), ticket \};', r'return (struct pop_result){ \1, ticket };', 2, 2, name='pair-init')
    t = rw.sub(t, r'ticket_type ticket\{\};', 'ticket_type ticket = 0;', 1, 1, name='brace-init')
    t = rw.casts(t, 1)
    t = rw.std(t)
    t = rw.number_sites(t, 'pop', by_kind=True)
    t = tag_loops(t, 'pop', rw, expect=2)
    out.append(t)
    s = slice_block(CQ, r'bool internal_push_if_not_full\( Args&&\.\.\. args \)')
    sliced.append('%s:%d concurrent_bounded_queue::internal_push_if_not_full' % (CQ, s.line))
    t = rw.sub(s.text, r'bool internal_push_if_not_full\( Args&&\.\.\. args \)', 'bool internal_push_if_not_full(struct bqueue* self)', 1, 1, name='sig + bind-pack(forwarded only)')
    t = rw.sub(t, r'\bmy_queue_representation->', 'self->my_queue_representation->', 4, name='field')
    t = rw.sub(t, r'(?<![\w>])my_capacity\b', 'self->my_capacity', 1, 1, name='field')
    t = rw.atomics(t, ['head_counter', 'tail_counter'], 3)
    t = rw.sub(t, r'self->my_queue_representation->choose\(ticket\)\.push\(ticket, \*my_queue_representation, my_allocator, std::forward<Args>\(args\)\.\.\.\);', 'STUB_lane_push(self, ticket);', 1, 1, name='callee stub (micro_queue::push)')
    t = rw.sub(t, r'r1::notify_bounded_queue_monitor\(my_monitors, cbq_items_avail_tag, ticket\);', 'STUB_notify(ticket);', 1, 1, name='callee stub')
    t = rw.casts(t, 1)
    t = rw.std(t)
    t = rw.number_sites(t, 'push', by_kind=True)
    t = tag_loops(t, 'push', rw, expect=1)
    out.append(t)
    common.write(ctx, 'claim.inc', '\n'.join(out) + '\n')
    # ---- blocking push/pop: who is woken (no lost wake-up) ------------------------------------
    out = []
    rw2 = Rewriter('wake')
    for rel, nm_ in ((CQ, 'cbq_slots_avail_tag'), (CQ, 'cbq_items_avail_tag'), (BQ, 'monitors_number')):
        m = re.search(r'static constexpr std::size_t %s = (\d+);' % nm_, load(rel))
        if not m:
            raise ExtractionBreak('%s: constant %s not found' % (rel, nm_))
        out.append('#define %s ((size_t)%s)' % (nm_, m.group(1)))
    s = slice_block(BQ, r'struct predicate_leq')
    sliced.append('%s:%d predicate_leq' % (BQ, s.line))
    if not re.search(r'predicate_leq\( std::size_t ticket \) : my_ticket\(ticket\) \{\}', s.text):
        raise ExtractionBreak('predicate_leq: constructor no longer stores its argument in my_ticket')
    s = slice_block(BQ, r'bool operator\(\) \( std::uintptr_t ticket \) const', within=r'struct predicate_leq')
    t = rw2.sub(s.text, r'bool operator\(\) \( std::uintptr_t ticket \) const', 'static bool predicate_leq_call(const struct predicate_leq *self, uintptr_t ticket)', 1, 1, name='sig (functor -> function)')
    t = rw2.sub(t, r'\bmy_ticket\b', 'self->my_ticket', 1, name='field')
    t = rw2.casts(t, 0)
    t = rw2.std(t)
    out.append('struct predicate_leq { size_t my_ticket; };\n' + t)
    common.write(ctx, 'wake_decl.inc', '\n'.join(out) + '\n')
    out = []
    s = slice_block(BQ, r'void __TBB_EXPORTED_FUNC notify_bounded_queue_monitor\( concurrent_monitor\* monitors,\s*std::size_t monitor_tag, std::size_t ticket\)')
    sliced.append('%s:%d notify_bounded_queue_monitor' % (BQ, s.line))
    t = rw2.sub(s.text, r'void __TBB_EXPORTED_FUNC notify_bounded_queue_monitor\( concurrent_monitor\* monitors,\s*std::size_t monitor_tag, std::size_t ticket\)',
                'static void notify_bounded_queue_monitor(struct concurrent_monitor *monitors, size_t monitor_tag, size_t ticket)', 1, 1, name='sig')
    t = rw2.sub(t, r'concurrent_monitor& monitor = monitors\[monitor_tag\];', 'struct concurrent_monitor *monitor = &monitors[monitor_tag];', 1, 1, name='ref-local')
    t = rw2.sub(t, r'monitor\.notify\(predicate_leq\(ticket\)\);', 'STUB_monitor_notify(monitor, (struct predicate_leq){ ticket });', 1, 1, name='callee stub (concurrent_monitor::notify(predicate)); functor constructed from the ticket')
    t = rw2.asserts(t, 1)
    out.append(t)
    WAIT = (r'auto pred = \[&\] \{\s*if \(my_abort_counter\.load\(std::memory_order_relaxed\) != old_abort_counter\) \{\s*throw_exception\(exception_id::user_abort\);\s*\}\s*'
            r'return (?P<cond>[^;]*);\s*\};\s*try_call\( \[&\] \{\s*internal_wait\(my_monitors, (?P<tag>\w+), (?P<ctx>\w+), pred\);\s*\}\)\.on_exception\( \[&\] \{[^}]*\}\);')
    WAITREP = r'STUB_wait(self, \g<tag>, \g<ctx>); __CPROVER_assume(!(\g<cond>)); /* wait returns (normally) only once its predicate is false */'
    for sig, csig, nm in ((r'void internal_pop\( void\* dst \)', 'static void internal_pop(struct bqueue* self, void* dst)', 'bpop'),
                          (r'void internal_push\( Args&&\.\.\. args \)', 'static void internal_push(struct bqueue* self)', 'bpush'),
                          (r'bool internal_pop_if_present\( void\* dst \)', 'static bool internal_pop_if_present(struct bqueue* self, void* dst)', 'bpopif')):
        s = slice_block(CQ, sig, within=r'class concurrent_bounded_queue \{')
        sliced.append('%s:%d concurrent_bounded_queue::%s' % (CQ, s.line, csig.split('(')[0].split()[-1]))
        t = rw2.sub(s.text, sig, csig, 1, 1, name='sig')
        if nm != 'bpopif':
            t = rw2.sub(t, WAIT, WAITREP, 1, 1, name='wait block: lambda predicate + try_call/on_exception -> STUB_wait + assume(!pred); abort/exception path dropped')
            t = rw2.sub(t, r'unsigned old_abort_counter = my_abort_counter\.load\(std::memory_order_relaxed\);', '', 1, 1, name='abort counter (dropped with the abort path)')
        t = rw2.sub(t, r'\*my_queue_representation\b', '*self->my_queue_representation', 0, name='field')
        t = rw2.sub(t, r'(?<![\w>*])my_queue_representation->', 'self->my_queue_representation->', 0 if nm == 'bpopif' else 1, name='field')
        t = rw2.sub(t, r'(?<![\w>])my_capacity\b', 'self->my_capacity', 0, name='field')
        t = rw2.asserts(t, 0)
        t = rw2.atomics(t, ['head_counter', 'tail_counter'], 0)
        t = rw2.sub(t, r'self->my_queue_representation->choose\(target\)\.pop\(dst, target, \*self->my_queue_representation, my_allocator\)', 'STUB_lane_pop(self->my_queue_representation, target)', 0, name='callee stub (micro_queue::pop)')
        t = rw2.sub(t, r'self->my_queue_representation->choose\(ticket\)\.push\(ticket, \*self->my_queue_representation, my_allocator, std::forward<Args>\(args\)\.\.\.\);', 'STUB_lane_push(self, ticket);', 0, name='callee stub (micro_queue::push)')
        t = rw2.sub(t, r'r1::notify_bounded_queue_monitor\(my_monitors,', 'notify_bounded_queue_monitor(self->my_monitors,', 1, name='callee (extracted)')
        t = rw2.sub(t, r'bool present\{\};\s*ticket_type ticket\{\};\s*std::tie\(present, ticket\) = internal_try_pop_impl\(dst, \*self->my_queue_representation, my_allocator\);',
                    'struct pop_result pr_ = STUB_try_pop_impl(self->my_queue_representation); bool present = pr_.first; ticket_type ticket = pr_.second;', 0, name='std::tie of pair -> struct; callee under its proved contract (claim.try_pop)')
        t = rw2.casts(t, 0)
        t = rw2.std(t)
        t = rw2.number_sites(t, nm, by_kind=True)
        if nm == 'bpop':
            t = tag_loops(t, nm, rw2, expect=1)
        out.append(t)
    common.write(ctx, 'wake.inc', '\n'.join(out) + '\n')
    fired['wake'] = rw2.fired
    fired['queue'] = rw.fired
    return sliced, fired


def build(ctx):
    sliced, fired = extract(ctx)
    extract_lane(ctx, sliced, fired)
    extract_rep(ctx, sliced, fired)
    C = os.path.join(HERE, 'c09.c')
    jobs = [
        Job('lane.push', C, 'h_lane_push', route='RG', defines=['LANE'], loops=True, nloops=1, target='micro_queue::push + prepare_page + spin_wait_until_my_turn + value_guard (any ticket, any page-size class, any number of concurrent pushes/pops)', source=QB, timeout=600),
        Job('lane.pop', C, 'h_lane_pop', route='RG', defines=['LANE'], loops=True, nloops=2, target='micro_queue::pop + assign_and_destroy_item + micro_queue_pop_finalizer + spin_wait_until_eq / spin_wait_while_eq', source=QB, timeout=600),
        Job('lane.abort_push', C, 'h_lane_abort_push', route='RG', defines=['LANE'], loops=True, nloops=1, target='micro_queue::abort_push + prepare_page + spin_wait_until_my_turn', source=QB, timeout=600),
        Job('lane.pop.invalid_page', C, 'h_lane_pop_invalid', route='LW', defines=['LANESEQ'], unwind=4, target='micro_queue::pop on a lane whose page allocation failed (invalidate_page ran): fault sequence, one thread', source=QB,
            must_have=['C09.fault: pop of a ticket whose page allocation failed']),
        Job('rep.choose', C, 'h_rep_choose', route='LF', defines=['REP'], target='concurrent_queue_rep::choose + index', source=QB),
        Job('rep.push', C, 'h_cq_push', route='RG', defines=['REP'], target='concurrent_queue::internal_push (ticket by fetch-and-increment, lane by choose)', source=CQ),
        Job('rep.try_pop', C, 'h_cq_try_pop', route='LF', defines=['REP'], target='concurrent_queue::internal_try_pop', source=CQ),
        Job('rep.size_empty', C, 'h_rep_size', route='LF', defines=['REP'], target='concurrent_queue_rep::size / empty, concurrent_queue::unsafe_size (quiescent states, invalid entries, negative size)', source=QB),
        Job('ticket.lanes', C, 'h_lanes', route='LF', defines=['TICKET'], target='concurrent_queue_rep::index', source=QB),
        Job('ticket.slots', C, 'h_slots', route='LF', defines=['TICKET'], target='micro_queue slot computation (prepare_page/pop) + modulo_power_of_two + items_per_page', source=QB),
        Job('claim.try_pop', C, 'h_try_pop', route='RG', defines=['CLAIM'], loops=True, nloops=2, target='internal_try_pop_impl (ticket loop)', source=CQ),
        Job('wake.predicate', C, 'h_wake_pred', route='LF', defines=['CLAIM', 'WAKE'], target='predicate_leq::operator() + notify_bounded_queue_monitor', source=BQ),
        Job('wake.pop', C, 'h_wake_pop', route='RG', defines=['CLAIM', 'WAKE'], loops=True, nloops=1, target='concurrent_bounded_queue::internal_pop (claim, wait, notify)', source=CQ),
        Job('wake.push', C, 'h_wake_push', route='RG', defines=['CLAIM', 'WAKE'], target='concurrent_bounded_queue::internal_push (claim, wait, notify)', source=CQ),
        Job('wake.pop_if_present', C, 'h_wake_popif', route='LF', defines=['CLAIM', 'WAKE'], target='concurrent_bounded_queue::internal_pop_if_present (notify)', source=CQ),
        Job('claim.push_if_not_full', C, 'h_push_if_not_full', route='RG', defines=['CLAIM'], loops=True, nloops=1, target='concurrent_bounded_queue::internal_push_if_not_full', source=CQ),
    ]
    return {
        'jobs': jobs, 'sliced': sliced, 'fired': fired,
        'trusted': ['concurrent_monitor::wait/notify(predicate): notify(p) wakes exactly the sleepers whose context satisfies p; a sleeper re-evaluates its predicate before sleeping (C02, not applicable)',
                    'sequentially consistent atomics', 'rely (claim.*, wake.*, rep.push): head_counter and tail_counter of the queue only grow, by the CAS / fetch_add of the same functions',
                    'fewer than 2^62 tickets between head and tail (signed differences do not wrap)',
                    'claim.* / wake.*: micro_queue::push / pop are stubs there; their behaviour is what lane.push / lane.pop / lane.abort_push prove',
                    'lane.*: tickets are unique per lane turn (claim.*, wake.*, rep.push); the lane starts zero-initialised (both counters 0, no page), which satisfies the lane invariant',
                    'lane.*: rely = any number of steps of the other pushes / abort_pushes / pops of the lane, i.e. havoc under the lane invariant with this call\'s own turn, page_mutex section, private page and (push) own cell kept; '
                    'every guarantee asserted after each step of push / abort_push / pop is what that rely assumes of them (closed-world scan of the writers of lane state in _concurrent_queue_base.h)',
                    'lane.*: page allocator (allocate / deallocate), padded_page constructor (next = nullptr, mask = 0: default member initialisers checked at extraction), element constructor / move-assignment / destructor: stubs',
                    'lane.*: spin_mutex::scoped_lock is a mutual-exclusion section (C08 proves spin_mutex)',
                    'lane.*: plain (non-atomic) accesses between two atomic steps are one step (no data race on them: the cell and mask word are owned by the turn holder, next links by the page_mutex holder)'],
        'drops': ['std::pair result -> struct', 'allocator / forwarded argument packs dropped', 'memory orders', 'ITT notifications, atomic_backoff pauses -> RG_NOP',
                  'try_call(body).on_exception(handler) -> { body; if (exception pending) { handler; rethrow } }; a callee that may throw is followed by an explicit exception edge',
                  'raii_guard value_guard -> flag + its body (sliced as mq_push_value_guard) at every scope exit; micro_queue_pop_finalizer / destroyer objects -> constructor call at the declaration, destructor call at scope exit',
                  'reference parameters / members / locals -> pointers; padded_page::operator[] -> padded_page_at; page field accesses -> accessor macros',
                  'template instantiations: value_type := unsigned char (trivially copyable), items_per_page symbolic in {1,2,4,8,16,32}'],
        'not_decided': ['linearizability proper (the lane contracts give: pop of ticket k delivers exactly what push of ticket k stored, once; ticket order is the real-time order of the fetch_add / CAS on the queue counters - the composition into a linearization is an argument, not a checked obligation)',
                        'page allocation failure under concurrency: invalidate_page runs outside the failing push\'s turn (tail_counter made odd while older pushes of the lane are in flight); only the one-thread sequence is checked (lane.pop.invalid_page)',
                        'blocking push/pop: the abort / exception paths (on_exception handlers, internal_abort) are dropped except micro_queue::abort_push itself; the monitor is C02',
                        'size() / empty() while operations are in flight (only quiescent states are decided; empty() reads n_invalid_entries after its second read of tail_counter)',
                        'copy / move construction, assign, clear, iterators (not thread-safe by contract)', 'termination of the spin loops; liveness'],
        'assumptions': ['atomics are sequentially consistent', 'element type trivially copyable; an element constructor may throw, move-assignment and destructor do not',
                        'lane.push / lane.pop / lane.abort_push: no page allocation has failed in the lane (tail_counter even); page allocation succeeds',
                        'lane counters: the code uses them only in equality tests with its ticket and in `c & 1`; away from the ticket their numeric value is abstracted (any multiple of n_queue other than the ticket), the turn position is ghost state'],
    }


def replay(ctx, jobname, failure):
    if (jobname.startswith('lane.') or jobname.startswith('rep.')) and not jobname.startswith('lane.pop.invalid_page'):
        return {'reproduced': False, 'detail': 'no native recipe: the lane windows (ticket taken / turn not yet handed on / page switch under page_mutex) need a thread stalled inside the library'}
    exe = native.build([os.path.join(HERE, 'c09_replay.cpp')], os.path.join(ctx.work, 'c09_replay'), flags=['-fno-access-control'], link_tbb=True)
    rc, out = native.run([exe, jobname], timeout=120)
    rep = {'cmd': exe + ' ' + jobname, 'rc': rc, 'output': out[-1500:], 'reproduced': False, 'detail': 'native recipes found no failing sequence'}
    m = re.search(r'REPRODUCED (.*)', out)
    if m:
        rep['reproduced'] = True
        rep['detail'] = m.group(1)
        w = re.search(r'class=(\S+)', m.group(1))
        rep['witness_class'] = w.group(1) if w else None
    return rep


# =====================================================================================================================
# micro_queue: the per-lane turnstile, the page list and the cells (jobs lane.*)
# =====================================================================================================================
def _initlist_to_assignments(rw, text, members):
    """constructor `C(params) : a(x), b(y) {}` -> `{ self->a = (x); self->b = (y); }` in DECLARED member order (C++ initialises in declared order).
    Mechanical: every item becomes one assignment, expressions untouched."""
    m = cxx2c.mask(text)
    b = m.find('{', m.find(')'))
    depth, colon = 0, None
    for i, ch in enumerate(m):
        if ch == '(':
            depth += 1
        elif ch == ')':
            depth -= 1
        elif ch == ':' and depth == 0 and m[i + 1] != ':' and m[i - 1] != ':':
            colon = i
            break
    if colon is None:
        raise ExtractionBreak('%s: constructor without an initialiser list' % rw.name)
    # the body is the first '{' that follows a ')' after the colon
    j, depth, body_at = colon, 0, None
    while j < len(m):
        if m[j] == '(':
            depth += 1
        elif m[j] == ')':
            depth -= 1
        elif m[j] == '{' and depth == 0:
            body_at = j
            break
        j += 1
    items = []
    for it in cxx2c.split_args(text[colon + 1:body_at]):
        im = re.match(r'\s*(\w+)\s*\((.*)\)\s*$', it, re.S)
        if not im:
            raise ExtractionBreak('%s: cannot parse init-list item %r' % (rw.name, it))
        items.append((im.group(1), im.group(2).strip()))
    for nm, _ in items:
        if nm not in members:
            raise ExtractionBreak('%s: init-list member %s is not a known member' % (rw.name, nm))
    items.sort(key=lambda x: members.index(x[0]))
    rw.fired['ctor-init-list->assignments(declared order)'] = rw.fired.get('ctor-init-list->assignments(declared order)', 0) + len(items)
    rest = text[body_at + 1:]
    return text[:colon], '{\n' + ''.join('    self->%s = (%s);\n' % (nm, ex) for nm, ex in items) + rest


def _declared_order(class_text, names):
    pos = {}
    for n in names:
        m = re.search(r'[\w>\*&]\s+%s\s*;' % re.escape(n), class_text)
        if not m:
            raise ExtractionBreak('member %s not declared' % n)
        pos[n] = m.start()
    return sorted(names, key=lambda n: pos[n])


MQ = r'class micro_queue \{'
FIN = r'class micro_queue_pop_finalizer \{'
PP = r'struct padded_page \{'


def extract_lane(ctx, sliced, fired):
    rw = Rewriter('lane')
    out = []
    qb = load(QB)
    # -- constants / shapes the harness relies on (checked, not rewritten)
    for pat, what in ((r'padded_page\* next\{ nullptr \};', 'padded_page::next default initialiser (a constructed page has no successor)'),
                      (r'std::atomic<std::uintptr_t> mask\{\};', 'padded_page::mask default initialiser (a constructed page holds no item)'),
                      (r'~destroyer\(\) \{my_value\.~T\(\);\}', 'destroyer::~destroyer destroys the referenced item'),
                      (r'destroyer\( reference value \) : my_value\(value\) \{\}', 'destroyer constructor binds the item')):
        if not re.search(pat, qb):
            raise ExtractionBreak('_concurrent_queue_base.h: %s changed' % what)

    # closed world: every writer of the lane state is among the functions under contract or listed as outside the concurrent protocol
    writers = {}
    mqtext = cxx2c.mask(qb)
    for wm in re.finditer(r'\b(head_page|tail_page|head_counter|tail_counter)\s*\.\s*(store|fetch_add|fetch_sub|exchange|compare_exchange_\w+)\s*\(|(\+\+|--)\s*(?:\w+\.)?(head_counter|tail_counter)\b|\b(head_counter|tail_counter)\s*(\+\+|--|[-+]=)|->next\s*=[^=]', mqtext):
        # enclosing function: the last preceding line that looks like a function header at class scope
        hdrs = [h for h in re.finditer(r'\n    (?:[\w:<>\*&~]+\s+)*~?(\w+)\s*\([^;{}]*\)\s*(?:const\s*)?(?::[^{;]*)?\{', mqtext[:wm.start()])]
        fn = hdrs[-1].group(1) if hdrs else '?'
        writers[fn] = writers.get(fn, 0) + 1
    # push / prepare_page / abort_push / the finalizer: under contract (lane.*); invalidate_page: failed page allocation (lane.pop.invalid_page, residue);
    # assign / make_copy / clear: copy construction, assignment, clear() - documented as not thread-safe, outside the concurrent protocol
    allowed = {'prepare_page': 3, 'push': 2, 'abort_push': 1, 'invalidate_page': 4, 'micro_queue_pop_finalizer': 3, 'assign': 15, 'clear': 6, 'make_copy': 1}
    for fn, n_ in writers.items():
        if fn not in allowed or n_ > allowed[fn]:
            raise ExtractionBreak('_concurrent_queue_base.h: %d write(s) to lane state (counters, page pointers, next links) in %s(): not among the writers the lane proofs know (closed-world scan)' % (n_, fn))
    rw.fired['closed-world scan: writers of lane state'] = sum(writers.values())

    def common(t, nm):
        t = rw.sub(t, r'queue_rep_type::n_queue', 'n_queue', 0, name='ns-strip')
        t = rw.sub(t, r'd1::call_itt_notify\([^;]*\);', 'RG_NOP();', 0, name='ITT notify -> RG_NOP')
        t = rw.sub(t, r'(?<![\w:])(?<!struct )padded_page\s*\*', 'struct padded_page *', 0, name='type')
        t = rw.sub(t, r'\b(\w+|\(\*p_ref\))->next\b', r'PAGE_NEXT(\1)', 0, name='page field access -> accessor macro')
        t = rw.sub(t, r'\b(\w+|\(\*p_ref\))->mask\b', r'PAGE_MASK(\1)', 0, name='page field access -> accessor macro')
        t = rw.sub(t, r'page_allocator_type page_allocator\(allocator\);', 'ALLOC_REBIND(page_allocator, allocator);', 0, name='allocator rebind (plumbing)')
        t = rw.asserts(t, 0)
        t = rw.casts(t, 0)
        t = rw.fcasts(t, ['std::uintptr_t', 'uintptr_t'])
        t = rw.std(t)
        return t

    # is_valid_page
    s = slice_block(QB, r'inline bool is_valid_page\(const Page p\)')
    sliced.append('%s:%d is_valid_page' % (QB, s.line))
    t = rw.sub(s.text, r'inline bool is_valid_page\(const Page p\)', 'static bool is_valid_page(const struct padded_page *p)', 1, 1, name='sig + bind-template(Page:=padded_page*)')
    out.append(common(t, 'valid'))
    # padded_page::operator[]
    s = slice_block(QB, r'(?<!_)reference operator\[\] \(std::size_t index\)', within=PP)
    sliced.append('%s:%d padded_page::operator[]' % (QB, s.line))
    t = rw.sub(s.text, r'reference operator\[\] \(std::size_t index\)', 'static value_type *padded_page_at(struct padded_page *self, size_t index)', 1, 1, name='sig (reference result -> pointer)')
    t = rw.sub(t, r'return items\[index\];', 'return &PAGE_ITEMS(self)[index];', 1, 1, name='reference result -> pointer; page field access -> accessor macro')
    out.append(common(t, 'at'))
    # spin_wait_while / _while_eq / _until_eq (detail/_utils.h), instantiated for ticket_type with the wrappers' lambdas
    s = slice_block(UT, r'T spin_wait_while\(const std::atomic<T>& location, C comp, std::memory_order order\)')
    sliced.append('%s:%d spin_wait_while' % (UT, s.line))
    for wn, short in (('spin_wait_while_eq', 'swweq'), ('spin_wait_until_eq', 'swueq')):
        w = slice_block(UT, r'T %s\(const std::atomic<T>& location, const U value, std::memory_order order = std::memory_order_acquire\)' % wn)
        sliced.append('%s:%d %s' % (UT, w.line, wn))
        lm = re.search(r'return spin_wait_while\(location, \[&value\]\(T t\) \{ return ([^;]*); \}, order\);', w.text)
        if not lm:
            raise ExtractionBreak('%s: no longer spin_wait_while(location, <lambda on t and value>, order)' % wn)
        out.append('static bool %s_comp(ticket_type t, ticket_type value) { return %s; }' % (wn, lm.group(1)))
        t = rw.sub(s.text, r'T spin_wait_while\(const std::atomic<T>& location, C comp, std::memory_order order\)', 'static ticket_type %s(ticket_type *location, ticket_type value)' % wn, 1, 1, name='sig + bind-template(T:=ticket_type, C:=the wrapper lambda)')
        t = rw.sub(t, r'\bcomp\(snapshot\)', '%s_comp(snapshot, value)' % wn, 1, name='lambda call')
        t = rw.sub(t, r'atomic_backoff backoff;', 'RG_NOP();', 1, 1, name='backoff decl -> RG_NOP')
        t = rw.sub(t, r'backoff\.pause\(\);', 'RG_NOP();', 0, name='backoff-call->RG_NOP')
        t = rw.sub(t, r'\bT snapshot\b', 'ticket_type snapshot', 1, 1, name='bind-template')
        t = rw.sub(t, r'location\.load\(order\)', 'location.load()', 1, name='memory order parameter dropped')
        t = rw.atomics(t, ['location'], 1)
        t = rw.sub(t, r'ATOMIC_LOAD\(location\)', 'ATOMIC_LOAD(*location)', 1, name='ref-param')
        t = rw.number_sites(t, short, by_kind=True)
        t = tag_loops(t, short, rw, expect=1)
        out.append(t)
    # micro_queue::spin_wait_until_my_turn
    s = slice_block(QB, r'void spin_wait_until_my_turn\( std::atomic<ticket_type>& counter, ticket_type k, queue_rep_type& rb \) const', within=MQ)
    sliced.append('%s:%d micro_queue::spin_wait_until_my_turn' % (QB, s.line))
    t = rw.sub(s.text, r'void spin_wait_until_my_turn\( std::atomic<ticket_type>& counter, ticket_type k, queue_rep_type& rb \) const',
               'static void mq_spin_wait_until_my_turn(struct micro_queue *self, ticket_type *counter, ticket_type k, struct queue_rep *rb)', 1, 1, name='sig')
    t = rw.sub(t, r'for\s*\(\s*atomic_backoff (\w+)\{\};;\s*\1\.pause\(\)\s*\)', 'for (;;)', 1, 1, name='backoff-for')
    t = rw.atomics(t, ['counter'], 1)
    t = rw.sub(t, r'ATOMIC_LOAD\(counter\)', 'ATOMIC_LOAD(*counter)', 1, name='ref-param')
    t = rw.sub(t, r'\+\+rb\.n_invalid_entries;', 'ATOMIC_PREINC(rb->n_invalid_entries);', 0, name='atomic ++ (ref-param)')
    t = rw.sub(t, r'throw_exception\(\s*exception_id::bad_last_alloc\s*\);', '{ EXC_THROW(bad_last_alloc); return; }', 0, name='throw -> pending-exception flag + return')
    t = common(t, 'turn')
    t = rw.number_sites(t, 'turn', by_kind=True)
    t = tag_loops(t, 'turn', rw, expect=1)
    out.append(t)
    # micro_queue::invalidate_page
    s = slice_block(QB, r'void invalidate_page\( ticket_type k \)', within=MQ)
    sliced.append('%s:%d micro_queue::invalidate_page' % (QB, s.line))
    t = rw.sub(s.text, r'void invalidate_page\( ticket_type k \)', 'static void mq_invalidate_page(struct micro_queue *self, ticket_type k)', 1, 1, name='sig')
    t = rw.scoped_locks(t, r'spin_mutex::scoped_lock \w+\(([^)]*)\);', 0, None)
    t = rw.fields(t, ['head_page', 'tail_page', 'tail_counter', 'head_counter', 'page_mutex'], 1)
    t = rw.atomics(t, ['head_page', 'tail_page', 'tail_counter'], 0)
    t = common(t, 'inval')
    t = rw.number_sites(t, 'inval', by_kind=True)
    out.append(t)
    # micro_queue::prepare_page
    s = slice_block(QB, r'size_type prepare_page\( ticket_type k, queue_rep_type& base, page_allocator_type page_allocator,\s*padded_page\*& p \)', within=MQ)
    sliced.append('%s:%d micro_queue::prepare_page' % (QB, s.line))
    t = rw.sub(s.text, r'size_type prepare_page\( ticket_type k, queue_rep_type& base, page_allocator_type page_allocator,\s*padded_page\*& p \)',
               'static size_type mq_prepare_page(struct micro_queue *self, ticket_type k, struct queue_rep *base, int page_allocator, struct padded_page **p_ref)', 1, 1, name='sig (reference parameters -> pointers)')
    t = rw.sub(t, r'(?s)try_call\( \[&\] \{(.*?)\}\)\.on_exception\( \[&\] \{(.*?)\}\);', r'{ \1 if (EXC_PENDING()) { { \2 } EXC_RETHROW(0); } }', 0, None,
               name='try_call(body).on_exception(handler) -> { body; if (exception pending) { handler; rethrow } }')
    t = rw.sub(t, r'(?<![\w.>])p\b(?!_ref)', '(*p_ref)', 1, name='ref-param')
    t = rw.sub(t, r'\+\+base\.n_invalid_entries;', 'ATOMIC_PREINC(base->n_invalid_entries);', 0, name='atomic ++ (ref-param)')
    t = rw.sub(t, r'page_allocator_traits::allocate\(page_allocator, 1\)', 'STUB_page_allocate()', 0, name='callee stub (allocator; may throw)')
    t = rw.sub(t, r'page_allocator_traits::construct\(page_allocator, \(\*p_ref\)\);', 'STUB_page_construct((*p_ref));', 0, name='callee stub (padded_page default constructor)')
    t = rw.sub(t, r'invalidate_page\( k \);', 'mq_invalidate_page(self, k);', 0, name='method')
    t = rw.sub(t, r'spin_wait_until_my_turn\(tail_counter, k, base\);', 'mq_spin_wait_until_my_turn(self, &self->tail_counter, k, base); EXC_PROPAGATE(0);', 0, name='method (may throw: exception edge made explicit)')
    t = rw.scoped_locks(t, r'spin_mutex::scoped_lock \w+\(([^)]*)\);', 0, None)
    t = rw.fields(t, ['head_page', 'tail_page', 'page_mutex'], 1)
    t = rw.atomics(t, ['head_page', 'tail_page'], 0)
    t = rw.sub(t, r'modulo_power_of_two\(k / n_queue, items_per_page\)|modulo_power_of_two\(k / queue_rep_type::n_queue, items_per_page\)', 'modulo_power_of_two(k / n_queue, items_per_page)', 0, name='(identity)')
    t = common(t, 'prep')
    t = rw.number_sites(t, 'prep', by_kind=True)
    out.append(t)
    # micro_queue::push: the raii guard body as a block of its own, the guard object as an explicit flag + scope exits
    s = slice_block(QB, r'void push\( ticket_type k, queue_rep_type& base, queue_allocator_type& allocator, Args&&\.\.\. args \)', within=MQ)
    sliced.append('%s:%d micro_queue::push (+ the value_guard body)' % (QB, s.line))
    t = s.text
    gm = re.search(r'(?s)auto value_guard = make_raii_guard\(\[&\] \{(.*?)\}\);', t)
    if not gm:
        raise ExtractionBreak('micro_queue::push: value_guard = make_raii_guard([&]{...}) not found')
    g = 'static void mq_push_value_guard(struct micro_queue *self, struct queue_rep *base) {' + gm.group(1) + '}'
    g = rw.sub(g, r'\+\+base\.n_invalid_entries;', 'ATOMIC_PREINC(base->n_invalid_entries);', 0, name='atomic ++ (ref-param)')
    g = rw.fields(g, ['tail_counter'], 0)
    g = rw.atomics(g, ['tail_counter'], 0)
    g = common(g, 'guard')
    g = rw.number_sites(g, 'guard', by_kind=True)
    out.append(g)
    t = rw.sub(t, r'void push\( ticket_type k, queue_rep_type& base, queue_allocator_type& allocator, Args&&\.\.\. args \)',
               'static void mq_push(struct micro_queue *self, ticket_type k, struct queue_rep *base, int *allocator, const value_type *args)', 1, 1, name='sig + bind-pack(Args:=const value_type&)')
    t = rw.sub(t, r'(?s)auto value_guard = make_raii_guard\(\[&\] \{.*?\}\);', 'bool value_guard_active = true; /* raii_guard: body = mq_push_value_guard, run at every scope exit while active */', 1, 1, name='raii guard object -> flag (body sliced as mq_push_value_guard)')
    t = rw.sub(t, r'value_guard\.dismiss\(\);', 'value_guard_active = false;', 0, name='guard.dismiss()')
    t = rw.sub(t, r'size_type index = prepare_page\(k, base, page_allocator, p\);', 'size_type index = mq_prepare_page(self, k, base, page_allocator, &p); EXC_PROPAGATE();', 1, 1, name='method + ref-param (may throw: exception edge made explicit)')
    t = rw.sub(t, r'page_allocator_traits::construct\(page_allocator, &\(\*(\w+)\)\[([^\]]*)\], std::forward<Args>\(args\)\.\.\.\);',
               r'STUB_construct_item(padded_page_at(\1, \2), args); if (EXC_PENDING()) { if (value_guard_active) mq_push_value_guard(self, base); return; }', 0, name='callee stub (element constructor; may throw: exception edge runs the guard)')
    # normal scope exit: the guard's destructor
    k_ = t.rstrip().rfind('}')
    t = t[:k_] + '    if (value_guard_active) mq_push_value_guard(self, base); /* ~raii_guard */\n' + t[k_:]
    rw.fired['raii guard destructor at scope exit'] = 1
    t = rw.fields(t, ['tail_counter'], 0)
    t = rw.atomics(t, ['tail_counter', 'mask'], 0)
    t = common(t, 'push')
    t = rw.number_sites(t, 'push', by_kind=True)
    out.append(re.sub(r'^template<typename\.\.\. Args>\s*', '', t))
    # micro_queue::abort_push
    s = slice_block(QB, r'void abort_push\( ticket_type k, queue_rep_type& base, queue_allocator_type& allocator \)', within=MQ)
    sliced.append('%s:%d micro_queue::abort_push' % (QB, s.line))
    t = rw.sub(s.text, r'void abort_push\( ticket_type k, queue_rep_type& base, queue_allocator_type& allocator \)', 'static void mq_abort_push(struct micro_queue *self, ticket_type k, struct queue_rep *base, int *allocator)', 1, 1, name='sig')
    t = rw.sub(t, r'prepare_page\(k, base, allocator, p\);', 'mq_prepare_page(self, k, base, 0, &p); EXC_PROPAGATE();', 0, None, name='method + ref-param (may throw)')
    t = rw.sub(t, r'\+\+base\.n_invalid_entries;', 'ATOMIC_PREINC(base->n_invalid_entries);', 0, name='atomic ++ (ref-param)')
    t = rw.fields(t, ['tail_counter'], 0)
    t = rw.atomics(t, ['tail_counter'], 0)
    t = common(t, 'abort')
    t = rw.number_sites(t, 'abort', by_kind=True)
    out.append(t)
    # micro_queue::assign_and_destroy_item
    s = slice_block(QB, r'void assign_and_destroy_item\( void\* dst, padded_page& src, size_type index \)', within=MQ)
    sliced.append('%s:%d micro_queue::assign_and_destroy_item' % (QB, s.line))
    t = rw.sub(s.text, r'void assign_and_destroy_item\( void\* dst, padded_page& src, size_type index \)', 'static void mq_assign_and_destroy_item(struct micro_queue *self, void *dst, struct padded_page *src, size_type index)', 1, 1, name='sig')
    t = rw.sub(t, r'auto& from = src\[([^\]]*)\];', r'value_type *from = padded_page_at(src, \1);', 1, 1, name='reference local -> pointer; operator[]')
    t = rw.scoped_locks(t, r'destroyer \w+\(([^)]*)\);', 0, None, lock='DESTROYER_CTOR', unlock='DESTROYER_DTOR')
    t = rw.sub(t, r'std::move\(from\)', 'MOVE_FROM(from)', 0, name='std::move of the referenced item')
    t = rw.sub(t, r'static_cast<T\*>', 'static_cast<value_type*>', 0, name='bind-template')
    out.append(common(t, 'assign'))
    # micro_queue_pop_finalizer: constructor + destructor
    fin_members = _declared_order(slice_block(QB, FIN).text, ['my_ticket_type', 'my_queue', 'my_page', 'allocator'])
    s = slice_block(QB, r'micro_queue_pop_finalizer\( Container& queue, Allocator& alloc, ticket_type k, padded_page\* p \)', within=FIN, ctor=True)
    sliced.append('%s:%d micro_queue_pop_finalizer::micro_queue_pop_finalizer' % (QB, s.line))
    hdr, body = _initlist_to_assignments(rw, s.text, fin_members)
    t = rw.sub(hdr, r'micro_queue_pop_finalizer\( Container& queue, Allocator& alloc, ticket_type k, padded_page\* p \)\s*',
               'static void finalizer_ctor(struct finalizer *self, struct micro_queue *queue, int *alloc, ticket_type k, struct padded_page *p) ', 1, 1, name='sig (reference parameters/members -> pointers)') + body
    out.append(common(t, 'finctor'))
    s = slice_block(QB, r'~micro_queue_pop_finalizer\(\)', within=FIN)
    sliced.append('%s:%d micro_queue_pop_finalizer::~micro_queue_pop_finalizer' % (QB, s.line))
    t = rw.sub(s.text, r'~micro_queue_pop_finalizer\(\)', 'static void finalizer_dtor(struct finalizer *self)', 1, 1, name='sig')
    t = rw.fields(t, ['my_ticket_type', 'my_queue', 'my_page', 'allocator'], 1)
    t = rw.sub(t, r'self->my_queue\.', 'self->my_queue->', 1, name='reference member -> pointer')
    t = rw.scoped_locks(t, r'spin_mutex::scoped_lock \w+\(([^)]*)\);', 0, None)
    t = rw.atomics(t, ['head_page', 'tail_page', 'head_counter'], 0)
    t = rw.sub(t, r'allocator_traits_type::destroy\(self->allocator, static_cast<padded_page\*>\(p\)\);', 'STUB_page_destroy(p);', 0, name='callee stub (padded_page destructor: trivial)')
    t = rw.sub(t, r'allocator_traits_type::deallocate\(self->allocator, static_cast<padded_page\*>\(p\), 1\);', 'STUB_page_deallocate(p);', 0, name='callee stub (allocator)')
    t = common(t, 'fin')
    t = rw.number_sites(t, 'fin', by_kind=True)
    out.append(t)
    # micro_queue::pop
    s = slice_block(QB, r'bool pop\( void\* dst, ticket_type k, queue_rep_type& base, queue_allocator_type& allocator \)', within=MQ)
    sliced.append('%s:%d micro_queue::pop' % (QB, s.line))
    t = rw.sub(s.text, r'bool pop\( void\* dst, ticket_type k, queue_rep_type& base, queue_allocator_type& allocator \)', 'static bool mq_pop(struct micro_queue *self, void *dst, ticket_type k, struct queue_rep *base, int *allocator)', 1, 1, name='sig')

    def finfn(m, a):
        if len(a) != 4:
            raise ExtractionBreak('micro_queue::pop: finalizer constructed with %d arguments' % len(a))
        return 'struct finalizer finalizer; finalizer_ctor(&finalizer, %s, &%s, %s, %s)' % (re.sub(r'^\*\s*this$', 'self', a[0]), a[1], a[2], a[3])
    n0 = len(re.findall(r'micro_queue_pop_finalizer<self_type, value_type, page_allocator_type> finalizer\(', t))
    if n0 != 1:
        raise ExtractionBreak('micro_queue::pop: %d finalizer objects' % n0)
    # the destructor call goes where the object leaves its scope: the closing brace of the enclosing block (no return inside it)
    mk = cxx2c.mask(t)
    at = mk.find('micro_queue_pop_finalizer<')
    d, i = 0, at - 1
    while i >= 0:
        if mk[i] == '}':
            d += 1
        elif mk[i] == '{':
            if d == 0:
                break
            d -= 1
        i -= 1
    close = cxx2c.match_close(mk, i)
    if re.search(r'\breturn\b', mk[at:close]):
        raise ExtractionBreak('micro_queue::pop: return inside the finalizer scope')
    t = t[:close] + 'finalizer_dtor(&finalizer); /* ~micro_queue_pop_finalizer at scope exit */\n        ' + t[close:]
    t = rw.call(t, r'micro_queue_pop_finalizer<self_type, value_type, page_allocator_type> finalizer', finfn, 1, 1, name='RAII finalizer object -> constructor call here, destructor call at scope exit')
    t = rw.sub(t, r'spin_wait_until_eq\(head_counter, k\);', 'spin_wait_until_eq(&self->head_counter, k);', 0, name='callee (extracted) + ref-param')
    t = rw.sub(t, r'spin_wait_while_eq\(tail_counter, k\);', 'spin_wait_while_eq(&self->tail_counter, k);', 0, name='callee (extracted) + ref-param')
    t = rw.sub(t, r'assign_and_destroy_item\(dst, \*p, index\);', 'mq_assign_and_destroy_item(self, dst, p, index);', 0, name='method + ref-param')
    t = rw.sub(t, r'--base\.n_invalid_entries;', 'ATOMIC_PREDEC(base->n_invalid_entries);', 0, name='atomic -- (ref-param)')
    t = rw.fields(t, ['head_page'], 1)
    t = rw.atomics(t, ['head_page', 'mask'], 0)
    t = common(t, 'pop')
    t = rw.number_sites(t, 'pop', by_kind=True)
    out.append(t)
    common_write = '\n'.join(out) + '\n'
    common_mod = sys.modules['common']
    common_mod.write(ctx, 'lane.inc', common_write)
    fired['lane'] = rw.fired


# =====================================================================================================================
# concurrent_queue_rep::choose / size / empty, concurrent_queue::internal_push / internal_try_pop / unsafe_size (jobs rep.*)
# =====================================================================================================================
REPC = r'struct concurrent_queue_rep \{'
CQC = r'class concurrent_queue \{'


def extract_rep(ctx, sliced, fired):
    rw = Rewriter('rep')
    out = []
    s = slice_block(QB, r'micro_queue_type& choose\( ticket_type k \)', within=REPC)
    sliced.append('%s:%d concurrent_queue_rep::choose' % (QB, s.line))
    t = rw.sub(s.text, r'micro_queue_type& choose\( ticket_type k \)', 'static struct lane *rep_choose(struct rep *self, ticket_type k)', 1, 1, name='sig (reference result -> pointer)')
    t = rw.sub(t, r'return array\[(.*)\];', r'return &self->array[\1];', 1, 1, name='reference result -> pointer; field')
    t = rw.sub(t, r'(?<![\w.>])index\(', 'rep_index(', 0, name='static method')
    out.append(t)
    for nm, sig, csig in (('empty', r'bool empty\(\) const', 'static bool rep_empty(const struct rep *self)'),
                          ('size', r'std::ptrdiff_t size\(\) const', 'static ptrdiff_t rep_size(const struct rep *self)')):
        s = slice_block(QB, sig, within=REPC)
        sliced.append('%s:%d concurrent_queue_rep::%s' % (QB, s.line, nm))
        t = rw.sub(s.text, sig, csig, 1, 1, name='sig')
        t = rw.fields(t, ['head_counter', 'tail_counter', 'n_invalid_entries'], 1)
        t = rw.atomics(t, ['head_counter', 'tail_counter', 'n_invalid_entries'], 1)
        t = rw.asserts(t, 0)
        t = rw.fcasts(t, ['std::ptrdiff_t'])
        t = rw.std(t)
        t = rw.number_sites(t, 'rep' + nm, by_kind=True)
        out.append(t)
    s = slice_block(CQ, r'size_type unsafe_size\(\) const', within=CQC)
    sliced.append('%s:%d concurrent_queue::unsafe_size' % (CQ, s.line))
    t = rw.sub(s.text, r'size_type unsafe_size\(\) const', 'static size_type cq_unsafe_size(const struct cqueue *self)', 1, 1, name='sig')
    t = rw.sub(t, r'my_queue_representation->size\(\)', 'rep_size(self->my_queue_representation)', 1, 1, name='field + method')
    t = rw.fcasts(t, ['size_type'])
    t = rw.std(t)
    out.append(t)
    s = slice_block(CQ, r'void internal_push\( Args&&\.\.\. args \)', within=CQC)
    sliced.append('%s:%d concurrent_queue::internal_push' % (CQ, s.line))
    t = rw.sub(s.text, r'void internal_push\( Args&&\.\.\. args \)', 'static void cq_internal_push(struct cqueue *self)', 1, 1, name='sig + bind-pack(forwarded only)')
    t = rw.sub(t, r'(?<![\w>*])my_queue_representation->', 'self->my_queue_representation->', 1, name='field')
    t = rw.atomics(t, ['tail_counter'], 0)
    t = rw.sub(t, r'self->my_queue_representation->choose\(([^()]*)\)\.push\(([^,()]*), \*my_queue_representation, my_allocator, std::forward<Args>\(args\)\.\.\.\);',
               r'STUB_lane_push_on(rep_choose(self->my_queue_representation, \1), \2);', 0, name='callee stub (micro_queue::push, proved in lane.push) on the lane chosen by choose()')
    t = rw.std(t)
    t = rw.number_sites(t, 'cqpush', by_kind=True)
    out.append(t)
    s = slice_block(CQ, r'bool internal_try_pop\( void\* dst \)', within=CQC)
    sliced.append('%s:%d concurrent_queue::internal_try_pop' % (CQ, s.line))
    t = rw.sub(s.text, r'bool internal_try_pop\( void\* dst \)', 'static bool cq_internal_try_pop(struct cqueue *self, void *dst)', 1, 1, name='sig')
    t = rw.sub(t, r'internal_try_pop_impl\(dst, \*my_queue_representation, my_allocator\)', 'STUB_try_pop_impl(self->my_queue_representation)', 1, 1, name='callee under its proved contract (claim.try_pop)')
    out.append(t)
    common.write(ctx, 'rep.inc', '\n'.join(out) + '\n')
    fired['rep'] = rw.fired
