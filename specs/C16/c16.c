/* C16 harnesses (sliced from src/tbb: thread_request_serializer.cpp/.h, task_dispatcher.h, arena.cpp/.h, arena_slot.h, market.cpp, pm_client.h, permit_manager.h, misc.h; include: _utils.h, task_arena.h) */
#include "verif.h"
#include <stdlib.h>

#ifdef LD
#include "limit_delta.inc"
int IN_delta, IN_limit, IN_new;
void h_limit_delta(void) {
    int delta = IN_delta = nondet_int(), limit = IN_limit = nondet_int(), nv = IN_new = nondet_int();
    __CPROVER_assume(delta > -(1 << 30) && delta < (1 << 30) && nv > -(1 << 30) && nv < (1 << 30) && limit > -(1 << 30) && limit < (1 << 30));
    int r = limit_delta(delta, limit, nv);
    long prev = (long)nv - delta, gn = nv < limit ? nv : limit, gp = prev < limit ? prev : limit;
    OBLIGATION((long)r == gn - gp, "C16.budget: limit_delta is the change in GRANTED workers: min(limit,new) - min(limit,new-delta)");
    OBLIGATION(!(nv >= limit && prev >= limit) || r == 0, "C16.budget: no change is passed on while the request stays above the limit");
    OBLIGATION(!(nv <= limit && prev <= limit) || r == delta, "C16.budget: below the limit the delta passes unchanged");
    VACUITY_END();
}
#endif

#ifdef CRIT
typedef size_t isolation_type;
typedef struct task { void *context; isolation_type isolation; } task;
typedef struct execution_data_ext { void *context; isolation_type isolation; } execution_data_ext;
struct task_dispatcher { struct { bool critical_task_allowed; } m_properties; };
task *g_crit; int g_spawns; task *g_spawned; void *g_spawn_ctx; isolation_type g_spawn_iso; int g_notified;
static task *STUB_arena_get_critical_task(isolation_type iso) { return g_crit; }
/* r1::spawn stamps the task with the isolation the dispatcher is running under at that moment */
static void STUB_spawn(task *t, void *ctx, execution_data_ext *ed) { g_spawns++; g_spawned = t; g_spawn_ctx = ctx; g_spawn_iso = ed->isolation; }
static void STUB_notify_entry_observers(void) { g_notified++; }
#include "critical.inc"
void h_critical(void) {
    struct task_dispatcher d; execution_data_ext ed; task crit, held; bool allowed = nondet_bool();
    d.m_properties.critical_task_allowed = allowed;                       /* in-code precondition: critical_allowed || !m_properties.critical_task_allowed */
    ed.context = nondet_ptr(); ed.isolation = nondet_size_t();
    crit.context = nondet_ptr(); crit.isolation = nondet_size_t(); held.context = ed.context; held.isolation = ed.isolation;   /* a task taken just before runs under its own context/isolation */
    g_crit = nondet_bool() ? &crit : NULL; task *t = nondet_bool() ? &held : NULL;
    bool critical_allowed = nondet_bool(); __CPROVER_assume(critical_allowed || !allowed);
    void *ctx0 = ed.context; isolation_type iso0 = ed.isolation; isolation_type waiter_iso = nondet_size_t();
    g_spawns = g_notified = 0;
    task *r = get_critical_task(&d, t, &ed, waiter_iso, critical_allowed);
    if (!critical_allowed) OBLIGATION(r == t && g_spawns == 0 && ed.context == ctx0 && ed.isolation == iso0, "C16.critical: while a critical task runs on this stack nothing is taken and nothing changes");
    else if (g_crit == NULL) OBLIGATION(r == t && g_spawns == 0 && ed.context == ctx0 && ed.isolation == iso0 && d.m_properties.critical_task_allowed, "C16.critical: no critical work: the task in hand is kept untouched");
    else {
        OBLIGATION(r == &crit && ed.context == crit.context && ed.isolation == crit.isolation && !d.m_properties.critical_task_allowed, "C16.critical: the critical task is run under its own context and isolation");
        if (t != NULL) {
            OBLIGATION(g_spawns == 1 && g_spawned == t && g_spawn_ctx == ctx0, "C16.critical: the task in hand is re-spawned exactly once, in its own context");
            OBLIGATION(g_spawn_iso == iso0, "C16.isolation: the displaced task is re-spawned under ITS OWN isolation tag, not the critical task's (an isolated waiter must never be able to pick it up)");
        } else OBLIGATION(g_spawns == 0, "C16.critical: nothing to re-spawn");
    }
    VACUITY_END();
}
#endif

#ifdef SLOTS
#define out_of_arena (~(size_t)0)
struct slot { bool my_is_occupied; };
struct thread_data { size_t my_arena_index; };
struct arena { struct slot *my_slots; unsigned my_num_slots, my_num_reserved_slots; unsigned my_limit; };
static size_t STUB_random_get(void) { return nondet_size_t(); }
/* rely: any other thread may occupy or release any slot at any time; guarantee: a slot is returned only after THIS caller's exchange flipped false->true */
unsigned long g_claims; struct slot *g_claimed; unsigned g_limit_seen;
#define ATOMIC_LOAD_AT(site, f) ({ (f) = nondet_bool(); (f); })
#define ATOMIC_XCHG_AT(site, f, v) ({ (f) = nondet_bool(); bool old_ = (f); (f) = (v); if (!old_) { g_claims++; g_claimed = self; } old_; })
#define ATOMIC_UPDATE_MAX(f, v) do { unsigned grow_ = nondet_unsigned(); if (grow_ >= (f)) (f) = grow_; /* others only raise my_limit */ if ((f) < (v)) (f) = (v); } while (0)
#define LOOP_ofs_1 __CPROVER_assigns(i, g_claims, g_claimed, __CPROVER_object_whole(self->my_slots)) __CPROVER_loop_invariant(i >= index && i <= upper && g_claims == 0) __CPROVER_decreases(upper - i)
#define LOOP_ofs_2 __CPROVER_assigns(i, g_claims, g_claimed, __CPROVER_object_whole(self->my_slots)) __CPROVER_loop_invariant(i >= lower && i <= index && g_claims == 0) __CPROVER_decreases(index - i)
#include "slots.inc"
static void mk_arena(struct arena *a) {
    a->my_num_slots = nondet_unsigned(); a->my_num_reserved_slots = nondet_unsigned(); a->my_limit = nondet_unsigned();
    __CPROVER_assume(a->my_num_slots >= 1 && a->my_num_slots <= (1u << 12) && a->my_num_reserved_slots <= a->my_num_slots && a->my_limit <= a->my_num_slots);
    a->my_slots = malloc(a->my_num_slots * sizeof(struct slot)); __CPROVER_assume(a->my_slots != NULL);
    g_claims = 0; g_claimed = NULL;
}
void h_try_occupy(void) {
    struct slot s; s.my_is_occupied = nondet_bool(); g_claims = 0; g_claimed = NULL;
    bool ok = slot_try_occupy(&s);
    OBLIGATION(ok == (g_claims == 1), "C16.slot: try_occupy returns true iff this caller's own exchange flipped the flag false->true (unique occupant among any number of callers)");
    OBLIGATION(!ok || s.my_is_occupied, "C16.slot: an occupied slot is marked occupied");
    VACUITY_END();
}
size_t IN_lower, IN_upper, IN_hint;
void h_in_range(void) {
    struct arena a; mk_arena(&a); struct thread_data tls; tls.my_arena_index = IN_hint = nondet_size_t();
    size_t lower = IN_lower = nondet_size_t(), upper = IN_upper = nondet_size_t(); __CPROVER_assume(upper <= a.my_num_slots);
    size_t r = arena_occupy_free_slot_in_range(&a, &tls, lower, upper);
    OBLIGATION(r == out_of_arena || (r >= lower && r < upper), "C16.slot: the returned index is out_of_arena or lies in [lower, upper)");
    OBLIGATION(r == out_of_arena ? g_claims == 0 : (g_claims == 1 && g_claimed == &a.my_slots[r]), "C16.slot: exactly the returned slot was claimed by this caller, and no other slot is left claimed");
    VACUITY_END();
}
void h_occupy(void) {
    struct arena a; mk_arena(&a); struct thread_data tls; tls.my_arena_index = IN_hint = nondet_size_t();
    bool as_worker = nondet_bool(); unsigned limit0 = a.my_limit;
    size_t r = arena_occupy_free_slot(&a, &tls, as_worker);
    OBLIGATION(r == out_of_arena || r < a.my_num_slots, "C16.slot: a slot index is inside the arena");
    OBLIGATION(!(as_worker && r != out_of_arena) || r >= a.my_num_reserved_slots, "C16.slot: a worker never gets a reserved slot");
    OBLIGATION(r == out_of_arena ? g_claims == 0 : (g_claims == 1 && g_claimed == &a.my_slots[r]), "C16.slot: exactly the returned slot was claimed");
    OBLIGATION(a.my_limit >= limit0 && (r == out_of_arena || a.my_limit >= r + 1), "C16.slot: my_limit only grows and covers the occupied slot");
    VACUITY_END();
}
#endif

#if defined(ALLOT) || defined(ALLOT_REAL) || defined(ALLOT_LEMMA)
/* Step contract SL of the proportional split (mathematical integers; d = level demand, app = workers assigned to the level, mw = the client's request,
   S = requests of the clients served before, A = workers given to them, c = carry).  With I(A,c,S): A*d + c == app*S,
     SL_PRE and I(A,c,S), tmp = mw*app + c, q = tmp/d, r = tmp%d   imply   SL_POST_Q(q), SL_POST_R(r) and I(A+q, r, S+mw).
   Proof: q*d + r = mw*app + c, 0 <= r < d.  (A+q)*d + r = A*d + c + mw*app = app*(S+mw)  [I'].  q*d <= mw*app + c < mw*d + d so q <= mw.
   (A+q)*d <= app*(S+mw) <= app*d so A+q <= app.  If S+mw == d: (app-(A+q))*d == r < d so A+q == app and r == 0.  If app == d: A*d + c == d*S so c == 0 (c < d), q = mw, r = 0. */
#define SL_PRE(d, app, mw, S, A, c) ((d) > 0 && 0 <= (app) && (app) <= (d) && (mw) >= 1 && (S) >= 0 && (S) + (mw) <= (d) && (A) >= 0 && 0 <= (c) && (c) < (d))
#define SL_POST_Q(d, app, mw, S, A, c, q) (0 <= (q) && (q) <= (mw) && (A) + (q) <= (app) && ((S) + (mw) != (d) || (A) + (q) == (app)) && ((app) != (d) || (q) == (mw)))
#define SL_POST_R(d, app, mw, S, A, c, r) (0 <= (r) && (r) < (d) && ((S) + (mw) != (d) || (r) == 0) && ((app) != (d) || (r) == 0))

#endif

#ifdef ALLOT_LEMMA
/* SL checked with the real C operators * / % on int, for all operands below LEMMA_LIM (width-bounded: SAT cannot decide it for 32-bit operands) */
#ifndef LEMMA_LIM
#define LEMMA_LIM 64
#endif
int IN_d, IN_app, IN_mw, IN_S, IN_A, IN_c;
void h_allot_lemma(void) {
    int d = IN_d = nondet_int(), app = IN_app = nondet_int(), mw = IN_mw = nondet_int(), S = IN_S = nondet_int(), A = IN_A = nondet_int(), c = IN_c = nondet_int();
    __CPROVER_assume(0 <= d && d < LEMMA_LIM && 0 <= app && app < LEMMA_LIM && 0 <= mw && mw < LEMMA_LIM && 0 <= S && S < LEMMA_LIM && 0 <= A && A < LEMMA_LIM && 0 <= c && c < LEMMA_LIM);
    __CPROVER_assume(SL_PRE(d, app, mw, S, A, c) && A * d + c == app * S);
    int tmp = mw * app + c;
    int q = tmp / d;
    int r = tmp % d;
    OBLIGATION(SL_POST_Q(d, app, mw, S, A, c, q), "C16.allot.lemma: the quotient is between 0 and the request, the level's running total stays within the level's share and meets it exactly with the last client (bounded)");
    OBLIGATION(SL_POST_R(d, app, mw, S, A, c, r), "C16.allot.lemma: the carry is a remainder below the level demand and vanishes with the last client (bounded)");
    OBLIGATION((A + q) * d + r == app * (S + mw), "C16.allot.lemma: the split invariant A*d + c == share*S is preserved (bounded)");
    OBLIGATION(mw * app >= 0 && (app != 0 || mw * app == 0), "C16.allot.lemma: sign rule assumed for the abstract product (bounded)");
    VACUITY_END();
}
#endif

#if defined(ALLOT) || defined(ALLOT_REAL)
/* market::update_allotment (+ pm_client accessors, tbb_permit_manager_client::set_allotment, arena::set_allotment/set_top_priority, min<int>).
   Both loops are under contract: the level loop and, for each level, the loop over a client list of ANY length.  The list of level l is an array of client
   objects (entry i is THE i-th client; clients are pairwise distinct by representation).  Obligations are stated for ONE arbitrary client k (ghost level/position);
   the arena of k is a separate object, the arenas of all other clients are collapsed into one summary object (the sliced code writes arenas only; the one read in
   arena::set_allotment decides whether the same value is stored again).  G.S is the sum of max_workers of the clients of the current level visited so far;
   the market invariants `level demand == sum of the level's requests` and `total demand == sum of the level demands` enter where a client is read: the
   running sum never exceeds the level's demand and reaches it exactly with the last client of the list.
   ALLOT:      the three non-linear operations (max_workers*assigned_per_priority, tmp/demand, tmp%demand) are replaced by their step contract SL (below),
               whose conclusions are assumed only when the call has the shape and the linear preconditions the contract needs; everything else (the
               bookkeeping of unassigned/assigned_per_priority/assigned/carry/max_priority_level, the soft-limit-0 branch) is proved for all int values.
   ALLOT_REAL: the same text with the real operators and the non-linear invariant written out, on a width-bounded domain (BD).
   SL is itself checked with the real C operators on a width-bounded domain (job allot.lemma). */
#ifdef ALLOT_REAL
#define OBL(c, m) OBLIGATION(c, m " (bounded)")
#else
#define OBL(c, m) OBLIGATION(c, m)
#endif
#define NPL 3
#define NMAX ((size_t)1 << 12)
#ifndef VALMAX
#define VALMAX (1 << 28)      /* demands and limits up to 2^28 (no int overflow in sums of three level demands) */
#endif
struct arena_a { unsigned my_num_workers_allotted; bool my_is_top_priority; };
struct pmclient { int my_min_workers, my_max_workers; };
struct clist { struct pmclient *v; size_t n; };
struct market { int my_num_workers_soft_limit, my_total_demand, my_priority_level_demand[NPL], my_mandatory_num_requested; struct clist my_clients[NPL]; };
#define ATOMIC_LOAD(x) (x)
#define ATOMIC_STORE(x, v) ((x) = (v))
/* constant during the call */
static struct market *g_mk; static long g_budget, g_exp[NPL];
static bool g_has_k, g_has_w; static unsigned g_kl, g_wl; static size_t g_ki, g_wi; static struct pmclient *g_kv, *g_wv; static unsigned g_allot0; static bool g_top0;
/* changed by the call (one object, so that the loops' assigns clauses stay short) */
static struct { unsigned l; int cur_mw; long S, S0, app, A, c, rem, granted, lev[NPL]; bool I; int calls_k;
                int mul_a, mul_b, mul_p, div_t; bool div_ok; long div_A0; struct arena_a karena, others; } G;
#define FIRSTNZ(m) ((m)->my_priority_level_demand[0] > 0 ? 0u : (m)->my_priority_level_demand[1] > 0 ? 1u : (m)->my_priority_level_demand[2] > 0 ? 2u : 3u)
#define DEM(j) (self->my_priority_level_demand[j])
#define GDEM(j) (g_mk->my_priority_level_demand[j])
/* pm_client::my_arena is a reference to the arena the client was created for (one arena per client) */
#define PMC_ARENA(c) ((c) == g_kv ? &G.karena : &G.others)
static void tpmc_set_allotment(struct pmclient *self, unsigned allotment);
/* the int -> unsigned conversion of the real call happens at this parameter, exactly as at tbb_permit_manager_client::set_allotment(unsigned) */
static void allot_set(struct pmclient *c, unsigned allotment) {
    OBL(allotment <= (unsigned)c->my_max_workers, "C16.allot.request: no arena is granted more workers than it requested (and never a negative number)");
    if (g_mk->my_num_workers_soft_limit != 0) {
        OBL(G.lev[G.l] + (long)allotment <= G.app, "C16.allot.levels: the arenas of a priority level never get more than the level was assigned");
#ifdef ALLOT
        OBL(G.I, "C16.allot.split: grant and carry are quotient and remainder of (request * level share + previous carry) / level demand, so that no worker of the level's share is lost or invented");
#endif
        G.lev[G.l] += allotment;
    } else {
        OBL(G.granted + (long)allotment <= 1, "C16.allot.mandatory: with a soft limit of 0 at most one worker is granted in total");
        OBL(allotment == 0 || (c->my_min_workers > 0 && g_mk->my_mandatory_num_requested > 0), "C16.allot.mandatory: with a soft limit of 0 only an arena with a mandatory request gets the worker");
    }
    G.granted += allotment; if (c == g_kv) G.calls_k++;
    tpmc_set_allotment(c, allotment);
    OBL(PMC_ARENA(c)->my_num_workers_allotted == allotment, "C16.allot.store: the arena's allotment is the value just decided for it");
}
#define CLIENT_SET_ALLOTMENT(c, x) allot_set((c), (x))
static void pm_client_set_top_priority(struct pmclient *self, bool b);
static void allot_top(struct pmclient *c, bool b) {
    OBL(c->my_max_workers == 0 || b == (G.l == FIRSTNZ(g_mk)), "C16.allot.top: an arena with a request is flagged top-priority iff no higher priority level holds demand");
    pm_client_set_top_priority(c, b);
}
#define CLIENT_SET_TOP(c, b) allot_top((c), (b))
static size_t allot_rbegin(struct clist *list, unsigned l, int app, int unassigned) {
    __CPROVER_assert(l < NPL && list == &g_mk->my_clients[l], "C16.allot: the list iterated is the client list of the current level");
    if (g_mk->my_num_workers_soft_limit != 0) {      /* with a soft limit of 0 the level budget plays no role in what is granted */
        OBL((long)app == (GDEM(l) < G.rem ? GDEM(l) : G.rem), "C16.allot.levels: a priority level is assigned min(its demand, what the higher-priority levels left)");
        G.rem -= app;
        OBL((long)unassigned == G.rem, "C16.allot.levels: the unassigned budget decreases by exactly what the level was given");
        OBL(unassigned >= 0, "C16.allot.levels: the unassigned budget never goes negative");
    }
    __CPROVER_assume(list->n != 0 || GDEM(l) == 0);                      /* market invariant: a level's demand is the sum of its clients' requests (empty list) */
    G.l = l; G.S = 0; G.app = app; G.A = 0; G.c = 0; G.I = true /* I(0,0,0): 0*d + 0 == app*0 */; return 0;
}
#define CLIST_RBEGIN(list) allot_rbegin(&(list), list_idx, assigned_per_priority, unassigned_workers)
#define CLIST_REND(list) ((list).n)
static struct pmclient *allot_deref(size_t it) {
    struct clist *list = &g_mk->my_clients[G.l];
    __CPROVER_assert(it < list->n, "C16.allot: the iterator is dereferenced inside the client list");
    struct pmclient *c = &list->v[list->n - 1 - it];                       /* reverse iterator: last registered client first */
    __CPROVER_assume(c->my_max_workers >= 0 && c->my_min_workers >= 0);   /* pm_client::set_workers */
    /* market invariant: a level's demand is the sum of its clients' requests: the running sum G.S reaches the demand exactly with the last client */
    __CPROVER_assume(it + 1 == list->n ? G.S + c->my_max_workers == (long)GDEM(G.l) : G.S + c->my_max_workers <= (long)GDEM(G.l));
    G.S0 = G.S; G.S += c->my_max_workers; G.cur_mw = c->my_max_workers;
    return c;
}
#define CLIST_DEREF(it) allot_deref(it)

#ifdef ALLOT
/* listed assumption: max_workers*assigned_per_priority + carry does not overflow int */
static int allot_mul(int a, int b) {
    int p = nondet_int();
    __CPROVER_assume(!(a >= 0 && b >= 0) || (p >= 0 && p <= INT_MAX / 2)); __CPROVER_assume(!(a == 0 || b == 0) || p == 0);
    G.mul_a = a; G.mul_b = b; G.mul_p = p; return p;
}
static int allot_div(int t, int d) {
    __CPROVER_assert(d != 0, "C16.allot: no division by zero (a client with a request implies demand on its level)");
    int q = nondet_int();
    __CPROVER_assume(!(d > 0 && t >= 0) || (q >= 0 && q <= t));
    long S = G.S0;
    G.div_ok = G.I && d == GDEM(G.l) && SL_PRE((long)d, G.app, (long)G.cur_mw, S, G.A, G.c)
            && G.mul_a == G.cur_mw && (long)G.mul_b == G.app && (long)t == (long)G.mul_p + G.c;       /* the call is an instance of SL: t == mw*app + c */
    if (G.div_ok) { __CPROVER_assume(SL_POST_Q((long)d, G.app, (long)G.cur_mw, S, G.A, G.c, (long)q)); G.div_t = t; G.div_A0 = G.A; G.A += q; }
    G.I = false;                /* I(A+q, r, S+mw) is re-established only by the matching remainder */
    return q;
}
static int allot_mod(int t, int d) {
    __CPROVER_assert(d != 0, "C16.allot: no division by zero (a client with a request implies demand on its level)");
    int r = nondet_int();
    __CPROVER_assume(!(d > 0 && t >= 0) || (r >= 0 && r < d));
    long S = G.S0;
    if (!G.I && G.div_ok && t == G.div_t && d == GDEM(G.l)) { __CPROVER_assume(SL_POST_R((long)d, G.app, (long)G.cur_mw, S, G.div_A0, G.c, (long)r)); G.c = r; G.div_ok = false; G.I = true; }
    else G.I = false;
    return r;
}
#define ALLOT_MUL(a, b) allot_mul((a), (b))
#define ALLOT_DIV(a, b) allot_div((a), (b))
#define ALLOT_MOD(a, b) allot_mod((a), (b))
#define INV_I G.I
#else
/* the real operators; the ghosts only mirror what the code computed */
#define ALLOT_MUL(a, b) ((a) * (b))
#define ALLOT_DIV(a, b) ({ int q_ = (a) / (b); G.A += q_; q_; })
#define ALLOT_MOD(a, b) ({ int r_ = (a) % (b); G.c = r_; r_; })
#define INV_I ((int)G.A * DEM(list_idx) + (int)G.c == (int)G.app * (int)G.S)
#endif

#define PROP (self->my_num_workers_soft_limit != 0)
/* soft limit 0: unassigned_workers is computed but never used for a grant; only its freedom from overflow is needed */
#define LOOSE(u) (-(long)list_idx * VALMAX <= (long)(u) && (long)(u) <= (long)VALMAX)
#define KALLOT (G.karena.my_num_workers_allotted)
/* what is known about the ghost client k once it has been visited; `full`: its level was assigned its whole demand */
#define KFACTS(asg, mxw, full) ((unsigned)KALLOT <= (unsigned)g_kv->my_max_workers && (g_kv->my_max_workers != 0 || KALLOT == 0) \
     && (!(g_mk->my_num_workers_soft_limit != 0 && (full)) || KALLOT == (unsigned)g_kv->my_max_workers) \
     && (g_kv->my_max_workers == 0 || G.karena.my_is_top_priority == (g_kl == FIRSTNZ(g_mk))) \
     && (g_mk->my_num_workers_soft_limit != 0 || ((KALLOT != 1 || g_kv->my_min_workers > 0) && KALLOT <= 1 \
            && (!(KALLOT == 0 && g_kv->my_min_workers > 0 && g_kv->my_max_workers > 0) || (long)(asg) >= (long)(mxw)))))
#define KUNTOUCHED (KALLOT == g_allot0 && KALLOT == g_allot0 && G.karena.my_is_top_priority == g_top0)
#define LEVFULL(j) (G.lev[j] == (long)GDEM(j))
/* head of the level loop: levels [0, list_idx) are done */
#define LOOP_ua_1 __CPROVER_assigns(list_idx, unassigned_workers, assigned, carry, max_priority_level, G) \
  __CPROVER_loop_invariant(list_idx <= num_priority_levels && self == g_mk && (long)assigned == G.granted \
     && (list_idx > 0 || G.lev[0] == 0) && (list_idx > 1 || G.lev[1] == 0) && (list_idx > 2 || G.lev[2] == 0) \
     && (!PROP || ((long)unassigned_workers == G.rem && unassigned_workers >= 0 && (long)assigned == (long)max_workers - unassigned_workers && carry == 0 \
                   && (list_idx < 1 || G.lev[0] == g_exp[0]) && (list_idx < 2 || G.lev[1] == g_exp[1]) && (list_idx < 3 || G.lev[2] == g_exp[2]) \
                   && G.rem == g_budget - (list_idx > 0 ? g_exp[0] : 0) - (list_idx > 1 ? g_exp[1] : 0) - (list_idx > 2 ? g_exp[2] : 0))) \
     && (PROP || (0 <= assigned && assigned <= max_workers && max_workers <= 1 && G.lev[0] == 0 && G.lev[1] == 0 && G.lev[2] == 0 && LOOSE(unassigned_workers) \
                   && (!(g_has_w && g_wl < list_idx && g_wv->my_min_workers > 0 && g_wv->my_max_workers > 0) || assigned >= max_workers))) \
     && (max_priority_level == num_priority_levels ? FIRSTNZ(self) >= list_idx : (max_priority_level == FIRSTNZ(self) && max_priority_level < list_idx)) \
     && (!g_has_k || (g_kl < list_idx ? KFACTS(assigned, max_workers, LEVFULL(g_kl)) : KUNTOUCHED)) \
     && G.calls_k == ((g_has_k && g_kl < list_idx) ? 1 : 0)) \
  __CPROVER_decreases(num_priority_levels - list_idx)
/* head of the client loop of level list_idx: the first `it` clients (in visiting order) are done */
#define VISITED(has, kl, ki) ((has) && ((kl) < list_idx || ((kl) == list_idx && (ki) < it)))
#define LOOP_ua_2 __CPROVER_assigns(it, assigned, carry, max_priority_level, G) \
  __CPROVER_loop_invariant(it <= self->my_clients[list_idx].n && list_idx < num_priority_levels && G.l == list_idx && G.app == (long)assigned_per_priority && self == g_mk \
     && (long)assigned == G.granted && 0 <= G.S && G.S <= (long)DEM(list_idx) && (it != self->my_clients[list_idx].n || G.S == (long)DEM(list_idx)) \
     && (list_idx >= 1 || G.lev[1] == 0) && (list_idx >= 2 || G.lev[2] == 0) \
     && (!PROP || ((long)unassigned_workers == G.rem && (long)assigned - ((long)max_workers - unassigned_workers - assigned_per_priority) == G.A && (long)carry == G.c && 0 <= G.A && G.A <= G.app && 0 <= G.c \
                   && (DEM(list_idx) > 0 ? G.c < (long)DEM(list_idx) : G.c == 0) && (G.S != (long)DEM(list_idx) || (G.A == G.app && G.c == 0)) && G.lev[list_idx] == G.A \
                   && (list_idx < 1 || G.lev[0] == g_exp[0]) && (list_idx < 2 || G.lev[1] == g_exp[1]) && INV_I)) \
     && (PROP || (0 <= assigned && assigned <= max_workers && max_workers <= 1 && G.lev[0] == 0 && G.lev[1] == 0 && G.lev[2] == 0 \
                   && (!(VISITED(g_has_w, g_wl, g_wi) && g_wv->my_min_workers > 0 && g_wv->my_max_workers > 0) || assigned >= max_workers))) \
     && (max_priority_level == num_priority_levels ? (FIRSTNZ(self) >= list_idx && G.S == 0) : (max_priority_level == FIRSTNZ(self) && max_priority_level <= list_idx)) \
     && (!g_has_k || (VISITED(g_has_k, g_kl, g_ki) ? KFACTS(assigned, max_workers, (g_kl == list_idx ? G.app == (long)DEM(list_idx) : LEVFULL(g_kl))) : KUNTOUCHED)) \
     && G.calls_k == (VISITED(g_has_k, g_kl, g_ki) ? 1 : 0)) \
  __CPROVER_decreases(self->my_clients[list_idx].n - it)
#include "allot_callees.inc"
#include "allot.inc"

int IN_soft, IN_mand, IN_d0, IN_d1, IN_d2; size_t IN_n0, IN_n1, IN_n2;
static struct market M;
static void mk_level(unsigned l, size_t *in_n, int *in_d) {
    size_t n = *in_n = nondet_size_t(); __CPROVER_assume(n <= NMAX);
    M.my_clients[l].n = n; M.my_clients[l].v = malloc((n + 1) * sizeof(struct pmclient)); __CPROVER_assume(M.my_clients[l].v != NULL);
    int d = *in_d = nondet_int(); __CPROVER_assume(0 <= d && d <= VALMAX); M.my_priority_level_demand[l] = d;
    G.lev[l] = 0;
}
static struct pmclient *pick(bool *has, unsigned *kl, size_t *ki) {
    *has = nondet_bool(); *kl = nondet_unsigned(); *ki = nondet_size_t(); __CPROVER_assume(*kl < NPL);
    if (!*has) return NULL;
    __CPROVER_assume(*ki < M.my_clients[*kl].n);
    struct pmclient *c = &M.my_clients[*kl].v[M.my_clients[*kl].n - 1 - *ki];
    __CPROVER_assume(c->my_max_workers >= 0 && c->my_min_workers >= 0 && c->my_max_workers <= M.my_priority_level_demand[*kl]);
    return c;
}
void h_allot(void) {
    g_mk = &M; mk_level(0, &IN_n0, &IN_d0); mk_level(1, &IN_n1, &IN_d1); mk_level(2, &IN_n2, &IN_d2);
    M.my_total_demand = M.my_priority_level_demand[0] + M.my_priority_level_demand[1] + M.my_priority_level_demand[2];   /* market invariant */
    M.my_num_workers_soft_limit = IN_soft = nondet_int(); __CPROVER_assume(0 <= IN_soft && IN_soft <= VALMAX);
#ifdef SOFT0
    __CPROVER_assume(IN_soft == 0);      /* case split of the job family: soft limit 0 (mandatory-concurrency branch) / soft limit > 0 (proportional branch) */
#else
    __CPROVER_assume(IN_soft != 0);
#endif
    M.my_mandatory_num_requested = IN_mand = nondet_int();
    g_kv = pick(&g_has_k, &g_kl, &g_ki); g_wv = pick(&g_has_w, &g_wl, &g_wi);
    G.karena.my_num_workers_allotted = g_allot0 = nondet_unsigned(); G.karena.my_is_top_priority = g_top0 = nondet_bool();
    G.others.my_num_workers_allotted = nondet_unsigned(); G.others.my_is_top_priority = nondet_bool();
    G.granted = 0; G.calls_k = 0;
    { int e_ = (M.my_mandatory_num_requested > 0 && M.my_num_workers_soft_limit == 0) ? 1 : M.my_num_workers_soft_limit; g_budget = G.rem = M.my_total_demand < e_ ? M.my_total_demand : e_;
      long r_ = g_budget;                                                /* the level shares the property prescribes */
      g_exp[0] = M.my_priority_level_demand[0] < r_ ? M.my_priority_level_demand[0] : r_; r_ -= g_exp[0];
      g_exp[1] = M.my_priority_level_demand[1] < r_ ? M.my_priority_level_demand[1] : r_; r_ -= g_exp[1];
      g_exp[2] = M.my_priority_level_demand[2] < r_ ? M.my_priority_level_demand[2] : r_; r_ -= g_exp[2]; }
    /* soft limit 0: a mandatory request registered with the market belongs to a client that also has a non-zero request (witness w); needed only by the
       in-code assertion `assigned == max_workers` and by the exact-sum obligation in that mode */
    if (M.my_num_workers_soft_limit == 0 && M.my_mandatory_num_requested > 0) __CPROVER_assume(g_has_w && g_wv->my_min_workers > 0 && g_wv->my_max_workers > 0);
    int soft = M.my_num_workers_soft_limit, total = M.my_total_demand;
    market_update_allotment(&M);
    int eff = (M.my_mandatory_num_requested > 0 && soft == 0) ? 1 : soft; long budget = total < eff ? total : eff;
    OBLIGATION(G.granted == budget, "C16.allot.sum: the workers granted over all arenas sum to min(total demand, effective limit)");
    OBLIGATION(G.granted <= (long)eff, "C16.allot.limit: the workers granted never exceed the limit in force (soft limit, or 1 mandatory worker when the limit is 0)");
    if (soft == 0) OBLIGATION(G.granted <= 1 && (G.granted == 0 || M.my_mandatory_num_requested > 0), "C16.allot.mandatory: with a soft limit of 0 at most one worker is granted in total, and only while a mandatory request exists");
    if (soft != 0) OBLIGATION(G.lev[0] == g_exp[0] && G.lev[1] == g_exp[1] && G.lev[2] == g_exp[2], "C16.allot.levels: the arenas of each priority level are granted, in total, min(the level's demand, what the higher levels left)");
    if (g_has_k) {
        unsigned al = G.karena.my_num_workers_allotted; int mw = g_kv->my_max_workers;
        OBLIGATION(G.calls_k == 1, "C16.allot.once: every registered client gets exactly one allotment decision per recalculation");
        OBLIGATION(al <= (unsigned)mw, "C16.allot.request: no arena is granted more workers than it requested (and never a negative number)");
        if (soft != 0) {
            long lower = (g_kl == 0 ? G.lev[1] + G.lev[2] : g_kl == 1 ? G.lev[2] : 0);
            OBLIGATION(lower == 0 || al == (unsigned)mw, "C16.allot.priority: a lower priority level is granted a worker only when every arena of the higher levels got its full request");
        } else {
            OBLIGATION(al == 0 || g_kv->my_min_workers > 0, "C16.allot.mandatory: with a soft limit of 0 only an arena with a mandatory request gets the worker");
        }
        if (mw > 0) OBLIGATION(G.karena.my_is_top_priority == (g_kl == FIRSTNZ(&M)), "C16.allot.top: an arena with a request is flagged top-priority iff no higher level holds demand");
    }
    VACUITY_END();
}
#endif

#ifdef REQ
/* arena::update_request (+ clamp<int>, is_arena_workerless, priority_level), pm_client::update_request/set_workers/priority_level, market::adjust_demand,
   market::set_active_num_workers, permit_manager::notify_thread_request: the request an arena registers with the market is its outstanding total clamped into
   [0, max_num_workers] (one mandatory worker for a workerless arena), and the market's demand counters stay the sums of the clients' requests - the precondition
   under which update_allotment is proved (jobs allot.*).  The other clients of the market enter through g_rest[l], the sum of their requests per level. */
#define NPL 3
#define RMAX (1 << 28)
struct int_pair { int first, second; };
struct arena_r { int my_mandatory_requests, my_total_num_workers_requested; unsigned my_max_num_workers, my_priority_level; };
struct pmclient { struct arena_r arena; int my_min_workers, my_max_workers; };
#define PMC_ARENA(c) (&(c)->arena)            /* pm_client::my_arena: the arena the client was created for */
struct market { int my_mutex; void *my_thread_request_observer; int my_num_workers_soft_limit, my_total_demand, my_priority_level_demand[NPL], my_mandatory_num_requested; };
static int g_locked, g_lock_calls, g_allot_calls, g_notes, g_note_delta, g_soft_at_allot; static long g_rest[NPL]; static struct pmclient *g_c;
#define LOCK_MUTEX(m) do { __CPROVER_assert(!g_locked, "C16.request: the market mutex is not taken twice"); g_locked = 1; g_lock_calls++; } while (0)
#define UNLOCK_MUTEX(m) do { __CPROVER_assert(g_locked, "C16.request: unlock of a held mutex"); g_locked = 0; } while (0)
#define SUMS_OK(m) ((long)(m)->my_total_demand == (long)(m)->my_priority_level_demand[0] + (m)->my_priority_level_demand[1] + (m)->my_priority_level_demand[2] \
     && (m)->my_priority_level_demand[0] == g_rest[0] + (g_c->arena.my_priority_level == 0 ? g_c->my_max_workers : 0) \
     && (m)->my_priority_level_demand[1] == g_rest[1] + (g_c->arena.my_priority_level == 1 ? g_c->my_max_workers : 0) \
     && (m)->my_priority_level_demand[2] == g_rest[2] + (g_c->arena.my_priority_level == 2 ? g_c->my_max_workers : 0))
static void STUB_update_allotment(struct market *m) {
    g_allot_calls++; g_soft_at_allot = m->my_num_workers_soft_limit;
    OBLIGATION(g_locked, "C16.request: the allotment is recomputed under the market mutex");
    OBLIGATION(SUMS_OK(m) && g_c->my_max_workers >= 0 && g_c->my_min_workers >= 0,
               "C16.request: whenever the allotment is recomputed, total demand == sum of the level demands and each level demand == sum of its clients' (non-negative) requests");
}
static void STUB_observer_update(struct market *m, int delta) { g_notes++; g_note_delta = delta; OBLIGATION(!g_locked, "C16.request: the thread-request observer is notified outside the market mutex"); }
#include "request.inc"
int IN_mand, IN_total, IN_md, IN_wd; unsigned IN_maxw;
static void mk_arena_r(struct arena_r *a) {
    a->my_mandatory_requests = IN_mand = nondet_int(); a->my_total_num_workers_requested = IN_total = nondet_int(); a->my_max_num_workers = IN_maxw = nondet_unsigned(); a->my_priority_level = nondet_unsigned();
    __CPROVER_assume(IN_mand > -RMAX && IN_mand < RMAX && IN_total > -RMAX && IN_total < RMAX && IN_maxw <= RMAX && a->my_priority_level < NPL);
}
static void deltas(int *md, int *wd) { *md = IN_md = nondet_int(); *wd = IN_wd = nondet_int(); __CPROVER_assume(-1 <= *md && *md <= 1 && *wd > -RMAX && *wd < RMAX); }
#define CAP(a, minw) (((minw) > 0 && (a)->my_max_num_workers == 0) ? 1 : (int)(a)->my_max_num_workers)
void h_arena_update_request(void) {
    struct arena_r a; mk_arena_r(&a); int md, wd; deltas(&md, &wd);
    struct int_pair r = arena_update_request(&a, md, wd);
    OBLIGATION(a.my_mandatory_requests == IN_mand + md && a.my_total_num_workers_requested == IN_total + wd, "C16.request: the arena's outstanding counters move by exactly the deltas");
    OBLIGATION(r.first == (a.my_mandatory_requests > 0 ? 1 : 0), "C16.request: the minimal request is 1 exactly while a mandatory request is outstanding, else 0");
    OBLIGATION(r.second >= 0, "C16.request: an arena never requests a negative number of workers");
    OBLIGATION(r.second <= CAP(&a, r.first), "C16.request: an arena never requests more than max_num_workers (a workerless arena: one worker, and only while it has a mandatory request)");
    int tot = a.my_total_num_workers_requested, cap = CAP(&a, r.first);
    OBLIGATION(r.second == (tot < 0 ? 0 : tot > cap ? cap : tot), "C16.request: the request is the outstanding total clamped into [0, cap]");
    VACUITY_END();
}
void h_pm_update_request(void) {
    struct pmclient c; mk_arena_r(&c.arena); c.my_min_workers = nondet_int(); c.my_max_workers = nondet_int(); __CPROVER_assume(c.my_max_workers >= 0 && c.my_max_workers <= RMAX);
    int md, wd; deltas(&md, &wd); int mw0 = c.my_max_workers;
    int d = pm_client_update_request(&c, md, wd);
    OBLIGATION(c.my_max_workers == mw0 + d, "C16.request: the delta reported to the market is exactly the change of the client's recorded request");
    OBLIGATION(c.my_max_workers >= 0 && c.my_max_workers <= CAP(&c.arena, c.my_min_workers) && (c.my_min_workers == 0 || c.my_min_workers == 1), "C16.request: the recorded request lies in [0, cap], the recorded minimum is 0 or 1");
    OBLIGATION(c.my_min_workers == (c.arena.my_mandatory_requests > 0 ? 1 : 0), "C16.request: the recorded minimum mirrors the arena's outstanding mandatory requests");
    VACUITY_END();
}
static void mk_market(struct market *m, struct pmclient *c) {
    mk_arena_r(&c->arena); c->my_min_workers = nondet_int(); c->my_max_workers = nondet_int(); __CPROVER_assume(c->my_max_workers >= 0 && c->my_max_workers <= RMAX && c->my_min_workers >= 0);
    g_c = c; g_rest[0] = nondet_long(); g_rest[1] = nondet_long(); g_rest[2] = nondet_long(); __CPROVER_assume(g_rest[0] >= 0 && g_rest[0] <= RMAX && g_rest[1] >= 0 && g_rest[1] <= RMAX && g_rest[2] >= 0 && g_rest[2] <= RMAX);
    m->my_mutex = 0; m->my_thread_request_observer = (void *)m; m->my_num_workers_soft_limit = nondet_int(); m->my_mandatory_num_requested = nondet_int();
    __CPROVER_assume(m->my_mandatory_num_requested > -RMAX && m->my_mandatory_num_requested < RMAX);
    m->my_priority_level_demand[0] = nondet_int(); m->my_priority_level_demand[1] = nondet_int(); m->my_priority_level_demand[2] = nondet_int(); m->my_total_demand = nondet_int();
    __CPROVER_assume(SUMS_OK(m));                                 /* market invariant before the call */
    g_locked = g_lock_calls = g_allot_calls = g_notes = 0;
}
void h_adjust_demand(void) {
    struct market m; struct pmclient c; mk_market(&m, &c); int md, wd; deltas(&md, &wd);
    int mw0 = c.my_max_workers, total0 = m.my_total_demand, mnr0 = m.my_mandatory_num_requested, soft0 = m.my_num_workers_soft_limit;
    market_adjust_demand(&m, &c, md, wd);
    OBLIGATION(!g_locked && g_lock_calls == 1, "C16.request: the market mutex is taken once and released");
    OBLIGATION(g_allot_calls == 1, "C16.request: every demand change recomputes the allotment exactly once");
    OBLIGATION(SUMS_OK(&m), "C16.request: after adjust_demand the demand counters are again the sums of the clients' requests (other levels and other clients untouched)");
    OBLIGATION(m.my_total_demand == total0 + (c.my_max_workers - mw0), "C16.request: total demand moves by the change of this client's request");
    OBLIGATION(m.my_mandatory_num_requested == mnr0 + md && m.my_num_workers_soft_limit == soft0, "C16.request: the count of mandatory requests moves by mandatory_delta; the soft limit is untouched");
    OBLIGATION(g_notes == (c.my_max_workers != mw0 ? 1 : 0) && (g_notes == 0 || g_note_delta == c.my_max_workers - mw0), "C16.request: the thread-request observer is told the change of the total demand, exactly once, and only when there is one");
    VACUITY_END();
}
void h_set_active(void) {
    struct market m; struct pmclient c; mk_market(&m, &c); int soft = nondet_int(); int soft0 = m.my_num_workers_soft_limit, total0 = m.my_total_demand;
    market_set_active_num_workers(&m, soft);
    OBLIGATION(!g_locked && g_lock_calls == 1, "C16.request: the market mutex is taken once and released");
    OBLIGATION(m.my_num_workers_soft_limit == soft, "C16.limit: the soft limit in force is the one last set");
    OBLIGATION(g_allot_calls == (soft != soft0 ? 1 : 0) && (g_allot_calls == 0 || g_soft_at_allot == soft), "C16.limit: a changed limit recomputes the allotment once, with the new limit already in force");
    OBLIGATION(m.my_total_demand == total0 && SUMS_OK(&m), "C16.limit: changing the limit leaves the demand counters alone");
    VACUITY_END();
}
#endif

#ifdef TRSQ
/* thread_request_serializer::update / set_active_num_workers.  Rely/guarantee on the packed word my_pending_delta (any number of other threads in update, SC atomics)
   plus the mutex section treated as one step (other holders leave the section invariant LINV behind).
   Ghost census of the word: g_cnt update calls and g_pend = sum of their deltas are pending (not yet collected); g_agg: the thread that found the word at its base
   value (the aggregator) has not yet collected; g_sub / g_coll: sums of all deltas submitted / collected so far.
     INV_W: word == base + g_cnt * 2^16 + g_pend, g_sub == g_coll + g_pend (nothing lost, nothing counted twice), g_agg <=> g_cnt > 0, g_cnt == 0 => g_pend == 0.
     LINV:  what the thread dispatcher has been told in total (g_est) == min(soft limit, total request).
   Domain (assumed, the job family splits on it): the sum of the deltas pending at any one time lies in [PEND_MIN, PEND_MAX]; fewer than 2^15 calls are pending at once. */
#ifdef WIDE       /* the other half of the domain: ONE call (nothing else pending) whose delta does not fit 16 bits, e.g. the first request of an arena with 32768 or more worker slots */
#define PEND_MAX ((long)1 << 24)
#define PEND_MIN (-((long)1 << 24))
#define CNT_MAX 1L
#else
#define PEND_MAX 32767L
#define PEND_MIN (-32768L)
#define CNT_MAX ((long)1 << 15)
#endif
#define TMAX ((long)1 << 28)
#include "serializer_defs.inc"
struct trs { uint64_t my_pending_delta; int my_total_request, my_soft_limit, my_mutex; };
static long g_cnt, g_pend, g_sub, g_coll, g_est; static bool g_agg, g_me_agg, g_locked; static int g_sections; static long g_my_collected, g_total_at_lock;
static struct trs *g_s; static int g_arg_delta;
#define INV_W (0 <= g_cnt && g_cnt <= CNT_MAX && PEND_MIN <= g_pend && g_pend <= PEND_MAX && -TMAX < g_sub && g_sub < TMAX && -TMAX < g_coll && g_coll < TMAX \
     && g_s->my_pending_delta == (uint64_t)((long)pending_delta_base + g_cnt * 65536L + g_pend) \
     && g_sub == g_coll + g_pend && g_agg == (g_cnt > 0) && (g_cnt > 0 || g_pend == 0) && (!g_me_agg || g_agg))
#define LINV ((long)g_est == (g_s->my_soft_limit < g_s->my_total_request ? g_s->my_soft_limit : g_s->my_total_request))
#define LRANGE (-TMAX < g_s->my_total_request && g_s->my_total_request < TMAX && 0 <= g_s->my_soft_limit && g_s->my_soft_limit < TMAX)
/* any number of steps of other threads on the word: more update calls arrive; unless I am the aggregator, the current aggregator may collect (word back to base) and new rounds may start */
static void interfere(void) {
    long cnt0 = g_cnt, coll0 = g_coll, sub0 = g_sub; bool agg0 = g_agg;
    g_s->my_pending_delta = nondet_u64(); g_cnt = nondet_long(); g_pend = nondet_long(); g_sub = nondet_long(); g_coll = nondet_long(); g_agg = nondet_bool();
    __CPROVER_assume(INV_W);
    if (g_me_agg) __CPROVER_assume(g_coll == coll0 && g_cnt >= cnt0 && (g_cnt != cnt0 || g_sub == sub0));            /* rely: only the aggregator collects, and that is me; others only add calls */
}
#define ATOMIC_FETCH_ADD_AT(site, x, v) ({ interfere(); uint64_t old_ = (x); uint64_t v_ = (v); long d_ = (long)(int64_t)(v_ - 65536u); \
      __CPROVER_assume(g_cnt < CNT_MAX && PEND_MIN <= g_pend + d_ && g_pend + d_ <= PEND_MAX && -TMAX < g_sub + d_ && g_sub + d_ < TMAX);   /* domain */ \
      OBL(d_ == (long)g_arg_delta, "C16.serializer.update: the word is advanced by one call and exactly the caller's delta"); \
      (x) += v_; g_cnt++; g_pend += d_; g_sub += d_; if (!g_agg) { g_agg = true; g_me_agg = true; } \
      __CPROVER_assert(INV_W, "C16.serializer: guarantee: after fetch_add the word still encodes (number, sum) of the pending calls"); old_; })
#define ATOMIC_XCHG_AT(site, x, v) ({ interfere(); uint64_t old_ = (x); (x) = (v); \
      OBL(g_me_agg, "C16.serializer.update: only the aggregator (the one caller that found the word at its base value) collects"); \
      g_my_collected = g_pend; g_coll += g_pend; g_pend = 0; g_cnt = 0; g_agg = false; g_me_agg = false; \
      __CPROVER_assert(INV_W, "C16.serializer: guarantee: after the exchange the word is back at base with nothing pending"); old_; })
#define ATOMIC_LOAD_AT(site, x) (x)
#define ATOMIC_STORE_AT(site, x, v) ((x) = (v))
#define LOCK_MUTEX(m) do { __CPROVER_assert(!g_locked, "C16.serializer: the mutex is not taken twice"); g_s->my_total_request = nondet_int(); g_s->my_soft_limit = nondet_int(); g_est = nondet_long(); __CPROVER_assume(LRANGE && LINV); \
      g_locked = true; g_sections++; g_total_at_lock = g_s->my_total_request; } while (0)
#define UNLOCK_MUTEX(m) do { __CPROVER_assert(g_locked, "C16.serializer: unlock of a held mutex"); \
      OBL(LINV, "C16.serializer.limit: when the mutex is released the thread dispatcher has been told exactly min(soft limit, total request) - the soft limit clamps what is passed on"); g_locked = false; } while (0)
static void STUB_adjust_job_count_estimate(struct trs *s, int d) { __CPROVER_assert(g_locked, "C16.serializer: the dispatcher is adjusted under the mutex"); g_est += d; }
#ifdef WIDE
#define OBL(c, m) OBLIGATION(c, m " [pending sum beyond 16 bits]")
#else
#define OBL(c, m) OBLIGATION(c, m)
#endif
#include "serializer.inc"
int IN_delta, IN_soft; long IN_pend, IN_cnt;
static void mk_trs(struct trs *s) {
    g_s = s; s->my_pending_delta = nondet_u64(); s->my_total_request = nondet_int(); s->my_soft_limit = nondet_int(); s->my_mutex = 0;
    g_cnt = nondet_long(); g_pend = nondet_long(); g_sub = nondet_long(); g_coll = nondet_long(); g_est = nondet_long(); g_agg = nondet_bool(); g_me_agg = false; g_locked = false; g_sections = 0; g_my_collected = 0;
    __CPROVER_assume(INV_W && LRANGE && LINV);
}
void h_trs_update(void) {
    struct trs s; mk_trs(&s); int delta = IN_delta = nondet_int(); __CPROVER_assume(delta > -TMAX && delta < TMAX);
    g_arg_delta = delta;
    trs_update(&s, delta);
    IN_pend = g_my_collected;
    OBL(!g_locked && !g_me_agg, "C16.serializer.update: on return the mutex is free and the caller is no longer the aggregator");
    OBL(g_sections <= 1, "C16.serializer.update: at most one mutex section per call");
    if (g_sections == 0) OBL(g_agg || g_pend == 0, "C16.serializer.update: a caller that leaves its delta in the word leaves it to an aggregator that has not collected yet - no delta is stranded");
    else OBL((long)s.my_total_request == g_total_at_lock + g_my_collected, "C16.serializer.update: every delta handed to update is applied to the total exactly once: the aggregator adds exactly the sum of all deltas that were pending");
    VACUITY_END();
}
void h_trs_set_active(void) {
    struct trs s; mk_trs(&s); int soft = IN_soft = nondet_int(); __CPROVER_assume(soft >= 0 && soft < TMAX);
    trs_set_active_num_workers(&s, soft);
    OBL(!g_locked && g_sections == 1 && s.my_soft_limit == soft, "C16.serializer.limit: the new soft limit is in force when the mutex is released");
    OBL((long)s.my_total_request == g_total_at_lock, "C16.serializer.limit: changing the limit leaves the total request alone");
    VACUITY_END();
}
#endif

#ifdef FLAG
/* arena.h atomic_flag (my_pool_state: EMPTY/FULL with a transient per-thread `busy` token while a thread takes the emptiness snapshot; my_mandatory_concurrency likewise).
   Rely/guarantee on the one word my_state for any number of other threads in test_and_set / try_clear_if (SC).  Ghost: g_sets / g_clears = number of calls of
   test_and_set / try_clear_if that returned true so far.  INV: word == UNSET <=> g_sets == g_clears, otherwise g_sets == g_clears + 1 - every FULL epoch is opened
   by exactly one advertiser (the one that will request workers) and closed by exactly one snapshot taker (the one that will release them).
   Rely: the others make only the transitions of these two functions: UNSET->SET (sets++), busy_x->SET, SET->busy_other, busy_other->UNSET (clears++); nobody but me
   writes my busy token, and nobody but me clears while the word holds my token. */
#include "flag_defs.inc"
struct atomic_flag { uintptr_t my_state; };
static struct atomic_flag *g_f; static long g_sets, g_clears, g_my_sets, g_my_clears; static uintptr_t g_mytoken; static bool g_interrupted, g_seen_nonunset, g_was_set_at_start; static int g_pred_calls; static bool g_pred_val, g_in_txn_at_pred;
#define CMAXF ((long)1 << 40)
#define INV_F(w) (0 <= g_clears && g_clears <= g_sets && ((w) == FLAG_UNSET ? g_sets == g_clears : g_sets == g_clears + 1))
static void interfere(void) {
    uintptr_t w0 = g_f->my_state; long s0 = g_sets, c0 = g_clears;
    g_f->my_state = nondet_uintptr_t(); g_sets = nondet_long(); g_clears = nondet_long();
    __CPROVER_assume(g_sets >= s0 && g_clears >= c0 && g_sets < CMAXF && INV_F(g_f->my_state));
    if (g_mytoken != 0) {
        __CPROVER_assume(g_f->my_state != g_mytoken || w0 == g_mytoken);                            /* nobody else writes my token */
        if (w0 == g_mytoken && g_f->my_state == g_mytoken) __CPROVER_assume(g_sets == s0 && g_clears == c0);   /* while it stands nothing else can happen to the word */
        if (w0 == g_mytoken && g_f->my_state != g_mytoken) g_interrupted = true;                    /* an advertiser turned my token into SET */
    }
}
#define ATOMIC_LOAD_AT(site, x) ({ interfere(); if ((x) != FLAG_UNSET) g_seen_nonunset = true; (x); })
/* a write of mine old_ -> des_: classify it, update the census */
static void flag_transition(uintptr_t old_, uintptr_t des_) {
    if (old_ == FLAG_UNSET && des_ == FLAG_SET) { g_sets++; g_my_sets++; }
    else if (old_ == FLAG_SET && des_ != FLAG_SET && des_ != FLAG_UNSET) { g_mytoken = des_; g_interrupted = false; g_was_set_at_start = true; }
    else if (old_ != FLAG_SET && old_ != FLAG_UNSET && des_ == FLAG_SET) { if (old_ == g_mytoken) g_mytoken = 0; }
    else if (old_ != FLAG_SET && old_ != FLAG_UNSET && des_ == FLAG_UNSET) { OBLIGATION(old_ == g_mytoken, "C16.flag: guarantee: a thread turns only its OWN busy token into UNSET"); g_clears++; g_my_clears++; g_mytoken = 0; }
    else OBLIGATION(0, "C16.flag: guarantee: only the transitions UNSET->SET, SET->busy(me), busy->SET, busy(me)->UNSET are made");
}
#define ATOMIC_CAS_AT(site, x, pexp, des) ({ interfere(); uintptr_t old_ = (x), des_ = (des); bool ok_ = (old_ == *(pexp)); \
      if (ok_) { (x) = des_; flag_transition(old_, des_); } else *(pexp) = old_; \
      if ((x) != FLAG_UNSET) g_seen_nonunset = true; \
      __CPROVER_assert(INV_F(x), "C16.flag: guarantee: word == UNSET exactly when every successful test_and_set has been matched by a successful clear"); ok_; })
#define ATOMIC_STORE_AT(site, x, v) ({ interfere(); uintptr_t old_ = (x), des_ = (v); (x) = des_; flag_transition(old_, des_); \
      __CPROVER_assert(INV_F(x), "C16.flag: guarantee: word == UNSET exactly when every successful test_and_set has been matched by a successful clear"); })
static bool STUB_pred(void) { g_pred_calls++; g_in_txn_at_pred = (g_mytoken != 0); g_pred_val = nondet_bool(); return g_pred_val; }
#include "flag.inc"
static void mk_flag(struct atomic_flag *f) {
    g_f = f; f->my_state = nondet_uintptr_t(); g_sets = nondet_long(); g_clears = nondet_long(); __CPROVER_assume(g_sets < CMAXF && INV_F(f->my_state));
    g_my_sets = g_my_clears = 0; g_mytoken = 0; g_interrupted = false; g_seen_nonunset = false; g_was_set_at_start = false; g_pred_calls = 0; g_pred_val = false; g_in_txn_at_pred = false;
}
void h_flag_test_and_set(void) {
    struct atomic_flag f; mk_flag(&f);
    bool r = flag_test_and_set(&f);
    OBLIGATION(r == (g_my_sets == 1) && g_my_sets <= 1 && g_my_clears == 0, "C16.flag.set: test_and_set returns true exactly when THIS call moved the word UNSET->SET (one advertiser per FULL epoch requests the workers)");
    OBLIGATION(r || g_seen_nonunset, "C16.flag.set: a call that returns false saw (or left) the word non-UNSET during the call - the work it advertises belongs to an epoch somebody opened");
    VACUITY_END();
}
void h_flag_try_clear_if(void) {
    struct atomic_flag f; mk_flag(&f);
    bool r = flag_try_clear_if(&f);
    OBLIGATION(r == (g_my_clears == 1) && g_my_clears <= 1 && g_my_sets == 0, "C16.flag.clear: try_clear_if returns true exactly when THIS call moved the word to UNSET");
    OBLIGATION(!r || (g_pred_calls == 1 && g_pred_val && g_in_txn_at_pred && g_was_set_at_start && !g_interrupted),
               "C16.flag.clear: the flag is cleared only if the word was SET, the snapshot predicate was evaluated inside this thread's busy window and found nothing, and no test_and_set intervened before the clear");
    OBLIGATION(g_pred_calls <= 1 && (g_pred_calls == 0 || g_in_txn_at_pred), "C16.flag.clear: the snapshot is taken at most once, and only after the word was moved SET->busy by this thread");
    OBLIGATION(g_mytoken == 0 || f.my_state != g_mytoken, "C16.flag.clear: the busy token (the address of a local variable) is not left in the word when the call returns");
    VACUITY_END();
}
#endif

#ifdef ADV
/* arena::advertise_new_work<work_type> and arena::out_of_work: what is sent to request_workers (-> adjust_demand -> arena::update_request) for each flag transition */
struct atomic_flag { int id; };
struct arena_w { struct atomic_flag my_mandatory_concurrency, my_pool_state; unsigned my_num_slots, my_num_reserved_slots, my_max_num_workers; };
static bool g_tas_m, g_tas_p, g_tci_m, g_tci_p, g_m_called, g_p_called, g_pred_m_evald, g_pred_p_evald, g_enq, g_tasks, g_txn_m, g_txn_p; static int g_req_calls, g_md, g_wd; static bool g_wake; static int g_order;
static bool flag_tas(struct atomic_flag *f) { bool r = nondet_bool(); if (f->id == 0) { g_m_called = true; g_tas_m = r; } else { g_p_called = true; g_tas_p = r; } return r; }
#define FLAG_TEST_AND_SET(f) flag_tas(&(f))
/* try_clear_if: the predicate is evaluated only if the flag was SET and this thread got the busy window (job flag.try_clear_if); true is returned only if the predicate held */
#define FLAG_TRY_CLEAR_IF(f, pred) ({ bool txn_ = nondet_bool(), r_ = false; if ((f).id == 0) { g_m_called = true; g_order = 1; g_txn_m = txn_; } else { g_p_called = true; g_order = 2; g_txn_p = txn_; } \
      if (txn_) { bool p_ = (pred); r_ = p_ && nondet_bool(); } if ((f).id == 0) g_tci_m = r_; else g_tci_p = r_; r_; })
static bool STUB_has_enqueued_tasks(struct arena_w *a) { g_pred_m_evald = true; return g_enq; }
static bool STUB_has_tasks(struct arena_w *a) { g_pred_p_evald = true; return g_tasks; }
static void STUB_request_workers(struct arena_w *a, int md, int wd, bool wake) { g_req_calls++; g_md = md; g_wd = wd; g_wake = wake; }
static void STUB_request_workers3(struct arena_w *a, int md, int wd) { STUB_request_workers(a, md, wd, false); }
#include "advertise.inc"
static void mk_arena_w(struct arena_w *a) {
    a->my_mandatory_concurrency.id = 0; a->my_pool_state.id = 1; a->my_num_slots = nondet_unsigned(); a->my_num_reserved_slots = nondet_unsigned(); a->my_max_num_workers = nondet_unsigned();
    __CPROVER_assume(a->my_num_slots >= 2 && a->my_num_slots <= (1u << 28) && a->my_num_reserved_slots <= a->my_num_slots && a->my_max_num_workers <= a->my_num_slots - a->my_num_reserved_slots);   /* arena constructor */
    g_tas_m = g_tas_p = g_tci_m = g_tci_p = g_m_called = g_p_called = g_pred_m_evald = g_pred_p_evald = g_txn_m = g_txn_p = false; g_enq = nondet_bool(); g_tasks = nondet_bool(); g_req_calls = 0; g_md = g_wd = 0; g_order = 0;
}
#define WORKERLESS(a) ((a)->my_max_num_workers == 0)
void h_advertise(void) {
    struct arena_w a; mk_arena_w(&a); enum new_work_type wt = nondet_bool() ? work_spawned : nondet_bool() ? wakeup : work_enqueued;
    arena_advertise_new_work(&a, wt);
    bool mset = g_m_called && g_tas_m, pset = g_p_called && g_tas_p;
    OBLIGATION(!g_m_called || (wt == work_enqueued && a.my_num_slots > a.my_num_reserved_slots), "C16.request: mandatory concurrency is asked for only by enqueued work, in an arena that has a slot a worker may take");
    OBLIGATION(g_p_called, "C16.request: every advertisement marks the pool non-empty");
    OBLIGATION(g_req_calls == ((mset || pset) ? 1 : 0), "C16.request: workers are requested exactly when this call opened an epoch of one of the two flags - one request per epoch");
    if (g_req_calls) {
        OBLIGATION(g_md == (mset ? 1 : 0), "C16.request: mandatory_delta is +1 exactly when this call set the mandatory flag, else 0 (always within {-1,0,1})");
        OBLIGATION(g_wd == ((mset && WORKERLESS(&a)) ? 1 : pset ? (int)a.my_max_num_workers : 0), "C16.request: workers_delta is +max_num_workers when this call marked the pool non-empty; a workerless arena asks for its single extra worker together with the mandatory request");
        OBLIGATION(g_wd >= 0 && (g_wd <= (int)a.my_max_num_workers || (WORKERLESS(&a) && g_wd == 1 && g_md == 1)), "C16.request: an advertisement never asks for more than max_num_workers (one for a workerless arena with enqueued work)");
        OBLIGATION(g_wake, "C16.request: sleeping threads of the arena are woken");
    }
    VACUITY_END();
}
void h_out_of_work(void) {
    struct arena_w a; mk_arena_w(&a);
    arena_out_of_work(&a);
    bool mclr = g_tci_m, pclr = g_tci_p;
    OBLIGATION(g_m_called && g_p_called, "C16.request: both flags are tried");
    OBLIGATION(!mclr || !g_enq, "C16.empty: mandatory concurrency is given up only when no enqueued task was visible in the snapshot");
    OBLIGATION(!pclr || !g_tasks, "C16.empty: the arena is declared empty (workers released) only when no task was visible in any pool or stream during the snapshot");
    OBLIGATION(g_pred_m_evald == g_txn_m && g_pred_p_evald == g_txn_p, "C16.empty: each snapshot predicate is evaluated inside the busy window of its own flag");
    OBLIGATION(g_req_calls == ((mclr || pclr) ? 1 : 0), "C16.request: workers are given back exactly when this call closed an epoch of one of the two flags");
    if (g_req_calls) {
        OBLIGATION(g_md == (mclr ? -1 : 0), "C16.request: mandatory_delta is -1 exactly when this call cleared the mandatory flag, else 0 (always within {-1,0,1})");
        OBLIGATION(g_wd == ((mclr && WORKERLESS(&a)) ? -1 : pclr ? -(int)a.my_max_num_workers : 0), "C16.request: workers_delta mirrors the advertisement that opened the epoch: -max_num_workers for the pool state, -1 for a workerless arena's mandatory request");
    }
    VACUITY_END();
}
#endif

#ifdef HT
/* arena::has_tasks (+ has_enqueued_tasks, arena_slot::is_empty): the emptiness snapshot out_of_work takes inside the busy window of my_pool_state.
   Slots of ANY number (loop contract); obligations for ONE arbitrary slot k.  The state examined is one fixed state; tasks published while the scan runs are the
   business of the flag protocol (their publisher's test_and_set destroys the busy token, job flag.try_clear_if). */
#define NMAXS ((size_t)1 << 12)
#define EmptyTaskPool NULL
struct slot_t { void **task_pool; size_t head, tail; };
struct stream_t { unsigned long population; };
struct arena_t { unsigned my_limit; struct stream_t my_fifo_task_stream, my_resume_task_stream, my_critical_task_stream; struct slot_t *my_slots; };
#define ATOMIC_LOAD(x) (x)
#define STREAM_EMPTY(s) (!(s).population)
static size_t g_k;
#define SLOT_HAS_TASK(s) ((s)->task_pool != EmptyTaskPool && (s)->head < (s)->tail)
#define LOOP_ht_1 __CPROVER_assigns(k, tasks_are_available) __CPROVER_loop_invariant(k <= n && (tasks_are_available || !(g_k < k) || !SLOT_HAS_TASK(&self->my_slots[g_k]))) __CPROVER_decreases(n - k)
#include "has_tasks.inc"
void h_has_tasks(void) {
    struct arena_t a; a.my_limit = nondet_unsigned(); __CPROVER_assume(a.my_limit >= 1 && a.my_limit <= NMAXS);
    a.my_slots = malloc(a.my_limit * sizeof(struct slot_t)); __CPROVER_assume(a.my_slots != NULL);
    a.my_fifo_task_stream.population = nondet_ulong(); a.my_resume_task_stream.population = nondet_ulong(); a.my_critical_task_stream.population = nondet_ulong();
    g_k = nondet_size_t(); __CPROVER_assume(g_k < a.my_limit);
    bool r = arena_has_tasks(&a);
    OBLIGATION(r || !SLOT_HAS_TASK(&a.my_slots[g_k]), "C16.empty: has_tasks says `no task` only if every slot below my_limit was seen without a published, non-empty task pool");
    OBLIGATION(r || (a.my_fifo_task_stream.population == 0 && a.my_resume_task_stream.population == 0 && a.my_critical_task_stream.population == 0),
               "C16.empty: has_tasks says `no task` only if the enqueue, resume and critical streams were all seen empty");
    VACUITY_END();
}
#endif

#ifdef GC
/* global_control bookkeeping (src/tbb/global_control.cpp): control_storage family, control_storage_comparator, global_control_impl::create / destroy /
   remove_and_check_if_empty / erase_if_present, global_control_active_value.  The harnesses are parametric in the dynamic class of the storage (GC_KIND; the virtual
   calls of the sliced code go through dispatchers generated from what each class overrides); property C16 speaks about max_allowed_parallelism only, so the jobs
   instantiate GC_KIND = allowed_parallelism_control (remove_and_check_if_empty, whose only caller passes a scheduler handle: lifetime_control, list membership only).
   The std::set<global_control*, control_storage_comparator> is abstract (TRUSTED: it keeps its elements unique and ordered under the comparator it is given):
   NOBJ named control objects OBJ[j] (entry j is THE j-th control; OBJ[0] is the control being created/destroyed, OBJ[g_k] an arbitrary other control, OBJ[g_w] the
   control that attains the active value, any further slot the element begin() is going to return) with a liveness flag each, plus g_unnamed further elements.
   find / insert look for an element EQUIVALENT under the real sliced comparator; begin() returns a live element that no named live element precedes under the
   real sliced comparator.  The comparator itself is proved a strict weak order that separates distinct objects and puts the preferred value first (gcontrol.comparator.*).
   Addresses of the controls are arbitrary distinct integers (PTR_LT). */
#include "gc_defs.inc"
#ifndef GC_KIND
#define GC_KIND KIND_allowed_parallelism_control
#endif
struct gcontrol { size_t my_value; intptr_t my_reserved; int my_param; };
struct gset { char unused; };
struct cstorage { int kind; size_t my_active_value; struct gset my_list; int my_list_mutex; };
typedef struct gcontrol *set_iter;
#define NOBJ 4
static struct cstorage STOR[4]; static struct cstorage *controls[4];
static struct gcontrol OBJ[NOBJ]; static bool g_live[NOBJ]; static size_t g_unnamed; static uintptr_t g_addr[NOBJ];
static struct cstorage *g_c; static int g_param; static unsigned g_k, g_w;
static int g_held, g_locks, g_inserts, g_erases; static bool g_check_lock;
static unsigned g_ncpu, g_hard; static size_t g_stack_default;
static int g_told_calls; static unsigned g_told; static int g_life;
#define ThreadStackSize g_stack_default
#define PTR_LT(a, b) (g_addr[(a) - OBJ] < g_addr[(b) - OBJ])
/* what the documentation prescribes: max_allowed_parallelism -> minimum, thread_stack_size -> maximum, terminate_on_exception -> disjunction (maximum of 0/1); the
   scheduler-handle list carries no value preference */
#define SPEC_PREF(kind, a, b) ((kind) == KIND_allowed_parallelism_control ? (a) < (b) : (kind) == KIND_lifetime_control ? false : (a) > (b))
#define LOCK_MUTEX(m) do { OBLIGATION(&(m) == &g_c->my_list_mutex, "C16.gcontrol.lock: the mutex taken is the list mutex of the parameter's own storage"); \
      __CPROVER_assert(!g_held, "C16.gcontrol.lock: the list mutex is not taken twice"); g_held = 1; g_locks++; } while (0)
#define UNLOCK_MUTEX(m) do { __CPROVER_assert(g_held && &(m) == &g_c->my_list_mutex, "C16.gcontrol.lock: unlock of the held list mutex"); g_held = 0; } while (0)
static size_t *active_ref(struct cstorage *c) {
    OBLIGATION(c == g_c, "C16.gcontrol: only the storage of the control's own parameter is touched");
    if (g_check_lock) OBLIGATION(g_held, "C16.gcontrol.lock: the active value is read and written only under the storage's list mutex");
    return &c->my_active_value;
}
#define CS_ACTIVE(c) (*active_ref(c))
static bool set_empty(struct gset *s); static set_iter set_find(struct gset *s, struct gcontrol *p); static void set_insert(struct gset *s, struct gcontrol *p);
static void set_erase(struct gset *s, set_iter it); static set_iter set_begin(struct gset *s); static set_iter set_rbegin(struct gset *s);
#define SET_EMPTY(s) set_empty(&(s))
#define SET_FIND(s, p) set_find(&(s), (p))
#define SET_END(s) ((set_iter)NULL)
#define SET_INSERT(s, p) set_insert(&(s), (p))
#define SET_ERASE(s, it) set_erase(&(s), (it))
#define SET_BEGIN(s) set_begin(&(s))
#define SET_RBEGIN(s) set_rbegin(&(s))
#define SET_DEREF(it) (it)
static unsigned STUB_default_num_threads(void) { return g_ncpu; }
static unsigned STUB_tc_max_num_workers(void) { return g_hard; }
/* threading_control::set_active_num_workers(unsigned soft_limit): the conversion size_t -> unsigned happens at this parameter */
static void STUB_tc_set_active_num_workers(unsigned soft_limit) {
    g_told_calls++; g_told = soft_limit;
    OBLIGATION(g_held, "C16.gcontrol.limit: a new worker limit is handed to the threading control under the list mutex (limits take effect in the order they were decided)");
}
static bool STUB_tc_register_lifetime_control(void) { g_life++; return nondet_bool(); }
static bool STUB_tc_unregister_lifetime_control(bool blocking_terminate) { g_life--; return nondet_bool(); }
#include "gcontrol.inc"
#define EQUIV(a, b) (!gc_less((a), (b)) && !gc_less((b), (a)))
#define NAMED_LIVE (g_live[0] || g_live[1] || g_live[2] || g_live[3])
static void set_guard(struct gset *s) {
    OBLIGATION(s == &g_c->my_list, "C16.gcontrol: only the list of the control's own parameter is touched");
    if (g_check_lock) OBLIGATION(g_held, "C16.gcontrol.lock: the list of live controls is read and changed only under its mutex");
}
static bool set_empty(struct gset *s) { set_guard(s); return !NAMED_LIVE && g_unnamed == 0; }
static set_iter set_find(struct gset *s, struct gcontrol *p) {
    set_guard(s);
    unsigned j = nondet_unsigned(); __CPROVER_assume(j <= NOBJ);
    if (j < NOBJ) { __CPROVER_assume(g_live[j] && EQUIV(&OBJ[j], p)); return &OBJ[j]; }
    __CPROVER_assume(!(g_live[0] && EQUIV(&OBJ[0], p)) && !(g_live[1] && EQUIV(&OBJ[1], p)) && !(g_live[2] && EQUIV(&OBJ[2], p)) && !(g_live[3] && EQUIV(&OBJ[3], p)));
    return NULL;
}
static void set_insert(struct gset *s, struct gcontrol *p) {
    set_guard(s); g_inserts++;
    if ((g_live[0] && EQUIV(&OBJ[0], p)) || (g_live[1] && EQUIV(&OBJ[1], p)) || (g_live[2] && EQUIV(&OBJ[2], p)) || (g_live[3] && EQUIV(&OBJ[3], p))) return;   /* unique keys */
    g_live[p - OBJ] = true;
}
static void set_erase(struct gset *s, set_iter it) {
    set_guard(s); g_erases++;
    OBLIGATION(it != NULL && g_live[it - OBJ], "C16.gcontrol: erase is given an iterator to a live element");
    g_live[it - OBJ] = false;
}
static set_iter set_begin(struct gset *s) {
    set_guard(s);
    OBLIGATION(NAMED_LIVE || g_unnamed != 0, "C16.gcontrol: begin() is dereferenced only on a non-empty list");
    unsigned b = nondet_unsigned(); __CPROVER_assume(b < NOBJ && g_live[b]);                 /* the first element is one of the named ones (by choice of the names) */
    __CPROVER_assume((!g_live[0] || b == 0 || !gc_less(&OBJ[0], &OBJ[b])) && (!g_live[1] || b == 1 || !gc_less(&OBJ[1], &OBJ[b]))
                  && (!g_live[2] || b == 2 || !gc_less(&OBJ[2], &OBJ[b])) && (!g_live[3] || b == 3 || !gc_less(&OBJ[3], &OBJ[b])));   /* TRUSTED: std::set order */
    return &OBJ[b];
}
static set_iter set_rbegin(struct gset *s) {   /* the LAST element under the sliced comparator (same trusted std::set order as set_begin) */
    set_guard(s);
    OBLIGATION(NAMED_LIVE || g_unnamed != 0, "C16.gcontrol: rbegin() is dereferenced only on a non-empty list");
    unsigned b = nondet_unsigned(); __CPROVER_assume(b < NOBJ && g_live[b]);
    __CPROVER_assume((!g_live[0] || b == 0 || !gc_less(&OBJ[b], &OBJ[0])) && (!g_live[1] || b == 1 || !gc_less(&OBJ[b], &OBJ[1]))
                  && (!g_live[2] || b == 2 || !gc_less(&OBJ[b], &OBJ[2])) && (!g_live[3] || b == 3 || !gc_less(&OBJ[b], &OBJ[3])));   /* TRUSTED: std::set order */
    return &OBJ[b];
}
#define KINDP (GC_KIND == KIND_allowed_parallelism_control)
#define KINDL (GC_KIND == KIND_lifetime_control)
/* the representation invariant of one storage between operations (list non-empty) */
#define ALL_NOT_PREFERRED(act) ((!g_live[0] || !SPEC_PREF(GC_KIND, OBJ[0].my_value, (act))) && (!g_live[1] || !SPEC_PREF(GC_KIND, OBJ[1].my_value, (act))) \
                             && (!g_live[2] || !SPEC_PREF(GC_KIND, OBJ[2].my_value, (act))) && (!g_live[3] || !SPEC_PREF(GC_KIND, OBJ[3].my_value, (act))))
#define SOME_ATTAINS(act) ((g_live[0] && OBJ[0].my_value == (act)) || (g_live[1] && OBJ[1].my_value == (act)) || (g_live[2] && OBJ[2].my_value == (act)) || (g_live[3] && OBJ[3].my_value == (act)))
static size_t spec_default(void) { return KINDP ? (g_ncpu > 1 ? g_ncpu : 1) : GC_KIND == KIND_stack_size_control ? g_stack_default : 0; }
static bool g_live0[NOBJ]; static size_t g_unnamed0, g_active0; static unsigned g_told0; static int g_life0;
static void gc_setup(bool subject_live_known, bool subject_live) {
    STOR[0].kind = GC_KIND_AT_0; STOR[1].kind = GC_KIND_AT_1; STOR[2].kind = GC_KIND_AT_2; STOR[3].kind = GC_KIND_AT_3;
    for (int i = 0; i < 4; i++) { controls[i] = &STOR[i]; STOR[i].my_active_value = nondet_size_t(); STOR[i].my_list_mutex = 0; }
    g_param = nondet_int(); __CPROVER_assume(0 <= g_param && g_param < parameter_max && STOR[g_param].kind == GC_KIND);
    g_c = &STOR[g_param];
    for (int j = 0; j < NOBJ; j++) { OBJ[j].my_value = nondet_size_t(); OBJ[j].my_param = g_param; g_live[j] = nondet_bool(); g_addr[j] = nondet_uintptr_t(); }
    if (subject_live_known) g_live[0] = subject_live;
    __CPROVER_assume(g_addr[0] != g_addr[1] && g_addr[0] != g_addr[2] && g_addr[0] != g_addr[3] && g_addr[1] != g_addr[2] && g_addr[1] != g_addr[3] && g_addr[2] != g_addr[3]);
    g_unnamed = nondet_size_t(); __CPROVER_assume(g_unnamed < ((size_t)1 << 20));
    g_ncpu = nondet_unsigned(); g_hard = nondet_unsigned(); g_stack_default = nondet_size_t(); g_told = nondet_unsigned(); g_life = nondet_int();
    g_k = nondet_unsigned(); g_w = nondet_unsigned(); __CPROVER_assume(g_k < NOBJ && g_w < NOBJ);
    /* d1::global_control's constructor refuses max_allowed_parallelism == 0 (__TBB_ASSERT_RELEASE); values below 2^32 (listed assumption: the worker limit is an unsigned);
       task_scheduler_handle creates its control with the value 1 (governor.cpp: get) */
    if (KINDP) __CPROVER_assume(OBJ[0].my_value >= 1 && OBJ[1].my_value >= 1 && OBJ[2].my_value >= 1 && OBJ[3].my_value >= 1
                             && OBJ[0].my_value <= UINT_MAX && OBJ[1].my_value <= UINT_MAX && OBJ[2].my_value <= UINT_MAX && OBJ[3].my_value <= UINT_MAX);
    if (KINDL) __CPROVER_assume(OBJ[0].my_value == 1 && OBJ[1].my_value == 1 && OBJ[2].my_value == 1 && OBJ[3].my_value == 1);
    if (NAMED_LIVE || g_unnamed != 0) {
        __CPROVER_assume(ALL_NOT_PREFERRED(g_c->my_active_value));                    /* the active value is the preferred extremum over the live controls ... */
        __CPROVER_assume(g_live[g_w] && OBJ[g_w].my_value == g_c->my_active_value);   /* ... and a live control (named g_w) attains it */
        if (KINDP) __CPROVER_assume(g_told == g_c->my_active_value - 1);              /* the threading control was told active - 1 */
        if (KINDL) __CPROVER_assume(g_life == 1);                                     /* one lifetime reference is held while a handle exists */
    } else {
        if (KINDL) __CPROVER_assume(g_life == 0);
    }
    g_held = g_locks = g_inserts = g_erases = g_told_calls = 0; g_check_lock = true;
    for (int j = 0; j < NOBJ; j++) g_live0[j] = g_live[j];
    g_unnamed0 = g_unnamed; g_active0 = g_c->my_active_value; g_told0 = g_told; g_life0 = g_life;
}
#define OTHERS_UNCHANGED (g_live[1] == g_live0[1] && g_live[2] == g_live0[2] && g_live[3] == g_live0[3] && g_unnamed == g_unnamed0)
static void gc_post_invariant(void) {
    if (NAMED_LIVE || g_unnamed != 0) {
        size_t act = g_c->my_active_value;
        OBLIGATION(!g_live[g_k] || !SPEC_PREF(GC_KIND, OBJ[g_k].my_value, act),
                   "C16.gcontrol.active: no live control has a value preferred over the active value - max_allowed_parallelism: the active value is the MINIMUM over the live controls; thread_stack_size / terminate_on_exception: the MAXIMUM");
        OBLIGATION(SOME_ATTAINS(act), "C16.gcontrol.active: the active value is the value of some live control");
        if (KINDP) OBLIGATION((size_t)g_told == act - 1, "C16.gcontrol.limit: while a max_allowed_parallelism control is live the threading control has been told exactly active value - 1 workers");
        if (KINDL) OBLIGATION(g_life == 1, "C16.gcontrol.handle: exactly one lifetime reference is held while a scheduler handle exists");
    } else {
        if (KINDP) OBLIGATION((size_t)g_told == spec_default() - 1, "C16.gcontrol.limit: when the last max_allowed_parallelism control is gone the threading control is back at default - 1 workers");
        if (KINDL) OBLIGATION(g_life == 0, "C16.gcontrol.handle: the lifetime reference is given up with the last scheduler handle");
    }
}
void h_gc_table(void) {
    gc_setup(false, false);
    OBLIGATION(controls[max_allowed_parallelism]->kind == KIND_allowed_parallelism_control && max_allowed_parallelism < parameter_max,
               "C16.gcontrol.table: max_allowed_parallelism is served by the storage class written for it (minimum preferred, workers = value - 1)");
    size_t a = nondet_size_t(), b = nondet_size_t();
    struct cstorage *c = controls[max_allowed_parallelism];
    g_c = c; g_check_lock = false;
    OBLIGATION(CS_is_first_arg_preferred(c, a, b) == (a < b), "C16.gcontrol.preference: max_allowed_parallelism prefers the smaller value");
    VACUITY_END();
}
void h_gc_comparator(void) {
    gc_setup(false, false);
    struct gcontrol *a = &OBJ[0], *b = &OBJ[1], *c = &OBJ[2];
    g_check_lock = false;
    OBLIGATION(!gc_less(a, a), "C16.gcontrol.order: the comparator is irreflexive");
    OBLIGATION(!(gc_less(a, b) && gc_less(b, a)), "C16.gcontrol.order: the comparator is asymmetric");
    OBLIGATION(!(gc_less(a, b) && gc_less(b, c)) || gc_less(a, c), "C16.gcontrol.order: the comparator is transitive");
    OBLIGATION(gc_less(a, b) || gc_less(b, a), "C16.gcontrol.order: two distinct controls are never equivalent (the set never takes one control for another, equal values included)");
    OBLIGATION(!SPEC_PREF(GC_KIND, a->my_value, b->my_value) || gc_less(a, b),
               "C16.gcontrol.order: a control with a preferred value is ordered first, so that begin() of the list is the preferred extremum (minimum for max_allowed_parallelism, MAXIMUM for thread_stack_size / terminate_on_exception)");
    VACUITY_END();
}
int IN_kind; size_t IN_v0, IN_v1, IN_v2, IN_v3, IN_active;
static void gc_inputs(void) { IN_kind = GC_KIND; IN_v0 = OBJ[0].my_value; IN_v1 = OBJ[1].my_value; IN_v2 = OBJ[2].my_value; IN_v3 = OBJ[3].my_value; IN_active = g_active0; }
void h_gc_create(void) {
    gc_setup(true, false);                           /* a control is created once, by its constructor */
    gc_inputs();
    gci_create(&OBJ[0]);
    OBLIGATION(!g_held && g_locks == 1, "C16.gcontrol.lock: the list mutex is taken once and released");
    OBLIGATION(g_live[0] && g_inserts == 1 && g_erases == 0 && OTHERS_UNCHANGED, "C16.gcontrol.create: the new control is registered as live; no other control is added or removed");
    OBLIGATION(g_c->my_active_value == g_active0 || g_c->my_active_value == OBJ[0].my_value, "C16.gcontrol.create: the active value is kept or becomes the new control's value");
    if (KINDP) OBLIGATION(g_told_calls == (g_c->my_active_value != g_active0 ? 1 : 0) || (g_told_calls == 1 && (size_t)g_told == g_c->my_active_value - 1), "C16.gcontrol.limit: a changed max_allowed_parallelism is handed on exactly once");
    else OBLIGATION(g_told_calls == 0, "C16.gcontrol.limit: only max_allowed_parallelism changes the worker limit");
    gc_post_invariant();
    VACUITY_END();
}
void h_gc_destroy(void) {
    gc_setup(false, false);
    /* a control is destroyed once, by its destructor, after its constructor registered it; only a scheduler handle may already have been removed by finalize */
    __CPROVER_assume(g_live[0] || g_param == scheduler_handle);
    gc_inputs();
    bool was_live = g_live[0];
    gci_destroy(&OBJ[0]);
    OBLIGATION(!g_held && g_locks == 1, "C16.gcontrol.lock: the list mutex is taken once and released");
    OBLIGATION(!g_live[0] && g_inserts == 0 && g_erases == (was_live ? 1 : 0) && OTHERS_UNCHANGED, "C16.gcontrol.destroy: exactly the destroyed control leaves the list; a control that is not in the list removes nothing");
    if (!was_live) OBLIGATION(g_c->my_active_value == g_active0 && g_told_calls == 0 && g_life == g_life0, "C16.gcontrol.destroy: destroying a control that is not in the list changes nothing");
    if (!KINDP) OBLIGATION(g_told_calls == 0, "C16.gcontrol.limit: only max_allowed_parallelism changes the worker limit");
    if (was_live) gc_post_invariant();
    VACUITY_END();
}
void h_gc_remove(void) {
    gc_setup(false, false);
    __CPROVER_assume(NAMED_LIVE || g_unnamed != 0);      /* finalize_impl: the handle's own control is present (in-code assertion is_present) */
    gc_inputs();
    bool was_live = g_live[0];
    bool r = gci_remove_and_check_if_empty(&OBJ[0]);
    OBLIGATION(!g_held && g_locks == 1, "C16.gcontrol.lock: the list mutex is taken once and released");
    OBLIGATION(!g_live[0] && g_inserts == 0 && g_erases == (was_live ? 1 : 0) && OTHERS_UNCHANGED, "C16.gcontrol.remove: exactly the given control leaves the list");
    OBLIGATION(r == !(NAMED_LIVE || g_unnamed != 0), "C16.gcontrol.remove: the caller is told whether this was the last scheduler handle (it then owes the blocking release of the lifetime reference)");
    OBLIGATION(g_c->my_active_value == g_active0 && g_told_calls == 0 && g_life == g_life0, "C16.gcontrol.remove: neither the active value nor the limit nor the lifetime reference is touched");
    VACUITY_END();
}
void h_gc_active_value(void) {
    gc_setup(false, false);
    gc_inputs();
    size_t r = global_control_active_value(g_param);
    OBLIGATION(!g_held && g_locks == 1, "C16.gcontrol.lock: the list mutex is taken once and released");
    bool nonempty = NAMED_LIVE || g_unnamed != 0;
    if (!nonempty) OBLIGATION(r == spec_default(), "C16.gcontrol.active: with no live control the active value is the default");
    else if (KINDP) OBLIGATION(r == ((g_hard != 0 && (size_t)g_hard + 1 < g_active0) ? (size_t)g_hard + 1 : g_active0), "C16.gcontrol.active: max_allowed_parallelism reports the extremum over the live controls, capped by the hard limit of worker threads + 1");
    else OBLIGATION(r == g_active0, "C16.gcontrol.active: the value reported is the extremum over the live controls");
    OBLIGATION(g_c->my_active_value == g_active0 && g_live[0] == g_live0[0] && OTHERS_UNCHANGED && g_told_calls == 0, "C16.gcontrol.active: reading changes nothing");
    VACUITY_END();
}
#endif

#ifdef PROXY
/* thread_request_serializer_proxy: mandatory concurrency around a soft limit of 0 (register_mandatory_request, set_active_num_workers, enable/disable_mandatory_concurrency).
   Shared state: my_num_mandatory_requests (atomic, moved only inside a read or write section of my_mutex), my_is_mandatory_concurrency_enabled and the serializer's
   soft limit (written only under the writer lock).  Ghost: g_U = the limit the user last set through the proxy; g_pend_en / g_pend_dis = number of callers (any
   thread) that made the 0 -> positive / 1 -> 0 transition of the request counter and have not yet finished their attempt to switch mandatory concurrency on / off.
     PINV: the flag is on  => the serializer's limit is the ONE mandatory worker and the user's limit is 0;   the flag is off => the serializer's limit is the user's.
     QINV: limit 0, requests > 0, flag off => somebody's attempt to switch it on is still under way;    requests <= 0, flag on => somebody's attempt to switch it off is under way.
   Both hold whenever nobody holds the writer lock.  Rely: other threads run these same functions: any number of complete sections while I hold no lock (also inside
   upgrade_to_writer, which may release the lock); only counter movements of other readers while I hold the read lock; nothing while I hold the write lock. */
struct serializer { int my_soft_limit; };
struct proxy { int my_num_mandatory_requests; bool my_is_mandatory_concurrency_enabled; struct serializer my_serializer; int my_mutex; };
static struct proxy *g_p; static int g_mode, g_U, g_locks, g_upgrades, g_sets; static long g_pend_en, g_pend_dis; static bool g_me_en, g_me_dis, g_user_call; static int g_user_arg, g_domain;
#define NUMMAX (1L << 20)
#define P_NUM (g_p->my_num_mandatory_requests)
#define P_EN (g_p->my_is_mandatory_concurrency_enabled)
#define P_SOFT (g_p->my_serializer.my_soft_limit)
#define PINV (g_U >= 0 && (P_EN ? (P_SOFT == 1 && g_U == 0) : P_SOFT == g_U))
#define QRANGE (g_pend_en >= (g_me_en ? 1 : 0) && g_pend_dis >= (g_me_dis ? 1 : 0) && g_pend_en < NUMMAX && g_pend_dis < NUMMAX && -NUMMAX < P_NUM && P_NUM < NUMMAX)
#define Q_ON (!(g_U == 0 && P_NUM > 0 && !P_EN) || g_pend_en > 0)
#define Q_OFF (!(P_NUM <= 0 && P_EN) || g_pend_dis > 0)
static void interfere_all(void) {
    P_NUM = nondet_int(); P_EN = nondet_bool(); P_SOFT = nondet_int(); g_U = nondet_int(); g_pend_en = nondet_long(); g_pend_dis = nondet_long();
    __CPROVER_assume(PINV && QRANGE && Q_ON && Q_OFF);
}
static void interfere_readers(void) {     /* other holders of the read lock: the counter moves, attempts are added (finishing one needs the write lock) */
    long e0 = g_pend_en, d0 = g_pend_dis;
    P_NUM = nondet_int(); g_pend_en = nondet_long(); g_pend_dis = nondet_long();
    __CPROVER_assume(g_pend_en >= e0 && g_pend_dis >= d0 && QRANGE && Q_ON && Q_OFF);
}
#define LOCK_RW(m, w) do { __CPROVER_assert(g_mode == 0, "C16.mandatory.lock: the proxy mutex is not taken twice"); interfere_all(); \
      if (g_domain == 1) __CPROVER_assume(!(g_user_arg == 0 && g_U == 0 && P_EN && P_NUM <= 0)); if (g_domain == 2) __CPROVER_assume(g_user_arg == 0 && g_U == 0 && P_EN && P_NUM <= 0); \
      g_mode = (w) ? 2 : 1; g_locks++; } while (0)
#define UPGRADE_TO_WRITER(m) do { OBLIGATION(g_mode == 1, "C16.mandatory.lock: upgrade of the read lock this call holds"); interfere_all(); g_mode = 2; g_upgrades++; } while (0)
#define UNLOCK_RW(m, w) do { __CPROVER_assert(g_mode != 0, "C16.mandatory.lock: unlock of a held lock"); \
      if (g_me_en) { g_me_en = false; g_pend_en--; } if (g_me_dis) { g_me_dis = false; g_pend_dis--; } \
      OBLIGATION(!P_EN || (P_SOFT == 1 && g_U == 0), "C16.mandatory: while mandatory concurrency is on the serializer may request exactly ONE worker, and only under a user limit of 0"); \
      OBLIGATION(P_EN || P_SOFT == g_U, "C16.mandatory: while mandatory concurrency is off the serializer's limit is the limit the user set (the mandatory worker has been given back)"); \
      OBLIGATION(Q_ON, "C16.mandatory: when a call is done, limit 0 with a registered mandatory request means mandatory concurrency is on - unless another caller that registered a first request has not yet finished switching it on"); \
      OBLIGATION(Q_OFF, "C16.mandatory: when a call is done, no mandatory request left means mandatory concurrency is off - unless another caller that withdrew the last request has not yet finished switching it off"); \
      g_mode = 0; } while (0)
#define ENABLED_STORE(self, v) do { OBLIGATION(g_mode == 2, "C16.mandatory.lock: the mandatory-concurrency flag is written only under the writer lock"); (self)->my_is_mandatory_concurrency_enabled = (v); } while (0)
static void STUB_serializer_set_active_num_workers(struct proxy *self, int v) {
    OBLIGATION(g_mode == 2, "C16.mandatory.lock: the serializer's limit is changed only under the proxy's writer lock");
    self->my_serializer.my_soft_limit = v; g_sets++;
    if (g_user_call) g_U = g_user_arg;              /* the user's limit is in force from here */
}
#define ATOMIC_FETCH_ADD_AT(site, x, v) ({ OBLIGATION(g_mode != 0, "C16.mandatory.lock: the request counter moves only inside a section of the proxy mutex (a writer sees it stable)"); \
      if (g_mode == 1) interfere_readers(); int old_ = (x); int v_ = (v); (x) += v_; \
      if (v_ > 0 && old_ == 0) { g_pend_en++; g_me_en = true; } if (v_ < 0 && old_ == 1) { g_pend_dis++; g_me_dis = true; } \
      __CPROVER_assume(-NUMMAX < (x) && (x) < NUMMAX && g_pend_en < NUMMAX && g_pend_dis < NUMMAX); \
      __CPROVER_assert(Q_ON && Q_OFF, "C16.mandatory: guarantee: a counter movement keeps the census of pending switch attempts"); old_; })
#define ATOMIC_LOAD_AT(site, x) ({ if (g_mode == 1) interfere_readers(); (x); })
#define ATOMIC_LOAD(x) ATOMIC_LOAD_AT(plain, x)
#include "proxy.inc"
int IN_delta, IN_soft;
static void mk_proxy(struct proxy *p) {
    g_p = p; p->my_mutex = 0; g_mode = 0; g_locks = g_upgrades = g_sets = 0; g_me_en = g_me_dis = false; g_user_call = false; g_user_arg = 0; g_domain = 0;
    interfere_all();
}
void h_proxy_register(void) {
    struct proxy p; mk_proxy(&p);
    int delta = IN_delta = nondet_int(); __CPROVER_assume(-1 <= delta && delta <= 1);        /* market::adjust_demand asserts the range; arena::advertise_new_work / out_of_work send -1, 0, +1 */
    int U0 = g_U;
    proxy_register_mandatory_request(&p, delta);
    OBLIGATION(g_mode == 0 && g_locks == (delta != 0 ? 1 : 0) && g_upgrades <= 1 && !g_me_en && !g_me_dis, "C16.mandatory.lock: the proxy mutex is taken at most once and released; a switch attempt this call owed has been made");
    OBLIGATION(g_sets <= 1, "C16.mandatory: one call changes the serializer's limit at most once");
    VACUITY_END();
}
void h_proxy_set_active(void) {
    struct proxy p; mk_proxy(&p);
    int soft = IN_soft = nondet_int(); __CPROVER_assume(soft >= 0 && soft < NUMMAX);
    g_user_call = true; g_user_arg = soft;
#ifdef PENDING_DISABLE
    g_domain = 2;
#else
    g_domain = 1;
#endif
    proxy_set_active_num_workers(&p, soft);
    OBLIGATION(g_mode == 0 && g_locks == 1 && g_sets == 1 && g_U == soft, "C16.mandatory.lock: the proxy mutex is taken once and released; the serializer is told a limit exactly once");
    if (soft != 0) OBLIGATION(!P_EN && P_SOFT == soft, "C16.mandatory: a raised limit gives the mandatory worker back: the flag is off and the serializer's limit is the user's");
    else if (P_NUM > 0) OBLIGATION(P_EN && P_SOFT == 1, "C16.mandatory: limit 0 with a registered mandatory request: exactly one worker may be requested");
    else OBLIGATION(P_SOFT == 0, "C16.mandatory: limit 0 without a mandatory request: no worker may be requested");
    VACUITY_END();
}
#endif

#ifdef PLUMB
/* threading_control_impl::set_active_num_workers / adjust_demand, threading_control::set_active_num_workers: the limit decided by global_control reaches both the
   serializer proxy and the permit manager unchanged; a mandatory delta is registered with the proxy and handed to the permit manager unchanged */
struct tc_impl { unsigned hard_limit; }; struct tc_client { void *pm_client; }; struct tcontrol { int id; };
static int g_px_calls, g_pm_calls, g_px_arg, g_pm_arg, g_order, g_rmr_calls, g_rmr_arg, g_ad_calls, g_ad_md, g_ad_wd; static void *g_ad_c;
static void STUB_proxy_set_active_num_workers(struct tc_impl *s, int v) { g_px_calls++; g_px_arg = v; }
static void STUB_pm_set_active_num_workers(struct tc_impl *s, int v) { g_pm_calls++; g_pm_arg = v; }
static void STUB_proxy_register_mandatory_request(struct tc_impl *s, int md) { g_rmr_calls++; g_rmr_arg = md; }
static void STUB_pm_adjust_demand(struct tc_impl *s, void *c, int md, int wd) { g_ad_calls++; g_ad_c = c; g_ad_md = md; g_ad_wd = wd; }
static int g_locked, g_lock_calls, g_refs, g_pimpl_calls; static unsigned g_pimpl_arg; static struct tcontrol g_tc, *g_exists; static int g_threading_control_mutex;
#define LOCK_MUTEX(m) do { __CPROVER_assert(!g_locked, "C16.limit: the global threading-control mutex is not taken twice"); g_locked = 1; g_lock_calls++; } while (0)
#define UNLOCK_MUTEX(m) do { __CPROVER_assert(g_locked, "C16.limit: unlock of a held mutex"); g_locked = 0; } while (0)
static struct tcontrol *STUB_get_threading_control(bool is_public) { OBLIGATION(g_locked && !is_public, "C16.limit: the threading control is looked up under the global mutex, with a private reference"); if (g_exists) g_refs++; return g_exists; }
static void STUB_pimpl_set_active_num_workers(struct tcontrol *t, unsigned v) { g_pimpl_calls++; g_pimpl_arg = v; OBLIGATION(t == g_exists && g_refs == 1, "C16.limit: the limit is applied to the live threading control, while the reference taken protects it"); }
static bool STUB_tc_release(struct tcontrol *t, bool is_public, bool blocking) { OBLIGATION(t == g_exists && !is_public && !blocking && g_pimpl_calls == 1, "C16.limit: the private reference is released after the limit was applied"); g_refs--; return false; }
struct uint_pair { unsigned first, second; };
static size_t g_app; static unsigned g_ncpu_p;
static size_t STUB_active_parallelism(void) { return g_app; }
static unsigned STUB_default_num_threads(void) { return g_ncpu_p; }
#include "plumbing.inc"
size_t IN_app; unsigned IN_ncpu;
void h_tci_limits(void) {
    g_app = IN_app = nondet_size_t(); g_ncpu_p = IN_ncpu = nondet_unsigned();
    /* the active max_allowed_parallelism is >= 1 (controls carry values >= 1, the default is max(1, default_num_threads)) and fits an unsigned (listed assumption) */
    __CPROVER_assume(g_app >= 1 && g_app <= UINT_MAX && g_ncpu_p >= 1 && g_ncpu_p <= (1u << 20));
    struct uint_pair r = tci_calculate_workers_limits();
    OBLIGATION((size_t)r.first + 1 <= g_app, "C16.limit: a new threading control starts with at most L - 1 workers for the max_allowed_parallelism L in force");
    OBLIGATION((size_t)r.first + 1 == g_app || (size_t)r.first + 1 >= r.second, "C16.limit: the initial soft limit is exactly L - 1 unless the hard limit of worker threads caps it");
    VACUITY_END();
}
void h_tci_soft_limit(void) {
    g_app = IN_app = nondet_size_t(); g_ncpu_p = IN_ncpu = nondet_unsigned(); unsigned hard = nondet_unsigned();
    __CPROVER_assume(g_app >= 1 && g_app <= UINT_MAX && g_ncpu_p >= 1 && hard >= 1);
    unsigned r = tci_calc_workers_soft_limit(hard);
    OBLIGATION((size_t)r + 1 <= g_app, "C16.limit: the soft limit computed for any hard limit is at most L - 1");
    OBLIGATION((size_t)r + 1 == g_app || (size_t)r + 1 >= hard, "C16.limit: the soft limit is exactly L - 1 unless the hard limit of worker threads caps it");
    VACUITY_END();
}
void h_tci_set_active(void) {
    struct tc_impl t; t.hard_limit = nondet_unsigned(); unsigned soft = nondet_unsigned();
    __CPROVER_assume(soft <= t.hard_limit && soft <= (unsigned)INT_MAX);        /* in-code assertion; assumed of the caller (see assumptions) */
    g_px_calls = g_pm_calls = 0;
    tci_set_active_num_workers(&t, soft);
    OBLIGATION(g_px_calls == 1 && g_pm_calls == 1 && (unsigned)g_px_arg == soft && (unsigned)g_pm_arg == soft, "C16.limit: a new soft limit reaches the serializer proxy and the permit manager, once each, unchanged");
    VACUITY_END();
}
void h_tci_adjust_demand(void) {
    struct tc_impl t; struct tc_client c; c.pm_client = nondet_ptr(); int md = nondet_int(), wd = nondet_int();
    g_rmr_calls = g_ad_calls = 0;
    tci_adjust_demand(&t, c, md, wd);
    OBLIGATION(g_rmr_calls == 1 && g_rmr_arg == md && g_ad_calls == 1 && g_ad_c == c.pm_client && g_ad_md == md && g_ad_wd == wd, "C16.mandatory: one demand change registers its mandatory delta with the proxy and reaches the permit manager with the same deltas for the same client");
    VACUITY_END();
}
void h_tc_set_active(void) {
    g_exists = nondet_bool() ? &g_tc : NULL; g_locked = g_lock_calls = g_refs = g_pimpl_calls = 0; unsigned soft = nondet_unsigned();
    tc_set_active_num_workers(soft);
    OBLIGATION(!g_locked && g_lock_calls == 1 && g_refs == 0, "C16.limit: the global mutex is released and the private reference given back");
    OBLIGATION(g_pimpl_calls == (g_exists ? 1 : 0) && (!g_exists || g_pimpl_arg == soft), "C16.limit: the limit is forwarded unchanged exactly when a threading control exists");
    VACUITY_END();
}
#endif

#ifdef JOIN
/* the arena's reference word my_references = workers inside << 12 | external references: num_workers_active, is_recall_requested, is_joinable, try_join,
   on_thread_leaving.  Rely/guarantee on the one word for any number of other threads (SC): ghost census g_wrk / g_ext of the worker / external references held,
   g_me_wrk / g_me_ext mine.  INV_R: word == g_wrk * 4096 + g_ext, g_ext <= 4095 (assumed: fewer than 4096 external references, the width of the field),
   my own references are counted.  The allotment my_num_workers_allotted is changed by the market at any time.
   try_join is check-then-add (no CAS): what holds is that a worker adds its reference only after it SAW fewer workers inside than allotted. */
#include "join_defs.inc"
struct tcontrol_j { int id; }; struct snapshot_j { int epoch; };
struct arena_j { unsigned my_references, my_num_workers_allotted; struct tcontrol_j *my_threading_control; };
static struct arena_j *g_a; static long g_wrk, g_ext, g_me_wrk, g_me_ext; static bool g_gone; static int g_adds, g_subs; static unsigned g_seen_active, g_seen_allot, g_sub_val, g_remaining;
#define WMAX (1L << 19)
#define INV_R (0 <= g_ext && g_ext <= 4095 && 0 <= g_wrk && g_wrk < WMAX && g_me_wrk <= g_wrk && g_me_ext <= g_ext && (long)g_a->my_references == g_wrk * 4096 + g_ext)
static void interfere(void) {
    __CPROVER_assert(!g_gone, "C16.join: the arena is not touched after this thread gave its reference back (another thread may have destroyed it)");
    g_a->my_references = nondet_unsigned(); g_a->my_num_workers_allotted = nondet_unsigned(); g_wrk = nondet_long(); g_ext = nondet_long();
    __CPROVER_assume(INV_R);
}
#define ATOMIC_LOAD_AT(site, x) ({ interfere(); if (&(x) == &self->my_references) g_seen_active = (x) >> 12; else g_seen_allot = (x); (x); })
#define ATOMIC_FETCH_ADD_AT(site, x, v) ({ interfere(); unsigned old_ = (x), v_ = (v); g_adds++; \
      if (v_ == ref_worker) { __CPROVER_assume(g_wrk + 1 < WMAX); g_wrk++; g_me_wrk++; } else if (v_ == ref_external) { __CPROVER_assume(g_ext + 1 <= 4095); g_ext++; g_me_ext++; } \
      else OBLIGATION(0, "C16.join: guarantee: only whole worker / external references are added to the word"); \
      (x) = old_ + v_; __CPROVER_assert(INV_R, "C16.join: guarantee: the word is workers inside * 4096 + external references"); old_; })
#define ATOMIC_FETCH_SUB_AT(site, x, v) ({ interfere(); unsigned old_ = (x), v_ = (v); g_subs++; g_sub_val = v_; \
      if (v_ == ref_worker) { OBLIGATION(g_me_wrk >= 1, "C16.join: guarantee: a thread gives back only a worker reference it holds"); g_wrk--; g_me_wrk--; } \
      else if (v_ == ref_external) { OBLIGATION(g_me_ext >= 1, "C16.join: guarantee: a thread gives back only an external reference it holds"); g_ext--; g_me_ext--; } \
      else OBLIGATION(0, "C16.join: guarantee: only whole worker / external references are taken from the word"); \
      (x) = old_ - v_; __CPROVER_assert(INV_R, "C16.join: guarantee: the word is workers inside * 4096 + external references"); g_remaining = (x); g_gone = true; old_; })
static int g_oow, g_prep, g_try, g_free; static bool g_mand, g_destroy_ok;
static bool STUB_mandatory_test(struct arena_j *a) { __CPROVER_assert(!g_gone, "C16.join: the arena is not touched after the reference was given back"); return g_mand; }
static void STUB_out_of_work(struct arena_j *a) { g_oow++; OBLIGATION(!g_gone, "C16.join: out_of_work runs while this thread's reference still protects the arena"); }
static struct snapshot_j STUB_prepare_client_destruction(struct tcontrol_j *tc, struct arena_j *a) { g_prep++; OBLIGATION(!g_gone, "C16.join: the destruction snapshot is taken while this thread's reference still protects the arena"); struct snapshot_j s; s.epoch = nondet_int(); return s; }
static bool STUB_try_destroy_client(struct tcontrol_j *tc, struct snapshot_j s) { g_try++; return g_destroy_ok; }
static void STUB_free_arena(struct arena_j *a) { g_free++; }
#include "join.inc"
static struct arena_j *mk_arena_j(void) {
    struct arena_j *a = malloc(sizeof(struct arena_j)); __CPROVER_assume(a != NULL);
    static struct tcontrol_j tc; a->my_threading_control = &tc;
    g_a = a; g_gone = false; g_adds = g_subs = 0; g_me_wrk = g_me_ext = 0; g_oow = g_prep = g_try = g_free = 0; g_mand = nondet_bool(); g_destroy_ok = nondet_bool();
    a->my_references = nondet_unsigned(); a->my_num_workers_allotted = nondet_unsigned(); g_wrk = nondet_long(); g_ext = nondet_long(); __CPROVER_assume(INV_R);
    return a;
}
void h_try_join(void) {
    struct arena_j *a = mk_arena_j();
    bool r = arena_try_join(a);
    OBLIGATION(r == (g_adds == 1) && g_adds <= 1 && g_subs == 0 && g_me_wrk == (r ? 1 : 0) && g_me_ext == 0, "C16.join: try_join returns true exactly when it added ONE worker reference for the caller; a refused worker leaves the word alone");
    OBLIGATION(r == (g_seen_active < g_seen_allot), "C16.join: a worker joins only after it saw fewer workers inside the arena than the arena is allotted, and is refused otherwise");
    VACUITY_END();
}
void h_is_recall_requested(void) {
    struct arena_j *a = mk_arena_j(); g_me_wrk = 1; __CPROVER_assume(g_wrk >= 1);
    bool r = arena_is_recall_requested(a);
    OBLIGATION(r == (g_seen_active > g_seen_allot) && g_adds == 0 && g_subs == 0, "C16.join: a worker is recalled exactly when it sees more workers inside than allotted; the test changes nothing");
    VACUITY_END();
}
void h_on_thread_leaving(void) {
    struct arena_j *a = mk_arena_j(); bool worker = nondet_bool(); unsigned ref_param = worker ? ref_worker : ref_external;
    if (worker) { g_me_wrk = 1; __CPROVER_assume(g_wrk >= 1); } else { g_me_ext = 1; __CPROVER_assume(g_ext >= 1); }     /* the leaving thread holds the reference it gives back */
    arena_on_thread_leaving(a, ref_param);
    OBLIGATION(g_subs == 1 && g_sub_val == ref_param && g_adds == 0 && g_me_wrk == 0 && g_me_ext == 0, "C16.join: a leaving thread gives back exactly the one reference it holds (worker or external), once");
    OBLIGATION(g_try == 0 || (g_try == 1 && g_remaining == 0), "C16.join: the arena is offered for destruction only by the thread whose decrement brought the reference word to 0 (nobody inside any more), once");
    OBLIGATION(g_free == ((g_try == 1 && g_destroy_ok) ? 1 : 0), "C16.join: the arena is freed only when the threading control agreed to destroy it");
    VACUITY_END();
}
#endif

#ifdef REG
/* market::register_client / unregister_and_destroy_client.  The per-level client lists (std::vector<pm_client*>) are abstract: membership flags for the client c
   the call is about and for one arbitrary other client k, plus a length per list.  TRUSTED: push_back appends, std::find returns the first position holding the
   pointer or end(), erase removes the element at the position. */
#define NPL 3
struct pmclient_g { unsigned level; };
struct cvec { int id; };
struct market_g { int my_mutex; struct cvec my_clients[NPL]; };
typedef struct pmclient_g *vec_iter;
static struct market_g *g_m; static struct pmclient_g g_cc, g_kk; static bool g_in[NPL][2]; static long g_len[NPL]; static int g_locked, g_lock_calls, g_pushes, g_erases, g_dtor, g_dealloc;
#define PMC_PRIORITY_LEVEL(c) ((c)->level)
#define LOCK_MUTEX(m) do { __CPROVER_assert(!g_locked && &(m) == &g_m->my_mutex, "C16.register: the market mutex is taken, not twice"); g_locked = 1; g_lock_calls++; } while (0)
#define UNLOCK_MUTEX(m) do { __CPROVER_assert(g_locked, "C16.register: unlock of a held mutex"); g_locked = 0; } while (0)
static unsigned vec_level(struct cvec *v) { __CPROVER_assert(v >= &g_m->my_clients[0] && v <= &g_m->my_clients[NPL - 1], "C16.register: the list is one of the market's per-level client lists"); return (unsigned)(v - &g_m->my_clients[0]); }
#define WHO(p) ((p) == &g_cc ? 0 : 1)
static void VEC_PUSH_BACK(struct cvec *v, struct pmclient_g *p) { OBLIGATION(g_locked, "C16.register: the client lists change only under the market mutex"); unsigned l = vec_level(v); g_in[l][WHO(p)] = true; g_len[l]++; g_pushes++; }
static vec_iter VEC_FIND(struct cvec *v, struct pmclient_g *p) { OBLIGATION(g_locked, "C16.register: the client lists are searched under the market mutex"); return g_in[vec_level(v)][WHO(p)] ? p : NULL; }
#define VEC_END(v) ((vec_iter)NULL)
static void VEC_ERASE(struct cvec *v, vec_iter it) { OBLIGATION(g_locked, "C16.register: the client lists change only under the market mutex"); unsigned l = vec_level(v);
    OBLIGATION(it != NULL && g_in[l][WHO(it)], "C16.register: erase is given the position of a listed client"); g_in[l][WHO(it)] = false; g_len[l]--; g_erases++; }
static void STUB_client_dtor(struct pmclient_g *c) { g_dtor++; OBLIGATION(!g_locked && c == &g_cc && !g_in[0][0] && !g_in[1][0] && !g_in[2][0], "C16.register: the client object is destroyed only after it left the market's lists, outside the mutex"); }
static void STUB_deallocate(struct pmclient_g *c) { g_dealloc++; OBLIGATION(g_dtor == 1 && c == &g_cc, "C16.register: the storage is released after the destructor ran"); }
#include "register.inc"
static bool g_in0[NPL][2]; static long g_len0[NPL];
static void mk_market_g(struct market_g *m) {
    g_m = m; g_cc.level = nondet_unsigned(); g_kk.level = nondet_unsigned(); __CPROVER_assume(g_cc.level < NPL && g_kk.level < NPL);    /* arena priority level < num_priority_levels */
    for (int l = 0; l < NPL; l++) { g_in[l][0] = g_in[l][1] = false; g_len[l] = nondet_long(); __CPROVER_assume(0 <= g_len[l] && g_len[l] < (1L << 30)); }
    g_in[g_kk.level][1] = nondet_bool();                         /* a registered client sits in the list of its own level */
    g_locked = g_lock_calls = g_pushes = g_erases = g_dtor = g_dealloc = 0;
}
static void snap(void) { for (int l = 0; l < NPL; l++) { g_in0[l][0] = g_in[l][0]; g_in0[l][1] = g_in[l][1]; g_len0[l] = g_len[l]; } }
#define K_UNCHANGED (g_in[0][1] == g_in0[0][1] && g_in[1][1] == g_in0[1][1] && g_in[2][1] == g_in0[2][1])
void h_register_client(void) {
    struct market_g m; mk_market_g(&m); snap();
    market_register_client(&m, &g_cc);
    OBLIGATION(!g_locked && g_lock_calls == 1, "C16.register: the market mutex is taken once and released");
    OBLIGATION(g_pushes == 1 && g_erases == 0 && g_in[g_cc.level][0] && g_len[g_cc.level] == g_len0[g_cc.level] + 1, "C16.register: the client is appended to the client list of its OWN priority level (the level whose demand its requests are added to)");
    OBLIGATION((g_cc.level == 0 || !g_in[0][0]) && (g_cc.level == 1 || !g_in[1][0]) && (g_cc.level == 2 || !g_in[2][0]) && K_UNCHANGED, "C16.register: no other list and no other client is touched");
    VACUITY_END();
}
void h_unregister_client(void) {
    struct market_g m; mk_market_g(&m); g_in[g_cc.level][0] = true; __CPROVER_assume(g_len[g_cc.level] >= 1); snap();     /* the client was registered (in-code assertion) */
    market_unregister_and_destroy_client(&m, &g_cc);
    OBLIGATION(!g_locked && g_lock_calls == 1, "C16.register: the market mutex is taken once and released");
    OBLIGATION(g_erases == 1 && g_pushes == 0 && !g_in[0][0] && !g_in[1][0] && !g_in[2][0] && g_len[g_cc.level] == g_len0[g_cc.level] - 1 && K_UNCHANGED, "C16.register: exactly the given client leaves the list of its level; no other client is touched");
    OBLIGATION(g_dtor == 1 && g_dealloc == 1, "C16.register: the client object is destroyed and released exactly once");
    VACUITY_END();
}
#endif
