/* C16 harnesses (sliced from src/tbb: thread_request_serializer.cpp, task_dispatcher.h, arena.cpp, arena_slot.h) */
#include "verif.h"
#include <stdlib.h>

#ifdef LD
#include "limit_delta.inc"
int IN_delta, IN_limit, IN_new;
void h_limit_delta(void) {
    int delta = IN_delta = nondet_int(), limit = IN_limit = nondet_int(), nv = IN_new = nondet_int();
    __CPROVER_assume(delta > -(1 << 30) && delta < (1 << 30) && nv > -(1 << 30) && nv < (1 << 30) && limit > -(1 << 30) && limit < (1 << 30));
    int r = limit_delta(delta, limit, nv);
    long prev = (long)nv - delta, gn = nv < limit ? nv : limit, gp = prev < limit ? prev : limit;
    OBLIGATION((long)r == gn - gp, "C16.budget: limit_delta is the change in GRANTED workers: min(limit,new) - min(limit,new-delta)");
    OBLIGATION(!(nv >= limit && prev >= limit) || r == 0, "C16.budget: no change is passed on while the request stays above the limit");
    OBLIGATION(!(nv <= limit && prev <= limit) || r == delta, "C16.budget: below the limit the delta passes unchanged");
    VACUITY_END();
}
#endif

#ifdef CRIT
typedef size_t isolation_type;
typedef struct task { void *context; isolation_type isolation; } task;
typedef struct execution_data_ext { void *context; isolation_type isolation; } execution_data_ext;
struct task_dispatcher { struct { bool critical_task_allowed; } m_properties; };
task *g_crit; int g_spawns; task *g_spawned; void *g_spawn_ctx; isolation_type g_spawn_iso; int g_notified;
static task *STUB_arena_get_critical_task(isolation_type iso) { return g_crit; }
/* r1::spawn stamps the task with the isolation the dispatcher is running under at that moment */
static void STUB_spawn(task *t, void *ctx, execution_data_ext *ed) { g_spawns++; g_spawned = t; g_spawn_ctx = ctx; g_spawn_iso = ed->isolation; }
static void STUB_notify_entry_observers(void) { g_notified++; }
#include "critical.inc"
void h_critical(void) {
    struct task_dispatcher d; execution_data_ext ed; task crit, held; bool allowed = nondet_bool();
    d.m_properties.critical_task_allowed = allowed;                       /* in-code precondition: critical_allowed || !m_properties.critical_task_allowed */
    ed.context = nondet_ptr(); ed.isolation = nondet_size_t();
    crit.context = nondet_ptr(); crit.isolation = nondet_size_t(); held.context = ed.context; held.isolation = ed.isolation;   /* a task taken just before runs under its own context/isolation */
    g_crit = nondet_bool() ? &crit : NULL; task *t = nondet_bool() ? &held : NULL;
    bool critical_allowed = nondet_bool(); __CPROVER_assume(critical_allowed || !allowed);
    void *ctx0 = ed.context; isolation_type iso0 = ed.isolation; isolation_type waiter_iso = nondet_size_t();
    g_spawns = g_notified = 0;
    task *r = get_critical_task(&d, t, &ed, waiter_iso, critical_allowed);
    if (!critical_allowed) OBLIGATION(r == t && g_spawns == 0 && ed.context == ctx0 && ed.isolation == iso0, "C16.critical: while a critical task runs on this stack nothing is taken and nothing changes");
    else if (g_crit == NULL) OBLIGATION(r == t && g_spawns == 0 && ed.context == ctx0 && ed.isolation == iso0 && d.m_properties.critical_task_allowed, "C16.critical: no critical work: the task in hand is kept untouched");
    else {
        OBLIGATION(r == &crit && ed.context == crit.context && ed.isolation == crit.isolation && !d.m_properties.critical_task_allowed, "C16.critical: the critical task is run under its own context and isolation");
        if (t != NULL) {
            OBLIGATION(g_spawns == 1 && g_spawned == t && g_spawn_ctx == ctx0, "C16.critical: the task in hand is re-spawned exactly once, in its own context");
            OBLIGATION(g_spawn_iso == iso0, "C16.isolation: the displaced task is re-spawned under ITS OWN isolation tag, not the critical task's (an isolated waiter must never be able to pick it up)");
        } else OBLIGATION(g_spawns == 0, "C16.critical: nothing to re-spawn");
    }
    VACUITY_END();
}
#endif

#ifdef SLOTS
#define out_of_arena (~(size_t)0)
struct slot { bool my_is_occupied; };
struct thread_data { size_t my_arena_index; };
struct arena { struct slot *my_slots; unsigned my_num_slots, my_num_reserved_slots; unsigned my_limit; };
static size_t STUB_random_get(void) { return nondet_size_t(); }
/* rely: any other thread may occupy or release any slot at any time; guarantee: a slot is returned only after THIS caller's exchange flipped false->true */
unsigned long g_claims; struct slot *g_claimed; unsigned g_limit_seen;
#define ATOMIC_LOAD_AT(site, f) ({ (f) = nondet_bool(); (f); })
#define ATOMIC_XCHG_AT(site, f, v) ({ (f) = nondet_bool(); bool old_ = (f); (f) = (v); if (!old_) { g_claims++; g_claimed = self; } old_; })
#define ATOMIC_UPDATE_MAX(f, v) do { unsigned grow_ = nondet_unsigned(); if (grow_ >= (f)) (f) = grow_; /* others only raise my_limit */ if ((f) < (v)) (f) = (v); } while (0)
#define LOOP_ofs_1 __CPROVER_assigns(i, g_claims, g_claimed, __CPROVER_object_whole(self->my_slots)) __CPROVER_loop_invariant(i >= index && i <= upper && g_claims == 0) __CPROVER_decreases(upper - i)
#define LOOP_ofs_2 __CPROVER_assigns(i, g_claims, g_claimed, __CPROVER_object_whole(self->my_slots)) __CPROVER_loop_invariant(i >= lower && i <= index && g_claims == 0) __CPROVER_decreases(index - i)
#include "slots.inc"
static void mk_arena(struct arena *a) {
    a->my_num_slots = nondet_unsigned(); a->my_num_reserved_slots = nondet_unsigned(); a->my_limit = nondet_unsigned();
    __CPROVER_assume(a->my_num_slots >= 1 && a->my_num_slots <= (1u << 12) && a->my_num_reserved_slots <= a->my_num_slots && a->my_limit <= a->my_num_slots);
    a->my_slots = malloc(a->my_num_slots * sizeof(struct slot)); __CPROVER_assume(a->my_slots != NULL);
    g_claims = 0; g_claimed = NULL;
}
void h_try_occupy(void) {
    struct slot s; s.my_is_occupied = nondet_bool(); g_claims = 0; g_claimed = NULL;
    bool ok = slot_try_occupy(&s);
    OBLIGATION(ok == (g_claims == 1), "C16.slot: try_occupy returns true iff this caller's own exchange flipped the flag false->true (unique occupant among any number of callers)");
    OBLIGATION(!ok || s.my_is_occupied, "C16.slot: an occupied slot is marked occupied");
    VACUITY_END();
}
size_t IN_lower, IN_upper, IN_hint;
void h_in_range(void) {
    struct arena a; mk_arena(&a); struct thread_data tls; tls.my_arena_index = IN_hint = nondet_size_t();
    size_t lower = IN_lower = nondet_size_t(), upper = IN_upper = nondet_size_t(); __CPROVER_assume(upper <= a.my_num_slots);
    size_t r = arena_occupy_free_slot_in_range(&a, &tls, lower, upper);
    OBLIGATION(r == out_of_arena || (r >= lower && r < upper), "C16.slot: the returned index is out_of_arena or lies in [lower, upper)");
    OBLIGATION(r == out_of_arena ? g_claims == 0 : (g_claims == 1 && g_claimed == &a.my_slots[r]), "C16.slot: exactly the returned slot was claimed by this caller, and no other slot is left claimed");
    VACUITY_END();
}
void h_occupy(void) {
    struct arena a; mk_arena(&a); struct thread_data tls; tls.my_arena_index = IN_hint = nondet_size_t();
    bool as_worker = nondet_bool(); unsigned limit0 = a.my_limit;
    size_t r = arena_occupy_free_slot(&a, &tls, as_worker);
    OBLIGATION(r == out_of_arena || r < a.my_num_slots, "C16.slot: a slot index is inside the arena");
    OBLIGATION(!(as_worker && r != out_of_arena) || r >= a.my_num_reserved_slots, "C16.slot: a worker never gets a reserved slot");
    OBLIGATION(r == out_of_arena ? g_claims == 0 : (g_claims == 1 && g_claimed == &a.my_slots[r]), "C16.slot: exactly the returned slot was claimed");
    OBLIGATION(a.my_limit >= limit0 && (r == out_of_arena || a.my_limit >= r + 1), "C16.slot: my_limit only grows and covers the occupied slot");
    VACUITY_END();
}
#endif
