// C16 native recipe for the global_control bookkeeping (jobs gcontrol.*.parallelism): public API only, on a libtbb compiled from the current /repo/src/tbb.
// replay() uses it for max_allowed_parallelism only.  The modes `stack_size` and `terminate` document an OBSERVATION OUTSIDE property C16 (which speaks about
// max_allowed_parallelism only): control_storage_comparator orders every list by ascending value and destroy() takes *begin(), so for the parameters that prefer
// the LARGER value the active value falls to the MINIMUM of the live controls (e.g. live {8 MB, 12 MB} after destroying 16 MB -> 8 MB).
//   c16_replay_gc <parameter: parallelism|stack_size|terminate> [v0 v1 v2 v3]
// Scenario: controls with the values v1, v2, v3 are created, then the subject v0; the subject is destroyed again; after every step the value reported by
// global_control::active_value() is compared with the extremum the documentation prescribes over the LIVE controls (max_allowed_parallelism: minimum,
// thread_stack_size: maximum, terminate_on_exception: maximum of 0/1).  The verifier's values are tried first, then a few fixed orders.
#include <oneapi/tbb/global_control.h>
#include <cstdio>
#include <cstdlib>
#include <cstring>
#include <memory>
#include <vector>
#include <algorithm>
using tbb::global_control;

static bool prefer_min;
static size_t extremum(const std::vector<size_t>& live) { return prefer_min ? *std::min_element(live.begin(), live.end()) : *std::max_element(live.begin(), live.end()); }

static bool scenario(global_control::parameter p, const char* pname, const std::vector<size_t>& vals, const std::vector<int>& destroy_order) {
    std::vector<std::unique_ptr<global_control>> ctl;
    std::vector<size_t> live;
    std::vector<bool> alive(vals.size(), true);
    for (size_t v : vals) {
        ctl.emplace_back(new global_control(p, v)); live.push_back(v);
        size_t act = global_control::active_value(p), want = extremum(live);
        if (act != want) {
            printf("REPRODUCED class=global-control-extremum parameter=%s after creating a control with value %zu: live controls {", pname, v);
            for (size_t x : live) printf(" %zu", x);
            printf(" } active_value()=%zu, prescribed %s=%zu\n", act, prefer_min ? "minimum" : "maximum", want);
            return true;
        }
    }
    for (int d : destroy_order) {
        size_t gone = vals[d];
        ctl[d].reset(); alive[d] = false;
        live.clear();
        for (size_t i = 0; i < vals.size(); ++i) if (alive[i]) live.push_back(vals[i]);
        if (live.empty()) break;
        size_t act = global_control::active_value(p), want = extremum(live);
        if (act != want) {
            printf("REPRODUCED class=global-control-extremum parameter=%s after destroying the control with value %zu: live controls {", pname, gone);
            for (size_t x : live) printf(" %zu", x);
            printf(" } active_value()=%zu, prescribed %s=%zu (destroy takes *my_list.begin(), and control_storage_comparator orders every list by ascending value)\n",
                   act, prefer_min ? "minimum" : "maximum", want);
            return true;
        }
    }
    return false;
}

int main(int argc, char** argv) {
    if (argc < 2) return 2;
    global_control::parameter p; const char* pname;
    if (!strcmp(argv[1], "parallelism")) { p = global_control::max_allowed_parallelism; pname = "max_allowed_parallelism"; prefer_min = true; }
    else if (!strcmp(argv[1], "stack_size")) { p = global_control::thread_stack_size; pname = "thread_stack_size"; prefer_min = false; }
    else if (!strcmp(argv[1], "terminate")) { p = global_control::terminate_on_exception; pname = "terminate_on_exception"; prefer_min = false; }
    else { printf("no public parameter for %s\n", argv[1]); return 2; }
    std::vector<std::vector<size_t>> tries;
    if (argc >= 6) {
        std::vector<size_t> v; for (int i = 3; i < 6; ++i) v.push_back(strtoull(argv[i], nullptr, 0)); v.push_back(strtoull(argv[2], nullptr, 0));   // others first, subject last
        if (p == global_control::max_allowed_parallelism) for (auto& x : v) if (x == 0 || x > 1000) x = 1 + x % 1000;
        tries.push_back(v);
    }
    size_t MB = 1 << 20;
    if (p == global_control::thread_stack_size) { tries.push_back({8 * MB, 12 * MB, 16 * MB}); tries.push_back({16 * MB, 8 * MB, 12 * MB}); }
    else if (p == global_control::terminate_on_exception) { tries.push_back({1, 0, 1}); tries.push_back({0, 1, 1}); }
    else { tries.push_back({4, 2, 3}); tries.push_back({2, 4, 3}); }
    for (auto& v : tries) {
        std::vector<int> idx(v.size());
        for (size_t i = 0; i < v.size(); ++i) idx[i] = (int)i;
        // destroy the subject (last created) first, then every other order
        std::vector<int> order(idx.rbegin(), idx.rend());
        if (scenario(p, pname, v, order)) return 1;
        std::sort(idx.begin(), idx.end());
        do { if (scenario(p, pname, v, idx)) return 1; } while (std::next_permutation(idx.begin(), idx.end()));
    }
    printf("not-reproduced parameter=%s: active_value() was the prescribed extremum over the live controls after every create/destroy\n", pname);
    return 0;
}
