"""C16 -- arenas: slot range/uniqueness, isolation-preserving critical-task pickup, granted-worker delta."""
import os
import sys
import re
HERE = os.path.dirname(os.path.abspath(__file__))
sys.path.insert(0, os.path.join(HERE, '..'))
sys.path.insert(0, os.path.join(HERE, '..', '..', 'tools'))
import common
import native
import cxx2c
from cxx2c import Rewriter, slice_block, tag_loops, ExtractionBreak, load
from prove import Job

TRS = 'src/tbb/thread_request_serializer.cpp'
TD = 'src/tbb/task_dispatcher.h'
AR = 'src/tbb/arena.cpp'
AS = 'src/tbb/arena_slot.h'


def extract(ctx):
    sliced, fired = [], {}
    rw = Rewriter('arena')
    s = slice_block(TRS, r'int thread_request_serializer::limit_delta\(int delta, int limit, int new_value\)')
    sliced.append('%s:%d thread_request_serializer::limit_delta' % (TRS, s.line))
    t = rw.sub(s.text, r'int thread_request_serializer::limit_delta\(', 'int limit_delta(', 1, 1, name='sig')
    t = rw.sub(t, r'\bmin\(', 'VERIF_min(', 2, 2, name='std::min')
    common.write(ctx, 'limit_delta.inc', t + '\n')
    # get_critical_task
    s = slice_block(TD, r'inline d1::task\* task_dispatcher::get_critical_task\(d1::task\* t, execution_data_ext& ed, isolation_type isolation, bool critical_allowed\)')
    sliced.append('%s:%d task_dispatcher::get_critical_task' % (TD, s.line))
    t = rw.sub(s.text, r'inline d1::task\* task_dispatcher::get_critical_task\(d1::task\* t, execution_data_ext& ed, isolation_type isolation, bool critical_allowed\)',
               'task* get_critical_task(struct task_dispatcher* self, task* t, execution_data_ext* ed, isolation_type isolation, bool critical_allowed)', 1, 1, name='sig')
    t = rw.sub(t, r'\bed\.', 'ed->', 4, name='ref-param')
    t = rw.sub(t, r'\bm_properties\.', 'self->m_properties.', 4, name='field')
    t = rw.sub(t, r'assert_pointers_valid\([^;]*\);', 'RG_NOP();', 1, 1, name='debug check -> RG_NOP')
    t = rw.sub(t, r'assert_task_valid\(crit_t\);', 'RG_NOP();', 1, 1, name='debug check -> RG_NOP')
    t = rw.sub(t, r'assert_pointer_valid</\*alignment = \*/alignof\(void\*\)>\(ed->context\);', 'RG_NOP();', 0, name='debug check -> RG_NOP')
    t = rw.sub(t, r'assert_pointer_valid<[^;]*;', 'RG_NOP();', 0, name='debug check -> RG_NOP')
    t = rw.sub(t, r'thread_data& td = \*m_thread_data;', 'RG_NOP();', 1, 1, name='local alias dropped')
    t = rw.sub(t, r'arena& a = \*td\.my_arena;', 'RG_NOP();', 1, 1, name='local alias dropped')
    t = rw.sub(t, r'arena_slot& slot = \*td\.my_arena_slot;', 'RG_NOP();', 1, 1, name='local alias dropped')
    t = rw.sub(t, r'a\.get_critical_task\(slot\.hint_for_critical_stream, isolation\)', 'STUB_arena_get_critical_task(isolation)', 1, 1, name='callee stub')
    t = rw.sub(t, r'r1::spawn\(\*t, \*ed->context\);', 'STUB_spawn(t, ed->context, ed);', 1, 1, name='callee stub (spawn stamps the task with the dispatcher\'s current isolation)')
    t = rw.sub(t, r'task_accessor::context\(\*crit_t\)', 'crit_t->context', 1, 1, name='accessor')
    t = rw.sub(t, r'task_accessor::isolation\(\*crit_t\)', 'crit_t->isolation', 1, 1, name='accessor')
    t = rw.sub(t, r'a\.my_observers\.notify_entry_observers\([^;]*\);', 'STUB_notify_entry_observers();', 1, 1, name='callee stub')
    t = rw.sub(t, r'd1::task\*', 'task*', 1, name='ns-strip')
    t = rw.asserts(t, 2)
    t = rw.std(t)
    common.write(ctx, 'critical.inc', t + '\n')
    # slot occupation
    out = []
    s = slice_block(AS, r'bool try_occupy\(\)')
    sliced.append('%s:%d arena_slot::try_occupy' % (AS, s.line))
    t = rw.sub(s.text, r'bool try_occupy\(\)', 'static bool slot_try_occupy(struct slot* self)', 1, 1, name='sig')
    t = rw.sub(t, r'is_occupied\(\)', 'ATOMIC_LOAD(self->my_is_occupied)', 1, 1, name='method is_occupied() (a relaxed load of the same flag)')
    t = rw.sub(t, r'my_is_occupied\.exchange\(true\)', 'ATOMIC_XCHG(self->my_is_occupied, true)', 1, 1, name='atomic-exchange')
    t = rw.number_sites(t, 'occ', by_kind=True)
    out.append(t)
    if not re.search(r'bool is_occupied\(\) const \{\s*return my_is_occupied\.load\(std::memory_order_relaxed\);', load(AS)):
        raise ExtractionBreak('arena_slot::is_occupied is no longer a plain load of my_is_occupied')
    s = slice_block(AR, r'std::size_t arena::occupy_free_slot_in_range\( thread_data& tls, std::size_t lower, std::size_t upper \)')
    sliced.append('%s:%d arena::occupy_free_slot_in_range' % (AR, s.line))
    t = rw.sub(s.text, r'std::size_t arena::occupy_free_slot_in_range\( thread_data& tls, std::size_t lower, std::size_t upper \)', 'size_t arena_occupy_free_slot_in_range(struct arena* self, struct thread_data* tls, size_t lower, size_t upper)', 1, 1, name='sig')
    t = rw.sub(t, r'\btls\.', 'tls->', 2, name='ref-param')
    t = rw.sub(t, r'tls->my_random\.get\(\)', 'STUB_random_get()', 1, 1, name='callee stub')
    t = rw.sub(t, r'my_slots\[i\]\.try_occupy\(\)', 'slot_try_occupy(&self->my_slots[i])', 2, 2, name='method')
    t = rw.asserts(t, 1)
    t = rw.std(t)
    t = tag_loops(t, 'ofs', rw, expect=2)
    out.append(t)
    s = slice_block(AR, r'std::size_t arena::occupy_free_slot\(thread_data& tls\)')
    sliced.append('%s:%d arena::occupy_free_slot<as_worker>' % (AR, s.line))
    t = rw.sub(s.text, r'std::size_t arena::occupy_free_slot\(thread_data& tls\)', 'size_t arena_occupy_free_slot(struct arena* self, struct thread_data* tls, const bool as_worker)', 1, 1, name='sig + template bool -> parameter')
    t = rw.sub(t, r'occupy_free_slot_in_range\(\s*tls,', 'arena_occupy_free_slot_in_range(self, tls,', 2, 2, name='method')
    t = rw.sub(t, r'(?<![\w.>])(my_num_reserved_slots|my_num_slots)\b', r'self->\1', 3, name='field')
    t = rw.sub(t, r'atomic_update\( my_limit, \(unsigned\)\(index \+ 1\), std::less<unsigned>\(\) \);', 'ATOMIC_UPDATE_MAX(self->my_limit, (unsigned)(index + 1));', 1, 1, name='atomic_update(.., less) -> monotone max')
    t = rw.std(t)
    out.append(t)
    common.write(ctx, 'slots.inc', '\n'.join(out) + '\n')
    fired['arena'] = rw.fired
    return sliced, fired


def build(ctx):
    sliced, fired = extract(ctx)
    C = os.path.join(HERE, 'c16.c')
    jobs = [
        Job('budget.limit_delta', C, 'h_limit_delta', route='LF', defines=['LD'], target='thread_request_serializer::limit_delta', source=TRS),
        Job('isolation.get_critical_task', C, 'h_critical', route='LF', defines=['CRIT'], target='task_dispatcher::get_critical_task', source=TD),
        Job('slots.try_occupy', C, 'h_try_occupy', route='RG', defines=['SLOTS'], target='arena_slot::try_occupy', source=AS),
        Job('slots.occupy_in_range', C, 'h_in_range', route='LC', loops=True, nloops=2, defines=['SLOTS'], target='arena::occupy_free_slot_in_range', source=AR, timeout=600),
        Job('slots.occupy_free_slot', C, 'h_occupy', route='LC', loops=True, defines=['SLOTS'], target='arena::occupy_free_slot<as_worker> (modular over the loops\' contracts)', source=AR, timeout=600),
    ]
    return {
        'jobs': jobs, 'sliced': sliced, 'fired': fired,
        'trusted': ['arena::get_critical_task, r1::spawn (stamps the spawned task with the dispatcher\'s current isolation), observers: stubs', 'FastRandom::get(): arbitrary value', 'SC atomics; my_is_occupied is only written by try_occupy/release'],
        'drops': ['debug pointer/task validity checks -> RG_NOP()', 'local reference aliases (td, a, slot)', 'template<bool as_worker> -> parameter'],
        'not_decided': ['"at any instant" thread counts', 'observer entry/exit pairing', 'global_control bookkeeping', 'priority satisfaction over time', 'mandatory-concurrency protocol', 'market::update_allotment',
                        'isolation filter of arena_slot::get_task (see C01)', 'update_request clamps'],
        'assumptions': ['no int overflow in new_value - delta (the serializer is fed with differences of small worker counts)'],
    }


def replay(ctx, jobname, failure):
    return {'reproduced': False, 'detail': 'no native recipe: get_critical_task / slot occupation need a running arena with a forced interleaving; see seeded/C16-1/demo.cpp for a public-API scenario'}
