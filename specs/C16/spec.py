"""C16 -- arenas: slot range/uniqueness, isolation-preserving critical-task pickup, granted-worker delta, worker allotment (market::update_allotment),
request clamps and demand bookkeeping (arena/pm_client::update_request, market::adjust_demand), pending-delta serializer, EMPTY/FULL/busy flag protocol."""
import os
import sys
import re
HERE = os.path.dirname(os.path.abspath(__file__))
sys.path.insert(0, os.path.join(HERE, '..'))
sys.path.insert(0, os.path.join(HERE, '..', '..', 'tools'))
import common
import native
import cxx2c
from cxx2c import Rewriter, slice_block, tag_loops, ExtractionBreak, load
from prove import Job

TRS = 'src/tbb/thread_request_serializer.cpp'
MK = 'src/tbb/market.cpp'
PMC = 'src/tbb/pm_client.h'
MISC = 'src/tbb/misc.h'
UTILS = 'include/oneapi/tbb/detail/_utils.h'
TA_H = 'include/oneapi/tbb/task_arena.h'
TD = 'src/tbb/task_dispatcher.h'
AR = 'src/tbb/arena.cpp'
AS = 'src/tbb/arena_slot.h'
AH = 'src/tbb/arena.h'
PM_H = 'src/tbb/permit_manager.h'
TRS_H = 'src/tbb/thread_request_serializer.h'


def extract(ctx):
    sliced, fired = [], {}
    rw = Rewriter('arena')
    s = slice_block(TRS, r'int thread_request_serializer::limit_delta\(int delta, int limit, int new_value\)')
    sliced.append('%s:%d thread_request_serializer::limit_delta' % (TRS, s.line))
    t = rw.sub(s.text, r'int thread_request_serializer::limit_delta\(', 'int limit_delta(', 1, 1, name='sig')
    t = rw.sub(t, r'\bmin\(', 'VERIF_min(', 2, 2, name='std::min')
    common.write(ctx, 'limit_delta.inc', t + '\n')
    # get_critical_task
    s = slice_block(TD, r'inline d1::task\* task_dispatcher::get_critical_task\(d1::task\* t, execution_data_ext& ed, isolation_type isolation, bool critical_allowed\)')
    sliced.append('%s:%d task_dispatcher::get_critical_task' % (TD, s.line))
    t = rw.sub(s.text, r'inline d1::task\* task_dispatcher::get_critical_task\(d1::task\* t, execution_data_ext& ed, isolation_type isolation, bool critical_allowed\)',
               'task* get_critical_task(struct task_dispatcher* self, task* t, execution_data_ext* ed, isolation_type isolation, bool critical_allowed)', 1, 1, name='sig')
    t = rw.sub(t, r'\bed\.', 'ed->', 4, name='ref-param')
    t = rw.sub(t, r'\bm_properties\.', 'self->m_properties.', 4, name='field')
    t = rw.sub(t, r'assert_pointers_valid\([^;]*\);', 'RG_NOP();', 1, 1, name='debug check -> RG_NOP')
    t = rw.sub(t, r'assert_task_valid\(crit_t\);', 'RG_NOP();', 1, 1, name='debug check -> RG_NOP')
    t = rw.sub(t, r'assert_pointer_valid</\*alignment = \*/alignof\(void\*\)>\(ed->context\);', 'RG_NOP();', 0, name='debug check -> RG_NOP')
    t = rw.sub(t, r'assert_pointer_valid<[^;]*;', 'RG_NOP();', 0, name='debug check -> RG_NOP')
    t = rw.sub(t, r'thread_data& td = \*m_thread_data;', 'RG_NOP();', 1, 1, name='local alias dropped')
    t = rw.sub(t, r'arena& a = \*td\.my_arena;', 'RG_NOP();', 1, 1, name='local alias dropped')
    t = rw.sub(t, r'arena_slot& slot = \*td\.my_arena_slot;', 'RG_NOP();', 1, 1, name='local alias dropped')
    t = rw.sub(t, r'a\.get_critical_task\(slot\.hint_for_critical_stream, isolation\)', 'STUB_arena_get_critical_task(isolation)', 1, 1, name='callee stub')
    t = rw.sub(t, r'r1::spawn\(\*t, \*ed->context\);', 'STUB_spawn(t, ed->context, ed);', 1, 1, name='callee stub (spawn stamps the task with the dispatcher\'s current isolation)')
    t = rw.sub(t, r'task_accessor::context\(\*crit_t\)', 'crit_t->context', 1, 1, name='accessor')
    t = rw.sub(t, r'task_accessor::isolation\(\*crit_t\)', 'crit_t->isolation', 1, 1, name='accessor')
    t = rw.sub(t, r'a\.my_observers\.notify_entry_observers\([^;]*\);', 'STUB_notify_entry_observers();', 1, 1, name='callee stub')
    t = rw.sub(t, r'd1::task\*', 'task*', 1, name='ns-strip')
    t = rw.asserts(t, 2)
    t = rw.std(t)
    common.write(ctx, 'critical.inc', t + '\n')
    # slot occupation
    out = []
    s = slice_block(AS, r'bool try_occupy\(\)')
    sliced.append('%s:%d arena_slot::try_occupy' % (AS, s.line))
    t = rw.sub(s.text, r'bool try_occupy\(\)', 'static bool slot_try_occupy(struct slot* self)', 1, 1, name='sig')
    t = rw.sub(t, r'is_occupied\(\)', 'ATOMIC_LOAD(self->my_is_occupied)', 1, 1, name='method is_occupied() (a relaxed load of the same flag)')
    t = rw.sub(t, r'my_is_occupied\.exchange\(true\)', 'ATOMIC_XCHG(self->my_is_occupied, true)', 1, 1, name='atomic-exchange')
    t = rw.number_sites(t, 'occ', by_kind=True)
    out.append(t)
    if not re.search(r'bool is_occupied\(\) const \{\s*return my_is_occupied\.load\(std::memory_order_relaxed\);', load(AS)):
        raise ExtractionBreak('arena_slot::is_occupied is no longer a plain load of my_is_occupied')
    s = slice_block(AR, r'std::size_t arena::occupy_free_slot_in_range\( thread_data& tls, std::size_t lower, std::size_t upper \)')
    sliced.append('%s:%d arena::occupy_free_slot_in_range' % (AR, s.line))
    t = rw.sub(s.text, r'std::size_t arena::occupy_free_slot_in_range\( thread_data& tls, std::size_t lower, std::size_t upper \)', 'size_t arena_occupy_free_slot_in_range(struct arena* self, struct thread_data* tls, size_t lower, size_t upper)', 1, 1, name='sig')
    t = rw.sub(t, r'\btls\.', 'tls->', 2, name='ref-param')
    t = rw.sub(t, r'tls->my_random\.get\(\)', 'STUB_random_get()', 1, 1, name='callee stub')
    t = rw.sub(t, r'my_slots\[i\]\.try_occupy\(\)', 'slot_try_occupy(&self->my_slots[i])', 2, 2, name='method')
    t = rw.asserts(t, 1)
    t = rw.std(t)
    t = tag_loops(t, 'ofs', rw, expect=2)
    out.append(t)
    s = slice_block(AR, r'std::size_t arena::occupy_free_slot\(thread_data& tls\)')
    sliced.append('%s:%d arena::occupy_free_slot<as_worker>' % (AR, s.line))
    t = rw.sub(s.text, r'std::size_t arena::occupy_free_slot\(thread_data& tls\)', 'size_t arena_occupy_free_slot(struct arena* self, struct thread_data* tls, const bool as_worker)', 1, 1, name='sig + template bool -> parameter')
    t = rw.sub(t, r'occupy_free_slot_in_range\(\s*tls,', 'arena_occupy_free_slot_in_range(self, tls,', 2, 2, name='method')
    t = rw.sub(t, r'(?<![\w.>])(my_num_reserved_slots|my_num_slots)\b', r'self->\1', 3, name='field')
    t = rw.sub(t, r'atomic_update\( my_limit, \(unsigned\)\(index \+ 1\), std::less<unsigned>\(\) \);', 'ATOMIC_UPDATE_MAX(self->my_limit, (unsigned)(index + 1));', 1, 1, name='atomic_update(.., less) -> monotone max')
    t = rw.std(t)
    out.append(t)
    common.write(ctx, 'slots.inc', '\n'.join(out) + '\n')
    fired['arena'] = rw.fired
    return sliced, fired


def extract_allot(ctx, sliced, fired):
    """market::update_allotment with its callees (pm_client accessors, set_allotment, arena::set_allotment/set_top_priority, min)."""
    rw = Rewriter('allot')
    out = []
    # the number of priority levels is a constant of the public header
    st = cxx2c.slice_stmt(TA_H, r'static constexpr unsigned num_priority_levels\s*=')
    m = re.search(r'num_priority_levels\s*=\s*(\d+)\s*;', st.text)
    if not m or int(m.group(1)) != 3:
        raise ExtractionBreak('d1::num_priority_levels is no longer the literal 3 (the harness unwinds the level loop 3 times)')
    sliced.append('%s:%d d1::num_priority_levels' % (TA_H, st.line))
    out.append('#define num_priority_levels ((unsigned)%s)' % m.group(1))
    # misc.h min<T>, T := int
    s = slice_block(MISC, r'T min \( const T& val1, const T& val2 \)')
    sliced.append('%s:%d min<int>' % (MISC, s.line))
    t = rw.sub(s.text, r'T min \( const T& val1, const T& val2 \)', 'static int tbb_min_int(int val1, int val2)', 1, 1, name='sig + bind-template(T:=int), const& -> value')
    out.append(t)
    # arena::set_allotment / set_top_priority
    s = slice_block(AR, r'void arena::set_allotment\(unsigned allotment\)')
    sliced.append('%s:%d arena::set_allotment' % (AR, s.line))
    t = rw.sub(s.text, r'void arena::set_allotment\(unsigned allotment\)', 'static void arena_set_allotment(struct arena_a* self, unsigned allotment)', 1, 1, name='sig')
    t = rw.atomics(t, ['my_num_workers_allotted'], 0)
    t = rw.fields(t, ['my_num_workers_allotted'], 0)
    out.append(rw.std(t))
    s = slice_block(AR, r'void arena::set_top_priority\(bool is_top_priority\)')
    sliced.append('%s:%d arena::set_top_priority' % (AR, s.line))
    t = rw.sub(s.text, r'void arena::set_top_priority\(bool is_top_priority\)', 'static void arena_set_top_priority(struct arena_a* self, bool is_top_priority)', 1, 1, name='sig')
    t = rw.atomics(t, ['my_is_top_priority'], 0)
    t = rw.fields(t, ['my_is_top_priority'], 0)
    out.append(rw.std(t))
    # pm_client accessors
    for meth, ret, par, cpar in (('min_workers', 'int', r'\(\) const', ''), ('max_workers', 'int', r'\(\) const', ''), ('set_top_priority', 'void', r'\(bool b\)', ', bool b')):
        s = slice_block(PMC, ret + ' ' + meth + par, within=r'class pm_client\b')
        sliced.append('%s:%d pm_client::%s' % (PMC, s.line, meth))
        t = rw.sub(s.text, ret + ' ' + meth + par, 'static %s pm_client_%s(struct pmclient* self%s)' % (ret, meth, cpar), 1, 1, name='sig')
        t = rw.sub(t, r'\bmy_arena\.set_top_priority\(', 'arena_set_top_priority(PMC_ARENA(self), ', 0, name='reference member my_arena -> PMC_ARENA(self): the arena this client was created for')
        t = rw.fields(t, ['my_min_workers', 'my_max_workers'], 0)
        out.append(rw.std(t))
    s = slice_block(MK, r'void set_allotment\(unsigned allotment\)', within=r'class tbb_permit_manager_client\b')
    sliced.append('%s:%d tbb_permit_manager_client::set_allotment' % (MK, s.line))
    t = rw.sub(s.text, r'void set_allotment\(unsigned allotment\)', 'static void tpmc_set_allotment(struct pmclient* self, unsigned allotment)', 1, 1, name='sig')
    t = rw.sub(t, r'\bmy_arena\.set_allotment\(', 'arena_set_allotment(PMC_ARENA(self), ', 0, name='reference member my_arena -> PMC_ARENA(self): the arena this client was created for')
    out.append(rw.std(t))
    common.write(ctx, 'allot_callees.inc', '\n'.join(out) + '\n')
    # market::update_allotment
    s = slice_block(MK, r'void market::update_allotment\(\)')
    sliced.append('%s:%d market::update_allotment' % (MK, s.line))
    t = rw.sub(s.text, r'void market::update_allotment\(\)', 'void market_update_allotment(struct market* self)', 1, 1, name='sig')
    t = rw.fields(t, ['my_mandatory_num_requested', 'my_num_workers_soft_limit', 'my_total_demand', 'my_priority_level_demand', 'my_clients'], 4)
    t = rw.sub(t, r'(?<![\w.>:])min\(', 'tbb_min_int(', 0, name='min<int>')
    t = rw.sub(t, r'auto it = (self->my_clients\[list_idx\])\.rbegin\(\)', r'size_t it = CLIST_RBEGIN(\1)', 1, 1, name='reverse iterator -> reverse position index (begin)')
    t = rw.sub(t, r'(self->my_clients\[list_idx\])\.rend\(\)', r'CLIST_REND(\1)', 1, 1, name='reverse iterator -> reverse position index (end)')
    t = rw.sub(t, r'tbb_permit_manager_client& client = static_cast<tbb_permit_manager_client&>\(\*\*it\);', 'struct pmclient* client = CLIST_DEREF(it);', 1, 1, name='reference to the element under the iterator -> pointer')
    t = rw.sub(t, r'\bclient\.', 'client->', 1, name='ref-local')
    t = rw.sub(t, r'client->(max_workers|min_workers)\(\)', r'pm_client_\1(client)', 1, name='method')
    t = rw.sub(t, r'client->set_top_priority\(', 'CLIENT_SET_TOP(client, ', 0, name='method (behaviour-bearing; the macro checks the flag and calls the sliced set_top_priority)')
    t = rw.sub(t, r'client->set_allotment\(', 'CLIENT_SET_ALLOTMENT(client, ', 0, name='method (behaviour-bearing; the macro counts the grant and calls the sliced set_allotment)')
    # the three non-linear operations get a name so that the unbounded job can replace them by their defining contract; the width-bounded job maps the names back to * / %
    t = rw.sub(t, r'(pm_client_max_workers\(client\)) \* (assigned_per_priority)\b', r'ALLOT_MUL(\1, \2)', 0, name='a * b -> ALLOT_MUL(a, b)')
    t = rw.sub(t, r'\btmp / (self->my_priority_level_demand\[list_idx\])', r'ALLOT_DIV(tmp, \1)', 0, name='a / b -> ALLOT_DIV(a, b)')
    t = rw.sub(t, r'\btmp % (self->my_priority_level_demand\[list_idx\])', r'ALLOT_MOD(tmp, \1)', 0, name='a % b -> ALLOT_MOD(a, b)')
    t = rw.asserts(t, 0)
    t = rw.std(t)
    t = tag_loops(t, 'ua', rw, expect=2)
    common.write(ctx, 'allot.inc', t + '\n')
    fired['allot'] = rw.fired


def extract_req(ctx, sliced, fired):
    """arena::update_request (+clamp<int>, is_arena_workerless), pm_client::update_request/set_workers/priority_level, market::adjust_demand/set_active_num_workers,
    permit_manager::notify_thread_request."""
    rw = Rewriter('request')
    out = []
    s = slice_block(UTILS, r'T clamp\(T value, T lower_bound, T upper_bound\)')
    sliced.append('%s:%d clamp<int>' % (UTILS, s.line))
    t = rw.sub(s.text, r'T clamp\(T value, T lower_bound, T upper_bound\)', 'static int tbb_clamp_int(int value, int lower_bound, int upper_bound)', 1, 1, name='sig + bind-template(T:=int)')
    out.append(rw.std(rw.asserts(t, 0)))
    s = slice_block(AH, r'bool is_arena_workerless\(\) const', within=r'class arena\s*:')
    sliced.append('%s:%d arena::is_arena_workerless' % (AH, s.line))
    t = rw.sub(s.text, r'bool is_arena_workerless\(\) const', 'static bool arena_is_arena_workerless(struct arena_r* self)', 1, 1, name='sig')
    out.append(rw.fields(t, ['my_max_num_workers'], 1))
    s = slice_block(AH, r'unsigned priority_level\(\)', within=r'class arena\s*:')
    sliced.append('%s:%d arena::priority_level' % (AH, s.line))
    t = rw.sub(s.text, r'unsigned priority_level\(\)', 'static unsigned arena_priority_level(struct arena_r* self)', 1, 1, name='sig')
    out.append(rw.fields(t, ['my_priority_level'], 1))
    s = slice_block(AR, r'std::pair<int, int> arena::update_request\(int mandatory_delta, int workers_delta\)')
    sliced.append('%s:%d arena::update_request' % (AR, s.line))
    t = rw.sub(s.text, r'std::pair<int, int> arena::update_request\(int mandatory_delta, int workers_delta\)', 'static struct int_pair arena_update_request(struct arena_r* self, int mandatory_delta, int workers_delta)', 1, 1, name='sig (std::pair<int,int> -> struct int_pair {first, second})')
    t = rw.fields(t, ['my_mandatory_requests', 'my_total_num_workers_requested', 'my_max_num_workers'], 3)
    t = rw.sub(t, r'(?<![\w.>:])clamp\(', 'tbb_clamp_int(', 0, name='clamp<int>')
    t = rw.sub(t, r'(?<![\w.>:])is_arena_workerless\(\)', 'arena_is_arena_workerless(self)', 0, name='method')
    t = rw.sub(t, r'return \{ (\w+), (\w+) \};', r'return (struct int_pair){ \1, \2 };', 1, 1, name='braced pair return -> compound literal')
    out.append(rw.std(rw.asserts(t, 0)))
    # pm_client
    s = slice_block(PMC, r'unsigned priority_level\(\)', within=r'class pm_client\b')
    sliced.append('%s:%d pm_client::priority_level' % (PMC, s.line))
    t = rw.sub(s.text, r'unsigned priority_level\(\)', 'static unsigned pm_client_priority_level(struct pmclient* self)', 1, 1, name='sig')
    t = rw.sub(t, r'\bmy_arena\.priority_level\(\)', 'arena_priority_level(PMC_ARENA(self))', 1, 1, name='reference member my_arena -> PMC_ARENA(self)')
    out.append(t)
    s = slice_block(PMC, r'void set_workers\(int mn_w, int mx_w\)', within=r'class pm_client\b')
    sliced.append('%s:%d pm_client::set_workers' % (PMC, s.line))
    t = rw.sub(s.text, r'void set_workers\(int mn_w, int mx_w\)', 'static void pm_client_set_workers(struct pmclient* self, int mn_w, int mx_w)', 1, 1, name='sig')
    t = rw.fields(t, ['my_min_workers', 'my_max_workers'], 0)
    out.append(rw.std(rw.asserts(t, 0)))
    s = slice_block(PMC, r'int update_request\(int mandatory_delta, int workers_delta\)', within=r'class pm_client\b')
    sliced.append('%s:%d pm_client::update_request' % (PMC, s.line))
    t = rw.sub(s.text, r'int update_request\(int mandatory_delta, int workers_delta\)', 'static int pm_client_update_request(struct pmclient* self, int mandatory_delta, int workers_delta)', 1, 1, name='sig')
    t = rw.sub(t, r'auto min_max_workers = my_arena\.update_request\(', 'struct int_pair min_max_workers = arena_update_request(PMC_ARENA(self), ', 1, 1, name='auto -> struct int_pair; reference member my_arena -> PMC_ARENA(self)')
    t = rw.sub(t, r'(?<![\w.>:])set_workers\(', 'pm_client_set_workers(self, ', 0, name='method (behaviour-bearing)')
    t = rw.fields(t, ['my_min_workers', 'my_max_workers'], 0)
    out.append(rw.std(t))
    # permit_manager::notify_thread_request
    s = slice_block(PM_H, r'void notify_thread_request\(int delta\)')
    sliced.append('%s:%d permit_manager::notify_thread_request' % (PM_H, s.line))
    t = rw.sub(s.text, r'void notify_thread_request\(int delta\)', 'static void market_notify_thread_request(struct market* self, int delta)', 1, 1, name='sig')
    t = rw.sub(t, r'my_thread_request_observer->update\(delta\);', 'STUB_observer_update(self, delta);', 0, name='callee stub (behaviour-bearing): thread_request_serializer_proxy::update')
    t = rw.fields(t, ['my_thread_request_observer'], 0)
    out.append(rw.std(rw.asserts(t, 0)))
    # market
    s = slice_block(MK, r'void market::adjust_demand\(pm_client& c, int mandatory_delta, int workers_delta\)')
    sliced.append('%s:%d market::adjust_demand' % (MK, s.line))
    t = rw.sub(s.text, r'void market::adjust_demand\(pm_client& c, int mandatory_delta, int workers_delta\)', 'void market_adjust_demand(struct market* self, struct pmclient* c, int mandatory_delta, int workers_delta)', 1, 1, name='sig')
    t = rw.sub(t, r'int delta\{\};', 'int delta = 0;', 1, 1, name='value-initialisation {} -> = 0')
    t = rw.fields(t, ['my_total_demand', 'my_priority_level_demand', 'my_mandatory_num_requested', 'my_mutex'], 1)
    t = rw.scoped_locks(t, r'mutex_type::scoped_lock lock\(([^()]*)\);', 1, 1)
    t = rw.sub(t, r'\bc\.update_request\(', 'pm_client_update_request(c, ', 0, name='method (behaviour-bearing)')
    t = rw.sub(t, r'\bc\.priority_level\(\)', 'pm_client_priority_level(c)', 0, name='method')
    t = rw.sub(t, r'(?<![\w.>:])update_allotment\(\);', 'STUB_update_allotment(self);', 0, name='callee stub (behaviour-bearing): market::update_allotment, proved by the allot.* jobs under the precondition this stub checks')
    t = rw.sub(t, r'(?<![\w.>:])notify_thread_request\(', 'market_notify_thread_request(self, ', 0, name='method (behaviour-bearing)')
    out.append(rw.std(rw.asserts(t, 0)))
    s = slice_block(MK, r'void market::set_active_num_workers\(int soft_limit\)')
    sliced.append('%s:%d market::set_active_num_workers' % (MK, s.line))
    t = rw.sub(s.text, r'void market::set_active_num_workers\(int soft_limit\)', 'void market_set_active_num_workers(struct market* self, int soft_limit)', 1, 1, name='sig')
    t = rw.fields(t, ['my_num_workers_soft_limit', 'my_mutex'], 1)
    t = rw.scoped_locks(t, r'mutex_type::scoped_lock lock\(([^()]*)\);', 1, 1)
    t = rw.sub(t, r'(?<![\w.>:])update_allotment\(\);', 'STUB_update_allotment(self);', 0, name='callee stub (behaviour-bearing): market::update_allotment')
    out.append(rw.std(t))
    common.write(ctx, 'request.inc', '\n'.join(out) + '\n')
    fired['request'] = rw.fired


def extract_trs(ctx, sliced, fired):
    """thread_request_serializer::update / set_active_num_workers (packed pending-delta word + mutex section)."""
    rw = Rewriter('serializer')
    out = []
    st = cxx2c.slice_stmt(TRS_H, r'static constexpr std::uint64_t pending_delta_base\s*=')
    m = re.search(r'pending_delta_base\s*=\s*([^;]+);', st.text)
    if not m:
        raise ExtractionBreak('pending_delta_base initialiser not found')
    sliced.append('%s:%d thread_request_serializer::pending_delta_base' % (TRS_H, st.line))
    common.write(ctx, 'serializer_defs.inc', '#define pending_delta_base ((uint64_t)(%s))\n' % m.group(1).strip())
    s = slice_block(TRS, r'int thread_request_serializer::limit_delta\(int delta, int limit, int new_value\)')
    t = rw.sub(s.text, r'int thread_request_serializer::limit_delta\(', 'static int trs_limit_delta(', 1, 1, name='sig')
    t = rw.sub(t, r'\bmin\(', 'VERIF_min(', 2, 2, name='std::min')
    out.append(t)
    flds = ['my_pending_delta', 'my_total_request', 'my_soft_limit', 'my_mutex']
    for fn, sig, csig in (('upd', r'void thread_request_serializer::update\(int delta\)', 'void trs_update(struct trs* self, int delta)'),
                          ('sanw', r'void thread_request_serializer::set_active_num_workers\(int soft_limit\)', 'void trs_set_active_num_workers(struct trs* self, int soft_limit)')):
        s = slice_block(TRS, sig)
        sliced.append('%s:%d %s' % (TRS, s.line, sig.replace('\\', '')[5:]))
        t = rw.sub(s.text, sig, csig, 1, 1, name='sig')
        t = rw.atomics(t, ['my_pending_delta', 'my_total_request'], 0)
        t = rw.fields(t, flds, 1)
        t = rw.scoped_locks(t, r'mutex_type::scoped_lock lock\(([^()]*)\);', 1, 1)
        t = rw.sub(t, r'(?<![\w.>:])limit_delta\(', 'trs_limit_delta(', 0, name='method (static)')
        t = rw.sub(t, r'my_thread_dispatcher\.adjust_job_count_estimate\(', 'STUB_adjust_job_count_estimate(self, ', 0, name='callee stub (behaviour-bearing): thread_dispatcher::adjust_job_count_estimate')
        t = rw.fcasts(t, ['int'], 0)
        t = rw.std(t)
        t = rw.number_sites(t, fn, by_kind=True)
        out.append(t)
    common.write(ctx, 'serializer.inc', '\n'.join(out) + '\n')
    fired['serializer'] = rw.fired


def extract_flag(ctx, sliced, fired):
    """arena.h atomic_flag::test_and_set / try_clear_if<Pred> (the EMPTY/FULL/busy snapshot word) and their users arena::advertise_new_work<work_type>, arena::out_of_work."""
    rw = Rewriter('flag')
    out = []
    cls = r'class atomic_flag\b'
    defs = []
    for nm in ('SET', 'UNSET'):
        st = cxx2c.slice_stmt(AH, r'static const std::uintptr_t %s\s*=' % nm)
        m = re.search(r'%s\s*=\s*(\d+)\s*;' % nm, st.text)
        if not m:
            raise ExtractionBreak('atomic_flag::%s is no longer an integer literal' % nm)
        defs.append('#define FLAG_%s ((uintptr_t)%s)' % (nm, m.group(1)))
        sliced.append('%s:%d atomic_flag::%s' % (AH, st.line, nm))
    common.write(ctx, 'flag_defs.inc', '\n'.join(defs) + '\n')
    s = slice_block(AH, r'bool test_and_set\(\)', within=cls)
    sliced.append('%s:%d atomic_flag::test_and_set' % (AH, s.line))
    t = rw.sub(s.text, r'bool test_and_set\(\)', 'bool flag_test_and_set(struct atomic_flag* self)', 1, 1, name='sig')
    t = rw.atomics(t, ['my_state'], 0)
    t = rw.fields(t, ['my_state'], 0)
    t = rw.sub(t, r'\b(SET|UNSET)\b', r'FLAG_\1', 1, name='class constant -> macro')
    t = rw.sub(t, r'__TBB_fallthrough;', 'RG_NOP();', 0, name='[[fallthrough]] -> RG_NOP()')
    t = rw.std(t)
    t = rw.number_sites(t, 'tas', by_kind=True)
    out.append(t)
    s = slice_block(AH, r'bool try_clear_if\(Pred&& pred\)', within=cls)
    sliced.append('%s:%d atomic_flag::try_clear_if' % (AH, s.line))
    t = rw.sub(s.text, r'bool try_clear_if\(Pred&& pred\)', 'bool flag_try_clear_if(struct atomic_flag* self)', 1, 1, name='sig (the predicate object becomes the harness stub STUB_pred)')
    t = rw.sub(t, r'(?<![\w.>:])pred\(\)', 'STUB_pred()', 0, name='callee stub (behaviour-bearing): the snapshot predicate')
    t = rw.atomics(t, ['my_state'], 0)
    t = rw.fields(t, ['my_state'], 0)
    t = rw.sub(t, r'\b(SET|UNSET)\b', r'FLAG_\1', 1, name='class constant -> macro')
    t = rw.std(t)
    t = rw.fcasts(t, ['uintptr_t'], 0)
    t = rw.number_sites(t, 'tci', by_kind=True)
    out.append(t)
    common.write(ctx, 'flag.inc', '\n'.join(out) + '\n')
    # users
    out = []
    st = slice_block(AH, r'enum new_work_type', within=r'class arena\s*:')
    sliced.append('%s:%d arena::new_work_type' % (AH, st.line))
    out.append(st.text + ';')
    s = slice_block(AH, r'bool is_arena_workerless\(\) const', within=r'class arena\s*:')
    t = rw.sub(s.text, r'bool is_arena_workerless\(\) const', 'static bool arena_w_is_arena_workerless(struct arena_w* self)', 1, 1, name='sig')
    out.append(rw.fields(t, ['my_max_num_workers'], 1))
    s = slice_block(AH, r'void arena::advertise_new_work\(\)')
    sliced.append('%s:%d arena::advertise_new_work<work_type>' % (AH, s.line))
    t = rw.sub(s.text, r'void arena::advertise_new_work\(\)', 'void arena_advertise_new_work(struct arena_w* self, const enum new_work_type work_type)', 1, 1, name='sig + template parameter -> parameter')
    t = rw.sub(t, r'atomic_fence_seq_cst\(\);', 'RG_NOP();', 0, name='fence -> RG_NOP() (SC assumed)')
    t = rw.sub(t, r'\b(my_mandatory_concurrency|my_pool_state)\.test_and_set\(\)', r'FLAG_TEST_AND_SET(self->\1)', 0, name='callee stub (behaviour-bearing): atomic_flag::test_and_set, proved by flag.test_and_set')
    t = rw.fields(t, ['my_num_slots', 'my_num_reserved_slots', 'my_max_num_workers'], 1)
    t = rw.sub(t, r'(?<![\w.>:])is_arena_workerless\(\)', 'arena_w_is_arena_workerless(self)', 0, name='method')
    t = rw.sub(t, r'(?<![\w.>:])request_workers\(', 'STUB_request_workers(self, ', 0, name='callee stub (behaviour-bearing): arena::request_workers -> threading_control::adjust_demand')
    out.append(rw.std(t))
    s = slice_block(AR, r'void arena::out_of_work\(\)')
    sliced.append('%s:%d arena::out_of_work' % (AR, s.line))
    t = rw.sub(s.text, r'void arena::out_of_work\(\)', 'void arena_out_of_work(struct arena_w* self)', 1, 1, name='sig')
    t = rw.sub(t, r'\b(my_mandatory_concurrency|my_pool_state)\.try_clear_if\(\[this\] \{ return ([^;]*); \}\)', r'FLAG_TRY_CLEAR_IF(self->\1, \2)', 0, name='callee stub (behaviour-bearing): atomic_flag::try_clear_if with the lambda body as lazily evaluated predicate, proved by flag.try_clear_if')
    t = rw.sub(t, r'(?<![\w.>:])has_enqueued_tasks\(\)', 'STUB_has_enqueued_tasks(self)', 0, name='callee stub: fifo stream not empty')
    t = rw.sub(t, r'(?<![\w.>:])has_tasks\(\)', 'STUB_has_tasks(self)', 0, name='callee stub: any slot / stream holds a task')
    t = rw.fields(t, ['my_max_num_workers'], 1)
    t = rw.sub(t, r'(?<![\w.>:])is_arena_workerless\(\)', 'arena_w_is_arena_workerless(self)', 0, name='method')
    t = rw.sub(t, r'(?<![\w.>:])request_workers\(', 'STUB_request_workers3(self, ', 0, name='callee stub (behaviour-bearing): arena::request_workers (default wakeup_threads = false)')
    out.append(rw.std(t))
    common.write(ctx, 'advertise.inc', '\n'.join(out) + '\n')
    # the snapshot itself: arena::has_tasks (+ has_enqueued_tasks, arena_slot::is_empty)
    out = []
    if not re.search(r'static d1::task\*\* const EmptyTaskPool\s*=\s*nullptr;', load(AS)):
        raise ExtractionBreak('EmptyTaskPool is no longer nullptr')
    s = slice_block(AS, r'bool is_empty\(\) const')
    sliced.append('%s:%d arena_slot::is_empty' % (AS, s.line))
    t = rw.sub(s.text, r'bool is_empty\(\) const', 'static bool slot_is_empty(struct slot_t* self)', 1, 1, name='sig')
    t = rw.atomics(t, ['task_pool', 'head', 'tail'], 0)
    t = rw.fields(t, ['task_pool', 'head', 'tail'], 0)
    out.append(rw.std(t))
    s = slice_block(AR, r'bool arena::has_enqueued_tasks\(\)')
    sliced.append('%s:%d arena::has_enqueued_tasks' % (AR, s.line))
    t = rw.sub(s.text, r'bool arena::has_enqueued_tasks\(\)', 'static bool arena_has_enqueued_tasks(struct arena_t* self)', 1, 1, name='sig')
    t = rw.sub(t, r'\b(my_fifo_task_stream)\.empty\(\)', r'STREAM_EMPTY(self->\1)', 0, name='callee stub: task_stream::empty (population word == 0)')
    out.append(rw.std(t))
    s = slice_block(AR, r'bool arena::has_tasks\(\)')
    sliced.append('%s:%d arena::has_tasks' % (AR, s.line))
    t = cxx2c.cpp_resolve(s.text, {'__TBB_PREVIEW_CRITICAL_TASKS': 1}, 'has_tasks')
    rw.fired['cpp-resolve(__TBB_PREVIEW_CRITICAL_TASKS=1, _config.h)'] = 1
    if not re.search(r'#define __TBB_PREVIEW_CRITICAL_TASKS\s+1\b', load('include/oneapi/tbb/detail/_config.h')):
        raise ExtractionBreak('__TBB_PREVIEW_CRITICAL_TASKS is no longer defined to 1 in _config.h')
    t = rw.sub(t, r'bool arena::has_tasks\(\)', 'bool arena_has_tasks(struct arena_t* self)', 1, 1, name='sig')
    t = rw.atomics(t, ['my_limit'], 0)
    t = rw.fields(t, ['my_limit'], 0)
    t = rw.sub(t, r'(?<![\w.>])my_slots\[([^\]]*)\]\.is_empty\(\)', r'slot_is_empty(&self->my_slots[\1])', 0, name='method')
    t = rw.sub(t, r'(?<![\w.>:])has_enqueued_tasks\(\)', 'arena_has_enqueued_tasks(self)', 0, name='method')
    t = rw.sub(t, r'\b(my_resume_task_stream|my_critical_task_stream)\.empty\(\)', r'STREAM_EMPTY(self->\1)', 0, name='callee stub: task_stream::empty (population word == 0)')
    t = rw.std(t)
    t = tag_loops(t, 'ht', rw, expect=1)
    out.append(t)
    common.write(ctx, 'has_tasks.inc', '\n'.join(out) + '\n')
    fired['flag'] = rw.fired


# ---------------------------------------------------------------------------------------------------------------------------------
# round 2: global_control bookkeeping, serializer proxy (mandatory concurrency), worker reference word of the arena
# ---------------------------------------------------------------------------------------------------------------------------------
GC = 'src/tbb/global_control.cpp'
GC_H = 'include/oneapi/tbb/global_control.h'
TC = 'src/tbb/threading_control.cpp'
GC_CLASSES = ['allowed_parallelism_control', 'stack_size_control', 'terminate_on_exception_control', 'lifetime_control']
GC_VIRTUALS = ['default_value', 'apply_active', 'is_first_arg_preferred', 'active_value']


def scoped_locks_rv(rw, text, decl_pat, rettype, minc=0, maxc=None, lock='LOCK_MUTEX', unlock='UNLOCK_MUTEX'):
    """Rewriter.scoped_locks for functions that return a value computed from guarded state: `return e;` inside the scope of the lock object becomes
    `{ T rv_ = (e); unlock; return rv_; }` - e is evaluated while the lock is still held, as in C++ (the destructor runs after the return value exists)."""
    n = 0
    while True:
        m = re.search(decl_pat, text)
        if not m:
            break
        n += 1
        mu = m.group(1).strip()
        mk = cxx2c.mask(text)
        d, i = 0, m.start() - 1
        while i >= 0:
            if mk[i] == '}':
                d += 1
            elif mk[i] == '{':
                if d == 0:
                    break
                d -= 1
            i -= 1
        if i < 0:
            raise ExtractionBreak('%s: scoped lock outside a block' % rw.name)
        close = cxx2c.match_close(mk, i)
        body, bmask = text[m.end():close], mk[m.end():close]
        out, pos = [], 0
        for r in re.finditer(r'\breturn\b([^;]*);', bmask):
            out.append(body[pos:r.start()])
            e = body[r.start(1):r.end(1)].strip()
            if e:
                out.append('{ %s rv_ = (%s); %s(%s); return rv_; }' % (rettype, e, unlock, mu))
            else:
                out.append('{ %s(%s); return; }' % (unlock, mu))
            pos = r.end()
        out.append(body[pos:])
        text = text[:m.start()] + '%s(%s);' % (lock, mu) + ''.join(out) + '%s(%s); ' % (unlock, mu) + text[close:]
    rw._rec('scoped_lock -> %s/%s at scope exit (return value computed before the unlock)' % (lock, unlock), n, minc, maxc)
    return text


def _gc_params(par):
    out = []
    for i, p_ in enumerate([x.strip() for x in par.split(',') if x.strip()]):
        toks = p_.replace('std::size_t', 'size_t').split()
        if toks[0] != 'size_t' or len(toks) > 2:
            raise ExtractionBreak('control_storage method parameter %r is not a std::size_t' % p_)
        out.append('size_t %s' % (toks[1] if len(toks) == 2 else 'unused_%d' % i))
    return out


def _gc_method_body(rw, t, rettype):
    """rules shared by the control_storage family's member functions"""
    t = rw.sub(t, r'\bcontrol_storage::apply_active\(', 'control_storage_apply_active(self, ', 0, name='explicit base-class call (behaviour-bearing)')
    t = rw.sub(t, r'\bthreading_control::set_active_num_workers\(', 'STUB_tc_set_active_num_workers(', 0, name='callee stub (behaviour-bearing): threading_control::set_active_num_workers(unsigned)')
    t = rw.sub(t, r'\bthreading_control::max_num_workers\(\)', 'STUB_tc_max_num_workers()', 0, name='callee stub: threading_control::max_num_workers')
    t = rw.sub(t, r'\bthreading_control::register_lifetime_control\(\)', 'STUB_tc_register_lifetime_control()', 0, name='callee stub (behaviour-bearing): threading_control::register_lifetime_control')
    t = rw.sub(t, r'\bthreading_control::unregister_lifetime_control\(', 'STUB_tc_unregister_lifetime_control(', 0, name='callee stub (behaviour-bearing): threading_control::unregister_lifetime_control')
    t = rw.sub(t, r'\bgovernor::default_num_threads\(\)', 'STUB_default_num_threads()', 0, name='callee stub: governor::default_num_threads')
    t = rw.sub(t, r'(?<![\w.>:])max\(', 'tbb_max_unsigned(', 0, name='max<unsigned>')
    t = rw.sub(t, r'(?<![\w.>:])min\(', 'tbb_min_size_t(', 0, name='min<std::size_t>')
    t = scoped_locks_rv(rw, t, r'spin_mutex::scoped_lock lock\(([^()]*)\);', rettype)
    t = rw.sub(t, r'(?<![\w.>])my_list\.empty\(\)', 'SET_EMPTY(self->my_list)', 0, name='std::set::empty -> SET_EMPTY')
    t = rw.sub(t, r'(?<![\w.>:])default_value\(\)', 'CS_default_value(self)', 0, name='virtual call -> dispatch on the dynamic class')
    t = rw.sub(t, r'(?<![\w.>])my_active_value\b', 'CS_ACTIVE(self)', 0, name='field my_active_value -> accessor (checks that the list mutex is held)')
    t = rw.fields(t, ['my_list_mutex', 'my_list'], 0)
    t = rw.asserts(t, 0)
    return rw.std(t)


def extract_gc(ctx, sliced, fired):
    """global_control.cpp: control_storage family (virtual functions per class, dispatch harvested from the class texts), control_storage_comparator,
    global_control_impl::create/destroy/remove_and_check_if_empty/erase_if_present, global_control_active_value; the parameter enum of the public header and the
    controls[] table built by global_control_acquire."""
    rw = Rewriter('gcontrol')
    defs, out = [], []
    # public enum
    s = slice_block(GC_H, r'enum parameter\b', within=r'class global_control \{')
    sliced.append('%s:%d d1::global_control::parameter' % (GC_H, s.line))
    defs.append(s.text + ';')
    defs.append('enum { %s };' % ', '.join('KIND_' + c for c in GC_CLASSES))
    # controls[] table
    s = slice_block(GC, r'void global_control_acquire\(\)')
    sliced.append('%s:%d global_control_acquire' % (GC, s.line))
    tab = re.findall(r'controls\[(\d+)\] = new \(cache_aligned_allocate\(sizeof\((\w+)\)\)\) (\w+)\{\};', s.text)
    if len(tab) != 4 or any(a != b_ or a not in GC_CLASSES for _, a, b_ in tab) or sorted(int(i) for i, _, _ in tab) != [0, 1, 2, 3]:
        raise ExtractionBreak('global_control_acquire no longer fills controls[0..3] with the four known storage classes: %r' % (tab,))
    rw.fired['harvest controls[i] = new <class>'] = len(tab)
    for i, a, _ in tab:
        defs.append('#define GC_KIND_AT_%s KIND_%s' % (i, a))
    # misc.h min/max
    for nm, ty, cty in (('max', 'unsigned', 'unsigned'), ('min', 'std::size_t', 'size_t')):
        s = slice_block(MISC, r'T %s \( const T& val1, const T& val2 \)' % nm)
        sliced.append('%s:%d %s<%s>' % (MISC, s.line, nm, ty))
        out.append(rw.sub(s.text, r'T %s \( const T& val1, const T& val2 \)' % nm, 'static %s tbb_%s_%s(%s val1, %s val2)' % (cty, nm, cty.replace(' ', '_'), cty, cty), 1, 1, name='sig + bind-template, const& -> value'))
    # member functions
    sig = r'(?:virtual\s+)?(std::size_t|void|bool)\s+(%s)\s*\(([^()]*)\)\s*(?:const\s*)?(?:override\s*)?(?=\{)'
    protos, bodies = [], []
    have = {}
    for cls in ['control_storage'] + GC_CLASSES:
        within = r'class control_storage \{' if cls == 'control_storage' else r'class (?:alignas\(max_nfs_size\) )?%s : public control_storage \{' % cls
        for meth in GC_VIRTUALS + (['active_value_unsafe'] if cls == 'control_storage' else []):
            try:
                s = slice_block(GC, sig % meth, within=within)
            except ExtractionBreak:
                continue          # not overridden in this class: the dispatcher falls back to control_storage's
            m = re.match(sig % meth, s.text)
            rett = 'size_t' if m.group(1) == 'std::size_t' else m.group(1)
            t = s.text
            if cls == 'stack_size_control':
                t = re.sub(r'(?m)^(\s*#\s*(?:if|elif)\b.*)$', lambda mm: re.sub(r'0x[0-9A-Fa-f]+', lambda h: str(int(h.group(0), 16)), mm.group(1)), t)
                t = cxx2c.cpp_resolve(t, {'_WIN32_WINNT': None, 'EMSCRIPTEN': None, '__TBB_WIN8UI_SUPPORT': 0}, 'stack_size_control')
                rw.fired['cpp-resolve(_WIN32_WINNT undefined, EMSCRIPTEN undefined, __TBB_WIN8UI_SUPPORT=0)'] = rw.fired.get('cpp-resolve(_WIN32_WINNT undefined, EMSCRIPTEN undefined, __TBB_WIN8UI_SUPPORT=0)', 0) + 1
            head = 'static %s %s_%s(%s)' % (rett, cls, meth, ', '.join(['struct cstorage* self'] + _gc_params(m.group(3))))
            t = head + ' ' + t[t.index('{'):]
            rw.fired['sig:member-function'] = rw.fired.get('sig:member-function', 0) + 1
            sliced.append('%s:%d %s::%s' % (GC, s.line, cls, meth))
            protos.append(head + ';')
            bodies.append(_gc_method_body(rw, t, rett))
            have[(cls, meth)] = True
    for need in (('control_storage', 'apply_active'), ('control_storage', 'is_first_arg_preferred'), ('control_storage', 'active_value'), ('control_storage', 'active_value_unsafe')):
        if need not in have:
            raise ExtractionBreak('control_storage::%s not found' % need[1])
    for cls in GC_CLASSES:
        if (cls, 'default_value') not in have:
            raise ExtractionBreak('%s::default_value (pure virtual in the base) not found' % cls)
    # virtual dispatch, generated from what each class overrides
    disp = []
    for meth, rett, par, args in (('default_value', 'size_t', '', ''), ('apply_active', 'void', ', size_t v', ', v'), ('is_first_arg_preferred', 'bool', ', size_t a, size_t b', ', a, b'), ('active_value', 'size_t', '', '')):
        protos.append('static %s CS_%s(struct cstorage* c%s);' % (rett, meth, par))
        cases = []
        for cls in GC_CLASSES:
            impl = cls if (cls, meth) in have else 'control_storage'
            cases.append('    if (c->kind == KIND_%s) { %s%s_%s(c%s); %s}' % (cls, '' if rett == 'void' else 'return ', impl, meth, args, 'return; ' if rett == 'void' else ''))
        disp.append('static %s CS_%s(struct cstorage* c%s) {\n%s\n    __CPROVER_assert(0, "C16.gcontrol: a control storage has one of the four known dynamic classes");%s\n}' % (
            rett, meth, par, '\n'.join(cases), '' if rett == 'void' else ' return 0;'))
    common.write(ctx, 'gc_defs.inc', '\n'.join(defs) + '\n')
    # comparator
    s = slice_block(GC, r'inline bool control_storage_comparator::operator\(\)\(const d1::global_control\* lhs, const d1::global_control\* rhs\) const')
    sliced.append('%s:%d control_storage_comparator::operator()' % (GC, s.line))
    t = rw.sub(s.text, r'inline bool control_storage_comparator::operator\(\)\(const d1::global_control\* lhs, const d1::global_control\* rhs\) const',
               'static bool gc_less(const struct gcontrol* lhs, const struct gcontrol* rhs)', 1, 1, name='sig')
    t = rw.sub(t, r'\bd1::global_control::', '', 0, name='ns-strip')
    t = rw.sub(t, r'\blhs < rhs\b', 'PTR_LT(lhs, rhs)', 0, name='address tie-break lhs < rhs -> PTR_LT (addresses compared as integers)')
    t = rw.sub(t, r'\bcontrols\[lhs->my_param\]->is_first_arg_preferred\(', 'CS_is_first_arg_preferred(controls[lhs->my_param], ', 0, name='virtual call -> dispatch on the dynamic class')
    t = rw.asserts(t, 0, macro='__TBB_ASSERT_RELEASE')
    comparator = rw.std(t)
    # global_control_impl
    impl = []
    for nm, sg, csig, rett in (('erase_if_present', r'static bool erase_if_present\(control_storage\* const c, d1::global_control& gc\)', 'static bool gci_erase_if_present(struct cstorage* const c, struct gcontrol* gc)', 'bool'),
                               ('create', r'static void create\(d1::global_control& gc\)', 'void gci_create(struct gcontrol* gc)', 'void'),
                               ('destroy', r'static void destroy\(d1::global_control& gc\)', 'void gci_destroy(struct gcontrol* gc)', 'void'),
                               ('remove_and_check_if_empty', r'static bool remove_and_check_if_empty\(d1::global_control& gc\)', 'bool gci_remove_and_check_if_empty(struct gcontrol* gc)', 'bool')):
        s = slice_block(GC, sg, within=r'struct global_control_impl \{')
        sliced.append('%s:%d global_control_impl::%s' % (GC, s.line, nm))
        t = rw.sub(s.text, sg, csig, 1, 1, name='sig')
        t = rw.sub(t, r'&gc\b', 'gc', 0, name='address of a reference parameter -> the pointer')
        t = rw.sub(t, r'\bgc\.', 'gc->', 0, name='ref-param')
        t = rw.sub(t, r'\bd1::global_control::', '', 0, name='ns-strip')
        t = rw.sub(t, r'\bcontrol_storage\* const c = ', 'struct cstorage* const c = ', 0 if nm == 'erase_if_present' else 1, name='type')
        t = scoped_locks_rv(rw, t, r'spin_mutex::scoped_lock lock\(([^()]*)\);', rett)
        t = rw.sub(t, r'\(\*c->my_list\.begin\(\)\)', 'SET_DEREF(SET_BEGIN(c->my_list))', 0, name='std::set::begin + dereference -> SET_BEGIN/SET_DEREF')
        t = rw.sub(t, r'\(\*c->my_list\.rbegin\(\)\)', 'SET_DEREF(SET_RBEGIN(c->my_list))', 0, name='std::set::rbegin + dereference -> SET_RBEGIN/SET_DEREF (not in the pinned text; keeps a begin/rbegin mix-up decidable)')
        t = rw.sub(t, r'\bc->my_list\.empty\(\)', 'SET_EMPTY(c->my_list)', 0, name='std::set::empty -> SET_EMPTY')
        t = rw.sub(t, r'\bc->my_list\.insert\(', 'SET_INSERT(c->my_list, ', 0, name='std::set::insert -> SET_INSERT (behaviour-bearing)')
        t = rw.sub(t, r'\bauto it = c->my_list\.find\(', 'set_iter it = SET_FIND(c->my_list, ', 0, name='std::set::find -> SET_FIND')
        t = rw.sub(t, r'\bc->my_list\.end\(\)', 'SET_END(c->my_list)', 0, name='std::set::end -> SET_END')
        t = rw.sub(t, r'\bc->my_list\.erase\(', 'SET_ERASE(c->my_list, ', 0, name='std::set::erase -> SET_ERASE (behaviour-bearing)')
        t = rw.sub(t, r'\bc->(is_first_arg_preferred|apply_active)\(', r'CS_\1(c, ', 0, name='virtual call -> dispatch on the dynamic class')
        t = rw.sub(t, r'\bc->default_value\(\)', 'CS_default_value(c)', 0, name='virtual call -> dispatch on the dynamic class')
        t = rw.sub(t, r'\bc->my_active_value\b', 'CS_ACTIVE(c)', 0, name='field my_active_value -> accessor (checks that the list mutex is held)')
        t = rw.sub(t, r'(?<![\w.>:])erase_if_present\(', 'gci_erase_if_present(', 0, name='method (static)')
        t = rw.asserts(t, 0, macro='__TBB_ASSERT_RELEASE')
        t = rw.asserts(t, 0)
        impl.append(rw.std(t))
    s = slice_block(GC, r'std::size_t __TBB_EXPORTED_FUNC global_control_active_value\(int param\)')
    sliced.append('%s:%d global_control_active_value' % (GC, s.line))
    t = rw.sub(s.text, r'std::size_t __TBB_EXPORTED_FUNC global_control_active_value\(int param\)', 'size_t global_control_active_value(int param)', 1, 1, name='sig')
    t = rw.sub(t, r'\bd1::global_control::', '', 0, name='ns-strip')
    t = rw.sub(t, r'\bcontrols\[param\]->active_value\(\)', 'CS_active_value(controls[param])', 0, name='virtual call -> dispatch on the dynamic class')
    t = rw.asserts(t, 0, macro='__TBB_ASSERT_RELEASE')
    impl.append(rw.std(t))
    common.write(ctx, 'gcontrol.inc', '\n'.join(out + protos + [comparator] + bodies + disp + impl) + '\n')
    fired['gcontrol'] = rw.fired


def extract_proxy(ctx, sliced, fired):
    """thread_request_serializer_proxy (mandatory concurrency around a soft limit of 0): register_mandatory_request, set_active_num_workers,
    enable/disable_mandatory_concurrency (+ thread_request_serializer::is_no_workers_avaliable); threading_control_impl::set_active_num_workers / adjust_demand and the
    static threading_control::set_active_num_workers (plumbing between global_control, serializer and permit manager)."""
    rw = Rewriter('proxy')
    out = []
    s = slice_block(TRS_H, r'bool is_no_workers_avaliable\(\)', within=r'class thread_request_serializer : public thread_request_observer \{')
    sliced.append('%s:%d thread_request_serializer::is_no_workers_avaliable' % (TRS_H, s.line))
    t = rw.sub(s.text, r'bool is_no_workers_avaliable\(\)', 'static bool trs_is_no_workers_avaliable(struct serializer* self)', 1, 1, name='sig')
    out.append(rw.fields(t, ['my_soft_limit'], 0))
    protos = ['static void proxy_enable_mandatory_concurrency(struct proxy* self);', 'static void proxy_disable_mandatory_concurrency(struct proxy* self);']
    body = []
    for fn, sg, csig in (('rmr', r'void thread_request_serializer_proxy::register_mandatory_request\(int mandatory_delta\)', 'void proxy_register_mandatory_request(struct proxy* self, int mandatory_delta)'),
                         ('psa', r'void thread_request_serializer_proxy::set_active_num_workers\(int soft_limit\)', 'void proxy_set_active_num_workers(struct proxy* self, int soft_limit)'),
                         ('emc', r'void thread_request_serializer_proxy::enable_mandatory_concurrency\(mutex_type::scoped_lock& lock\)', 'static void proxy_enable_mandatory_concurrency(struct proxy* self)'),
                         ('dmc', r'void thread_request_serializer_proxy::disable_mandatory_concurrency\(mutex_type::scoped_lock& lock\)', 'static void proxy_disable_mandatory_concurrency(struct proxy* self)')):
        s = slice_block(TRS, sg)
        sliced.append('%s:%d %s' % (TRS, s.line, sg.replace('\\', '')[5:].split('(')[0]))
        t = rw.sub(s.text, sg, csig, 1, 1, name='sig (the scoped_lock& parameter is the caller\'s lock on my_mutex: dropped)')
        t = rw.sub(t, r'\block\.upgrade_to_writer\(\);', 'UPGRADE_TO_WRITER(self->my_mutex);', 0, name='scoped_lock::upgrade_to_writer -> UPGRADE_TO_WRITER (behaviour-bearing)')
        t = rw.atomics(t, ['my_num_mandatory_requests'], 0)
        t = rw.sub(t, r'(?<![\w.>])my_num_mandatory_requests (>|<|>=|<=|==|!=) ', r'ATOMIC_LOAD(my_num_mandatory_requests) \1 ', 0, name='implicit conversion of std::atomic<int> -> load')
        t = rw.sub(t, r'\bmy_is_mandatory_concurrency_enabled = (true|false);', r'ENABLED_STORE(self, \1);', 0, name='store to my_is_mandatory_concurrency_enabled -> ENABLED_STORE (behaviour-bearing; checks the writer lock)')
        t = rw.sub(t, r'\bmy_serializer\.set_active_num_workers\(', 'STUB_serializer_set_active_num_workers(self, ', 0, name='callee stub (behaviour-bearing): thread_request_serializer::set_active_num_workers (proved by serializer.set_active_num_workers)')
        t = rw.sub(t, r'\bmy_serializer\.is_no_workers_avaliable\(\)', 'trs_is_no_workers_avaliable(&self->my_serializer)', 0, name='method of the member object')
        t = rw.sub(t, r'(?<![\w.>:])(enable|disable)_mandatory_concurrency\(lock\)', r'proxy_\1_mandatory_concurrency(self)', 0, name='method (behaviour-bearing)')
        t = rw.fields(t, ['my_num_mandatory_requests', 'my_is_mandatory_concurrency_enabled', 'my_mutex'], 0)
        t = rw.scoped_locks(t, r'mutex_type::scoped_lock lock\(([^()]*)\);', 0, 1, lock='LOCK_RW', unlock='UNLOCK_RW')
        t = rw.std(t)
        t = rw.number_sites(t, fn, by_kind=True)
        body.append(t)
    common.write(ctx, 'proxy.inc', '\n'.join(out + protos + body) + '\n')
    # plumbing
    out = []
    s = slice_block(TC, r'void threading_control_impl::set_active_num_workers\(unsigned soft_limit\)')
    sliced.append('%s:%d threading_control_impl::set_active_num_workers' % (TC, s.line))
    t = rw.sub(s.text, r'void threading_control_impl::set_active_num_workers\(unsigned soft_limit\)', 'void tci_set_active_num_workers(struct tc_impl* self, unsigned soft_limit)', 1, 1, name='sig')
    t = rw.sub(t, r'\bmy_thread_request_serializer->set_active_num_workers\(', 'STUB_proxy_set_active_num_workers(self, ', 0, name='callee stub (behaviour-bearing): thread_request_serializer_proxy::set_active_num_workers(int)')
    t = rw.sub(t, r'\bmy_permit_manager->set_active_num_workers\(', 'STUB_pm_set_active_num_workers(self, ', 0, name='callee stub (behaviour-bearing): permit_manager::set_active_num_workers(int) (market: request.set_active_num_workers)')
    t = rw.sub(t, r'\bmy_thread_dispatcher->my_num_workers_hard_limit\b', 'self->hard_limit', 0, name='field of the thread dispatcher')
    out.append(rw.std(rw.asserts(t, 0)))
    s = slice_block(TC, r'void threading_control_impl::adjust_demand\(threading_control_client tc_client, int mandatory_delta, int workers_delta\)')
    sliced.append('%s:%d threading_control_impl::adjust_demand' % (TC, s.line))
    t = rw.sub(s.text, r'void threading_control_impl::adjust_demand\(threading_control_client tc_client, int mandatory_delta, int workers_delta\)',
               'void tci_adjust_demand(struct tc_impl* self, struct tc_client tc_client, int mandatory_delta, int workers_delta)', 1, 1, name='sig')
    t = rw.sub(t, r'auto& c = \*tc_client\.get_pm_client\(\);', 'void* c = tc_client.pm_client;', 1, 1, name='reference to the client\'s pm_client -> pointer')
    t = rw.sub(t, r'\bmy_thread_request_serializer->register_mandatory_request\(', 'STUB_proxy_register_mandatory_request(self, ', 0, name='callee stub (behaviour-bearing): thread_request_serializer_proxy::register_mandatory_request')
    t = rw.sub(t, r'\bmy_permit_manager->adjust_demand\(', 'STUB_pm_adjust_demand(self, ', 0, name='callee stub (behaviour-bearing): permit_manager::adjust_demand (market: request.adjust_demand)')
    out.append(rw.std(t))
    s = slice_block(TC, r'void threading_control::set_active_num_workers\(unsigned soft_limit\)')
    sliced.append('%s:%d threading_control::set_active_num_workers' % (TC, s.line))
    t = rw.sub(s.text, r'void threading_control::set_active_num_workers\(unsigned soft_limit\)', 'void tc_set_active_num_workers(unsigned soft_limit)', 1, 1, name='sig (static member)')
    t = rw.sub(t, r'threading_control\* thr_control\{nullptr\};', 'struct tcontrol* thr_control = NULL;', 1, 1, name='value-initialisation {nullptr} -> = NULL')
    t = rw.scoped_locks(t, r'global_mutex_type::scoped_lock lock\(([^()]*)\);', 0, 1)
    t = rw.sub(t, r'(?<![\w.>:])get_threading_control\(', 'STUB_get_threading_control(', 0, name='callee stub (behaviour-bearing): threading_control::get_threading_control (adds a reference when a control exists)')
    t = rw.sub(t, r'\bthr_control->my_pimpl->set_active_num_workers\(', 'STUB_pimpl_set_active_num_workers(thr_control, ', 0, name='callee stub (behaviour-bearing): threading_control_impl::set_active_num_workers')
    t = rw.sub(t, r'\bthr_control->release\(', 'STUB_tc_release(thr_control, ', 0, name='callee stub (behaviour-bearing): threading_control::release')
    out.append(rw.std(t))
    # the limit a NEW threading control starts with
    s = slice_block(MISC, r'T max \( const T& val1, const T& val2 \)')
    out.append(rw.sub(s.text, r'T max \( const T& val1, const T& val2 \)', 'static unsigned tbb_max_unsigned(unsigned val1, unsigned val2)', 1, 1, name='sig + bind-template(T:=unsigned), const& -> value'))
    s = slice_block(TC, r'unsigned threading_control_impl::calc_workers_soft_limit\(unsigned workers_hard_limit\)')
    sliced.append('%s:%d threading_control_impl::calc_workers_soft_limit' % (TC, s.line))
    t = rw.sub(s.text, r'unsigned threading_control_impl::calc_workers_soft_limit\(unsigned workers_hard_limit\)', 'static unsigned tci_calc_workers_soft_limit(unsigned workers_hard_limit)', 1, 1, name='sig (static member)')
    t = rw.sub(t, r'unsigned workers_soft_limit\{\};', 'unsigned workers_soft_limit = 0;', 1, 1, name='value-initialisation {} -> = 0')
    t = rw.sub(t, r'\bglobal_control_active_value_unsafe\(global_control::max_allowed_parallelism\)', 'STUB_active_parallelism()', 0, name='callee stub: global_control_active_value_unsafe(max_allowed_parallelism) (gcontrol.*: extremum over the live controls or the default)')
    t = rw.sub(t, r'\bgovernor::default_num_threads\(\)', 'STUB_default_num_threads()', 0, name='callee stub: governor::default_num_threads')
    out.append(rw.std(t))
    s = slice_block(TC, r'std::pair<unsigned, unsigned> threading_control_impl::calculate_workers_limits\(\)')
    sliced.append('%s:%d threading_control_impl::calculate_workers_limits' % (TC, s.line))
    t = rw.sub(s.text, r'std::pair<unsigned, unsigned> threading_control_impl::calculate_workers_limits\(\)', 'struct uint_pair tci_calculate_workers_limits(void)', 1, 1, name='sig (std::pair<unsigned,unsigned> -> struct uint_pair {first, second})')
    t = rw.sub(t, r'\bglobal_control_active_value_unsafe\(global_control::max_allowed_parallelism\)', 'STUB_active_parallelism()', 0, name='callee stub: global_control_active_value_unsafe(max_allowed_parallelism)')
    t = rw.sub(t, r'\bgovernor::default_num_threads\(\)', 'STUB_default_num_threads()', 0, name='callee stub: governor::default_num_threads')
    t = rw.sub(t, r'(?<![\w.>:])max\(', 'tbb_max_unsigned(', 0, name='max<unsigned>')
    t = rw.sub(t, r'(?<![\w.>:])calc_workers_soft_limit\(', 'tci_calc_workers_soft_limit(', 0, name='method (static)')
    t = rw.sub(t, r'return std::make_pair\((\w+), (\w+)\);', r'return (struct uint_pair){ \1, \2 };', 1, 1, name='std::make_pair -> compound literal')
    out.append(rw.std(t))
    common.write(ctx, 'plumbing.inc', '\n'.join(out) + '\n')
    fired['proxy'] = rw.fired


def extract_join(ctx, sliced, fired):
    """the arena's reference word (external bits | worker count): num_workers_active, is_recall_requested, is_joinable, try_join, on_thread_leaving."""
    rw = Rewriter('join')
    out = []
    for nm in ('ref_external_bits', 'ref_external', 'ref_worker'):
        st = cxx2c.slice_stmt(AH, r'static const unsigned %s\s*=' % nm)
        m = re.search(r'%s\s*=\s*([^;]+);' % nm, st.text)
        if not m:
            raise ExtractionBreak('arena::%s initialiser not found' % nm)
        sliced.append('%s:%d arena::%s' % (AH, st.line, nm))
        out.append('#define %s ((unsigned)(%s))' % (nm, m.group(1).strip()))
    common.write(ctx, 'join_defs.inc', '\n'.join(out) + '\n')
    out = []
    sliced_raw = set()
    for nm, sg, csig in (('nwa', r'unsigned num_workers_active\(\) const', 'static unsigned arena_num_workers_active(struct arena_j* self)'),
                         ('irr', r'bool is_recall_requested\(\) const', 'bool arena_is_recall_requested(struct arena_j* self)'),
                         ('ij', r'bool is_joinable\(\) const', 'static bool arena_is_joinable(struct arena_j* self)')):
        s = slice_block(AH, sg, within=r'class arena\s*:')
        sliced.append('%s:%d arena::%s' % (AH, s.line, sg.split('(')[0].split()[-1].replace('\\', '')))
        sliced_raw.update(x.strip() for x in s.text.split('\n'))
        t = rw.sub(s.text, sg, csig, 1, 1, name='sig')
        t = rw.atomics(t, ['my_references', 'my_num_workers_allotted'], 0)
        t = rw.sub(t, r'(?<![\w.>:])num_workers_active\(\)', 'arena_num_workers_active(self)', 0, name='method')
        t = rw.fields(t, ['my_references', 'my_num_workers_allotted'], 0)
        t = rw.std(t)
        out.append(rw.number_sites(t, nm, by_kind=True))
    s = slice_block(AR, r'bool arena::try_join\(\)')
    sliced.append('%s:%d arena::try_join' % (AR, s.line))
    sliced_raw.update(x.strip() for x in s.text.split('\n'))
    t = rw.sub(s.text, r'bool arena::try_join\(\)', 'bool arena_try_join(struct arena_j* self)', 1, 1, name='sig')
    t = rw.sub(t, r'\barena::(ref_\w+)\b', r'\1', 0, name='ns-strip')
    t = rw.atomics(t, ['my_references'], 0)
    t = rw.sub(t, r'(?<![\w.>:])is_joinable\(\)', 'arena_is_joinable(self)', 0, name='method')
    t = rw.fields(t, ['my_references'], 0)
    t = rw.std(t)
    out.append(rw.number_sites(t, 'tj', by_kind=True))
    s = slice_block(AR, r'void arena::on_thread_leaving\(unsigned ref_param\)')
    sliced.append('%s:%d arena::on_thread_leaving' % (AR, s.line))
    sliced_raw.update(x.strip() for x in s.text.split('\n'))
    t = rw.sub(s.text, r'void arena::on_thread_leaving\(unsigned ref_param\)', 'void arena_on_thread_leaving(struct arena_j* self, unsigned ref_param)', 1, 1, name='sig')
    t = rw.sub(t, r'\bmy_mandatory_concurrency\.test\(\)', 'STUB_mandatory_test(self)', 0, name='callee stub: atomic_flag::test on my_mandatory_concurrency')
    t = rw.sub(t, r'(?<![\w.>:])out_of_work\(\);', 'STUB_out_of_work(self);', 0, name='callee stub (behaviour-bearing): arena::out_of_work (request.out_of_work)')
    t = rw.sub(t, r'threading_control\* tc = my_threading_control;', 'struct tcontrol_j* tc = self->my_threading_control;', 1, 1, name='type + field')
    t = rw.sub(t, r'auto tc_client_snapshot = tc->prepare_client_destruction\(my_tc_client\);', 'struct snapshot_j tc_client_snapshot = STUB_prepare_client_destruction(tc, self);', 1, 1,
               name='callee stub: threading_control::prepare_client_destruction (reads my_tc_client of the live arena)')
    t = rw.sub(t, r'\btc->try_destroy_client\(', 'STUB_try_destroy_client(tc, ', 0, name='callee stub (behaviour-bearing): threading_control::try_destroy_client')
    t = rw.sub(t, r'(?<![\w.>:])free_arena\(\);', 'STUB_free_arena(self);', 0, name='callee stub (behaviour-bearing): arena::free_arena')
    t = rw.atomics(t, ['my_references'], 0)
    t = rw.fields(t, ['my_references'], 0)
    t = rw.std(rw.asserts(t, 0))
    out.append(rw.number_sites(t, 'otl', by_kind=True))
    # closed world: every occurrence of my_references in src/tbb is a read, the constructor's initial value, or adds / removes one whole worker / external reference
    import glob
    ok = [r'my_references\.load\(', r'\bmy_references \+= arena::ref_(?:worker|external);', r'\bmy_references\.fetch_sub\(ref_param\b', r'^\s*my_references = ref_external;',
          r'std::atomic<unsigned> my_references;', r'__TBB_ASSERT\(a->my_references > 0, nullptr\);']
    nscan = 0
    for f in sorted(glob.glob(os.path.join(cxx2c.REPO, 'src/tbb/*.cpp')) + glob.glob(os.path.join(cxx2c.REPO, 'src/tbb/*.h'))):
        rel = os.path.relpath(f, cxx2c.REPO)
        txt = cxx2c.strip_comments(load(rel))
        for ln in txt.split('\n'):
            if 'my_references' in ln:
                nscan += 1
                if ln.strip() and ln.strip() in sliced_raw:
                    continue      # inside try_join / on_thread_leaving / the arena.h accessors: whatever it does is checked by the join.* jobs
                if not any(re.search(p_, ln) for p_ in ok):
                    raise ExtractionBreak('closed-world scan: unknown use of arena::my_references in %s: %s' % (rel, ln.strip()))
    rw.fired['closed-world scan: uses of arena::my_references'] = nscan
    common.write(ctx, 'join.inc', '\n'.join(out) + '\n')
    fired['join'] = rw.fired


def extract_reg(ctx, sliced, fired):
    """market::register_client / unregister_and_destroy_client: a client sits in the client list of its OWN priority level (what update_allotment's per-level sums rely on)."""
    rw = Rewriter('register')
    out = []
    s = slice_block(MK, r'void market::register_client\(pm_client\* c, d1::constraints&\)')
    sliced.append('%s:%d market::register_client' % (MK, s.line))
    t = rw.sub(s.text, r'void market::register_client\(pm_client\* c, d1::constraints&\)', 'void market_register_client(struct market_g* self, struct pmclient_g* c)', 1, 1, name='sig (unnamed constraints& dropped)')
    t = rw.scoped_locks(t, r'mutex_type::scoped_lock lock\(([^()]*)\);', 0, 1)
    t = rw.sub(t, r'\bmy_clients\[([^\]]*)\]\.push_back\(', r'VEC_PUSH_BACK(&self->my_clients[\1], ', 0, name='std::vector::push_back -> VEC_PUSH_BACK (behaviour-bearing)')
    t = rw.sub(t, r'\bc->priority_level\(\)', 'PMC_PRIORITY_LEVEL(c)', 0, name='pm_client::priority_level (sliced in request.*) -> the client\'s level')
    t = rw.fields(t, ['my_mutex'], 0)
    out.append(rw.std(t))
    s = slice_block(MK, r'void market::unregister_and_destroy_client\(pm_client& c\)')
    sliced.append('%s:%d market::unregister_and_destroy_client' % (MK, s.line))
    t = rw.sub(s.text, r'void market::unregister_and_destroy_client\(pm_client& c\)', 'void market_unregister_and_destroy_client(struct market_g* self, struct pmclient_g* c)', 1, 1, name='sig')
    t = rw.sub(t, r'&c\b', 'c', 0, name='address of a reference parameter -> the pointer')
    t = rw.sub(t, r'\bc\.priority_level\(\)', 'PMC_PRIORITY_LEVEL(c)', 0, name='pm_client::priority_level -> the client\'s level')
    t = rw.scoped_locks(t, r'mutex_type::scoped_lock lock\(([^()]*)\);', 0, 1)
    t = rw.sub(t, r'auto& clients = my_clients\[([^\]]*)\];', r'struct cvec* clients = &self->my_clients[\1];', 1, 1, name='reference to the level\'s list -> pointer')
    t = rw.sub(t, r'auto it = std::find\(clients\.begin\(\), clients\.end\(\), c\);', 'vec_iter it = VEC_FIND(clients, c);', 0, name='std::find over the whole vector -> VEC_FIND')
    t = rw.sub(t, r'\bclients\.end\(\)', 'VEC_END(clients)', 0, name='std::vector::end -> VEC_END')
    t = rw.sub(t, r'\bclients\.erase\(', 'VEC_ERASE(clients, ', 0, name='std::vector::erase -> VEC_ERASE (behaviour-bearing)')
    t = rw.sub(t, r'auto client = static_cast<tbb_permit_manager_client\*>\(c\);', 'struct pmclient_g* client = c;', 1, 1, name='downcast dropped')
    t = rw.sub(t, r'client->~tbb_permit_manager_client\(\);', 'STUB_client_dtor(client);', 0, name='destructor call -> stub (behaviour-bearing)')
    t = rw.sub(t, r'cache_aligned_deallocate\(client\);', 'STUB_deallocate(client);', 0, name='deallocation -> stub (behaviour-bearing)')
    t = rw.fields(t, ['my_mutex'], 0)
    out.append(rw.std(rw.asserts(t, 0)))
    common.write(ctx, 'register.inc', '\n'.join(out) + '\n')
    fired['register'] = rw.fired


def build(ctx):
    sliced, fired = extract(ctx)
    extract_flag(ctx, sliced, fired)
    extract_trs(ctx, sliced, fired)
    extract_allot(ctx, sliced, fired)
    extract_req(ctx, sliced, fired)
    extract_gc(ctx, sliced, fired)
    extract_proxy(ctx, sliced, fired)
    extract_join(ctx, sliced, fired)
    extract_reg(ctx, sliced, fired)
    C = os.path.join(HERE, 'c16.c')
    vmax = 15 if getattr(ctx, 'tier', 'quick') == 'thorough' else 7
    jobs = [
        Job('budget.limit_delta', C, 'h_limit_delta', route='LF', defines=['LD'], target='thread_request_serializer::limit_delta', source=TRS),
        Job('isolation.get_critical_task', C, 'h_critical', route='LF', defines=['CRIT'], target='task_dispatcher::get_critical_task', source=TD),
        Job('slots.try_occupy', C, 'h_try_occupy', route='RG', defines=['SLOTS'], target='arena_slot::try_occupy', source=AS),
        Job('slots.occupy_in_range', C, 'h_in_range', route='LC', loops=True, nloops=2, defines=['SLOTS'], target='arena::occupy_free_slot_in_range', source=AR, timeout=1800),
        Job('allot.update_allotment.proportional', C, 'h_allot', route='LC', loops=True, nloops=2, defines=['ALLOT'], target='market::update_allotment, soft limit > 0 (+ pm_client accessors, set_allotment, arena::set_allotment/set_top_priority)', source=MK, timeout=1800,
            inputs=['IN_soft', 'IN_mand', 'IN_d0', 'IN_d1', 'IN_d2', 'IN_n0', 'IN_n1', 'IN_n2']),
        Job('allot.update_allotment.soft0', C, 'h_allot', route='LC', loops=True, nloops=2, defines=['ALLOT', 'SOFT0'], target='market::update_allotment, soft limit 0 (mandatory concurrency)', source=MK, timeout=1800,
            inputs=['IN_soft', 'IN_mand', 'IN_d0', 'IN_d1', 'IN_d2', 'IN_n0', 'IN_n1', 'IN_n2']),
        Job('allot.lemma', C, 'h_allot_lemma', route='BD', defines=['ALLOT_LEMMA', 'LEMMA_LIM=32'], target='step contract SL of the proportional split, with the real * / % (justifies the abstraction used by allot.update_allotment.proportional)', source=MK, timeout=300,
            solver='cadical', bound_text='all six operands < 32 (5 bits)', inputs=['IN_d', 'IN_app', 'IN_mw', 'IN_S', 'IN_A', 'IN_c']),
        Job('allot.update_allotment.real_ops', C, 'h_allot', route='BD', loops=True, nloops=2, defines=['ALLOT_REAL', 'VALMAX=%d' % vmax], solver='cadical',
            target='market::update_allotment with the real * / % and the non-linear split invariant, any number of clients', source=MK, timeout=1800,
            bound_text='level demands and soft limit <= %d; client lists of any length' % vmax, inputs=['IN_soft', 'IN_mand', 'IN_d0', 'IN_d1', 'IN_d2', 'IN_n0', 'IN_n1', 'IN_n2']),
        Job('request.arena_update_request', C, 'h_arena_update_request', route='LF', defines=['REQ'], target='arena::update_request (+ clamp<int>, is_arena_workerless)', source=AR, inputs=['IN_mand', 'IN_total', 'IN_md', 'IN_wd', 'IN_maxw']),
        Job('request.pm_client_update_request', C, 'h_pm_update_request', route='LF', defines=['REQ'], target='pm_client::update_request, set_workers', source=PMC, inputs=['IN_mand', 'IN_total', 'IN_md', 'IN_wd', 'IN_maxw']),
        Job('request.adjust_demand', C, 'h_adjust_demand', route='LF', defines=['REQ'], target='market::adjust_demand (+ pm_client::update_request, arena::update_request, permit_manager::notify_thread_request)', source=MK, inputs=['IN_mand', 'IN_total', 'IN_md', 'IN_wd', 'IN_maxw']),
        Job('request.set_active_num_workers', C, 'h_set_active', route='LF', defines=['REQ'], target='market::set_active_num_workers', source=MK),
        Job('flag.test_and_set', C, 'h_flag_test_and_set', route='RG', defines=['FLAG'], target='atomic_flag::test_and_set (arena::my_pool_state / my_mandatory_concurrency)', source=AH),
        Job('flag.try_clear_if', C, 'h_flag_try_clear_if', route='RG', defines=['FLAG'], target='atomic_flag::try_clear_if<Pred>', source=AH),
        Job('request.advertise_new_work', C, 'h_advertise', route='LF', defines=['ADV'], target='arena::advertise_new_work<work_type>', source=AH),
        Job('request.out_of_work', C, 'h_out_of_work', route='LF', defines=['ADV'], target='arena::out_of_work', source=AR),
        Job('empty.has_tasks', C, 'h_has_tasks', route='LC', loops=True, nloops=1, defines=['HT'], target='arena::has_tasks (+ has_enqueued_tasks, arena_slot::is_empty)', source=AR),
        Job('serializer.update', C, 'h_trs_update', route='RG', defines=['TRSQ'], target='thread_request_serializer::update (pending sum within 16 bits)', source=TRS, inputs=['IN_delta', 'IN_pend']),
        Job('serializer.update.wide', C, 'h_trs_update', route='RG', defines=['TRSQ', 'WIDE'], target='thread_request_serializer::update (one call, delta beyond 16 bits)', source=TRS, inputs=['IN_delta', 'IN_pend']),
        Job('serializer.set_active_num_workers', C, 'h_trs_set_active', route='RG', defines=['TRSQ'], target='thread_request_serializer::set_active_num_workers', source=TRS, inputs=['IN_soft']),
        Job('slots.occupy_free_slot', C, 'h_occupy', route='LC', loops=True, defines=['SLOTS'], target='arena::occupy_free_slot<as_worker> (modular over the loops\' contracts)', source=AR, timeout=1800),
    ]
    # global_control: property C16 speaks about max_allowed_parallelism only -> the storage-class dependent jobs are instantiated for allowed_parallelism_control
    # (thread_stack_size / terminate_on_exception / scheduler handles share create/destroy, whose class-independent part - lock, list membership - is covered by the same jobs)
    gin = ['IN_kind', 'IN_v0', 'IN_v1', 'IN_v2', 'IN_v3', 'IN_active']
    d = ['GC', 'GC_KIND=KIND_allowed_parallelism_control']
    jobs += [
        Job('gcontrol.table', C, 'h_gc_table', route='LF', defines=['GC'], target='controls[] table (global_control_acquire) against d1::global_control::parameter; allowed_parallelism_control::is_first_arg_preferred', source=GC),
        Job('gcontrol.comparator.parallelism', C, 'h_gc_comparator', route='LF', defines=d, target='control_storage_comparator::operator() on the max_allowed_parallelism list', source=GC, inputs=gin),
        Job('gcontrol.create.parallelism', C, 'h_gc_create', route='LF', defines=d, target='global_control_impl::create (+ allowed_parallelism_control::is_first_arg_preferred/apply_active, control_storage::apply_active)', source=GC, inputs=gin),
        Job('gcontrol.destroy.parallelism', C, 'h_gc_destroy', route='LF', defines=d, target='global_control_impl::destroy, erase_if_present (+ allowed_parallelism_control::default_value/apply_active)', source=GC, inputs=gin),
        Job('gcontrol.active_value.parallelism', C, 'h_gc_active_value', route='LF', defines=d, target='global_control_active_value -> allowed_parallelism_control::active_value / default_value', source=GC, inputs=gin),
        Job('gcontrol.remove_and_check', C, 'h_gc_remove', route='LF', defines=['GC', 'GC_KIND=KIND_lifetime_control'], target='global_control_impl::remove_and_check_if_empty (list membership and lock only)', source=GC, inputs=gin),
        Job('mandatory.register_request', C, 'h_proxy_register', route='RG', defines=['PROXY'], target='thread_request_serializer_proxy::register_mandatory_request, enable/disable_mandatory_concurrency (+ thread_request_serializer::is_no_workers_avaliable)', source=TRS, inputs=['IN_delta']),
        Job('mandatory.set_active_num_workers', C, 'h_proxy_set_active', route='RG', defines=['PROXY'], target='thread_request_serializer_proxy::set_active_num_workers', source=TRS, inputs=['IN_soft']),
        Job('limit.impl_set_active_num_workers', C, 'h_tci_set_active', route='LF', defines=['PLUMB'], target='threading_control_impl::set_active_num_workers', source=TC),
        Job('limit.impl_adjust_demand', C, 'h_tci_adjust_demand', route='LF', defines=['PLUMB'], target='threading_control_impl::adjust_demand', source=TC),
        Job('limit.initial', C, 'h_tci_limits', route='LF', defines=['PLUMB'], target='threading_control_impl::calculate_workers_limits, calc_workers_soft_limit', source=TC, inputs=['IN_app', 'IN_ncpu']),
        Job('limit.initial.soft_limit', C, 'h_tci_soft_limit', route='LF', defines=['PLUMB'], target='threading_control_impl::calc_workers_soft_limit (any hard limit)', source=TC, inputs=['IN_app', 'IN_ncpu']),
        Job('limit.set_active_num_workers', C, 'h_tc_set_active', route='LF', defines=['PLUMB'], target='threading_control::set_active_num_workers (static)', source=TC),
        Job('request.register_client', C, 'h_register_client', route='LF', defines=['REG'], target='market::register_client', source=MK),
        Job('request.unregister_client', C, 'h_unregister_client', route='LF', defines=['REG'], target='market::unregister_and_destroy_client', source=MK),
        Job('join.try_join', C, 'h_try_join', route='RG', defines=['JOIN'], target='arena::try_join, is_joinable, num_workers_active', source=AR),
        Job('join.is_recall_requested', C, 'h_is_recall_requested', route='RG', defines=['JOIN'], target='arena::is_recall_requested', source=AH),
        Job('join.on_thread_leaving', C, 'h_on_thread_leaving', route='RG', defines=['JOIN'], target='arena::on_thread_leaving', source=AR),
    ]
    return {
        'jobs': jobs, 'sliced': sliced, 'fired': fired,
        'trusted': ['arena::get_critical_task, r1::spawn (stamps the spawned task with the dispatcher\'s current isolation), observers: stubs', 'FastRandom::get(): arbitrary value', 'SC atomics; my_is_occupied is only written by try_occupy/release',
                    'allot.*: integer lemma SL (step contract of the proportional split: q*d + r == mw*share + carry, 0 <= r < d and A*d + carry == share*S imply 0 <= q <= mw, A+q <= share, equality and r == 0 with the last client, invariant preserved); hand proof in c16.c, machine-checked with the real * / % for operands < 32 (allot.lemma) and on the real text for demands <= 7/15 (allot.update_allotment.real_ops); the unbounded job assumes its conclusions only at calls whose shape and linear preconditions it has checked',
                    'allot.*: the C semantics of / and % on non-negative int operands (0 <= r < d, q >= 0)',
                    'allot.*: arenas of the clients other than the arbitrary client k are one summary object (the sliced code only writes them)',
                    'request.adjust_demand: market::update_allotment is a stub that checks the precondition the allot.* jobs assume (demand counters == sums of requests) and that the mutex is held; thread_request_observer::update is a stub',
                    'request.advertise_new_work / out_of_work: atomic_flag::test_and_set / try_clear_if are stubs with the behaviour proved in flag.* (predicate evaluated only inside the busy window; true only if it held); has_tasks / has_enqueued_tasks nondeterministic; arena::request_workers records its arguments',
                    'flag.*: every writer of atomic_flag::my_state is test_and_set or try_clear_if (rely = their transitions); a busy token is the address of a live local: never 0 or 1, distinct per thread',
                    'serializer.*: d1::mutex serialises the sections (each section is one step; other holders leave estimate == min(soft limit, total request)); thread_dispatcher::adjust_job_count_estimate only accumulates; every writer of my_pending_delta is update()',
                    'empty.has_tasks: task_stream::empty() is `population word == 0`; one fixed state is scanned (tasks published during the scan are the flag protocol\'s business)',
                    'gcontrol.*: std::set<global_control*, control_storage_comparator> keeps its elements unique and ordered under the comparator it is given: find/insert locate an element EQUIVALENT under the sliced comparator, begin() is a live element no live element precedes under the sliced comparator (the comparator itself is proved a strict weak order separating distinct objects, preferred value first: gcontrol.comparator.parallelism); named-element model: 4 named controls (subject, arbitrary other g_k, attaining witness g_w, the element begin() returns) + a count of further elements',
                    'gcontrol.*: threading_control::set_active_num_workers / max_num_workers, governor::default_num_threads (one fixed value per process) are stubs; virtual calls are dispatched on a class tag by dispatchers generated from which class overrides what; controls[i] classes harvested from global_control_acquire',
                    'gcontrol.*: every access to my_list / my_active_value happens under my_list_mutex (checked at each access), hence sequential reasoning inside the section',
                    'mandatory.*: d1::rw_mutex gives reader/writer exclusion; upgrade_to_writer may release the lock (modelled: any number of complete sections of other threads); thread_request_serializer::set_active_num_workers stores the limit (proved separately: serializer.set_active_num_workers); every writer of the proxy state is one of the four sliced functions',
                    'limit.*: proxy / permit manager / threading_control::release / get_threading_control are stubs recording their arguments',
                    'join.*: every writer of arena::my_references adds or removes whole references (closed-world scan over src/tbb on every run: loads, `+= arena::ref_worker|ref_external`, `fetch_sub(ref_param`, the constructor\'s `= ref_external`; try_join and on_thread_leaving are sliced, the increments of entering external threads / nested workers in arena.cpp and task.cpp are not); prepare_client_destruction / try_destroy_client / free_arena / out_of_work are stubs',
                    'request.register_client / unregister_client: std::vector push_back / std::find / erase as membership flags for the subject client and one arbitrary other client'],
        'drops': ['debug pointer/task validity checks -> RG_NOP()', 'local reference aliases (td, a, slot)', 'template<bool as_worker> -> parameter',
                  'update_allotment: reverse iterators over std::vector<pm_client*> -> reverse position index + CLIST_DEREF(it); static_cast to tbb_permit_manager_client dropped; pm_client::my_arena (a reference) -> PMC_ARENA(client)',
                  'update_allotment: the three non-linear operations are named ALLOT_MUL/ALLOT_DIV/ALLOT_MOD (real operators in the BD job, step contract in the unbounded job)',
                  'mutex_type::scoped_lock -> LOCK_MUTEX/UNLOCK_MUTEX at scope exit', 'std::pair<int,int> -> struct int_pair; braced return -> compound literal; int delta{} -> int delta = 0',
                  'template<new_work_type> -> parameter; atomic_fence_seq_cst() -> RG_NOP() (SC assumed); out_of_work lambdas [this]{ return e; } -> lazily evaluated macro argument',
                  'atomic_flag: class constants SET/UNSET -> macros; __TBB_fallthrough -> RG_NOP(); Pred&& pred -> STUB_pred()', 'has_tasks: #if __TBB_PREVIEW_CRITICAL_TASKS resolved to 1 (checked against _config.h)',
                  'wakeup of sleeping threads in arena::request_workers (not sliced: liveness)',
                  'global_control.cpp: member functions -> C functions on struct cstorage* self (parameters std::size_t -> size_t, unnamed parameters named); virtual calls c->f(..) / f() -> CS_f(c, ..); explicit base call control_storage::apply_active -> control_storage_apply_active(self, ..); d1::global_control& -> struct gcontrol*; std::set operations -> SET_EMPTY/FIND/END/INSERT/ERASE/BEGIN/DEREF; my_active_value -> CS_ACTIVE(c) (lock-checking accessor); spin_mutex::scoped_lock -> LOCK/UNLOCK with the return value computed before the unlock; lhs < rhs on control addresses -> PTR_LT; #if chains of stack_size_control resolved for linux (_WIN32_WINNT, EMSCRIPTEN undefined); ThreadStackSize is a harness constant; __TBB_ASSERT_RELEASE -> obligation',
                  'serializer proxy: the scoped_lock& parameter of enable/disable_mandatory_concurrency is dropped (it is the caller\'s lock on my_mutex); lock.upgrade_to_writer() -> UPGRADE_TO_WRITER(my_mutex); implicit std::atomic<int> -> int conversion -> load; store to my_is_mandatory_concurrency_enabled -> ENABLED_STORE',
                  'threading_control plumbing: auto& c = *tc_client.get_pm_client() -> pointer; threading_control* thr_control{nullptr} -> = NULL',
                  'on_thread_leaving: the local `auto tc_client_snapshot` gets a struct type; register/unregister_client: auto& clients -> pointer, std::find(begin, end, p) -> VEC_FIND, static_cast downcast dropped, destructor / deallocation calls -> stubs'],
        'not_decided': ['"at any instant" bound of the workers inside an arena by its ALLOTMENT: not provable, arena::try_join is check-then-add (is_joinable, then my_references += ref_worker, no CAS) under a READER lock of the dispatcher, so several workers may pass the test together and overshoot the allotment until is_recall_requested makes the surplus leave; decided instead: a worker adds its reference only after it SAW active < allotted (join.try_join), the word is an exact census of references (join.*), slots bound the threads inside (slots.*)',
                        'that surplus workers actually leave (waiters.h polling of is_recall_requested) and priority satisfaction over time (workers migrating after a new allotment): liveness',
                        'observer entry/exit pairing', 'isolation filter of arena_slot::get_task (see C01)',
                        'global_control: only the max_allowed_parallelism instantiation is under contract (C16 speaks about it only); thread_stack_size / terminate_on_exception / lifetime control are NOT claimed - observation outside C16: control_storage_comparator orders every list by ascending value while destroy() takes *begin(), so for the parameters that prefer the LARGER value the active value falls to the minimum of the live controls after the maximum is destroyed (c16_replay_gc.cpp stack_size|terminate reproduces it through the public API)',
                        'global_control: global_control_lock/unlock (lock order over the four storages), d1::global_control constructor/destructor, task_scheduler_handle finalize/release, threading_control_impl::calc_workers_soft_limit / calculate_workers_limits (initial limit of a new threading control)',
                        'mandatory concurrency: SUSPECTED flaw, verifier counterexample only, no native witness: thread_request_serializer_proxy::set_active_num_workers(0) issued while the user limit is ALREADY 0, the flag is on and a disable attempt is pending (counter <= 0) leaves flag on / serializer limit 0; the pending disable then does nothing (it tests !is_no_workers_avaliable()) and later enable attempts are refused (flag already on): no mandatory worker is requested until a non-zero limit is set. Reachable only when max_allowed_parallelism == 1 is re-applied with the default already 1 (single-CPU process) inside the window of upgrade_to_writer releasing the lock. This domain is excluded from mandatory.set_active_num_workers by a stated assumption (the excluded half is the harness variant -DPENDING_DISABLE, which fails "while mandatory concurrency is on the serializer may request exactly ONE worker")',
                        'update_allotment beyond the stated bounds is proved only modulo lemma SL (see trusted); int overflow of max_workers*assigned_per_priority is assumed away',
                        'termination/liveness: missed wake-ups, the deliberately fence-free spawn path of advertise_new_work',
                        'F11 (open): thread_request_serializer::update mis-decodes a delta outside [-2^15, 2^15) - job serializer.update.wide fails by design of the split; serializer.update covers the in-range half'],
        'assumptions': ['no int overflow in new_value - delta (the serializer is fed with differences of small worker counts)',
                        'allot.*: level demands and the soft limit are at most 2^28; my_total_demand == sum of the level demands, each level demand == sum of its clients\' max_workers, all requests >= 0 (established by request.adjust_demand for one client against the rest); client lists up to 2^12 entries per level in the array model (the loop contracts do not depend on the length)',
                        'allot.*: client.max_workers() * assigned_per_priority + carry does not overflow int (needs max_num_workers * soft limit < 2^31; otherwise the real code has signed overflow)',
                        'allot.update_allotment.soft0: when my_mandatory_num_requested > 0 some client has min_workers > 0 AND max_workers > 0 (needed by the in-code assertion assigned == max_workers and by the exact-sum obligation; it can be false transiently - see report)',
                        'request.*: |outstanding counters| and |deltas| < 2^28; my_max_num_workers <= 2^28; arena priority level < 3; thread-request observer set',
                        'serializer.update: the sum of the deltas pending in my_pending_delta at any one time lies in [-2^15, 2^15) and fewer than 2^15 calls are pending at once (the other half of the domain is serializer.update.wide = F11)',
                        'flag.*: fewer than 2^40 epochs',
                        'gcontrol.*: max_allowed_parallelism values are >= 1 (d1::global_control constructor: __TBB_ASSERT_RELEASE) and <= UINT_MAX (threading_control::set_active_num_workers takes an unsigned: a larger value would be truncated); a control is created once and destroyed once (constructor/destructor); all controls in a list carry the list\'s parameter; scheduler-handle controls carry the value 1 (governor.cpp: get)',
                        'mandatory.*: mandatory_delta in {-1, 0, +1}; counters below 2^20; mandatory.set_active_num_workers: NOT (new limit == 0 while the user limit is already 0, the flag is on and the request counter is <= 0) - see not_decided',
                        'limit.impl_set_active_num_workers: soft_limit <= the dispatcher\'s hard limit (in-code assertion; a global_control value above hard limit + 1 created after the threading control would violate it - not examined) and <= INT_MAX',
                        'join.*: fewer than 4096 external references and fewer than 2^19 worker references at any time (field widths of my_references); the leaving thread holds the reference it gives back'],
    }


def replay_gc(ctx, jobname, failure):
    """gcontrol.*: public-API scenario on a libtbb built from the current tree (c16_replay_gc.cpp)"""
    short = jobname.split('.')[-1]
    if short not in ('parallelism', 'stack_size', 'terminate'):
        return {'reproduced': False, 'detail': 'no native recipe: the scheduler-handle list / the controls[] table have no value observable through the public API'}
    exe = native.build([os.path.join(HERE, 'c16_replay_gc.cpp')], os.path.join(ctx.work, 'c16_replay_gc_' + short), link_tbb=True)
    ins = failure.get('inputs') or {}
    cmd = [exe, short] + [str(ins.get(k, 0) or 0) for k in ('IN_v0', 'IN_v1', 'IN_v2', 'IN_v3')]
    rc, out = native.run(cmd, timeout=120)
    rep = {'cmd': ' '.join(cmd), 'rc': rc, 'output': out[-1500:], 'reproduced': False, 'detail': 'native recipe found no failing scenario'}
    m = re.search(r'^REPRODUCED (.*)', out, re.M)
    if m:
        rep['reproduced'] = True
        rep['detail'] = m.group(1)
        w = re.search(r'class=(\S+)', m.group(1))
        rep['witness_class'] = w.group(1) if w else None
    return rep


def replay(ctx, jobname, failure):
    if os.environ.get('C16_NO_REPLAY'):      # mutation-testing aid: skip the native builds
        return {'reproduced': False, 'detail': 'native replay skipped (C16_NO_REPLAY)'}
    if jobname == 'gcontrol.destroy.parallelism' or jobname == 'gcontrol.create.parallelism' or jobname == 'gcontrol.comparator.parallelism':
        return replay_gc(ctx, jobname, failure)      # public-API scenario for max_allowed_parallelism only
    if jobname != 'serializer.update.wide' and not jobname.startswith('allot.update_allotment'):
        return {'reproduced': False, 'detail': 'no native recipe: get_critical_task / slot occupation / the flag protocol need a running arena with a forced interleaving; '
                                               'see seeded/C16-1/demo.cpp for a public-API scenario'}
    exe = native.build([os.path.join(HERE, 'c16_replay.cpp')], os.path.join(ctx.work, 'c16_replay'), link_tbb=True,
                       flags=['-fno-access-control'], includes=[os.path.join(native.REPO, 'src')])
    ins = failure.get('inputs') or {}
    cmd = [exe, jobname, str(ins.get('IN_delta', 0))]
    rc, out = native.run(cmd, timeout=300)
    rep = {'cmd': ' '.join(cmd), 'rc': rc, 'output': out[-1500:], 'reproduced': False, 'detail': 'native recipe found no failing scenario'}
    m = re.search(r'REPRODUCED (.*)', out)
    if m:
        rep['reproduced'] = True
        rep['detail'] = m.group(1)
        w = re.search(r'class=(\S+)', m.group(1))
        rep['witness_class'] = w.group(1) if w else None
    return rep
