// C16 native recipes on the real library (libtbb is compiled from the current /repo/src/tbb by tools/native.py).
//   c16_replay serializer.update.wide [delta]
// Scenario for thread_request_serializer::update with a delta that does not fit the 16-bit pending field: the first work in a task_arena with
// `delta` worker slots makes the arena request `delta` workers in one adjust_demand call; market -> notify_thread_request(delta) ->
// thread_request_serializer::update(delta).  Observed through the public API only: how many distinct threads run a loop before, inside and after.
#include <oneapi/tbb/task_arena.h>
#include <oneapi/tbb/parallel_for.h>
#include <oneapi/tbb/global_control.h>
#include "tbb/arena.h"      // white-box (-fno-access-control): r1::arena::my_num_workers_allotted
#include "tbb/pm_client.h"  // white-box: r1::pm_client::max_workers()
#include <atomic>
#include <memory>
#include <vector>
#include <set>
#include <mutex>
#include <thread>
#include <chrono>
#include <cstdio>
#include <cstdlib>
#include <cstring>
#include <unistd.h>
#include <sys/wait.h>

template <typename Run> static int distinct_threads(Run run) {
    std::mutex m; std::set<std::thread::id> ids;
    run([&] {
        tbb::parallel_for(0, 400, [&](int) {
            { std::lock_guard<std::mutex> l(m); ids.insert(std::this_thread::get_id()); }
            std::this_thread::sleep_for(std::chrono::milliseconds(2));
        });
    });
    return (int)ids.size();
}
static int in_default_arena() { return distinct_threads([](const std::function<void()>& f) { f(); }); }
static int in_arena(int conc) { tbb::task_arena a(conc); return distinct_threads([&](const std::function<void()>& f) { a.execute(f); }); }

// one attempt in a child process (a broken worker budget must not be able to hang or poison the parent)
static int attempt(long delta) {
    fflush(stdout);
    pid_t pid = fork();
    if (pid == 0) {
        alarm(90);
        int conc = (int)delta + 1;                       // one slot is reserved for the calling thread: max_num_workers == delta
        int before = in_default_arena();
        if (before < 2) { printf("no worker threads on this machine (default arena uses %d thread): nothing to observe\n", before); _exit(2); }
        int inside = in_arena(conc);
        std::this_thread::sleep_for(std::chrono::milliseconds(300));
        int after = in_default_arena();
        int small = in_arena(8);
        bool bad = inside < 2 || after < before || small < 2;
        printf("%s class=serializer-delta-overflow task_arena(%d) requests delta=%ld workers in one update(): before: default arena ran on %d threads; "
               "inside task_arena(%d): %d thread(s); afterwards: default arena %d thread(s), task_arena(8) %d thread(s)%s\n",
               bad ? "REPRODUCED" : "not-reproduced", conc, delta, before, conc, inside, after, small,
               bad ? " -- the delta was mis-decoded from the 16-bit pending field (e.g. +32768 read back as -32768): the total request is wrong, no worker is asked for" : "");
        fflush(stdout);
        _exit(bad ? 1 : 0);
    }
    int st = 0; waitpid(pid, &st, 0);
    if (WIFSIGNALED(st)) { printf("child killed by signal %d (timeout/hang)\n", WTERMSIG(st)); return -1; }
    return WEXITSTATUS(st);
}

// ---- market::update_allotment: the allotment vector for a few (limit, arenas) shapes, read white-box while every arena keeps its full demand -------------------
//   c16_replay allot.update_allotment
// Each arena gets many more blocked enqueued tasks than there are threads, so its streams never run dry and its request stays at max_num_workers; the
// allotment is recomputed synchronously (under the market mutex) by every demand change, so after a short settle the vector read is the one in force.
struct Shape { int limit; int n; tbb::task_arena::priority prio[3]; int conc[3]; };
static unsigned allotted(tbb::task_arena& ta) { return ta.my_arena.load()->my_num_workers_allotted.load(); }
static int requested(tbb::task_arena& ta) { return ta.my_arena.load()->my_tc_client.get_pm_client()->max_workers(); }
static int rank_of(tbb::task_arena::priority p) { return p == tbb::task_arena::priority::high ? 0 : p == tbb::task_arena::priority::normal ? 1 : 2; }
static int allot_attempt(const Shape& sh) {
    fflush(stdout);
    pid_t pid = fork();
    if (pid == 0) {
        alarm(60);
        if (std::thread::hardware_concurrency() < (unsigned)sh.limit) { printf("fewer than %d hardware threads: shape skipped\n", sh.limit); _exit(2); }
        tbb::global_control gc(tbb::global_control::max_allowed_parallelism, sh.limit);
        std::vector<std::unique_ptr<tbb::task_arena>> as;
        static std::atomic<bool> go{false}; static std::atomic<int> done{0};
        int total_tasks = 0;
        for (int i = 0; i < sh.n; ++i) { as.emplace_back(new tbb::task_arena(sh.conc[i], 0, sh.prio[i])); as.back()->initialize(); }
        for (int i = sh.n - 1; i >= 0; --i)
            for (int k = 0; k < 64; ++k, ++total_tasks)
                as[i]->enqueue([] { while (!go.load()) std::this_thread::sleep_for(std::chrono::milliseconds(1)); ++done; });
        std::this_thread::sleep_for(std::chrono::milliseconds(300));
        long sum = 0, total = 0; bool bad = false; char buf[600]; int o = 0;
        int req[3]; unsigned all[3];
        for (int i = 0; i < sh.n; ++i) { req[i] = requested(*as[i]); all[i] = allotted(*as[i]); total += req[i]; sum += all[i];
            o += snprintf(buf + o, sizeof(buf) - o, " arena%d(prio-rank %d, %d slots): requested=%d allotted=%u;", i, rank_of(sh.prio[i]), sh.conc[i], req[i], all[i]); }
        long budget = total < sh.limit - 1 ? total : sh.limit - 1;
        const char* why = "";
        for (int i = 0; i < sh.n; ++i) if ((long)all[i] > (long)req[i]) { bad = true; why = "an arena is granted more than it requested"; }
        if (!bad && sum != budget) { bad = true; why = "the grants do not sum to min(total demand, limit)"; }
        for (int i = 0; i < sh.n && !bad; ++i) for (int j = 0; j < sh.n; ++j)
            if (rank_of(sh.prio[j]) > rank_of(sh.prio[i]) && all[j] > 0 && (long)all[i] != (long)req[i]) { bad = true; why = "a lower-priority arena holds workers while a higher-priority request is not satisfied"; }
        printf("%s class=allotment-vector max_allowed_parallelism=%d (worker budget %d):%s expected sum min(total demand %ld, %d)=%ld%s%s\n", bad ? "REPRODUCED" : "not-reproduced",
               sh.limit, sh.limit - 1, buf, total, sh.limit - 1, budget, bad ? " -- " : "", why);
        fflush(stdout);
        go = true;
        for (int w = 0; w < 20000 && done.load() < total_tasks; ++w) std::this_thread::sleep_for(std::chrono::milliseconds(1));
        _exit(bad ? 1 : 0);
    }
    int st = 0; waitpid(pid, &st, 0);
    if (WIFSIGNALED(st)) { printf("child killed by signal %d (timeout/hang)\n", WTERMSIG(st)); return -1; }
    return WEXITSTATUS(st);
}

int main(int argc, char** argv) {
    const char* job = argc > 1 ? argv[1] : "";
    if (strncmp(job, "allot.", 6) == 0) {
        using P = tbb::task_arena::priority;
        const Shape shapes[] = {
            {3, 2, {P::high, P::normal, P::normal}, {4, 3, 0}},       // high-priority demand above the budget
            {4, 3, {P::high, P::normal, P::low}, {2, 4, 4}},          // high level satisfied, normal level partly, low level nothing
            {5, 3, {P::normal, P::normal, P::normal}, {3, 5, 7}},     // one level, proportional split with carry
            {3, 2, {P::low, P::high, P::normal}, {6, 1, 0}},
        };
        for (const Shape& sh : shapes) if (allot_attempt(sh) == 1) return 1;
        return 0;
    }
    if (strncmp(job, "serializer.update", 17) == 0) {
        long d = argc > 2 ? atol(argv[2]) : 0;
        // the verifier's delta first when an arena of that size is affordable (each slot costs a few hundred bytes), then the boundary
        if (d >= 32768 && d <= 200000 && (d % 65536) >= 32768) { if (attempt(d) == 1) return 1; }
        if (attempt(32768) == 1) return 1;
        if (attempt(40000) == 1) return 1;
        return 0;
    }
    printf("no native recipe for job %s\n", job);
    return 0;
}
