"""C15 -- flow-graph buffering / ordering / limiting nodes keep their contracts."""
import os
import sys
import re
HERE = os.path.dirname(os.path.abspath(__file__))
sys.path.insert(0, os.path.join(HERE, '..'))
sys.path.insert(0, os.path.join(HERE, '..', '..', 'tools'))
import common
import native
import cxx2c
from cxx2c import Rewriter, CClass, Slice, slice_block, tag_loops, ExtractionBreak, load
from prove import Job

FG = 'include/oneapi/tbb/flow_graph.h'
IB = 'include/oneapi/tbb/detail/_flow_graph_item_buffer_impl.h'
JI = 'include/oneapi/tbb/detail/_flow_graph_join_impl.h'
PREVIEW = {'__TBB_PREVIEW_FLOW_GRAPH_TRY_PUT_AND_WAIT': 0, 'TBB_USE_ASSERT': 0, 'TBB_DEPRECATED_SEQUENCER_DUPLICATES': 0, 'TBB_USE_DEBUG': 0}


def resolved(sl, name):
    t = cxx2c.cpp_resolve(sl.text, PREVIEW, name)
    # __TBB_FLOW_GRAPH_METAINFO_ARG(x) expands to nothing when the preview feature is off
    t = re.sub(r'\s*__TBB_FLOW_GRAPH_METAINFO_ARG\((?:[^()]|\([^()]*\))*\)', '', t)
    return Slice(sl.rel, sl.start, sl.end, t, sl.line)


def extract_item_buffer(ctx, sliced, fired, more=()):
    # ---------------- item_buffer + sequencer_node::internal_push ------------------------
    ib = CClass(IB, r'class item_buffer \{', 'item_buffer', tbind={'size_type': 'size_t', 'item_type': 'item_type', 'buffer_item_type': 'aligned_space_item'})
    ib.harvest_members(['my_array', 'my_array_size', 'my_head', 'my_tail'])
    rw = ib.rw
    IM = ['element', 'my_item_valid', 'get_my_item', 'set_my_item', 'fetch_item', 'destroy_item', 'place_item', 'size', 'capacity', 'buffer_full', 'grow_my_array',
          'clean_up_buffer', 'destroy_front', 'destroy_back', 'buffer_empty', 'push_back', 'pop_front', 'pop_back', 'front', 'move_item', 'swap_items', 'reserve_item', 'release_item']
    IPRE = [(r' __TBB_FLOW_GRAPH_METAINFO_ARG\([^()]*(?:\([^()]*\))?[^()]*\)', '', 0),
            (r'\.begin\(\)->', '.', 0), (r'\*my_array\[i & \(my_array_size ?- ?1\) ?\]\.begin\(\)', 'my_array[i & (my_array_size - 1)]', 0),
            (r'new\(&\(element\(i\)\.item\)\) item_type\(o\);', 'element(i).item = *o;', 0),
            (r'e\.item\.~item_type\(\);', 'DESTROY_ITEM(&e->item);', 0), (r'auto& e = element\(([^)]*)\);', r'aligned_space_item* e = &element(\1);', 0), (r'\be\.', 'e->', 0),
            (r'\bno_item\b', 'no_item', 0)]
    out = ['typedef struct aligned_space_item { item_type item; int state; } aligned_space_item;\nenum { no_item = 0, has_item = 1, reserved_item = 2 };\n', ib.struct_decl()]
    if not re.search(r'enum buffer_item_state \{ no_item=0, has_item=1, reserved_item=2 \};', load(IB)):
        raise ExtractionBreak('buffer_item_state enum changed')
    if not re.search(r'static const size_type initial_buffer_size = 4;', load(IB)):
        raise ExtractionBreak('item_buffer initial_buffer_size changed')

    def conv(sig, cfn, nth=0, extra=(), ret=None):
        s = resolved(ib.method(sig, nth=nth), cfn)
        t = ib.convert(s, cfn, methods=IM, pre=IPRE + list(extra), ret=ret, fcast=['size_type', 'size_t'])
        # element() returns a reference: calls are lvalues in the C++ text -> deref the pointer our C version returns
        t = rw.sub(t, r'item_buffer_element\(self, ([^()]*(?:\([^()]*\))?[^()]*)\)\.', r'item_buffer_element(self, \1)->', 0, name='ref-return deref')
        t = rw.sub(t, r'&item_buffer_element\(self, ([^()]*(?:\([^()]*\))?[^()]*)\);', r'item_buffer_element(self, \1);', 0, name='ref-return deref')
        t = rw.sub(t, r'item_buffer_size\(self\)', 'item_buffer_size(self, 0)', 0, name='default argument made explicit')
        return t
    t = conv(r'aligned_space_item &element\(size_type i\)', 'item_buffer_element', extra=[(r'return my_array\[', 'return &my_array[', 1)], ret='aligned_space_item*')
    t = rw.sub(t, r'VERIF_ASSERT\(!\(\(\(size_t\)[^;]*;', 'RG_NOP();', 0, name='alignment asserts on aligned_space (no C counterpart) -> RG_NOP')
    out.append(t)
    out.append(conv(r'bool my_item_valid\(size_type i\) const', 'item_buffer_my_item_valid'))
    out.append(conv(r'const item_type &get_my_item\(size_t i\) const', 'item_buffer_get_my_item', extra=[(r'return element\(i\)\.item;', 'return &element(i).item;', 1)], ret='const item_type*'))
    out.append(conv(r'void destroy_item\(size_type i\)', 'item_buffer_destroy_item'))
    out.append(conv(r'void set_my_item\(size_t i, const item_type &o', 'item_buffer_set_my_item'))
    out.append(conv(r'bool place_item\(size_t here, const item_type &me\)', 'item_buffer_place_item'))
    out.append(conv(r'size_type size\(size_t new_tail = 0\)', 'item_buffer_size'))
    out.append(conv(r'size_type capacity\(\)', 'item_buffer_capacity'))
    txt = '\n'.join(out)
    txt = rw.sub(txt, r'VERIF_ASSERT\(!\(\(\(size_t\)\(&\(self->my_array\[[^\n]*\n', 'RG_NOP();\n', 0, name='alignment asserts -> RG_NOP')
    for sig_, cfn_, extra_, ret_ in more:
        out.append(conv(sig_, cfn_, extra=extra_, ret=ret_))
    txt = '\n'.join(out)
    txt = rw.sub(txt, r'VERIF_ASSERT\(!\(\(\(size_t\)\(&\(self->my_array\[[^\n]*\n', 'RG_NOP();\n', 0, name='alignment asserts -> RG_NOP')
    common.write(ctx, 'item_buffer.inc', txt)
    return ib, rw, conv


STATUS = (r'(\w+)->status\.store\( ?([^,;]*?), std::memory_order_release ?\);', r'SET_STATUS(\1, \2);', 0)


def _enum(rel, pat, what):
    """the operation-type enum of a handler is taken over verbatim (it is valid C)"""
    m = re.search(pat, cxx2c.mask(load(rel)))
    if not m:
        raise ExtractionBreak('%s: %s not found' % (rel, what))
    return re.sub(r'enum op_type', 'enum', load(rel)[m.start():m.end()]) + '\n'


def outline_case(rw, text, label, fname, params, args):
    """`case <label>: { BLOCK }` -> `case <label>: { fname(args); }` with BLOCK wrapped, unchanged, as the body of `static void fname(params)`.
    Needed because goto-instrument's dfcc cannot handle a loop under contract nested in a loop without contract in one function.  BLOCK must not
    leave itself by break / continue / return / goto (checked), so wrapping it in a function keeps statements, conditions, order and control flow."""
    m = re.search(r'case %s\s*:\s*\{' % label, cxx2c.mask(text))
    if not m:
        raise ExtractionBreak('%s: `case %s: {` not found' % (rw.name, label))
    o = m.end() - 1
    c = cxx2c.match_close(cxx2c.mask(text), o)
    block = text[o:c + 1]
    if re.search(r'\b(break|continue|return|goto)\b', cxx2c.mask(block)):
        raise ExtractionBreak('%s: case %s block leaves itself by break/continue/return/goto: cannot be outlined' % (rw.name, label))
    rw.fired['outline `case %s` block into %s()' % (label, fname)] = 1
    return 'static void %s(%s) %s\n' % (fname, params, block), text[:o] + '{ %s(%s); }' % (fname, args) + text[c + 1:]


def outline_loop_body(rw, text, header, fname, params, args, contract=''):
    """`<header> { BODY }` (header = regex of a loop header, ending just before the body's brace) -> `<header> { fname(args); }` with BODY wrapped, unchanged,
    as the body of `static void fname(params) <contract>`.  goto-instrument's dfcc does not cope with two nested loops under contract whose assigns clauses
    both name a whole heap object (symbolic execution does not finish), so the inner loop gets a function of its own and the outer loop uses that function's
    contract.  BODY must not leave itself by break / continue / return / goto except inside its own nested loops (checked)."""
    mk = cxx2c.mask(text)
    m = re.search(header + r'\s*\{', mk)
    if not m:
        raise ExtractionBreak('%s: loop header %r not found' % (rw.name, header))
    o = m.end() - 1
    c = cxx2c.match_close(mk, o)
    block = text[o:c + 1]
    bm = list(cxx2c.mask(block))
    for lm in re.finditer(r'\b(do|for|while)\b', ''.join(bm)):        # blank the bodies of nested loops: a break / continue there stays inside BODY
        b = ''.join(bm).find('{', lm.end())
        if b < 0:
            continue
        e = cxx2c.match_close(''.join(bm), b)
        for i in range(b + 1, e):
            bm[i] = ' '
    if re.search(r'\b(break|continue|return|goto)\b', ''.join(bm)):
        raise ExtractionBreak('%s: loop body leaves itself by break/continue/return/goto: cannot be outlined' % rw.name)
    rw.fired['outline loop body into %s()' % fname] = 1
    return 'static void %s(%s)\n%s %s\n' % (fname, params, contract, block), text[:o] + '{ CALL_%s(%s); }' % (fname, args) + text[c + 1:]


def _nocxx(name, txt):
    bad = cxx2c.c_residue(txt)
    if bad:
        raise ExtractionBreak('%s: C++ residue %s' % (name, bad))
    return txt


def extract_join(ctx, sliced, fired, ib):
    """join_node: the three port handlers, the three front ends (join_node_FE) with the tuple recursion of join_helper, and join_node_base's handler."""
    # ---------------- queueing_port::handle_operations on the real item_buffer ----------------
    qp = CClass(JI, r'class queueing_port : public receiver<T>, public item_buffer<T> \{', 'item_buffer', tbind={'T': 'item_type'}, rw=Rewriter('queueing_port'))
    qp.members = ib.members
    s = resolved(qp.method(r'void handle_operations\(queueing_port_operation\* op_list\)'), 'qp_handle_operations')
    t = qp.convert(s, 'qp_handle_operations', methods=['buffer_empty', 'push_back', 'front', 'destroy_front', 'my_item_valid'], pre=[
        (r'this->push_back\(current->my_val\);', 'this->push_back(&current->my_val);', 0),
        (r'\*\(current->my_arg\) = this->front\(\);', '*(current->my_arg) = *this->front();', 0),
        (r'my_join->decrement_port_count\((true|false)\)', r'FE_decrement_port_count(self, \1)', 0), STATUS])
    t = tag_loops(t, 'qpho', qp.rw, expect=1)
    common.write(ctx, 'queueing_port.inc', _nocxx('queueing_port.inc', _enum(JI, r'enum op_type \{ get__item, res_port, try__put_task\s*\};', 'queueing_port::op_type') + t))
    sliced += qp.sliced
    fired['queueing_port'] = dict(qp.rw.fired)
    # ---------------- join_helper<N> / join_helper<1>: template recursion over the tuple -> run-time recursion over N ----------------
    rh = Rewriter('join_helper')
    JH = [('reserve', r'static inline bool reserve\( InputTuple &my_input, OutputTuple &out\)', 'bool', True),
          ('get_my_item', r'static inline bool get_my_item\( InputTuple &my_input, OutputTuple &out\)', 'bool', True),
          ('get_items', r'static inline bool get_items\(InputTuple &my_input, OutputTuple &out\)', 'bool', True),
          ('reset_my_port', r'static inline void reset_my_port\(InputTuple &my_input\)', 'void', False),
          ('reset_ports', r'static inline void reset_ports\(InputTuple& my_input\)', 'void', False),
          ('consume_reservations', r'static inline void consume_reservations\( TupleType &my_input \)', 'void', False),
          ('release_my_reservation', r'static inline void release_my_reservation\( TupleType &my_input \)', 'void', False),
          ('release_reservations', r'static inline void release_reservations\( TupleType &my_input\)', 'void', False)]
    names = '|'.join(n for n, _, _, _ in JH)

    def jh_body(sl):
        t = sl.text[sl.text.index('{'):]
        t = rh.sub(t, r'std::get<\s*(N-1|0)\s*>\(\s*my_input\s*\)\.(\w+)\(\s*std::get<\s*(N-1|0)\s*>\(\s*out\s*\)\s*\)', r'PORT_\2(my_input, \1, TUPLE_AT(out, \3))', 0, name='std::get<i>(ports).m(std::get<i>(out)) -> PORT_m(ports, i, TUPLE_AT(out, i))')
        t = rh.sub(t, r'std::get<\s*(N-1|0)\s*>\(\s*my_input\s*\)\.(\w+)\(\s*\)', r'PORT_\2(my_input, \1)', 0, name='std::get<i>(ports).m() -> PORT_m(ports, i)')
        t = rh.sub(t, r'join_helper<N-1>::(\w+)\(\s*my_input\s*(, out)?\s*\)', r'jh_\1(N-1, my_input\2)', 0, name='join_helper<N-1>::f -> jh_f(N-1, ...)')
        t = rh.sub(t, r'(?<![\w:.>_])(%s)\(\s*my_input\s*(, out)?\s*\)' % names, r'jh_\1(N, my_input\2)', 0, name='sibling static f -> jh_f(N, ...)')
        return rh.std(t)
    protos, defs = [], []
    for nm, sig, ret, has_out in JH:
        gen = slice_block(JI, sig, within=r'struct join_helper \{')
        one = slice_block(JI, sig, within=r'struct join_helper<1> \{')
        sliced += ['%s:%d join_helper<N>::%s' % (JI, gen.line, nm), '%s:%d join_helper<1>::%s' % (JI, one.line, nm)]
        csig = 'static %s jh_%s(int N, ports_t* my_input%s)' % (ret, nm, ', output_type* out' if has_out else '')
        protos.append(csig + ';\n')
        # the specialisation join_helper<1> is selected when N == 1, the primary template otherwise
        defs.append('%s {\n    if (N == 1) { %s %s}\n    %s\n}\n' % (csig, jh_body(one), '' if ret != 'void' else 'return; ', jh_body(gen)))
    rh.fired['template<int N> recursion -> run-time parameter N (join_helper<1> selected by `if (N == 1)`)'] = len(JH)
    common.write(ctx, 'join_helper.inc', _nocxx('join_helper.inc', ''.join(protos) + '\n'.join(defs)))
    fired['join_helper'] = dict(rh.fired)
    # ---------------- join_node_FE<queueing> / join_node_FE<reserving> ----------------
    FEPRE = [(r'join_helper<N>::(\w+)\(my_inputs(, out)?\)', r'jh_\1(N, self\2)', 0),
             (r'is_graph_active\(this->graph_ref\)', 'STUB_is_graph_active()', 0),
             (r'd1::small_object_allocator allocator\{\};', 'RG_NOP();', 0), (r'typedef forward_task_bypass<base_node_type> task_type;', 'RG_NOP();', 0),
             (r'allocator\.new_object<task_type>\(graph_ref, allocator, \*my_node\)', 'STUB_new_forward_task(self)', 0),
             (r'spawn_in_graph_arena\(this->graph_ref, \*t\);', 'STUB_spawn(t);', 0),
             # implicit conversions / assignment of std::atomic<size_t> are loads / stores
             (r'if\((ports_with_no_\w+)\)', r'if(\1.load())', 0), (r'return !(ports_with_no_\w+);', r'return !\1.load();', 0), (r'\b(ports_with_no_\w+) = N;', r'\1.store(N);', 0)]
    for pol, base, cnt, meths in (
            ('queueing', 'queueing_forwarding_base', 'ports_with_no_items',
             [(r'void reset_port_count\(\)', 'reset_port_count'), (r'graph_task\* decrement_port_count\(bool handle_task\) override', 'decrement_port_count'), (r'bool tuple_build_may_succeed\(\)', 'tuple_build_may_succeed'),
              (r'bool try_to_make_tuple\(output_type &out\)', 'try_to_make_tuple'), (r'void tuple_accepted\(\)', 'tuple_accepted'), (r'void tuple_rejected\(\)', 'tuple_rejected')]),
            ('reserving', 'reserving_forwarding_base', 'ports_with_no_inputs',
             [(r'void increment_port_count\(\) override', 'increment_port_count'), (r'graph_task\* decrement_port_count\(\) override', 'decrement_port_count'), (r'bool tuple_build_may_succeed\(\)', 'tuple_build_may_succeed'),
              (r'bool try_to_make_tuple\(output_type &out\)', 'try_to_make_tuple'), (r'void tuple_accepted\(\)', 'tuple_accepted'), (r'void tuple_rejected\(\)', 'tuple_rejected')])):
        fe = CClass(JI, r'class join_node_FE<%s, InputTuple, OutputTuple> : public %s \{' % (pol, base), 'fe', tbind={'output_type': 'output_type'}, rw=Rewriter('join_node_FE<%s>' % pol))
        if not re.search(r'std::atomic<std::size_t> %s;' % cnt, fe.text):
            raise ExtractionBreak('join_node_FE<%s>::%s declaration changed' % (pol, cnt))
        fe.members = [('size_t', cnt, '')]
        out = []
        for sig, nm in meths:
            t = fe.convert(resolved(fe.method(sig), nm), 'fe_' + nm, methods=['reset_port_count'], pre=FEPRE)
            t = re.sub(r'\)\s*override\s*\{', ') {', t, 1)
            t = fe.rw.atomics(t, [cnt], 0)
            t = fe.rw.number_sites(t, nm, by_kind=True)
            out.append(t)
        common.write(ctx, 'join_fe_%s_struct.inc' % pol, fe.struct_decl())
        common.write(ctx, 'join_fe_%s.inc' % pol, _nocxx('join_fe_%s.inc' % pol, ''.join(x[:x.index('{')].strip() + ';\n' for x in out) + '\n'.join(out)))
        sliced += fe.sliced
        fired['join_node_FE<%s>' % pol] = dict(fe.rw.fired)


def extract_join_base(ctx, sliced, fired):
    # ---------------- reserving_port::handle_operations ----------------
    rp = CClass(JI, r'class reserving_port : public receiver<T> \{', 'rport', tbind={'T': 'item_type'}, rw=Rewriter('reserving_port'))
    for pat, what in ((r'bool reserved;', 'reserved'), (r'reservable_predecessor_cache< T, null_mutex > my_predecessors;', 'my_predecessors'), (r'reserving_forwarding_base \*my_join;', 'my_join')):
        if not re.search(pat, rp.text):
            raise ExtractionBreak('reserving_port::%s declaration changed' % what)
    rp.members = [('bool', 'reserved', '')]
    s = resolved(rp.method(r'void handle_operations\(reserving_port_operation\* op_list\)'), 'rp_handle_operations')
    t = rp.convert(s, 'rp_handle_operations', pre=[
        (r'my_predecessors\.empty\(\)', 'PC_empty(self)', 0), (r'my_predecessors\.add\(\*\(current->my_pred\)\);', 'PC_add(self, current->my_pred);', 0),
        (r'my_predecessors\.remove\(\*\(current->my_pred\)\);', 'PC_remove(self, current->my_pred);', 0),
        (r'my_predecessors\.try_reserve\(\*\(current->my_arg\)\)', 'PC_try_reserve(self, current->my_arg)', 0),
        (r'my_predecessors\.try_release\( ?\);', 'PC_try_release(self);', 0), (r'my_predecessors\.try_consume\( ?\);', 'PC_try_consume(self);', 0),
        (r'my_join->decrement_port_count\(\)', 'FE_decrement_port_count(self)', 0), (r'my_join->increment_port_count\(\)', 'FE_increment_port_count(self)', 0), STATUS])
    t = tag_loops(t, 'rpho', rp.rw, expect=1)
    common.write(ctx, 'reserving_port.inc', _nocxx('reserving_port.inc', _enum(JI, r'enum op_type \{ reg_pred, rem_pred, res_item, rel_res, con_res\s*\};', 'reserving_port::op_type') + rp.struct_decl() + t))
    sliced += rp.sliced
    fired['reserving_port'] = dict(rp.rw.fired)
    # ---------------- join_node_base::handle_operations ----------------
    jb = CClass(JI, r'class join_node_base : public graph_node, public join_node_FE<JP, InputTuple, OutputTuple>,', 'jbase', tbind={'output_type': 'output_type'}, rw=Rewriter('join_node_base'))
    for pat, what in ((r'bool forwarder_busy;', 'forwarder_busy'), (r'broadcast_cache<output_type, null_rw_mutex> my_successors;', 'my_successors')):
        if not re.search(pat, jb.text):
            raise ExtractionBreak('join_node_base::%s declaration changed' % what)
    jb.members = [('bool', 'forwarder_busy', '')]
    s = resolved(jb.method(r'void handle_operations\(join_node_base_operation\* op_list\)'), 'jb_handle_operations')
    t = jb.convert(s, 'jb_handle_operations', pre=[
        (r'my_successors\.register_successor\(\*\(current->my_succ\)\);', 'STUB_succ_register(self, current->my_succ);', 0),
        (r'my_successors\.remove_successor\(\*\(current->my_succ\)\);', 'STUB_succ_remove(self, current->my_succ);', 0),
        (r'(?<![\w.>])tuple_build_may_succeed\(\)', 'FE_tuple_build_may_succeed(self)', 0),
        (r'(?<![\w.>])try_to_make_tuple\(\*\(current->my_arg\)\)', 'FE_try_to_make_tuple(self, current->my_arg)', 0),
        (r'(?<![\w.>])try_to_make_tuple\(out\)', 'FE_try_to_make_tuple(self, &out)', 0),
        (r'(?<![\w.>])tuple_accepted\(\);', 'FE_tuple_accepted(self);', 0), (r'(?<![\w.>])tuple_rejected\(\);', 'FE_tuple_rejected(self);', 0),
        (r'is_graph_active\(my_graph\)', 'STUB_is_graph_active()', 0),
        (r'd1::small_object_allocator allocator\{\};', 'RG_NOP();', 0), (r'typedef forward_task_bypass< join_node_base<JP, InputTuple, OutputTuple> > task_type;', 'RG_NOP();', 0),
        (r'allocator\.new_object<task_type>\(my_graph, allocator, \*this\)', 'STUB_new_forward_task(self)', 0),
        (r'spawn_in_graph_arena\(my_graph, \*t\);', 'STUB_spawn(t);', 0),
        (r'my_successors\.try_put_task\(out\)', 'STUB_succ_try_put_task(self, &out)', 0),
        (r'combine_tasks\(my_graph, last_task, new_task\)', 'combine_tasks(STUB_graph(), last_task, new_task)', 0), STATUS])
    fwd, t = outline_case(jb.rw, t, 'do_fwrd_bypass', 'jb_case_do_fwrd_bypass', 'struct jbase* self, join_node_base_operation* current', 'self, current')
    t = tag_loops(t, 'jbho', jb.rw, expect=1)
    fwd = tag_loops(fwd, 'jbfwd', jb.rw, expect=1)
    ct = slice_block(FG, r'static inline graph_task\* combine_tasks\(graph& g, graph_task\* left, graph_task\* right\)')
    c = jb.rw.sub(ct.text, r'static inline graph_task\* combine_tasks\(graph& g, graph_task\* left, graph_task\* right\)', 'static graph_task* combine_tasks(graph* g, graph_task* left, graph_task* right)', 1, 1, name='sig (ref-param -> pointer)')
    c = jb.rw.sub(c, r'auto tasks_pair = order_tasks\(left, right\);', 'struct task_pair tasks_pair = STUB_order_tasks(left, right);', 0, name='order_tasks -> stub (either order)')
    c = jb.rw.sub(c, r'spawn_in_graph_arena\(g, \*([\w.]+)\);', r'STUB_spawn(\1);', 0, name='spawn_in_graph_arena -> stub')
    c = jb.rw.std(c)
    common.write(ctx, 'join_base.inc', _nocxx('join_base.inc', _enum(JI, r'enum op_type \{ reg_succ, rem_succ, try__get, do_fwrd, do_fwrd_bypass\s*\};', 'join_node_base::op_type') + jb.struct_decl() + c + '\n' + fwd + t))
    sliced += jb.sliced + ['%s:%d combine_tasks' % (FG, ct.line)]
    fired['join_node_base'] = dict(jb.rw.fired)


TB = 'include/oneapi/tbb/detail/_flow_graph_tagged_buffer_impl.h'


def _proto(t):
    return t[:t.index('{')].strip() + ';\n'


def extract_bufnode_handler(ctx, sliced, fired, ib, ibtxt, extra_members, derived_cls, derived_sigs, fname, dpre=(), dmethods=None, anchors=(), outlines=()):
    """buffer_node::handle_operations_impl / internal_forward_task_impl / internal_reg_succ / internal_rem_succ (+ the listed overrides of a derived node)
    on the real item_buffer: one flattened C object `struct item_buffer` = item_buffer + reservable_item_buffer::my_reserved + buffer_node::forwarder_busy
    + the derived node's members.  Virtual internal_* calls and derived-> calls are dispatched by macros VIRT_* / DERIVED_* of the harness."""
    for pat, what in ((r'enum op_type \{reg_succ, rem_succ, req_item, res_item, rel_res, con_res, put_item, try_fwd_task\s*\};', 'buffer_node::op_type'),
                      (r'bool forwarder_busy;', 'buffer_node::forwarder_busy'), (r'round_robin_cache< T, null_rw_mutex > my_successors;', 'buffer_node::my_successors'), (r'bool my_reserved;', 'my_reserved')):
        if not re.search(pat, load(FG) + load(IB)):
            raise ExtractionBreak('%s changed' % what)
    members = ib.members + [('bool', 'my_reserved', ''), ('bool', 'forwarder_busy', '')] + list(extra_members)
    if ibtxt.count('    size_t my_tail;\n};') != 1:
        raise ExtractionBreak('item_buffer struct layout changed')
    ibtxt = ibtxt.replace('    size_t my_tail;\n};', '    size_t my_tail;\n    bool my_reserved;      /* reservable_item_buffer */\n    bool forwarder_busy;   /* buffer_node */\n' +
                          ''.join('    %s %s%s;   /* %s */\n' % (ty, nm, arr, derived_cls) for ty, nm, arr in extra_members) + '};')
    TBN = {'size_type': 'size_t', 'derived_type': 'struct item_buffer', 'T': 'item_type', 'input_type': 'item_type'}
    bn = CClass(FG, r'class buffer_node\s*: public graph_node', 'item_buffer', tbind=TBN, rw=Rewriter(fname))
    bn.members = members
    rb = bn.rw
    IBM = ['my_item_valid', 'back', 'front', 'destroy_back', 'destroy_front', 'push_back', 'pop_back', 'pop_front', 'get_my_item', 'destroy_item', 'move_item', 'swap_items', 'grow_my_array', 'place_item', 'fetch_item']
    OPS = 'internal_reg_succ|internal_rem_succ|internal_pop|internal_reserve|internal_release|internal_consume|internal_push|internal_forward_task'
    PRE = list(dpre) + [(r'static_cast<class_type\*>\(derived\) == this', 'derived == self', 0),
           (r'\b(%s)\(tmp\)' % OPS, r'VIRT_\1(self, tmp)', 0),
           (r'derived->order\(\);', 'DERIVED_order(derived);', 0), (r'derived->is_item_valid\(\)', 'DERIVED_is_item_valid(derived)', 0),
           (r'derived->try_put_and_add_task\(last_task\)', 'DERIVED_try_put_and_add_task(derived, &last_task)', 0),
           (r'is_graph_active\(this->my_graph\)', 'STUB_is_graph_active()', 0),
           (r'typedef forward_task_bypass<class_type> task_type;', 'RG_NOP();', 0), (r'd1::small_object_allocator allocator\{\};', 'RG_NOP();', 0),
           (r'allocator\.new_object<task_type>\(graph_reference\(\), allocator, \*this\)', 'STUB_new_forward_task(self)', 0),
           (r'graph ?& ?(\w+) = this->(?:my_graph|graph_reference\(\));', r'graph* \1 = STUB_graph();', 0),
           (r'(?:this->)?my_successors\.size\(\)', 'STUB_succ_size(self)', 0), (r'(?:this->)?my_successors\.try_put_task\(', 'STUB_succ_try_put_task(self, ', 0),
           (r'my_successors\.register_successor\(\*\(op->r\)\);', 'STUB_succ_register(self, op->r);', 0), (r'my_successors\.remove_successor\(\*\(op->r\)\);', 'STUB_succ_remove(self, op->r);', 0),
           (r'(?:this->)?handle_operations_impl\(op_list, this\)', 'bn_handle_operations_impl(self, op_list, self)', 0),
           (r'(?:this->)?internal_forward_task_impl\(op, this\)', 'bn_internal_forward_task_impl(self, op, self)', 0),
           (r'this->(consume_front|release_front)\(\)', r'rib_\1(self)', 0), (r'this->reserve_front\(', 'rib_reserve_front(self, ', 0),
           (r'\*\(op->elem\)', 'op->elem', 0), STATUS]

    def cv(cls, sig, cfn, lp=None, ret=None):
        t = cls.convert(resolved(cls.method(sig), cfn), cfn, methods=IBM, pre=PRE, ret=ret)
        if dmethods:
            t = rb.methods(t, dmethods[0], dmethods[1])
        hd, body = t[:t.index('{')], t[t.index('{'):]
        if 'graph_task** last_task' in hd:
            body = re.sub(r'\blast_task\b', '(*last_task)', body)
            rb.fired['ref-param use -> deref'] = rb.fired.get('ref-param use -> deref', 0) + 1
        hd = re.sub(r'\)\s*override\s*$', ') ', hd)
        t = hd + body
        if lp:
            t = tag_loops(t, lp[0], rb, expect=lp[1])
        return t
    out = [cv(bn, r'void handle_operations_impl\(buffer_operation \*op_list, derived_type\* derived\)', 'bn_handle_operations_impl', ('bnho', 1)),
           cv(bn, r'virtual void internal_reg_succ\(buffer_operation \*op\)', 'bn_internal_reg_succ'), cv(bn, r'virtual void internal_rem_succ\(buffer_operation \*op\)', 'bn_internal_rem_succ'),
           cv(bn, r'void internal_forward_task_impl\(buffer_operation \*op, derived_type\* derived\)', 'bn_internal_forward_task_impl', ('bnfwd', 1))]
    dn = CClass(FG, derived_cls, 'item_buffer', tbind=TBN, rw=rb)
    dn.members = members
    for sig, cfn, lp, ret in derived_sigs:
        out.append(cv(dn, sig, cfn, lp, ret))
    ct = slice_block(FG, r'static inline graph_task\* combine_tasks\(graph& g, graph_task\* left, graph_task\* right\)')
    c = rb.sub(ct.text, r'static inline graph_task\* combine_tasks\(graph& g, graph_task\* left, graph_task\* right\)', 'static graph_task* combine_tasks(graph* g, graph_task* left, graph_task* right)', 1, 1, name='sig (ref-param -> pointer)')
    c = rb.sub(c, r'auto tasks_pair = order_tasks\(left, right\);', 'struct task_pair tasks_pair = STUB_order_tasks(left, right);', 0, name='order_tasks -> stub (either order)')
    c = rb.sub(c, r'spawn_in_graph_arena\(g, \*([\w.]+)\);', r'STUB_spawn(\1);', 0, name='spawn_in_graph_arena -> stub')
    c = rb.std(c)
    body = '\n'.join(out)
    for header, ofn, oparams, oargs, ocontract in outlines:
        fn, body = outline_loop_body(rb, body, header, ofn, oparams, oargs, ocontract)
        body = 'static void %s(%s);\n' % (ofn, oparams) + body + '\n' + fn
    for sig_c, macro in anchors:
        body = rb.lit(body, sig_c + ' {', sig_c + '\n' + macro + ' {', 1, 1, name='contract-anchor ' + macro)
    common.write(ctx, fname, _nocxx(fname, ibtxt + '\n' + c + '\n' + ''.join(_proto(x) for x in out) + body))
    sliced += bn.sliced + dn.sliced
    fired[fname] = dict(rb.fired)


def extract_priority(ctx, sliced, fired, ib, ibtxt):
    PQ = r'class priority_queue_node : public buffer_node<T> \{'
    if not re.search(r'size_type mark;', load(FG)) or not re.search(r'input_type reserved_item;', load(FG)) or not re.search(r'class priority_queue_node : public buffer_node<T> \{', load(FG)) \
            or not re.search(r'template<typename T, typename Compare = std::less<T>>\s*class priority_queue_node', load(FG)):
        raise ExtractionBreak('priority_queue_node: mark / reserved_item / Compare declarations changed')
    DPRE = [(r'\*\(op->elem\) = prio\(\);', '*op->elem = *prio();', 0), (r'reserved_item = \*\(op->elem\);', 'reserved_item = *op->elem;', 0),
            (r'prio_push\(\*\(op->elem\)\);', 'prio_push(op->elem);', 0), (r'prio_push\(reserved_item\);', 'prio_push(&reserved_item);', 0),
            (r'= input_type\(\);', '= ((input_type)0);', 0),
            # Compare = std::less<T>: compare(a, b) -> COMPARE(a, b) = a < b; get_my_item returns a reference (now a pointer): dereferenced
            (r'compare\(this->get_my_item\(([^()]*)\),\s*this->get_my_item\(([^()]*)\)\)', r'COMPARE(*this->get_my_item(\1), *this->get_my_item(\2))', 0),
            (r'compare\(this->get_my_item\(([^()]*)\), to_place\)', r'COMPARE(*this->get_my_item(\1), to_place)', 0),
            (r'this->fetch_item\(mark, to_place\);', 'this->fetch_item(mark, &to_place);', 0), (r'this->place_item\(cur_pos, to_place\);', 'this->place_item(cur_pos, &to_place);', 0)]
    sigs = [(r'void internal_forward_task\(prio_operation \*op\) override', 'pq_internal_forward_task', None, None),
            (r'void handle_operations\(prio_operation \*op_list\) override', 'pq_handle_operations', None, None),
            (r'bool internal_push\(prio_operation \*op\) override', 'pq_internal_push', None, None),
            (r'void internal_pop\(prio_operation \*op\) override', 'pq_internal_pop', None, None),
            (r'void internal_reserve\(prio_operation \*op\) override', 'pq_internal_reserve', None, None),
            (r'void internal_consume\(prio_operation \*op\) override', 'pq_internal_consume', None, None),
            (r'void internal_release\(prio_operation \*op\) override', 'pq_internal_release', None, None),
            (r'void order\(\)', 'pq_order', None, None), (r'bool is_item_valid\(\)', 'pq_is_item_valid', None, None),
            (r'void try_put_and_add_task\(graph_task\*& last_task\)', 'pq_try_put_and_add_task', None, None),
            (r'bool prio_use_tail\(\)', 'pq_prio_use_tail', None, None), (r'void prio_push\(const T &src', 'pq_prio_push', None, None),
            (r'void prio_pop\(\)', 'pq_prio_pop', None, None), (r'const T& prio\(\)', 'pq_prio', None, 'const item_type*'),
            (r'void heapify\(\)', 'pq_heapify', ('pqheapify', 2), None), (r'void reheap\(\)', 'pq_reheap', ('pqreheap', 1), None)]
    # closed-world scan: reheap changes the array only through swap_items (so it permutes the heap region: nothing lost, nothing duplicated - swap_items itself is job pq.swap_items)
    rh = slice_block(FG, r'void reheap\(\)', within=PQ).text
    if re.search(r'\b(set_my_item|destroy_item|move_item|place_item|fetch_item|push_back|pop_back|pop_front|destroy_front|destroy_back|grow_my_array|my_array|(?:my_tail|my_head|mark)\s*(?:[-+]?=(?!=)|\+\+|--)|(?:\+\+|--)\s*(?:this->)?(?:my_tail|my_head|mark))', cxx2c.mask(rh)) \
            or len(re.findall(r'\bswap_items\(', rh)) != 1:
        raise ExtractionBreak('priority_queue_node::reheap: the array is written by something else than one swap_items call (closed-world scan)')
    # the validity asserts inside the item_buffer accessors talk about a state-dependent index: they get their own macro (VALID_ASSERT) so that the
    # heap-loop jobs, which cannot carry the universal fact `every slot of [0,tail) holds an item` through a havocked iteration, can leave them out
    ibtxt = re.sub(r'VERIF_ASSERT\((item_buffer_my_item_valid\()', r'VALID_ASSERT(\1', ibtxt)
    ibtxt = re.sub(r'VERIF_ASSERT\((!item_buffer_my_item_valid\()', r'EMPTY_ASSERT(\1', ibtxt)     # `the destination slot is empty`: stays an obligation everywhere
    hp = slice_block(FG, r'void heapify\(\)', within=PQ).text
    if re.search(r'\b(set_my_item|destroy_item|swap_items|push_back|pop_back|pop_front|destroy_front|destroy_back|grow_my_array|my_array|(?:my_tail|my_head)\s*(?:[-+]?=(?!=)|\+\+|--)|(?:\+\+|--)\s*(?:this->)?(?:my_tail|my_head))', cxx2c.mask(hp)) \
            or len(re.findall(r'\bfetch_item\(', hp)) != 1 or len(re.findall(r'\bmove_item\(', hp)) != 1 or len(re.findall(r'\bplace_item\(', hp)) != 1:
        raise ExtractionBreak('priority_queue_node::heapify: the array is written by something else than one fetch_item / move_item / place_item call each (closed-world scan)')
    c15c = open(os.path.join(HERE, 'c15.c')).read()
    a_ = c15c.find('#ifdef SEQ\n')
    e_ = c15c.find('#include "item_buffer.inc"', a_)
    if a_ < 0 or e_ < 0 or 'CONTRACT_grow_my_array' not in c15c[a_:e_]:
        raise ExtractionBreak('c15.c: SEQ prelude not found')
    common.write(ctx, 'c15_prelude.inc', c15c[a_ + len('#ifdef SEQ\n'):e_])
    extract_bufnode_handler(ctx, sliced, fired, ib, ibtxt, [('size_t', 'mark', ''), ('item_type', 'reserved_item', '')], PQ, sigs, 'priority_node.inc', dpre=DPRE,
                            dmethods=(['prio_use_tail', 'prio_push', 'prio_pop', 'prio', 'heapify', 'reheap'], 'pq_'),
                            anchors=[('void pq_heapify(struct item_buffer* self)', 'CONTRACT_pq_heapify'), ('void pq_reheap(struct item_buffer* self)', 'CONTRACT_pq_reheap')],
                            outlines=[(r'for \(; self->mark<self->my_tail; \+\+self->mark\) LOOP_pqheapify_1', 'pq_heapify_merge_one', 'struct item_buffer* self', 'self', 'CONTRACT_pq_merge_one')])


def extract_hash_buffer(ctx, sliced, fired, fname, extra=''):
    """hash_buffer_impl::insert_with_key / find_ref_with_key / find_with_key (the chain walks find_element_ref_with_key, delete_with_key, grow_array and
    internal_insert_with_key are stubs over an abstract table)."""
    hb = CClass(TB, r'class hash_buffer_impl : public HashCompare \{', 'hashbuf', tbind={'Knoref': 'key_type', 'pointer_type': 'value_type*'}, rw=Rewriter('hash_buffer_impl'))
    for pat, what in ((r'size_t my_size;', 'my_size'), (r'size_t nelements;', 'nelements'), (r'ValueToKey \*my_key;', 'my_key')):
        if not re.search(pat, hb.text):
            raise ExtractionBreak('hash_buffer_impl::%s declaration changed' % what)
    hb.members = [('size_t', 'my_size', ''), ('size_t', 'nelements', '')]
    rw = hb.rw
    PRE = [(r'__TBB_ASSERT\(my_key, "[^"]*"\);', 'RG_NOP();', 0), (r'tbb::detail::invoke\(\*my_key, v\)', 'KEY_OF(v)', 0),
           (r'find_element_ref_with_key\(([^,()]*(?:\([^()]*\))?), (\w+)\)', r'HB_find_element_ref_with_key(self, \1, &\2)', 0),
           (r'p->destroy_element\(\);', 'ELEM_destroy(self, p);', 0), (r'p->create_element\(v\);', 'ELEM_create(self, p, v);', 0),
           (r'grow_array\(\);', 'HB_grow_array(self);', 0), (r'internal_insert_with_key\(pointer_array, my_size, free_list, v\);', 'HB_internal_insert_with_key(self, v);', 0),
           (r'\bv = element_ptr->get_value_ptr\(\);', '*v = ELEM_value_ptr(element_ptr);', 0),
           (r'if\(find_ref_with_key\(k, p\)\)', 'if(find_ref_with_key(k, &p))', 0), (r'\bv = \*p;', '*v = *p;', 0)]
    out = []
    for sig, cfn in ((r'bool insert_with_key\(const value_type &v, Args&&\.\.\. args\)', 'hb_insert_with_key'), (r'bool find_ref_with_key\(const Knoref& k, pointer_type &v\)', 'hb_find_ref_with_key'),
                     (r'bool find_with_key\( const Knoref& k, value_type &v\)', 'hb_find_with_key')):
        sl = hb.method(sig)
        t = rw.sub(sl.text, r', Args&&\.\.\. args', '', 0, name='empty parameter pack (no metainfo) dropped')
        t = rw.sub(t, r', std::forward<Args>\(args\)\.\.\.', '', 0, name='empty parameter pack (no metainfo) dropped')
        t = rw.sub(t, r'const Knoref& k', 'const Knoref k', 0, name='const reference to the (trivially copyable) key -> by value')
        t = hb.convert(Slice(sl.rel, sl.start, sl.end, t, sl.line), cfn, pre=PRE)
        t = rw.sub(t, r'(?<![\w.>])find_ref_with_key\(', 'hb_find_ref_with_key(self, ', 0, name='method')
        out.append(t)
    txt = hb.struct_decl().replace('};', '    struct hb_ghost g;   /* abstract table content (harness) */\n' + extra + '};') + ''.join(x[:x.index('{')].strip() + ';\n' for x in out) + '\n'.join(out)
    common.write(ctx, fname, _nocxx(fname, txt))
    sliced += hb.sliced
    fired['hash_buffer_impl(%s)' % fname] = dict(rw.fired)


def extract_join_key(ctx, sliced, fired):
    extract_hash_buffer(ctx, sliced, fired, 'hash_buffer.inc')
    # ---------------- key_matching_port::handle_operations ----------------
    kp = CClass(JI, r'class key_matching_port :', 'hashbuf', tbind={'input_type': 'value_type'}, rw=Rewriter('key_matching_port'))
    if not re.search(r'matching_forwarding_base<key_type> \*my_join;', kp.text):
        raise ExtractionBreak('key_matching_port::my_join declaration changed')
    kp.members = []
    s = resolved(kp.method(r'void handle_operations\(key_matching_port_operation\* op_list\)'), 'kp_handle_operations')
    t = kp.convert(s, 'kp_handle_operations', pre=[
        (r'this->insert_with_key\(current->my_val\)', 'hb_insert_with_key(self, &current->my_val)', 0),
        (r'this->find_with_key\(my_join->current_key, \*\(current->my_arg\)\)', 'hb_find_with_key(self, FE_current_key(self), current->my_arg)', 0),
        (r'this->delete_with_key\(my_join->current_key\);', 'HB_delete_with_key(self, FE_current_key(self));', 0),
        (r'tbb::detail::suppress_unused_warning\(find_result\);', 'RG_NOP();', 0), STATUS])
    t = tag_loops(t, 'kpho', kp.rw, expect=1)
    common.write(ctx, 'key_port.inc', _nocxx('key_port.inc', _enum(JI, r'enum op_type \{ try__put, get__item, res_port\s*\};', 'key_matching_port::op_type') + t))
    sliced += kp.sliced
    fired['key_matching_port'] = dict(kp.rw.fired)
    # ---------------- join_node_FE<key_matching>::handle_operations + fill_output_buffer ----------------
    extract_hash_buffer(ctx, sliced, fired, 'hash_buffer_fe.inc', extra='    key_type current_key;   /* member of the base matching_forwarding_base (one flattened object) */\n')
    fk = CClass(JI, r'class join_node_FE<key_matching<K,KHash>, InputTuple, OutputTuple> : public matching_forwarding_base<K>,', 'hashbuf',
                tbind={'unref_key_type': 'key_type', 'count_element_type': 'value_type', 'output_type': 'output_type'}, rw=Rewriter('join_node_FE<key_matching>'))
    if not re.search(r'current_key_type current_key;', load(JI)):
        raise ExtractionBreak('matching_forwarding_base::current_key declaration changed')
    fk.members = []
    KPRE = [(r'unref_key_type &t\b', 'unref_key_type t', 0),          # reference to the (trivially copyable, never written) key -> copy
            (r'this->buffer_empty\(\)', 'OB_buffer_empty(self)', 0), (r'is_graph_active\(this->graph_ref\)', 'STUB_is_graph_active()', 0),
            (r'this->delete_with_key\(this->current_key\);', 'HB_delete_with_key(self, this->current_key);', 0),
            (r'join_helper<N>::get_items\(my_inputs, l_out\)', 'jh_get_items(N, self, &l_out)', 0), (r'join_helper<N>::reset_ports\(my_inputs\);', 'jh_reset_ports(N, self);', 0),
            (r'this->push_back\(l_out\);', 'OB_push_back(self, &l_out);', 0),
            (r'd1::small_object_allocator allocator\{\};', 'RG_NOP();', 0), (r'typedef forward_task_bypass<base_node_type> task_type;', 'RG_NOP();', 0),
            (r'allocator\.new_object<task_type>\(this->graph_ref, allocator, \*my_node\)', 'STUB_new_forward_task(self)', 0),
            (r'this->destroy_front\(\);', 'OB_destroy_front(self);', 0),
            (r'this->find_ref_with_key\(t, ?p\)', 'hb_find_ref_with_key(self, t, &p)', 0), (r'this->insert_with_key\(ev\);', 'hb_insert_with_key(self, &ev);', 0),
            (r'\*\(current->my_output\) = this->front\(\);', '*(current->my_output) = *OB_front(self);', 0), STATUS]
    out = []
    sl = resolved(fk.method(r'graph_task\* fill_output_buffer\(unref_key_type &t\)'), 'fill_output_buffer')
    sl = Slice(sl.rel, sl.start, sl.end, fk.rw.sub(sl.text, r'fill_output_buffer\(unref_key_type &t\)', 'fill_output_buffer(unref_key_type t)', 1, 1, name='reference to the (trivially copyable, never written) key -> by value'), sl.line)
    t = fk.convert(sl, 'fek_fill_output_buffer', pre=KPRE)
    out.append(t)
    t = fk.convert(resolved(fk.method(r'void handle_operations\(key_matching_FE_operation\* op_list\)'), 'fek_handle_operations'), 'fek_handle_operations', pre=KPRE, fcast=['size_t'])
    t = fk.rw.sub(t, r'(?<![\w.>])fill_output_buffer\(t\)', 'fek_fill_output_buffer(self, t)', 0, name='method')
    t = tag_loops(t, 'fkho', fk.rw, expect=1)
    out.append(t)
    common.write(ctx, 'key_fe.inc', _nocxx('key_fe.inc', _enum(JI, r'enum op_type \{ res_count, inc_count, may_succeed, try_make \};', 'join_node_FE<key_matching>::op_type') + '\n'.join(out)))
    sliced += fk.sliced
    fired['join_node_FE<key_matching>'] = dict(fk.rw.fired)


def extract(ctx):
    sliced, fired = [], {}
    # ---------------- limiter_node ------------------------------------------------
    lm = CClass(FG, r'class limiter_node : public graph_node, public receiver< T >, public sender< T > \{', 'limiter')
    lm.harvest_members(['my_threshold', 'my_count', 'my_tries', 'my_future_decrement'])
    rw = lm.rw
    PRE = [(r'spin_mutex::scoped_lock lock\(my_mutex\);', 'LOCKED_SECTION();', 0),
           (r' __TBB_FLOW_GRAPH_METAINFO_ARG\([^()]*(?:\([^()]*\))?[^()]*\)', '', 0),
           (r'my_predecessors\.empty\(\)', 'STUB_pred_empty()', 0), (r'my_successors\.empty\(\)', 'STUB_succ_empty()', 0),
           (r'my_successors\.try_put_task\(\w+\)', 'STUB_succ_try_put_task()', 0),
           (r'my_predecessors\.try_reserve\(v\)', 'STUB_pred_try_reserve()', 0),
           (r'my_predecessors\.try_consume\(\);', 'STUB_pred_try_consume();', 0), (r'my_predecessors\.try_release\(\);', 'STUB_pred_try_release();', 0),
           (r'is_graph_active\(this->my_graph\)', 'STUB_is_graph_active()', 0),
           (r'd1::small_object_allocator allocator\{\};', 'RG_NOP();', 0),
           (r'typedef forward_task_bypass<limiter_node<T, ?DecrementType>> task_type;', 'RG_NOP();', 0),
           (r'allocator\.new_object<task_type>\(\s*my_graph, allocator, \*this\s*\)', 'STUB_new_forward_task()', 0),
           (r'spawn_in_graph_arena\(graph_reference\(\), \*rtask\);', 'STUB_spawn(rtask);', 0),
           (r'input_type v;', 'RG_NOP();', 0), (r'\bgraph_task\*', 'graph_task*', 0)]
    M = ['check_conditions', 'forward_task']
    common.write(ctx, 'limiter_struct.inc', lm.struct_decl())
    out = []
    out.append(lm.convert(resolved(lm.method(r'bool check_conditions\(\)'), 'check_conditions'), 'limiter_check_conditions', pre=PRE))
    t = lm.convert(resolved(lm.method(r'graph_task\* try_put_task_impl\( const T &t'), 'try_put_task_impl'), 'limiter_try_put_task_impl', methods=M, pre=PRE)
    t = rw.sub(t, r'\(struct limiter\* self, T\* t\)', '(struct limiter* self)', 1, 1, name='drop forwarded-only parameter t')
    out.append(t)
    t = lm.convert(resolved(lm.method(r'graph_task\* forward_task\(\)'), 'forward_task'), 'limiter_forward_task', methods=['check_conditions'], pre=PRE)
    out.append(t)
    t = lm.convert(resolved(lm.method(r'graph_task\* decrement_counter\( long long delta \)'), 'decrement_counter'), 'limiter_decrement_counter', methods=['forward_task_STUB'],
                   pre=PRE + [(r'return forward_task\(\);', 'return STUB_forward_task(self);', 1)], fcast=['size_t'])
    out.append(t)
    common.write(ctx, 'limiter.inc', '\n'.join(out))
    sliced += lm.sliced
    fired['limiter_node'] = rw.fired

    GROW = [(r'allocator_type\(\)\.allocate\(new_size\)', '(aligned_space_item*)alloc_nofail(new_size * sizeof(aligned_space_item))', 1),
            (r'char \*new_space = \(char \*\)&\(new_array\[i&\(new_size-1\)\]\.item\);\s*\(void\)new\(new_space\) item_type\(get_my_item\(i\)\);', 'new_array[i&(new_size-1)].item = *get_my_item(i);', 1),
            (r'clean_up_buffer\(false\);', 'clean_up_buffer(false);', 1)]
    CLEAN = [(r'allocator_type\(\)\.deallocate\(my_array,my_array_size\);', 'free(my_array);', 1), (r'my_head = my_tail = my_array_size = 0;', 'my_head = 0; my_tail = 0; my_array_size = 0;', 1)]
    more15 = [(r'void clean_up_buffer\(bool reset_pointers\)', 'item_buffer_clean_up_buffer', CLEAN, None),
              (r'void grow_my_array\( size_t minimum_size \)', 'item_buffer_grow_my_array', GROW, None),
              (r'bool buffer_full\(\)', 'item_buffer_buffer_full', [], None),
              (r'void destroy_front\(\)', 'item_buffer_destroy_front', [], None),
              (r'bool push_back\(item_type& v\s', 'item_buffer_push_back', [(r'set_my_item\(my_tail, v\);', 'set_my_item(my_tail, v);', 1)], None),
              (r'bool pop_front\(item_type& v\s', 'item_buffer_pop_front', [(r'v = e->item;', '*v = e->item;', 1)], None),
              # used by the join ports / priority_queue_node / queue forwarding sections
              (r'bool buffer_empty\(\) const', 'item_buffer_buffer_empty', [], None),
              (r'const item_type& front\(\) const', 'item_buffer_front', [(r'return get_my_item\(my_head\);', 'return get_my_item(my_head);', 0)], 'const item_type*'),
              (r'void fetch_item\(size_t i, item_type &o\)', 'item_buffer_fetch_item', [(r'\bo = get_my_item\(i\);', '*o = *get_my_item(i);', 0)], None),
              (r'void move_item\(size_t to, size_t from\)', 'item_buffer_move_item', [], None),
              (r'void swap_items\(size_t i, size_t j\)', 'item_buffer_swap_items', [(r'item_type temp = get_my_item\(i\);', 'item_type temp = *get_my_item(i);', 0), (r'set_my_item\(j, temp\);', 'set_my_item(j, &temp);', 0)], None)]
    ib, rw, conv = extract_item_buffer(ctx, sliced, fired, more=more15)
    ibp = os.path.join(ctx.work, 'item_buffer.inc')
    txt_ib = open(ibp).read()
    txt_ib = rw.sub(txt_ib, r'void item_buffer_grow_my_array\(struct item_buffer\* self, size_t minimum_size\) \{', 'void item_buffer_grow_my_array(struct item_buffer* self, size_t minimum_size)\nCONTRACT_grow_my_array {', 1, 1, name='contract-anchor')
    from cxx2c import tag_loops as _tl
    a_ = txt_ib.index('void item_buffer_grow_my_array(struct item_buffer* self, size_t minimum_size)\nCONTRACT_grow_my_array {')
    e_ = txt_ib.index('\n    }\n', a_) + 7
    txt_ib = txt_ib[:a_] + _tl(txt_ib[a_:e_], 'ibgrow', rw, expect=3) + txt_ib[e_:]
    a_ = txt_ib.index('void item_buffer_clean_up_buffer(')
    e_ = txt_ib.index('\n    }\n', a_) + 7
    txt_ib = txt_ib[:a_] + _tl(txt_ib[a_:e_], 'ibclean', rw, expect=1) + txt_ib[e_:]
    open(ibp, 'w').write('void item_buffer_clean_up_buffer(struct item_buffer* self, bool reset_pointers);\nvoid item_buffer_grow_my_array(struct item_buffer* self, size_t minimum_size);\n' + txt_ib)
    sq = CClass(FG, r'class sequencer_node : public queue_node<T> \{', 'item_buffer', rw=rw)
    sq.members = ib.members
    s = resolved(sq.method(r'bool internal_push\(sequencer_operation \*op\) override'), 'sequencer_internal_push')
    t = sq.convert(s, 'sequencer_internal_push', methods=['size', 'capacity', 'grow_my_array', 'place_item'], pre=[
        (r'size_type tag = \(\*my_sequencer\)\(\*\(op->elem\)\);', 'size_t tag = STUB_sequencer(op->elem);', 1),
        (r'op->status\.store\((\w+), std::memory_order_release\);', r'op->status = \1;', 2),
        (r'this->place_item\(tag, \*\(op->elem\)\)', 'item_buffer_place_item(self, tag, op->elem)', 1)])
    t = rw.sub(t, r'\(struct item_buffer\* self, sequencer_operation\* op\) override', '(struct item_buffer* self, sequencer_operation* op)', 0)
    t = rw.sub(t, r'\bconst op_stat res\b', 'const int res', 1, 1, name='enum type')
    common.write(ctx, 'sequencer.inc', t)
    sliced += ib.sliced + sq.sliced
    fired['item_buffer'] = rw.fired
    extract_priority(ctx, sliced, fired, ib, open(ibp).read())
    extract_join(ctx, sliced, fired, ib)
    extract_join_base(ctx, sliced, fired)
    extract_join_key(ctx, sliced, fired)
    return sliced, fired


def build(ctx):
    sliced, fired = extract(ctx)
    C = os.path.join(HERE, 'c15.c')
    jobs = [
        Job('limiter.try_put', C, 'h_lim_try_put', route='RG', defines=['LIM'], target='limiter_node::try_put_task_impl + check_conditions', source=FG),
        # domain split: the put is delivered AND absorbs an early decrement (my_future_decrement), which frees capacity
        Job('limiter.try_put.early_decrement', C, 'h_lim_try_put_early', route='RG', defines=['LIM'], target='limiter_node::try_put_task_impl, delivered attempt that absorbs an early decrement', source=FG),
        Job('limiter.forward', C, 'h_lim_forward', route='RG', defines=['LIM'], target='limiter_node::forward_task', source=FG),
        Job('limiter.decrement', C, 'h_lim_decrement', route='RG', defines=['LIM'], target='limiter_node::decrement_counter', source=FG),
        Job('buffer.grow_my_array', C, 'h_ib_grow', route='LC', enforce='item_buffer_grow_my_array', loops=True, nloops=4, defines=['SEQ'], timeout=900, target='item_buffer::grow_my_array + clean_up_buffer', source=IB),
        Job('buffer.push_pop', C, 'h_ib_fifo', route='LC', replace=['item_buffer_grow_my_array'], defines=['SEQ'], timeout=600, target='item_buffer::push_back / pop_front (modular over grow_my_array\'s proved contract)', source=IB),
        Job('sequencer.push', C, 'h_seq_push', route='LC', replace=['item_buffer_grow_my_array'], defines=['SEQ'], target='sequencer_node::internal_push + item_buffer::place_item/set_my_item/my_item_valid/element/size/capacity', source=FG, timeout=600),
        Job('sequencer.push.tagmax', C, 'h_seq_push_tagmax', route='LC', replace=['item_buffer_grow_my_array'], defines=['SEQ'], target='sequencer_node::internal_push, tag == SIZE_MAX', source=FG, timeout=600),
    ]
    for k, opn in enumerate(['get_item', 'reset_port', 'try_put_task']):
        jobs.append(Job('join.qport.%s' % opn, C, 'h_qp_op', route='LC', defines=['SEQ', 'JQP', 'OPK=%d' % k], loops=True, nloops=0, replace=['item_buffer_grow_my_array'], timeout=600,
                        target='queueing_port::handle_operations(%s) on the real item_buffer (one arbitrary operation in an arbitrary invariant state)' % opn, source=JI))
    for nm, tgt in (('decrement', 'decrement_port_count'), ('make_tuple', 'try_to_make_tuple + tuple_build_may_succeed + join_helper<N>::get_items / get_my_item'),
                    ('accept_reject', 'tuple_accepted (reset_port_count + join_helper<N>::reset_ports / reset_my_port) / tuple_rejected')):
        jobs.append(Job('join.fe.queueing.%s' % nm, C, 'h_feq_%s' % nm, route='RG', defines=['JFEQ'], unwind=12, timeout=600, target='join_node_FE<queueing>::%s (tuple size N symbolic in 1..10)' % tgt, source=JI))
    for nm, tgt in (('count', 'decrement_port_count / increment_port_count'), ('make_tuple', 'try_to_make_tuple + join_helper<N>::reserve / release_my_reservation'),
                    ('accept_reject', 'tuple_accepted / tuple_rejected + join_helper<N>::consume_reservations / release_reservations')):
        jobs.append(Job('join.fe.reserving.%s' % nm, C, 'h_fer_%s' % nm, route='RG', defines=['JFER'], unwind=12, timeout=600, target='join_node_FE<reserving>::%s (tuple size N symbolic in 1..10)' % tgt, source=JI))
    for k, opn in enumerate(['reg_pred', 'rem_pred', 'res_item', 'rel_res', 'con_res']):
        jobs.append(Job('join.rport.%s' % opn, C, 'h_rp_op', route='LF', defines=['JRP', 'OPK=%d' % k], unwind=3, timeout=300,
                        target='reserving_port::handle_operations(%s) (one arbitrary operation in an arbitrary invariant state)' % opn, source=JI))
    for k, opn in ((0, 'reg_succ'), (1, 'rem_succ'), (2, 'try_get'), (4, 'do_fwrd_bypass')):
        jobs.append(Job('join.base.%s' % opn, C, 'h_jb_op', route='LC', defines=['JB', 'OPK=%d' % k], loops=True, nloops=(1 if opn == 'do_fwrd_bypass' else 0), timeout=300,
                        target='join_node_base::handle_operations(%s) + combine_tasks (any policy: the front end is a protocol stub)' % opn, source=JI))
    for k, opn in enumerate(['try_put', 'get_item', 'reset_port']):
        jobs.append(Job('join.kport.%s' % opn, C, 'h_kp_op', route='LF', defines=['JKP', 'OPK=%d' % k], unwind=3, timeout=300,
                        target='key_matching_port::handle_operations(%s) + hash_buffer_impl::insert_with_key / find_with_key / find_ref_with_key' % opn, source=JI))
    # domain split: a second message with a key the port already holds
    jobs.append(Job('join.kport.try_put.duplicate_key', C, 'h_kp_dup', route='LF', defines=['JKP'], unwind=3, timeout=300,
                    target='key_matching_port::handle_operations(try_put) + hash_buffer_impl::insert_with_key, key already present', source=TB))
    for k, opn in enumerate(['reset_port_count', 'increment_key_count', 'tuple_build_may_succeed', 'try_to_make_tuple']):
        jobs.append(Job('join.fe.key.%s' % opn, C, 'h_kfe_op', route='LW', defines=['JKF', 'OPK=%d' % k], unwind=12, timeout=600,
                        target='join_node_FE<key_matching>::handle_operations(%s)%s' % (opn, ' + fill_output_buffer + join_helper<N>::get_items / reset_ports + hash_buffer_impl::insert_with_key / find_ref_with_key (N symbolic in 1..10)' if k == 1 else ''), source=JI))
    jobs.append(Job('prio.swap_items', C, 'h_pq_swap', route='LF', defines=['PQ'], timeout=300, target='item_buffer::swap_items / set_my_item / get_my_item', source=IB))
    jobs.append(Job('prio.reheap', C, 'h_pq_reheap', route='LC', defines=['PQ', 'PQ_LOOPS'], enforce='pq_reheap', loops=True, nloops=1, timeout=900,
                    target='priority_queue_node::reheap (heap order re-established at an arbitrary index, every size)', source=FG))
    jobs.append(Job('prio.heapify.merge_one', C, 'h_pq_merge_one', route='LC', defines=['PQ', 'PQ_LOOPS', 'PQ_MERGE_ENFORCE'], enforce='pq_heapify_merge_one', loops=True, nloops=1, timeout=1800,
                    target='priority_queue_node::heapify, body of the outer loop: one pushed item is sifted up (heap order on the path of an arbitrary index)', source=FG))
    jobs.append(Job('prio.heapify.loop', C, 'h_pq_heapify', route='LC', defines=['PQ', 'PQ_LOOPS', 'PQ_MERGE_STUB'], loops=True, nloops=1, timeout=600,
                    target='priority_queue_node::heapify, outer loop (bookkeeping: which items are merged, mark reaches tail)', source=FG))
    return {
        'jobs': jobs, 'sliced': sliced, 'fired': fired,
        'trusted': ['my_mutex serialises the locked sections (spin_mutex: C08); each section is one atomic step of the rely/guarantee argument',
                    'successor/predecessor caches, graph activity, task allocation: nondeterministic stubs (every accept/reject pattern); within one locked section of limiter_node the three values it reads of its surroundings (predecessor cache empty, successor cache empty, graph active) are one snapshot',
                    'buffers up to 2^16 slots (stated bound of the grow_my_array contract)',
                    'join ports / front ends / base: each aggregator runs its handler on one thread at a time and hands every record to it exactly once (aggregator_generic: C13 job agg.execute); every join job is ONE arbitrary operation in an arbitrary invariant state (inductive step of the batch loop)',
                    'join_node_FE jobs: the ports are stubs with the behaviour the port-handler jobs prove (join.qport.* / join.rport.* / join.kport.*): a counted queueing port holds a message and hands out its front one; a reserving port refuses a second reservation; a key-matching port hands out / retires the message filed under current_key',
                    'join.qport.*: join_node_FE<queueing>::decrement_port_count is a stub with the contract of job join.fe.queueing.decrement; join.rport.*: reservable_predecessor_cache is a ghost (count of cached predecessors, open reservation) with the behaviour of C14 jobs pull.reservable.*',
                    'join.base.*: the front end (any policy) is a protocol stub (built / accepted / rejected); my_successors (broadcast_cache) as proved by C14 job cache.broadcast.try_put_task; is_graph_active, new_object, order_tasks (either order), spawn_in_graph_arena: stubs',
                    'hash_buffer_impl: the chain walks find_element_ref_with_key, delete_with_key, internal_insert_with_key and grow_array are stubs over an abstract table (one arbitrary key g_key, plus the key of the operation); insert_with_key / find_ref_with_key / find_with_key are the real text',
                    'join_node_FE<key_matching>: the output buffer (item_buffer<OutputTuple>) is a FIFO ghost (push_back / front / destroy_front as proved by job buffer.push_pop)',
                    'template recursion join_helper<N> -> run-time recursion over N with join_helper<1> selected by `if (N == 1)` (spec-written dispatcher around the two extracted bodies); N symbolic in 1..10',
                    'priority_queue_node: Compare = std::less<int>; facts are about ONE arbitrary index GH; a contract proved for arbitrary GH is used at other indices derived from GH (universal generalisation over the ghost index)',
                    'priority_queue_node::reheap permutes the heap region: closed-world scan (its only write is one swap_items call) + job prio.swap_items; heapify only moves items through fetch_item / move_item / place_item into slots proved empty (scan + EMPTY_ASSERT obligations)'],
        'drops': ['preview (#if __TBB_PREVIEW_FLOW_GRAPH_TRY_PUT_AND_WAIT) arms resolved to 0', 'scoped_lock -> LOCKED_SECTION() = interference point', 'metainfo arguments', 'aligned_space<T> -> plain struct',
                  'placement new / destructor of a trivially copyable item_type (int)', 'status atomics of operation records -> SET_STATUS (handler-only access)', 'std::get<i>(tuple) -> PORT_* / TUPLE_AT macros',
                  'implicit conversions / assignment of std::atomic<size_t> ports_with_no_* -> explicit load / store sites', 'TBB_USE_DEBUG arm of key_matching_port::get__item resolved to 0',
                  'join_node_base: the `case do_fwrd_bypass` block is wrapped unchanged into a function of its own; priority_queue_node::heapify: the body of the outer loop is wrapped unchanged into pq_heapify_merge_one (dfcc cannot handle the nested loop contracts)',
                  'priority section: TBB_ASSERT(my_item_valid(i)) inside the item_buffer accessors at state-dependent indices -> VALID_ASSERT, which the two heap-loop jobs leave out (universal slot-validity fact); `destination slot empty` asserts stay obligations',
                  'empty parameter pack Args... of hash_buffer_impl::insert_with_key'],
        'not_decided': ['overwrite/write_once/broadcast/split/indexer nodes', 'queue_node / sequencer_node forwarding order as derived handlers (internal_forward_task_impl + front): the item_buffer FIFO facts are jobs buffer.push_pop / sequencer.push, the queue_node handler is under C14',
                        'priority_queue_node: internal_pop / internal_reserve / internal_release / internal_consume / prio_push / prio_pop / prio / try_put_and_add_task and the handler with the priority node as derived type are extracted (priority_node.inc) but have no job yet; '
                        '`the item handed out is not lower than any merged item` needs heap order on the whole path to the root (17 instances), on which CBMC symbolic execution did not finish in 10 minutes',
                        'priority_queue_node::heapify as a whole: proved are the merge lemma at an arbitrary index (prio.heapify.merge_one) and the bookkeeping of the outer loop (prio.heapify.loop); the induction over the outer loop with the invariant `heap order on the path of GH` '
                        '(closure under parent, 17 instances) is a paper argument - dfcc symbolic execution does not finish on the two whole-array havocs',
                        'hash_buffer_impl chain walks (find_element_ref_with_key, delete_with_key, internal_insert_with_key, grow_array) and its free list',
                        'join_node: entry points around the aggregators (try_put_task_impl, get_item, reserve, ..., forward_task), constructors / reset, batches of more than one operation only as a sequence of inductive steps',
                        'join reserving policy while edges are removed concurrently with forwarding (remove_edge racing with reserve: a port that loses its last predecessor between the front end\'s count test and its reserve is counted twice as `without predecessor`; outside the property\'s quantifier)',
                        'interleavings inside one port/front-end beyond the rely/guarantee on ports_with_no_items / ports_with_no_inputs (SC atomics)',
                        'limiter: negative decrements / decrements beyond what was delivered (outside the stated precondition)'],
        'assumptions': ['decrement(delta): 0 < delta <= number of delivered, not yet decremented messages', 'item_type is trivially copyable (int); keys are int; messages of key_matching ports are (key, payload) pairs',
                        'queueing ports: reset_port is issued by tuple_accepted only (after reset_port_count, once per port); a port is counted only by its own handler',
                        'reserving ports: reserve is attempted only while the port has a cached predecessor (front end tests ports_with_no_inputs == 0); no edge removal while the join forwards or while a reservation is open',
                        'key_matching: get_item / reset_port name a key only after all N ports counted a message with it; increment_key_count is issued once per accepted put',
                        'join_node_base: do_fwrd_bypass is issued by the forward task only (forwarder_busy set); do_fwrd is a dead enumerator', 'sequentially consistent atomics'],
    }


def replay(ctx, jobname, failure):
    exe = native.build([os.path.join(HERE, 'c15_replay.cpp')], os.path.join(ctx.work, 'c15_replay'), flags=['-fno-access-control'], link_tbb=True)
    rc, out = native.run([exe, jobname], timeout=120)
    rep = {'cmd': exe + ' ' + jobname, 'rc': rc, 'output': out[-1500:], 'reproduced': False, 'detail': 'native recipes found no failing sequence'}
    m = re.search(r'REPRODUCED (.*)', out)
    if m:
        rep['reproduced'] = True
        rep['detail'] = m.group(1)
        w = re.search(r'class=(\S+)', m.group(1))
        rep['witness_class'] = w.group(1) if w else None
    return rep
